//! Shared infrastructure: PRNG, raw trees, the line protocol to `cfrmodel`, comparisons.
use cfr::{Game, GameError, GameNode, IntoGameNode, PlayerNum, StratError};
use std::collections::BTreeMap;
use std::io::{BufRead, BufReader, Write};
use std::process::{Child, ChildStdin, ChildStdout, Command, Stdio};

// ---------------------------------------------------------------------------------------------
// PRNG: every random choice of a run derives from one splitmix64 state

#[derive(Clone)]
pub struct Rng(pub u64);

pub fn mix64(z0: u64) -> u64 {
    let mut z = z0.wrapping_add(0x9E3779B97F4A7C15);
    z = (z ^ (z >> 30)).wrapping_mul(0xBF58476D1CE4E5B9);
    z = (z ^ (z >> 27)).wrapping_mul(0x94D049BB133111EB);
    z ^ (z >> 31)
}

impl Rng {
    pub fn new(seed: u64) -> Self {
        Rng(mix64(seed ^ 0xC0FFEE))
    }
    pub fn next(&mut self) -> u64 {
        self.0 = self.0.wrapping_add(0x9E3779B97F4A7C15);
        mix64(self.0)
    }
    pub fn below(&mut self, n: u64) -> u64 {
        self.next() % n.max(1)
    }
    pub fn range(&mut self, lo: u64, hi: u64) -> u64 {
        lo + self.below(hi - lo + 1)
    }
    pub fn unit(&mut self) -> f64 {
        (self.next() >> 11) as f64 / (1u64 << 53) as f64
    }
    pub fn chance(&mut self, p: f64) -> bool {
        self.unit() < p
    }
    pub fn pick<'a, T>(&mut self, xs: &'a [T]) -> &'a T {
        &xs[self.below(xs.len() as u64) as usize]
    }
    pub fn fork(&mut self) -> Rng {
        Rng(self.next())
    }
}

/// the keyed draw function shared with `cfrmodel` (`drawU` / `drawHash` in Driver/Main.lean)
pub fn draw_u(seed: u64, kind: u8, id: usize, pass: u64) -> f64 {
    let h = mix64(mix64(mix64(mix64(seed) ^ kind as u64) ^ id as u64) ^ pass);
    (h >> 11) as f64 / 9007199254740992.0
}

pub fn draw_hash(seed: u64, kind: u8, id: usize, pass: u64, weights: &[f64]) -> usize {
    let u = draw_u(seed, kind, id, pass);
    let mut total = 0.0;
    for w in weights {
        total += w;
    }
    let mut rem = u * total;
    let mut res = 0;
    for w in &weights[..weights.len().saturating_sub(1)] {
        if *w < rem {
            rem -= w;
            res += 1;
        } else {
            break;
        }
    }
    res
}

// ---------------------------------------------------------------------------------------------
// internal infoset indices are not part of the crate's contract: canonical numbering

/// Internal index -> canonical index (the order of first appearance in a pre-order walk of the
/// compact tree, which is how the model numbers infosets), for chance infosets and the two
/// players' infosets, read off `Game::verif_dump`.  Draw keys, draw logs, mutex labels and compiled
/// tables are all compared in canonical indices, so a crate that numbers its infosets differently
/// is compared fairly.
#[derive(Clone, Debug, Default)]
pub struct IndexMaps {
    pub to_canon: [Vec<usize>; 3],
}

impl IndexMaps {
    pub fn of_dump(dump: &str) -> IndexMaps {
        let toks: Vec<&str> = dump.split_whitespace().collect();
        let mut maps: [Vec<Option<usize>>; 3] = [Vec::new(), Vec::new(), Vec::new()];
        // table sizes: "CH n ..." "P1 n ..." "P2 n ..."
        let find = |tag: &str| toks.iter().position(|t| *t == tag).and_then(|i| toks.get(i + 1)).and_then(|x| x.parse::<usize>().ok()).unwrap_or(0);
        maps[0] = vec![None; find("CH")];
        maps[1] = vec![None; find("P1")];
        maps[2] = vec![None; find("P2")];
        let mut next = [0usize; 3];
        if let Some(start) = toks.iter().position(|t| *t == "N") {
            let mut i = start + 1;
            while i < toks.len() {
                match toks[i] {
                    "T" => i += 2,
                    "C" => {
                        if let Ok(idx) = toks[i + 1].parse::<usize>() {
                            if idx < maps[0].len() && maps[0][idx].is_none() {
                                maps[0][idx] = Some(next[0]);
                                next[0] += 1;
                            }
                        }
                        i += 3;
                    }
                    "P" => {
                        let k = if toks[i + 1] == "1" { 1 } else { 2 };
                        if let Ok(idx) = toks[i + 2].parse::<usize>() {
                            if idx < maps[k].len() && maps[k][idx].is_none() {
                                maps[k][idx] = Some(next[k]);
                                next[k] += 1;
                            }
                        }
                        i += 4;
                    }
                    _ => i += 1,
                }
            }
        }
        let mut out = IndexMaps::default();
        for k in 0..3 {
            let mut n = next[k];
            out.to_canon[k] = maps[k]
                .iter()
                .map(|m| match m {
                    Some(c) => *c,
                    None => {
                        n += 1;
                        n - 1
                    }
                })
                .collect();
        }
        out
    }
    /// kind as in the draw hook: 0 chance, 1 player one, 2 player two
    pub fn canon(&self, kind: u8, id: usize) -> usize {
        self.to_canon.get(kind as usize).and_then(|m| m.get(id)).cloned().unwrap_or(id)
    }
    pub fn is_identity(&self) -> bool {
        self.to_canon.iter().all(|m| m.iter().enumerate().all(|(i, c)| i == *c))
    }
}

// ---------------------------------------------------------------------------------------------
// raw trees

#[derive(Clone, Debug, PartialEq)]
pub enum T {
    Term(f64),
    Chance(Option<u32>, Vec<(f64, T)>),
    Player(bool, u32, Vec<(u32, T)>),
}

impl IntoGameNode for T {
    type PlayerInfo = u32;
    type Action = u32;
    type ChanceInfo = u32;
    type Outcomes = Vec<(f64, T)>;
    type Actions = Vec<(u32, T)>;
    fn into_game_node(self) -> GameNode<Self> {
        match self {
            T::Term(p) => GameNode::Terminal(p),
            T::Chance(i, o) => GameNode::Chance(i, o),
            T::Player(one, i, a) => GameNode::Player(
                if one { PlayerNum::One } else { PlayerNum::Two },
                i,
                a,
            ),
        }
    }
}

impl T {
    pub fn size(&self) -> usize {
        match self {
            T::Term(_) => 1,
            T::Chance(_, o) => 1 + o.iter().map(|(_, t)| t.size()).sum::<usize>(),
            T::Player(_, _, a) => 1 + a.iter().map(|(_, t)| t.size()).sum::<usize>(),
        }
    }
    pub fn depth(&self) -> usize {
        match self {
            T::Term(_) => 1,
            T::Chance(_, o) => 1 + o.iter().map(|(_, t)| t.depth()).max().unwrap_or(0),
            T::Player(_, _, a) => 1 + a.iter().map(|(_, t)| t.depth()).max().unwrap_or(0),
        }
    }
    pub fn payoffs(&self, out: &mut Vec<f64>) {
        match self {
            T::Term(p) => out.push(*p),
            T::Chance(_, o) => o.iter().for_each(|(_, t)| t.payoffs(out)),
            T::Player(_, _, a) => a.iter().for_each(|(_, t)| t.payoffs(out)),
        }
    }
    /// payoff range D
    pub fn range(&self) -> f64 {
        let mut v = Vec::new();
        self.payoffs(&mut v);
        let mx = v.iter().cloned().fold(f64::NEG_INFINITY, f64::max);
        let mn = v.iter().cloned().fold(f64::INFINITY, f64::min);
        mx - mn
    }
    pub fn map_payoffs(&self, f: &dyn Fn(f64) -> f64) -> T {
        match self {
            T::Term(p) => T::Term(f(*p)),
            T::Chance(i, o) => T::Chance(*i, o.iter().map(|(w, t)| (*w, t.map_payoffs(f))).collect()),
            T::Player(p, i, a) => {
                T::Player(*p, *i, a.iter().map(|(x, t)| (*x, t.map_payoffs(f))).collect())
            }
        }
    }
    pub fn ser(&self, out: &mut String) {
        match self {
            T::Term(p) => {
                out.push_str(&format!("T {:016x}", p.to_bits()));
            }
            T::Chance(i, o) => {
                match i {
                    Some(l) => out.push_str(&format!("C {} {}", l, o.len())),
                    None => out.push_str(&format!("C - {}", o.len())),
                }
                for (w, t) in o {
                    out.push_str(&format!(" {:016x} ", w.to_bits()));
                    t.ser(out);
                }
            }
            T::Player(one, i, a) => {
                out.push_str(&format!("P {} {} {}", if *one { 1 } else { 2 }, i, a.len()));
                for (x, t) in a {
                    out.push_str(&format!(" {} ", x));
                    t.ser(out);
                }
            }
        }
    }
    pub fn to_line(&self) -> String {
        let mut s = String::new();
        self.ser(&mut s);
        s
    }
    pub fn hash(&self) -> u64 {
        let s = self.to_line();
        let mut h = 0xcbf29ce484222325u64;
        for b in s.bytes() {
            h = (h ^ b as u64).wrapping_mul(0x100000001b3);
        }
        h
    }
    /// trees are stored in replay files in the flat line format of the protocol (deep trees would
    /// exceed serde_json's nesting limit as nested objects)
    pub fn to_json(&self) -> serde_json::Value {
        serde_json::json!(self.to_line())
    }
    pub fn parse_line(s: &str) -> Option<T> {
        fn go<'a>(it: &mut std::str::SplitAsciiWhitespace<'a>) -> Option<T> {
            match it.next()? {
                "T" => Some(T::Term(f64::from_bits(u64::from_str_radix(it.next()?, 16).ok()?))),
                "C" => {
                    let info = match it.next()? {
                        "-" => None,
                        x => Some(x.parse().ok()?),
                    };
                    let n: usize = it.next()?.parse().ok()?;
                    let mut outs = Vec::new();
                    for _ in 0..n {
                        let w = f64::from_bits(u64::from_str_radix(it.next()?, 16).ok()?);
                        outs.push((w, go(it)?));
                    }
                    Some(T::Chance(info, outs))
                }
                "P" => {
                    let one = it.next()? == "1";
                    let info: u32 = it.next()?.parse().ok()?;
                    let n: usize = it.next()?.parse().ok()?;
                    let mut acts = Vec::new();
                    for _ in 0..n {
                        let a: u32 = it.next()?.parse().ok()?;
                        acts.push((a, go(it)?));
                    }
                    Some(T::Player(one, info, acts))
                }
                _ => None,
            }
        }
        go(&mut s.split_ascii_whitespace())
    }
    pub fn from_json(v: &serde_json::Value) -> Option<T> {
        if let Some(line) = v.as_str() {
            return T::parse_line(line);
        }
        if let Some(p) = v.get("t") {
            return Some(T::Term(fparse(p)?));
        }
        if let Some(o) = v.get("o") {
            let info = v.get("c").and_then(|c| c.as_u64()).map(|c| c as u32);
            let mut outs = Vec::new();
            for e in o.as_array()? {
                outs.push((fparse(&e[0])?, T::from_json(&e[1])?));
            }
            return Some(T::Chance(info, outs));
        }
        let p = v.get("p")?.as_u64()? == 1;
        let i = v.get("i")?.as_u64()? as u32;
        let mut acts = Vec::new();
        for e in v.get("a")?.as_array()? {
            acts.push((e[0].as_u64()? as u32, T::from_json(&e[1])?));
        }
        Some(T::Player(p, i, acts))
    }
}

/// floats in replay files: decimal for readability when exact, hex bits otherwise
pub fn fjson(x: f64) -> serde_json::Value {
    serde_json::json!(format!("{:016x}", x.to_bits()))
}
pub fn fparse(v: &serde_json::Value) -> Option<f64> {
    let s = v.as_str()?;
    Some(f64::from_bits(u64::from_str_radix(s, 16).ok()?))
}

pub type Named = Vec<(u32, Vec<(u32, f64)>)>;

pub fn ser_named(n: &Named, out: &mut String) {
    out.push_str(&format!("{}", n.len()));
    for (l, acts) in n {
        out.push_str(&format!(" {} {}", l, acts.len()));
        for (a, p) in acts {
            out.push_str(&format!(" {} {:016x}", a, p.to_bits()));
        }
    }
}

pub fn named_json(n: &Named) -> serde_json::Value {
    serde_json::json!(n
        .iter()
        .map(|(l, acts)| serde_json::json!([l, acts.iter().map(|(a, p)| serde_json::json!([a, fjson(*p), *p])).collect::<Vec<_>>()]))
        .collect::<Vec<_>>())
}

pub fn game_err_name(e: &GameError) -> String {
    format!("{:?}", e)
}
pub fn strat_err_name(e: &StratError) -> String {
    format!("{:?}", e)
}

pub type G = Game<u32, u32>;

pub fn build(t: &T) -> Result<G, GameError> {
    Game::from_root(t.clone())
}

/// drain `as_named` into owned data (zero probabilities are omitted by the library)
pub fn drain_named(s: &cfr::Strategies<'_, u32, u32>) -> [Named; 2] {
    let [a, b] = s.as_named();
    let f = |it: cfr::NamedStrategyIter<'_, u32, u32>| -> Named {
        it.map(|(l, acts)| (*l, acts.map(|(a, p)| (*a, p)).collect())).collect()
    };
    [f(a), f(b)]
}

// ---------------------------------------------------------------------------------------------
// model client

pub struct Model {
    child: Child,
    stdin: ChildStdin,
    stdout: BufReader<ChildStdout>,
    pub requests: u64,
}

impl Model {
    pub fn spawn(path: &str) -> Model {
        let mut child = Command::new(path)
            .stdin(Stdio::piped())
            .stdout(Stdio::piped())
            .spawn()
            .expect("cannot start cfrmodel");
        let stdin = child.stdin.take().unwrap();
        let stdout = BufReader::new(child.stdout.take().unwrap());
        Model {
            child,
            stdin,
            stdout,
            requests: 0,
        }
    }
    pub fn ask(&mut self, line: &str) -> String {
        self.requests += 1;
        self.stdin.write_all(line.as_bytes()).unwrap();
        self.stdin.write_all(b"\n").unwrap();
        self.stdin.flush().unwrap();
        let mut out = String::new();
        self.stdout.read_line(&mut out).unwrap();
        if out.is_empty() {
            panic!("cfrmodel died on request: {}", &line[..line.len().min(300)]);
        }
        out.trim_end().to_string()
    }
}

impl Drop for Model {
    fn drop(&mut self) {
        let _ = self.child.kill();
        let _ = self.child.wait();
    }
}

/// a token reader over a model response
pub struct Toks<'a> {
    it: std::str::SplitAsciiWhitespace<'a>,
}

impl<'a> Toks<'a> {
    pub fn new(s: &'a str) -> Self {
        Toks {
            it: s.split_ascii_whitespace(),
        }
    }
    pub fn tok(&mut self) -> &'a str {
        self.it.next().unwrap_or("")
    }
    pub fn nat(&mut self) -> usize {
        self.tok().parse().unwrap_or(usize::MAX)
    }
    pub fn f(&mut self) -> f64 {
        let t = self.tok();
        match t {
            "+inf" => f64::INFINITY,
            "-inf" => f64::NEG_INFINITY,
            _ => f64::from_bits(u64::from_str_radix(t, 16).unwrap_or(0x7ff8000000000001)),
        }
    }
    pub fn rest(&mut self) -> Vec<&'a str> {
        self.it.by_ref().collect()
    }
    /// `n (label k (act prob)*k)*n`
    pub fn full_named(&mut self) -> Vec<(u32, Vec<(u32, f64)>)> {
        let n = self.nat();
        let mut out = Vec::new();
        for _ in 0..n {
            let l = self.nat() as u32;
            let k = self.nat();
            let mut acts = Vec::new();
            for _ in 0..k {
                let a = self.nat() as u32;
                let p = self.f();
                acts.push((a, p));
            }
            out.push((l, acts));
        }
        out
    }
}

// ---------------------------------------------------------------------------------------------
// comparisons

pub const TOL: f64 = 1e-9;

pub fn close_tol(a: f64, b: f64, tol: f64) -> bool {
    if a == b {
        return true;
    }
    if a.is_nan() || b.is_nan() {
        return a.is_nan() && b.is_nan();
    }
    // an infinity is close to nothing but itself (the relative form below would accept any pair)
    if a.is_infinite() || b.is_infinite() {
        return false;
    }
    (a - b).abs() <= tol * 1f64.max(a.abs()).max(b.abs())
}

pub fn close(a: f64, b: f64) -> bool {
    close_tol(a, b, TOL)
}

/// a dense profile keyed by labels: infoset label -> action label -> probability
pub type Dense = BTreeMap<u32, BTreeMap<u32, f64>>;

pub fn dense_of_full(n: &[(u32, Vec<(u32, f64)>)]) -> Dense {
    n.iter()
        .map(|(l, acts)| (*l, acts.iter().cloned().collect()))
        .collect()
}

/// compare a library named strategy (zero actions omitted, singles included) with a model
/// strategy that lists every action of every multi-action infoset
pub fn named_matches_full(
    lib: &Named,
    full: &[(u32, Vec<(u32, f64)>)],
    tol: f64,
) -> Result<(), String> {
    let d = dense_of_full(full);
    let mut seen = 0;
    for (l, acts) in lib {
        match d.get(l) {
            None => {
                // must be a single-action infoset
                if acts.len() != 1 || acts[0].1 != 1.0 {
                    return Err(format!("infoset {} unknown to the model and not single", l));
                }
            }
            Some(m) => {
                seen += 1;
                let got: BTreeMap<u32, f64> = acts.iter().cloned().collect();
                for (a, p) in m {
                    let q = got.get(a).cloned().unwrap_or(0.0);
                    if !close_tol(*p, q, tol) {
                        return Err(format!(
                            "infoset {} action {}: model {:e} library {:e}",
                            l, a, p, q
                        ));
                    }
                }
                for a in got.keys() {
                    if !m.contains_key(a) {
                        return Err(format!("infoset {} action {} unknown to the model", l, a));
                    }
                }
            }
        }
    }
    if seen != d.len() {
        return Err(format!(
            "library lists {} multi-action infosets, model {}",
            seen,
            d.len()
        ));
    }
    Ok(())
}

/// maximal absolute difference between two library named strategies (as dense maps)
pub fn named_diff(a: &Named, b: &Named) -> f64 {
    let da: Dense = a.iter().map(|(l, x)| (*l, x.iter().cloned().collect())).collect();
    let db: Dense = b.iter().map(|(l, x)| (*l, x.iter().cloned().collect())).collect();
    let mut worst: f64 = 0.0;
    for (l, m) in &da {
        match db.get(l) {
            None => return f64::INFINITY,
            Some(n) => {
                for (x, p) in m {
                    let q = n.get(x).cloned().unwrap_or(0.0);
                    if p.is_nan() || q.is_nan() {
                        return f64::INFINITY;
                    }
                    worst = worst.max((p - q).abs());
                }
                for (x, q) in n {
                    if !m.contains_key(x) {
                        worst = worst.max(q.abs());
                    }
                }
            }
        }
    }
    if da.len() != db.len() {
        return f64::INFINITY;
    }
    worst
}

/// a valid distribution per infoset?
pub fn named_valid(n: &Named) -> Result<(), String> {
    for (l, acts) in n {
        let mut tot = 0.0;
        if acts.is_empty() {
            return Err(format!("infoset {} has no action with positive probability", l));
        }
        for (a, p) in acts {
            if !(p.is_finite() && *p > 0.0) {
                return Err(format!("infoset {} action {} probability {:e}", l, a, p));
            }
            tot += p;
        }
        if (tot - 1.0).abs() > 1e-9 {
            return Err(format!("infoset {} sums to {:e}", l, tot));
        }
    }
    Ok(())
}
