//! stub
use crate::Ctx;
use serde_json::Value;
pub fn case_cli(_ctx: &mut Ctx, _case: &Value) {}
pub fn c15(_ctx: &mut Ctx) -> String { String::new() }
pub fn c16(_ctx: &mut Ctx) -> String { String::new() }
pub fn c17(_ctx: &mut Ctx) -> String { String::new() }
