//! The command line tool: C15 (faithful output), C16 (options and formats), C17 (rejections).
//! Game files are generated from an abstract named game, so "the game exactly as written in the
//! file" is known to the generator and never re-derived from the program under test.
use crate::core::*;
use crate::gen::*;
use crate::solve_props::Params;
use crate::Ctx;
use cfr::{PlayerNum, SolveMethod};
use serde_json::{json, Value};
use std::collections::{BTreeMap, BTreeSet, HashMap};
use std::io::Write;
use std::process::{Command, Stdio};

/// an abstract two-player constant-sum game with string names
#[derive(Clone, Debug)]
pub enum NG {
    /// payoff to player one (player two gets K minus it)
    Term(f64),
    Chance(Option<u32>, Vec<(String, u32, NG)>),
    Player(bool, u32, Vec<(String, NG)>),
}

#[derive(Clone, Debug)]
pub struct Names {
    /// infoset id -> (name used by the program, name written in the gambit file or None)
    pub info: [BTreeMap<u32, (String, Option<String>)>; 2],
}

fn act_name(rng: &mut Rng, k: usize) -> String {
    // names whose sorted order differs from the listed order
    let pool = ["raise", "call", "fold", "bet", "check", "x", "a b", "Z", "07", "7"];
    format!("{}{}", pool[(rng.below(pool.len() as u64) as usize + k * 3) % pool.len()], k)
}

/// turn a numeric tree into a named game; payoffs are rounded to multiples of 1/8 so that all
/// constant-sum arithmetic is exact
pub fn name_game(rng: &mut Rng, t: &T) -> (NG, Names) {
    let mut names = Names { info: [BTreeMap::new(), BTreeMap::new()] };
    let mut acts: [HashMap<(u32, u32), String>; 2] = [HashMap::new(), HashMap::new()];
    fn go(rng: &mut Rng, t: &T, names: &mut Names, acts: &mut [HashMap<(u32, u32), String>; 2]) -> NG {
        match t {
            T::Term(p) => NG::Term((p * 8.0).round() / 8.0),
            T::Chance(i, o) => {
                let mut outs = Vec::new();
                for (k, (w, c)) in o.iter().enumerate() {
                    // integer weights 1..16
                    let wi = ((w * 4.0).round() as i64).clamp(1, 16) as u32;
                    outs.push((format!("o{}", (k * 7 + 3) % 10), wi, go(rng, c, names, acts)));
                }
                // distinct outcome names
                let mut seen = BTreeSet::new();
                for (k, o) in outs.iter_mut().enumerate() {
                    if !seen.insert(o.0.clone()) {
                        o.0 = format!("{}_{}", o.0, k);
                        seen.insert(o.0.clone());
                    }
                }
                NG::Chance(*i, outs)
            }
            T::Player(one, i, a) => {
                let p = if *one { 0 } else { 1 };
                if !names.info[p].contains_key(i) {
                    let unnamed = rng.chance(0.3);
                    // gambit infoset numbers are i + 1; an unnamed infoset is called by its number
                    let nm = if unnamed { format!("{}", i + 1) } else { format!("I{}-{}", p + 1, i) };
                    names.info[p].insert(*i, (nm.clone(), if unnamed { None } else { Some(nm) }));
                }
                let mut out = Vec::new();
                for (k, (x, c)) in a.iter().enumerate() {
                    let key = (*i, *x);
                    if !acts[p].contains_key(&key) {
                        let n = act_name(rng, k);
                        acts[p].insert(key, n);
                    }
                    out.push((acts[p][&key].clone(), go(rng, c, names, acts)));
                }
                NG::Player(*one, *i, out)
            }
        }
    }
    let ng = go(rng, t, &mut names, &mut acts);
    (ng, names)
}

/// the numeric tree the program's library call sees: actions sorted by name, outcomes by
/// (name, probability); labels interned
pub struct Interned {
    pub tree: T,
    pub info_of: [BTreeMap<String, u32>; 2],
    pub act_of: BTreeMap<String, u32>,
}

pub fn intern(ng: &NG, names: &Names, offset: f64, gambit: bool) -> Interned {
    let mut act_of: BTreeMap<String, u32> = BTreeMap::new();
    let mut info_of: [BTreeMap<String, u32>; 2] = [BTreeMap::new(), BTreeMap::new()];
    fn go(ng: &NG, names: &Names, offset: f64, gambit: bool, act_of: &mut BTreeMap<String, u32>, info_of: &mut [BTreeMap<String, u32>; 2]) -> T {
        match ng {
            NG::Term(p) => T::Term(p - offset),
            NG::Chance(i, outs) => {
                let tot: u32 = outs.iter().map(|o| o.1).sum();
                let mut v: Vec<(String, f64, &NG)> = outs
                    .iter()
                    .map(|(n, w, c)| (n.clone(), if gambit { *w as f64 / tot as f64 } else { *w as f64 }, c))
                    .collect();
                v.sort_by(|a, b| (&a.0, a.1).partial_cmp(&(&b.0, b.1)).unwrap());
                T::Chance(*i, v.into_iter().map(|(_, w, c)| (w, go(c, names, offset, gambit, act_of, info_of))).collect())
            }
            NG::Player(one, i, acts) => {
                let p = if *one { 0 } else { 1 };
                let nm = names.info[p][i].0.clone();
                let next = info_of[p].len() as u32;
                let label = *info_of[p].entry(nm).or_insert(next);
                let mut v: Vec<(&String, &NG)> = acts.iter().map(|(n, c)| (n, c)).collect();
                v.sort_by(|a, b| a.0.cmp(b.0));
                T::Player(
                    *one,
                    label,
                    v.into_iter()
                        .map(|(n, c)| {
                            let nx = act_of.len() as u32;
                            let a = *act_of.entry(n.clone()).or_insert(nx);
                            (a, go(c, names, offset, gambit, act_of, info_of))
                        })
                        .collect(),
                )
            }
        }
    }
    let tree = go(ng, names, offset, gambit, &mut act_of, &mut info_of);
    Interned { tree, info_of, act_of }
}

fn jstr(s: &str) -> String {
    serde_json::to_string(s).unwrap()
}

pub fn to_json_file(ng: &NG, names: &Names) -> String {
    match ng {
        NG::Term(p) => format!("{{\"terminal\": {:?}}}", p),
        NG::Chance(i, outs) => {
            let body: Vec<String> = outs
                .iter()
                .map(|(n, w, c)| format!("{}: {{\"prob\": {:?}, \"state\": {}}}", jstr(n), *w as f64, to_json_file(c, names)))
                .collect();
            let info = match i {
                Some(l) => format!("\"infoset\": {}, ", jstr(&format!("c{}", l))),
                None => String::new(),
            };
            format!("{{\"chance\": {{{}\"outcomes\": {{{}}}}}}}", info, body.join(", "))
        }
        NG::Player(one, i, acts) => {
            let p = if *one { 0 } else { 1 };
            let body: Vec<String> = acts.iter().map(|(n, c)| format!("{}: {}", jstr(n), to_json_file(c, names))).collect();
            format!(
                "{{\"player\": {{\"player_one\": {}, \"infoset\": {}, \"actions\": {{{}}}}}}}",
                one,
                jstr(&names.info[p][i].0),
                body.join(", ")
            )
        }
    }
}

/// write a gambit file: constant sum `k`, part of each path's payoff attached to interior nodes,
/// outcomes shared between terminals with equal payoffs
pub struct EfgWriter<'a> {
    pub rng: &'a mut Rng,
    pub names: &'a Names,
    pub k: f64,
    pub next_outcome: u64,
    pub shared: BTreeMap<(i64, i64), u64>,
    pub anon_chance: u64,
    pub interior: bool,
}

fn dyadic(x: f64) -> String {
    // multiples of 1/8 written exactly
    let n = (x * 8.0).round() as i64;
    if n % 8 == 0 {
        format!("{}", n / 8)
    } else {
        format!("{}/8", n)
    }
}

impl EfgWriter<'_> {
    fn pays(&self, one: f64, carried: f64) -> String {
        // the terminal's own payoffs complete what interior nodes carried: u1 = one, u2 = k - one
        format!("{{ {}, {} }}", dyadic(one - carried), dyadic(self.k - one - carried))
    }
    pub fn node(&mut self, ng: &NG, carried: f64, out: &mut String) {
        match ng {
            NG::Term(p) => {
                let key = (((p - carried) * 8.0).round() as i64, ((self.k - p - carried) * 8.0).round() as i64);
                let (id, first) = match self.shared.get(&key) {
                    Some(id) if self.rng.chance(0.7) => (*id, false),
                    _ => {
                        self.next_outcome += 1;
                        self.shared.insert(key, self.next_outcome);
                        (self.next_outcome, true)
                    }
                };
                let _ = first;
                out.push_str(&format!("t \"\" {} \"out{}\" {}\n", id, id, self.pays(*p, carried)));
            }
            NG::Chance(i, outs) => {
                let tot: u32 = outs.iter().map(|o| o.1).sum();
                let id = match i {
                    Some(l) => *l as u64 + 1,
                    None => {
                        self.anon_chance += 1;
                        1000 + self.anon_chance
                    }
                };
                let acts: Vec<String> = outs.iter().map(|(n, w, _)| format!("{} {}/{}", jstr(n), w, tot)).collect();
                let (oc, add) = self.interior_outcome(false);
                out.push_str(&format!("c \"\" {} \"\" {{ {} }} {}\n", id, acts.join(" "), oc));
                for (_, _, c) in outs {
                    self.node(c, carried + add, out);
                }
            }
            NG::Player(one, i, acts) => {
                let p = if *one { 0 } else { 1 };
                let nm = match &self.names.info[p][i].1 {
                    Some(n) => format!(" {}", jstr(n)),
                    None => String::new(),
                };
                let list: Vec<String> = acts.iter().map(|(n, _)| jstr(n)).collect();
                let (oc, add) = self.interior_outcome(true);
                out.push_str(&format!("p \"\" {} {}{} {{ {} }} {}\n", p + 1, i + 1, nm, list.join(" "), oc));
                for (_, c) in acts {
                    self.node(c, carried + add, out);
                }
            }
        }
    }
    /// sometimes attach an outcome `{ d, d }` to an interior node (both players get `d`; the
    /// terminals below compensate) — returns the text after the action list and the carried amount
    fn interior_outcome(&mut self, named: bool) -> (String, f64) {
        if self.interior && self.rng.chance(0.2) {
            let d = (self.rng.range(0, 8) as f64 - 4.0) / 8.0;
            self.next_outcome += 1;
            let name = if named { format!(" \"mid{}\"", self.next_outcome) } else { String::new() };
            (format!("{}{} {{ {}, {} }}", self.next_outcome, name, dyadic(d), dyadic(d)), d)
        } else {
            ("0".to_string(), 0.0)
        }
    }
}

pub fn to_efg_file(rng: &mut Rng, ng: &NG, names: &Names, k: f64, interior: bool) -> String {
    let mut out = String::from("EFG 2 R \"generated\" { \"one\" \"two\" }\n\"a generated game\"\n\n");
    let mut w = EfgWriter { rng, names, k, next_outcome: 0, shared: BTreeMap::new(), anon_chance: 0, interior };
    w.node(ng, 0.0, &mut out);
    out
}

/// deepest game tree whose JSON encoding serde_json still parses (3 JSON levels per game level)
pub const JSON_MAX_DEPTH: usize = 40;

pub struct Run {
    pub status: Option<i32>,
    pub stdout: String,
    pub stderr: String,
}

pub fn run_cfr(ctx: &Ctx, args: &[String], stdin: Option<&str>) -> Run {
    let mut cmd = Command::new(&ctx.cfr_bin);
    cmd.args(args).env("RUST_BACKTRACE", "0").stdin(Stdio::piped()).stdout(Stdio::piped()).stderr(Stdio::piped());
    let mut child = cmd.spawn().expect("cannot run the cfr binary");
    {
        let mut si = child.stdin.take().unwrap();
        if let Some(s) = stdin {
            let _ = si.write_all(s.as_bytes());
        }
    }
    let out = child.wait_with_output().expect("cfr did not finish");
    Run {
        status: out.status.code(),
        stdout: String::from_utf8_lossy(&out.stdout).to_string(),
        stderr: String::from_utf8_lossy(&out.stderr).to_string(),
    }
}

fn scratch_file(ctx: &Ctx, name: &str, content: &str) -> String {
    let _ = std::fs::create_dir_all(&ctx.scratch);
    let p = format!("{}/{}", ctx.scratch, name);
    std::fs::write(&p, content).unwrap();
    p
}

/// parse the printed strategies into numeric named strategies through the interning maps
fn printed_named(v: &Value, it: &Interned, names: &Names, t: &T) -> Result<[Named; 2], String> {
    let mut out = [Vec::new(), Vec::new()];
    let _ = names;
    let infos = infosets_of(t);
    for (p, key) in ["player_one_strategy", "player_two_strategy"].iter().enumerate() {
        let m = v.get(*key).and_then(|x| x.as_object()).ok_or(format!("no {}", key))?;
        for (iname, acts) in m {
            let l = *it.info_of[p].get(iname).ok_or(format!("printed infoset {:?} is not in the file", iname))?;
            let mut av = Vec::new();
            for (aname, pr) in acts.as_object().ok_or("actions are not an object")? {
                let a = *it.act_of.get(aname).ok_or(format!("printed action {:?} is not in the file", aname))?;
                if !infos[p].get(&l).map(|x| x.contains(&a)).unwrap_or(false) {
                    return Err(format!("printed action {:?} is not an action of infoset {:?}", aname, iname));
                }
                av.push((a, pr.as_f64().ok_or("probability is not a number")?));
            }
            out[p].push((l, av));
        }
        // every infoset of the file must be there
        for l in infos[p].keys() {
            if !out[p].iter().any(|x| x.0 == *l) {
                return Err(format!("player {} infoset with label {} is missing from the output", p + 1, l));
            }
        }
    }
    Ok(out)
}

fn case_ng(case: &Value) -> (T, u64) {
    (T::from_json(&case["tree"]).expect("case without tree"), case["nseed"].as_u64().unwrap_or(0))
}

/// one run of the binary on a generated valid file
pub fn case_cli(ctx: &mut Ctx, case: &Value) {
    ctx.record_current(case);
    let (t, nseed) = case_ng(case);
    let mut nrng = Rng::new(nseed);
    let (ng, names) = name_game(&mut nrng, &t);
    let format = case["format"].as_str().unwrap_or("json");
    let k = case["k"].as_f64().unwrap_or(0.0);
    let gambit = format == "gambit";
    let content = if gambit {
        to_efg_file(&mut nrng, &ng, &names, k, case["interior"].as_bool().unwrap_or(false))
    } else {
        to_json_file(&ng, &names)
    };
    let method = case["method"].as_str().unwrap_or("full");
    let preset = case["discount"].as_str().unwrap_or("dcfr");
    let iters = case["t"].as_u64().unwrap_or(20);
    let maxreg = case["r"].as_f64().unwrap_or(0.0);
    let par = case["p"].as_u64().unwrap_or(1);
    let clip = case["c"].as_f64().unwrap_or(0.0);
    let route = case["route"].as_str().unwrap_or("file-ext");
    let mut args: Vec<String> = vec![
        "-m".into(), method.into(), "-d".into(), preset.into(), "-t".into(), iters.to_string(),
        "-r".into(), format!("{:?}", maxreg), "-p".into(), par.to_string(), "-c".into(), format!("{:?}", clip),
    ];
    let ext = if gambit { "efg" } else { "json" };
    let mut stdin = None;
    match route {
        "stdin-auto" => stdin = Some(content.as_str()),
        "stdin-explicit" => {
            stdin = Some(content.as_str());
            args.extend(["--input-format".to_string(), format.to_string()]);
        }
        "file-other-auto" => {
            let f = scratch_file(ctx, "game.txt", &content);
            args.extend(["-i".to_string(), f]);
        }
        "file-other-explicit" => {
            let f = scratch_file(ctx, "game.dat", &content);
            args.extend(["-i".to_string(), f, "--input-format".to_string(), format.to_string()]);
        }
        _ => {
            let f = scratch_file(ctx, &format!("game.{}", ext), &content);
            args.extend(["-i".to_string(), f]);
        }
    }
    let to_file = case["outfile"].as_bool().unwrap_or(false);
    let outpath = format!("{}/out.json", ctx.scratch);
    if to_file {
        let _ = std::fs::create_dir_all(&ctx.scratch);
        let _ = std::fs::remove_file(&outpath);
        args.extend(["-o".to_string(), outpath.clone()]);
    }
    let run = run_cfr(ctx, &args, stdin);
    ctx.stat(&format!("format_{}", format));
    ctx.stat(&format!("route_{}", route));
    ctx.stat(&format!("method_{}", method));
    let shown = json!({"args": args, "file": content});
    if run.status != Some(0) {
        return ctx.fail_prop(case, format!("valid {} file: exit status {:?}, stderr {:?}; {}", format, run.status, &run.stderr[..run.stderr.len().min(300)], shown));
    }
    let text = if to_file {
        if !run.stdout.is_empty() {
            ctx.fail_prop(case, "output file requested but stdout is not empty".to_string());
        }
        std::fs::read_to_string(&outpath).unwrap_or_default()
    } else {
        run.stdout.clone()
    };
    let v: Value = match serde_json::from_str(&text) {
        Ok(v) => v,
        Err(e) => return ctx.fail_prop(case, format!("output is not one JSON object: {} ({:?})", e, &text[..text.len().min(200)])),
    };
    // the numeric game the library call sees, and the game as written in the file (payoffs u1)
    let offset = if gambit { k / 2.0 } else { 0.0 };
    let it = intern(&ng, &names, offset, gambit);
    let it_file = intern(&ng, &names, 0.0, gambit);
    let named = match printed_named(&v, &it, &names, &it.tree) {
        Ok(n) => n,
        Err(e) => return ctx.fail_prop(case, format!("printed strategies: {}; {}", e, shown)),
    };
    for p in 0..2 {
        if let Err(e) = named_valid(&named[p]) {
            ctx.fail_prop(case, format!("printed strategy of player {} is not a valid behavioural strategy: {}", p + 1, e));
            return;
        }
    }
    let num = |k: &str| v.get(k).and_then(|x| x.as_f64()).unwrap_or(f64::NAN);
    let (pu1, pu2, pr1, pr2, preg) = (num("player_one_utility"), num("player_two_utility"), num("player_one_regret"), num("player_two_regret"), num("regret"));
    // independent evaluation of the printed strategies on the game as written in the file
    let beh = beh_of_named(&named);
    let sc = {
        let mut pv = Vec::new();
        it_file.tree.payoffs(&mut pv);
        pv.iter().fold(1.0f64, |a, b| a.max(b.abs())).max(k.abs())
    };
    let tol = 1e-9 * sc;
    let u1 = ev_raw(&it_file.tree, &beh, &[None, None]);
    let u2 = k - u1;
    if !close_tol(pu1, u1, tol) || !close_tol(pu2, u2, tol) {
        ctx.fail_prop(case, format!("printed utilities ({:e}, {:e}); evaluating the printed strategies on the file's own payoffs gives ({:e}, {:e}) (constant sum {}); {}", pu1, pu2, u1, u2, k, shown));
    }
    if preg != f64::max(pr1, pr2) {
        ctx.fail_prop(case, format!("printed regret {:e} is not the larger of {:e} and {:e}", preg, pr1, pr2));
    }
    // regrets: through the model's evaluator (the proven oracle) on the file game
    let mut req = "eval ".to_string();
    it_file.tree.ser(&mut req);
    req.push(' ');
    ser_named(&named[0], &mut req);
    req.push(' ');
    ser_named(&named[1], &mut req);
    let resp = ctx.model.ask(&req);
    let mut tk = Toks::new(&resp);
    if tk.tok() == "ok" {
        let (mu, m1, m2) = (tk.f(), tk.f(), tk.f());
        if !(close_tol(mu, pu1, tol) && close_tol(m1, pr1, tol) && close_tol(m2, pr2, tol)) {
            ctx.fail_prop(case, format!("printed utility/regrets ({:e}; {:e}, {:e}); the evaluator on the file game gives ({:e}; {:e}, {:e}); {}", pu1, pr1, pr2, mu, m1, m2, shown));
        }
    } else {
        ctx.fail_corr(case, format!("model could not evaluate the printed strategies: {}", resp));
    }
    for p in 0..2 {
        let np = num_pure(&it_file.tree, p);
        if np <= 1024 && np.saturating_mul(it_file.tree.size() as u64) <= 1_000_000 {
            let br = brute_br(&it_file.tree, &beh, p);
            let up = if p == 0 { u1 } else { -u1 };
            let want = f64::max(br - up, 0.0);
            let got = if p == 0 { pr1 } else { pr2 };
            if !close_tol(want, got, tol) {
                ctx.fail_prop(case, format!("printed regret of player {} is {:e}; best unilateral gain on the file game is {:e}", p + 1, got, want));
            }
        }
    }
    // C16: the options select the library behaviour
    if case["compare_library"].as_bool().unwrap_or(false) && method == "full" {
        let params = match preset {
            "vanilla" => Params::vanilla(),
            "lcfr" => Params::lcfr(),
            "cfr-plus" => Params::cfr_plus(),
            "dcfr-prune" => Params::dcfr_prune(),
            _ => Params::dcfr(),
        };
        match build(&it.tree) {
            Err(e) => ctx.fail_prop(case, format!("the library rejects the game of a file the program solved: {:?}", e)),
            Ok(g) => {
                let max_iters = if iters == 0 { u64::MAX } else { iters };
                match g.solve(SolveMethod::Full, max_iters, maxreg, par as usize, Some(params.to_lib())) {
                    Err(e) => ctx.fail_prop(case, format!("library solve failed: {:?}", e)),
                    Ok((s, _)) => {
                        let info = s.get_info();
                        let mut pruned = s.clone();
                        pruned.truncate(clip);
                        let pinfo = pruned.get_info();
                        let unpruned_named = drain_named(&s);
                        let pruned_named = drain_named(&pruned);
                        let use_pruned = pinfo.regret() < info.regret();
                        // the two processes may differ in the last place: at a knife edge of the
                        // clip decision either profile is accepted
                        let knife = (pinfo.regret() - info.regret()).abs() <= 1e-9 * sc;
                        if use_pruned {
                            ctx.stat("clip_pruned_profile_expected");
                        }
                        let dist = |w: &[Named; 2]| named_diff(&w[0], &named[0]).max(named_diff(&w[1], &named[1]));
                        let d = if use_pruned { dist(&pruned_named) } else { dist(&unpruned_named) };
                        let d_other = if use_pruned { dist(&unpruned_named) } else { dist(&pruned_named) };
                        if d <= 1e-8 {
                            ctx.stat("matches_library");
                            if d == 0.0 {
                                ctx.stat("matches_library_bit_equal");
                            }
                        } else if knife && d_other <= 1e-8 {
                            ctx.skipped_illcond += 1;
                        } else {
                            ctx.fail_prop(case, format!("printed strategies differ from Game::solve with the same parameters{} by {:e}; {}", if clip > 0.0 { " and clip step" } else { "" }, d, shown));
                        }
                        let _ = PlayerNum::One;
                    }
                }
            }
        }
    }
    let mut h = t.hash() ^ mix64(nseed);
    for a in &args {
        for b in a.bytes() {
            h = (h ^ b as u64).wrapping_mul(0x100000001b3);
        }
    }
    ctx.count(h, t.size() >= 3);
}

fn cli_game(ctx: &mut Ctx, i: u64) -> T {
    loop {
        let mut cfg = if i % 3 == 0 { ObsCfg::medium() } else { ObsCfg::small() };
        cfg.int_payoffs = i % 2 == 0;
        cfg.max_nodes = cfg.max_nodes.min(120);
        let t = match i % 9 {
            7 => kuhn(3),
            8 => adversarial(&mut ctx.rng, i / 9),
            _ => gen_obs(&mut ctx.rng, &cfg),
        };
        // payoffs are rounded to multiples of 1/8 by the naming step; deep chains are too big for a file
        if t.size() <= 300 && build(&t).is_ok() {
            return t;
        }
    }
}

fn gen_cli_case(ctx: &mut Ctx, i: u64, compare_library: bool) -> Value {
    let t = cli_game(ctx, i);
    // JSON files nested deeper than serde_json's recursion limit (128 values, about 42 game levels)
    // are rejected: known finding F29, excluded here by its class predicate
    let gambit = ctx.rng.chance(0.5) || t.depth() > JSON_MAX_DEPTH;
    let method = if compare_library { "full" } else { *ctx.rng.pick(&["full", "sampled", "external"]) };
    let k = if gambit { *ctx.rng.pick(&[0.0, 0.0, 1.0, 4.0, -2.5, 10.0]) } else { 0.0 };
    json!({
        "op": "cli", "tree": t.to_json(), "nseed": ctx.rng.next() >> 12,
        "format": if gambit { "gambit" } else { "json" },
        "k": k, "interior": gambit && ctx.rng.chance(0.5),
        "method": method,
        "discount": *ctx.rng.pick(&["vanilla", "lcfr", "cfr-plus", "dcfr", "dcfr-prune"]),
        "t": *ctx.rng.pick(&[1u64, 2, 5, 20, 60]),
        "r": *ctx.rng.pick(&[0.0, 0.0, 0.05, 0.5]),
        "p": if compare_library { *ctx.rng.pick(&[1u64, 1, 1, 2]) } else { *ctx.rng.pick(&[0u64, 1, 2, 3]) },
        "c": *ctx.rng.pick(&[0.0, 0.0, 0.01, 0.1, 0.3, 0.6]),
        "route": *ctx.rng.pick(&["file-ext", "file-ext", "stdin-auto", "stdin-explicit", "file-other-auto", "file-other-explicit"]),
        "outfile": ctx.rng.chance(0.25),
        "compare_library": compare_library,
    })
}

pub fn c15(ctx: &mut Ctx) -> String {
    let n = if ctx.thorough { 4000 } else { 260 };
    for i in 0..n {
        if ctx.out_of_time() {
            break;
        }
        let case = gen_cli_case(ctx, i, false);
        if i < 2 {
            ctx.sample(json!({"format": case["format"], "k": case["k"], "method": case["method"], "discount": case["discount"], "route": case["route"], "tree_line": T::from_json(&case["tree"]).unwrap().to_line()}));
        }
        case_cli(ctx, &case);
    }
    "generated valid JSON-DSL and Gambit files (constant sums 0, 1, 4, -2.5, 10; payoffs attached to interior nodes; shared outcomes; unnamed infosets; rational chance probabilities; action lists in non-sorted order) x methods x presets x -t x -r x -p x -c x input routes x output destination; the printed strategies are re-evaluated on the game as written in the file by an independent evaluator, by the model's evaluator and (small games) by brute force over pure strategies".to_string()
}

pub fn c16(ctx: &mut Ctx) -> String {
    let n = if ctx.thorough { 3000 } else { 220 };
    for i in 0..n {
        if ctx.out_of_time() {
            break;
        }
        let case = gen_cli_case(ctx, i, true);
        if i < 2 {
            ctx.sample(json!({"format": case["format"], "k": case["k"], "discount": case["discount"], "t": case["t"], "r": case["r"], "p": case["p"], "c": case["c"], "route": case["route"], "outfile": case["outfile"]}));
        }
        case_cli(ctx, &case);
        // a JSON and a Gambit encoding of the same game give the same solution
        if i % 4 == 0 && T::from_json(&case["tree"]).map(|t| t.depth() <= JSON_MAX_DEPTH).unwrap_or(false) {
            let mut a = case.clone();
            let mut b = case.clone();
            a["format"] = json!("json");
            a["k"] = json!(0.0);
            b["format"] = json!("gambit");
            b["k"] = json!(0.0);
            b["interior"] = json!(false);
            for c in [&mut a, &mut b] {
                c["route"] = json!("file-ext");
                c["outfile"] = json!(false);
                c["p"] = json!(1);
            }
            let ra = twin_output(ctx, &a);
            let rb = twin_output(ctx, &b);
            match (ra, rb) {
                (Some(x), Some(y)) => {
                    let d = named_diff(&x[0], &y[0]).max(named_diff(&x[1], &y[1]));
                    if !(d <= 1e-9) {
                        ctx.fail_prop(&a, format!("the JSON and the Gambit encoding of one game give solutions differing by {:e}", d));
                    } else {
                        ctx.stat("json_gambit_twins_agree");
                    }
                }
                _ => ctx.fail_prop(&a, "a twin encoding could not be solved".to_string()),
            }
        }
    }
    // zero iterations means no limit: needs a positive regret threshold
    let t = kuhn(3);
    let case = json!({"op": "cli", "tree": t.to_json(), "nseed": 5, "format": "json", "k": 0.0, "method": "full", "discount": "dcfr",
        "t": 0, "r": 0.05, "p": 1, "c": 0.0, "route": "file-ext", "outfile": false, "compare_library": true});
    case_cli(ctx, &case);
    "generated valid files x -m full x -d x -t (incl. 0 = unlimited with -r > 0) x -r x -p {1, 2} x -c x input routes {file by extension, stdin auto, stdin explicit, other extension auto / explicit} x {-o file, stdout}: printed strategies against Game::solve + truncate + get_info called in-process with the mapped arguments (bit-equal for -p 1); JSON / Gambit twins of one game".to_string()
}

fn twin_output(ctx: &mut Ctx, case: &Value) -> Option<[Named; 2]> {
    let (t, nseed) = case_ng(case);
    let mut nrng = Rng::new(nseed);
    let (ng, names) = name_game(&mut nrng, &t);
    let gambit = case["format"].as_str() == Some("gambit");
    let content = if gambit { to_efg_file(&mut nrng, &ng, &names, 0.0, false) } else { to_json_file(&ng, &names) };
    let f = scratch_file(ctx, if gambit { "twin.efg" } else { "twin.json" }, &content);
    let args: Vec<String> = vec![
        "-m".into(), "full".into(), "-d".into(), case["discount"].as_str().unwrap_or("dcfr").into(),
        "-t".into(), case["t"].as_u64().unwrap_or(5).to_string(), "-p".into(), "1".into(), "-i".into(), f,
    ];
    let run = run_cfr(ctx, &args, None);
    if run.status != Some(0) {
        return None;
    }
    let v: Value = serde_json::from_str(&run.stdout).ok()?;
    let it = intern(&ng, &names, 0.0, gambit);
    printed_named(&v, &it, &names, &it.tree).ok()
}

// ---------------------------------------------------------------------------------------------
// C17

pub fn c17(ctx: &mut Ctx) -> String {
    let n = if ctx.thorough { 3000 } else { 240 };
    for i in 0..n {
        if ctx.out_of_time() {
            break;
        }
        let t = cli_game(ctx, i);
        let mut nrng = ctx.rng.fork();
        let (ng, names) = name_game(&mut nrng, &t);
        let gambit = i % 2 == 1;
        let k = if gambit { *ctx.rng.pick(&[0.0, 2.0]) } else { 0.0 };
        let good = if gambit { to_efg_file(&mut nrng, &ng, &names, k, false) } else { to_json_file(&ng, &names) };
        // (corrupted text, expected diagnostic category or "" when only rejection is required)
        let kind = ctx.rng.below(if gambit { 12 } else { 10 });
        let (bad, what, expect): (String, &str, &str) = if !gambit {
            match kind {
                0 => (good[..good.len() * 2 / 3].to_string(), "truncated", "json-error"),
                1 => (good.replacen("\"prob\"", "\"probability\"", 1), "renamed-field-prob", "json-error"),
                2 => (good.replacen("\"player_one\": true", "\"player_one\": 1", 1).replacen("\"player_one\": false", "\"player_one\": 0", 1), "wrong-type-player_one", "json-error"),
                3 => (good.replacen("\"terminal\": ", "\"terminal\": \"x\", \"y\": ", 1), "wrong-type-terminal", "json-error"),
                4 => (replace_first_prob(&good, "0.0"), "zero-probability", "game-error"),
                5 => (replace_first_prob(&good, "-1.0"), "negative-probability", "game-error"),
                6 => (good.replacen("\"actions\": {", "\"moves\": {", 1), "renamed-field-actions", "json-error"),
                7 => ("[1, 2, 3]".to_string(), "not-an-object", "json-error"),
                8 => (good.replacen("\"infoset\": \"", "\"infoset\": 5, \"x\": \"", 1), "wrong-type-infoset", "json-error"),
                _ => (drop_first_state(&good), "dropped-field-state", "json-error"),
            }
        } else {
            match kind {
                0 => (good[..good.len() * 2 / 3].trim_end().to_string(), "truncated", "gambit-error"),
                1 => (
                    good.replacen("{ \"one\" \"two\" }", "{ \"one\" \"two\" \"three\" }", 1)
                        .lines()
                        .map(|l| if l.starts_with("t ") { l.replacen(" }", ", 0 }", 1) } else { l.to_string() })
                        .collect::<Vec<_>>()
                        .join("\n"),
                    "three-players",
                    "only supports two player games",
                ),
                2 => (perturb_payoff(&good), "not-constant-sum", "constant-sum|gambit-error"),
                3 => (good.replacen("EFG 2 R", "EFG 3 X", 1), "bad-header", "gambit-error"),
                4 => (good.replacen("p \"\" 1 ", "p \"\" 3 ", 1), "player-number-three", "gambit-error"),
                5 => (break_probability(&good), "probabilities-do-not-sum-to-one", "gambit-error"),
                6 => (same_infoset_names(&good), "two-infosets-one-name", "duplicate-infosets"),
                7 => (number_name_clash(&good), "number-used-as-name", "duplicate-infosets"),
                8 => (good.replacen(" { ", " { \"dup\" \"dup\" ", 2), "garbled-action-list", ""),
                9 => (huge_payoffs(&good), "payoffs-beyond-double", "non-finite|gambit-error"),
                10 => (good.replace("t \"\"", "x \"\""), "unknown-node-kind", "gambit-error"),
                _ => (String::new(), "empty-input", "gambit-error"),
            }
        };
        if bad == good {
            ctx.stat("corruption_not_applicable");
            continue;
        }
        let format = if gambit { "gambit" } else { "json" };
        for route in ["explicit", "auto"] {
            let mut args: Vec<String> = vec!["-m".into(), "full".into(), "-t".into(), "5".into(), "-p".into(), "1".into()];
            if route == "explicit" {
                args.extend(["--input-format".to_string(), format.to_string()]);
            }
            let case = json!({"op": "cli-reject", "format": format, "corruption": what, "route": route, "expected_category": expect, "input": bad});
            ctx.record_current(&case);
            let run = run_cfr(ctx, &args, Some(&bad));
            ctx.stat(&format!("corruption_{}_{}", format, what));
            let solved = run.status == Some(0);
            if solved || !run.stdout.trim().is_empty() {
                ctx.fail_prop(&case, format!("{} ({}, {} format): exit status {:?}, stdout {:?}", what, format, route, run.status, &run.stdout[..run.stdout.len().min(200)]));
            } else {
                let parse_level = expect.split('|').any(|x| x == "json-error" || x == "gambit-error");
                let auto_want = format!("{}|auto-error", expect);
                let want: &str = if route == "auto" && parse_level { &auto_want } else { expect };
                // with auto-detection a file that one parser accepts surfaces that parser's later diagnostic
                let names_one = |w: &str| w.split('|').any(|x| run.stderr.contains(x));
                if !want.is_empty() && !names_one(want) && !(route == "auto" && names_one(expect)) {
                    ctx.fail_prop(&case, format!("{} ({}, {}): diagnostic does not name {:?}: {:?}", what, format, route, want, &run.stderr[..run.stderr.len().min(400)]));
                }
            }
            let mut h = mix64(i) ^ mix64(kind);
            for b in bad.bytes().take(4000) {
                h = (h ^ b as u64).wrapping_mul(0x100000001b3);
            }
            ctx.count(h ^ (route.len() as u64), true);
        }
        // contract violations of C11 surface as the game-error category
        if i % 3 == 0 {
            let (t2, planted) = plant(&mut ctx.rng, &t);
            if !violations(&t2).is_empty() && !matches!(planted, "nan-payoff") {
                let (ng2, names2) = name_game(&mut nrng, &t2);
                if names_ok(&ng2) {
                    let txt = to_json_file(&ng2, &names2);
                    let case = json!({"op": "cli-reject", "format": "json", "corruption": format!("contract-{}", planted), "input": txt});
                    let run = run_cfr(ctx, &["--input-format".to_string(), "json".to_string(), "-t".to_string(), "3".to_string()], Some(&txt));
                    ctx.stat(&format!("contract_violation_{}", planted));
                    // the file encoding merges duplicate action / outcome names (maps), which can repair a violation
                    let it = intern(&ng2, &names2, 0.0, false);
                    let still = !violations(&it.tree).is_empty();
                    if still && (run.status == Some(0) || !run.stdout.trim().is_empty()) {
                        ctx.fail_prop(&case, format!("a tree violating the library contract ({}) was solved", planted));
                    } else if still && !run.stderr.contains("game-error") && !run.stderr.contains("json-error") {
                        ctx.fail_prop(&case, format!("contract violation {}: diagnostic names no documented category: {:?}", planted, &run.stderr[..run.stderr.len().min(300)]));
                    }
                    ctx.count(t2.hash(), true);
                }
            }
        }
    }
    "systematic corruptions of generated valid files under explicit and auto-detected formats: JSON {truncation, renamed / dropped fields, wrong types, zero and negative probabilities, non-object}, Gambit {truncation, three players, payoffs perturbed beyond the constant-sum tolerance, bad header, player number 3, probabilities not summing to one, two infosets with one name, number used as a name, garbled lists, payoffs beyond double range, unknown node kind, empty input}, library contract violations planted in JSON files; required: non-zero exit, empty stdout, diagnostic naming the documented category".to_string()
}

fn names_ok(ng: &NG) -> bool {
    // duplicate action names inside a node collapse in a JSON object: skip such files
    match ng {
        NG::Term(_) => true,
        NG::Chance(_, o) => o.iter().all(|x| names_ok(&x.2)),
        NG::Player(_, _, a) => {
            let s: BTreeSet<&String> = a.iter().map(|x| &x.0).collect();
            s.len() == a.len() && a.iter().all(|x| names_ok(&x.1))
        }
    }
}

fn replace_first_prob(s: &str, with: &str) -> String {
    match s.find("\"prob\": ") {
        None => s.to_string(),
        Some(i) => {
            let start = i + 8;
            let end = s[start..].find(',').map(|e| start + e).unwrap_or(start);
            format!("{}{}{}", &s[..start], with, &s[end..])
        }
    }
}

fn drop_first_state(s: &str) -> String {
    s.replacen(", \"state\": ", ", \"status\": ", 1)
}

fn perturb_payoff(s: &str) -> String {
    // change player two's payoff of the first terminal by one unit
    match s.find("t \"\" ") {
        None => s.to_string(),
        Some(i) => {
            let line_end = s[i..].find('\n').map(|e| i + e).unwrap_or(s.len());
            let line = &s[i..line_end];
            match line.rfind(", ") {
                None => s.to_string(),
                Some(c) => {
                    let new_line = format!("{}, 977 }}", &line[..c]);
                    format!("{}{}{}", &s[..i], new_line, &s[line_end..])
                }
            }
        }
    }
}

fn huge_payoffs(s: &str) -> String {
    match s.find("t \"\" ") {
        None => s.to_string(),
        Some(i) => {
            let line_end = s[i..].find('\n').map(|e| i + e).unwrap_or(s.len());
            let line = &s[i..line_end];
            match line.find("{ ") {
                None => s.to_string(),
                Some(c) => format!("{}{}{{ 1e999, -1e999 }}{}", &s[..i], &line[..c], &s[line_end..]),
            }
        }
    }
}

fn break_probability(s: &str) -> String {
    match s.find("c \"\" ") {
        None => s.to_string(),
        Some(i) => match s[i..].find("/") {
            None => s.to_string(),
            Some(j) => {
                // numerator just before the slash: prepend a digit
                let at = i + j;
                format!("{}9{}", &s[..at], &s[at..])
            }
        },
    }
}

fn same_infoset_names(s: &str) -> String {
    // give every named infoset of player 1 the same name
    let mut out = String::new();
    let mut changed = 0;
    for line in s.lines() {
        if line.starts_with("p \"\" 1 ") {
            let parts: Vec<&str> = line.splitn(6, ' ').collect();
            // p "" 1 <num> "name" { ... } or p "" 1 <num> { ...
            if parts.len() == 6 && parts[4].starts_with('"') && parts[4].ends_with('"') {
                out.push_str(&format!("p \"\" 1 {} \"same\" {}\n", parts[3], parts[5]));
                changed += 1;
                continue;
            }
        }
        out.push_str(line);
        out.push('\n');
    }
    // only a clash if two *distinct* infoset numbers were renamed
    let nums: BTreeSet<String> = out
        .lines()
        .filter(|l| l.starts_with("p \"\" 1 ") && l.contains("\"same\""))
        .map(|l| l.split(' ').nth(3).unwrap_or("").to_string())
        .collect();
    if changed >= 2 && nums.len() >= 2 {
        out
    } else {
        s.to_string()
    }
}

fn number_name_clash(s: &str) -> String {
    // name one infoset of player 1 with the number of an unnamed infoset of player 1
    let mut unnamed: Option<String> = None;
    for line in s.lines() {
        if line.starts_with("p \"\" 1 ") {
            let parts: Vec<&str> = line.splitn(6, ' ').collect();
            if parts.len() >= 5 && parts[4] == "{" {
                unnamed = Some(parts[3].to_string());
                break;
            }
        }
    }
    let un = match unnamed {
        Some(u) => u,
        None => return s.to_string(),
    };
    let mut out = String::new();
    let mut done = false;
    for line in s.lines() {
        if !done && line.starts_with("p \"\" 1 ") {
            let parts: Vec<&str> = line.splitn(6, ' ').collect();
            if parts.len() == 6 && parts[4].starts_with('"') && parts[3] != un {
                // rename every occurrence of this infoset number consistently
                let num = parts[3].to_string();
                let old = parts[4].to_string();
                let renamed = s.replace(&format!("p \"\" 1 {} {} ", num, old), &format!("p \"\" 1 {} \"{}\" ", num, un));
                out = renamed;
                done = true;
                break;
            }
        }
    }
    if done {
        out
    } else {
        s.to_string()
    }
}
