//! The command line tool: C15 (faithful output), C16 (options and formats), C17 (rejections).
//! Game files are generated from an abstract named game, so "the game exactly as written in the
//! file" is known to the generator and never re-derived from the program under test.
use crate::cli_model::*;
use crate::core::*;
use crate::gen::*;
use crate::solve_props::Params;
use crate::Ctx;
use cfr::{PlayerNum, SolveMethod};
use serde_json::{json, Value};
use std::collections::{BTreeMap, BTreeSet, HashMap};
use std::io::Write;
use std::process::{Command, Stdio};

/// an abstract two-player constant-sum game with string names
#[derive(Clone, Debug)]
pub enum NG {
    /// payoff to player one (player two gets K minus it)
    Term(f64),
    Chance(Option<u32>, Vec<(String, u32, NG)>),
    Player(bool, u32, Vec<(String, NG)>),
}

#[derive(Clone, Debug)]
pub struct Names {
    /// infoset id -> (name used by the program, name written in the gambit file or None)
    pub info: [BTreeMap<u32, (String, Option<String>)>; 2],
}

fn act_name(rng: &mut Rng, k: usize) -> String {
    // names whose sorted order differs from the listed order
    // (two of them need escaping inside a quoted string, in JSON and in Gambit files alike)
    let pool = ["raise", "call", "fold", "bet", "check", "x", "a b", "Z", "07", "7", "say \"hi\"", "b\\s"];
    format!("{}{}", pool[(rng.below(pool.len() as u64) as usize + k * 3) % pool.len()], k)
}

/// turn a numeric tree into a named game; payoffs are rounded to multiples of 1/8 so that all
/// constant-sum arithmetic is exact
pub fn name_game(rng: &mut Rng, t: &T) -> (NG, Names) {
    let mut names = Names { info: [BTreeMap::new(), BTreeMap::new()] };
    let mut acts: [HashMap<(u32, u32), String>; 2] = [HashMap::new(), HashMap::new()];
    fn go(rng: &mut Rng, t: &T, names: &mut Names, acts: &mut [HashMap<(u32, u32), String>; 2]) -> NG {
        match t {
            T::Term(p) => NG::Term((p * 8.0).round() / 8.0),
            T::Chance(i, o) => {
                let mut outs = Vec::new();
                for (k, (w, c)) in o.iter().enumerate() {
                    // integer weights 1..16
                    let wi = ((w * 4.0).round() as i64).clamp(1, 16) as u32;
                    outs.push((format!("o{}", (k * 7 + 3) % 10), wi, go(rng, c, names, acts)));
                }
                // distinct outcome names
                let mut seen = BTreeSet::new();
                for (k, o) in outs.iter_mut().enumerate() {
                    if !seen.insert(o.0.clone()) {
                        o.0 = format!("{}_{}", o.0, k);
                        seen.insert(o.0.clone());
                    }
                }
                NG::Chance(*i, outs)
            }
            T::Player(one, i, a) => {
                let p = if *one { 0 } else { 1 };
                if !names.info[p].contains_key(i) {
                    let unnamed = rng.chance(0.3);
                    // gambit infoset numbers are i + 1; an unnamed infoset is called by its number
                    // (one name in five carries a quote or a backslash, written escaped in the files)
                    let tail = match rng.below(10) {
                        0 => "\"q",
                        1 => "\\",
                        _ => "",
                    };
                    let nm = if unnamed { format!("{}", i + 1) } else { format!("I{}-{}{}", p + 1, i, tail) };
                    names.info[p].insert(*i, (nm.clone(), if unnamed { None } else { Some(nm) }));
                }
                let mut out = Vec::new();
                for (k, (x, c)) in a.iter().enumerate() {
                    let key = (*i, *x);
                    if !acts[p].contains_key(&key) {
                        let n = act_name(rng, k);
                        acts[p].insert(key, n);
                    }
                    out.push((acts[p][&key].clone(), go(rng, c, names, acts)));
                }
                NG::Player(*one, *i, out)
            }
        }
    }
    let ng = go(rng, t, &mut names, &mut acts);
    (ng, names)
}

/// the numeric tree the program's library call sees: actions sorted by name, outcomes by
/// (name, probability); labels interned
pub struct Interned {
    pub tree: T,
    pub info_of: [BTreeMap<String, u32>; 2],
    pub act_of: BTreeMap<String, u32>,
}

pub fn intern(ng: &NG, names: &Names, offset: f64, gambit: bool) -> Interned {
    let mut act_of: BTreeMap<String, u32> = BTreeMap::new();
    let mut info_of: [BTreeMap<String, u32>; 2] = [BTreeMap::new(), BTreeMap::new()];
    fn go(ng: &NG, names: &Names, offset: f64, gambit: bool, act_of: &mut BTreeMap<String, u32>, info_of: &mut [BTreeMap<String, u32>; 2]) -> T {
        match ng {
            NG::Term(p) => T::Term(p - offset),
            NG::Chance(i, outs) => {
                let tot: u32 = outs.iter().map(|o| o.1).sum();
                let mut v: Vec<(String, f64, &NG)> = outs
                    .iter()
                    .map(|(n, w, c)| (n.clone(), if gambit { *w as f64 / tot as f64 } else { *w as f64 }, c))
                    .collect();
                v.sort_by(|a, b| (&a.0, a.1).partial_cmp(&(&b.0, b.1)).unwrap());
                T::Chance(*i, v.into_iter().map(|(_, w, c)| (w, go(c, names, offset, gambit, act_of, info_of))).collect())
            }
            NG::Player(one, i, acts) => {
                let p = if *one { 0 } else { 1 };
                let nm = names.info[p][i].0.clone();
                let next = info_of[p].len() as u32;
                let label = *info_of[p].entry(nm).or_insert(next);
                let mut v: Vec<(&String, &NG)> = acts.iter().map(|(n, c)| (n, c)).collect();
                v.sort_by(|a, b| a.0.cmp(b.0));
                T::Player(
                    *one,
                    label,
                    v.into_iter()
                        .map(|(n, c)| {
                            let nx = act_of.len() as u32;
                            let a = *act_of.entry(n.clone()).or_insert(nx);
                            (a, go(c, names, offset, gambit, act_of, info_of))
                        })
                        .collect(),
                )
            }
        }
    }
    let tree = go(ng, names, offset, gambit, &mut act_of, &mut info_of);
    Interned { tree, info_of, act_of }
}

fn jstr(s: &str) -> String {
    serde_json::to_string(s).unwrap()
}

pub fn to_json_file(ng: &NG, names: &Names) -> String {
    match ng {
        NG::Term(p) => format!("{{\"terminal\": {:?}}}", p),
        NG::Chance(i, outs) => {
            let body: Vec<String> = outs
                .iter()
                .map(|(n, w, c)| format!("{}: {{\"prob\": {:?}, \"state\": {}}}", jstr(n), *w as f64, to_json_file(c, names)))
                .collect();
            let info = match i {
                Some(l) => format!("\"infoset\": {}, ", jstr(&format!("c{}", l))),
                None => String::new(),
            };
            format!("{{\"chance\": {{{}\"outcomes\": {{{}}}}}}}", info, body.join(", "))
        }
        NG::Player(one, i, acts) => {
            let p = if *one { 0 } else { 1 };
            let body: Vec<String> = acts.iter().map(|(n, c)| format!("{}: {}", jstr(n), to_json_file(c, names))).collect();
            format!(
                "{{\"player\": {{\"player_one\": {}, \"infoset\": {}, \"actions\": {{{}}}}}}}",
                one,
                jstr(&names.info[p][i].0),
                body.join(", ")
            )
        }
    }
}

// ---------------------------------------------------------------------------------------------
// Gambit files

/// an exact rational (payoffs of a generated file are written and reasoned about exactly)
#[derive(Clone, Copy, Debug, PartialEq, Eq, PartialOrd, Ord)]
pub struct Q {
    pub n: i128,
    pub d: i128,
}

fn gcd(a: i128, b: i128) -> i128 {
    if b == 0 {
        a.abs()
    } else {
        gcd(b, a % b)
    }
}

impl Q {
    pub fn new(n: i128, d: i128) -> Q {
        let g = gcd(n, d).max(1);
        let s = if d < 0 { -1 } else { 1 };
        Q { n: s * n / g, d: s * d / g }
    }
    pub const ZERO: Q = Q { n: 0, d: 1 };
    /// exact value of a double that is a small dyadic rational
    pub fn dyadic(x: f64) -> Q {
        let mut m = 0;
        let mut y = x;
        while y.fract() != 0.0 && m < 60 {
            y *= 2.0;
            m += 1;
        }
        Q::new(y as i128, 1i128 << m)
    }
    pub fn add(self, o: Q) -> Q {
        Q::new(self.n * o.d + o.n * self.d, self.d * o.d)
    }
    pub fn sub(self, o: Q) -> Q {
        self.add(Q::new(-o.n, o.d))
    }
    pub fn mul(self, o: Q) -> Q {
        Q::new(self.n * o.n, self.d * o.d)
    }
    pub fn to_f64(self) -> f64 {
        self.n as f64 / self.d as f64
    }
    pub fn gt(self, o: Q) -> bool {
        self.n * o.d > o.n * self.d
    }
    fn pow2(self) -> Option<u32> {
        if self.d > 0 && self.d & (self.d - 1) == 0 {
            Some(self.d.trailing_zeros())
        } else {
            None
        }
    }
    /// the exact decimal expansion of a dyadic rational: (digits of |n|·5^m, m)
    fn decimal_digits(self) -> Option<(bool, String, u32)> {
        let m = self.pow2()?;
        if m > 24 {
            return None;
        }
        let scaled = self.n.abs() * 5i128.pow(m);
        Some((self.n < 0, scaled.to_string(), m))
    }
}

/// how nearly-but-not-exactly constant-sum a generated file is
#[derive(Clone, Copy, Debug, PartialEq, Default)]
pub enum Near {
    /// exactly constant sum
    #[default]
    Off,
    /// player two's payoff of some terminals moved by dyadic amounts well inside the 0.1 % tolerance
    Dyadic,
    /// one terminal moved by 255/256 of the largest amount the tolerance admits
    Inside,
    /// one terminal moved by 257/256 of it: the file must be rejected
    Outside,
}

/// features of the `.efg` format a generated file uses beyond the basic shape
#[derive(Clone, Debug, Default)]
pub struct EfgFeat {
    /// outcomes referred to by number only (payoffs and/or name omitted where the grammar allows),
    /// one outcome id on interior nodes and terminals, interior outcomes paying the players differently
    pub reuse: bool,
    /// payoffs written as decimals / with exponents as well as fractions
    pub decimals: bool,
    /// many interior outcomes (several along one path)
    pub dense: bool,
    pub near: Near,
}

impl EfgFeat {
    pub fn from_case(v: &Value) -> EfgFeat {
        let b = |k: &str| v.get(k).and_then(|x| x.as_bool()).unwrap_or(false);
        EfgFeat {
            reuse: b("reuse"),
            decimals: b("decimals"),
            dense: b("dense"),
            near: match v.get("near").and_then(|x| x.as_str()).unwrap_or("") {
                "dyadic" => Near::Dyadic,
                "inside" => Near::Inside,
                "outside" => Near::Outside,
                _ => Near::Off,
            },
        }
    }
    pub fn to_json(&self) -> Value {
        json!({"reuse": self.reuse, "decimals": self.decimals, "dense": self.dense,
               "near": match self.near { Near::Off => "off", Near::Dyadic => "dyadic", Near::Inside => "inside", Near::Outside => "outside" }})
    }
    pub fn random(rng: &mut Rng) -> EfgFeat {
        EfgFeat {
            reuse: rng.chance(0.5),
            decimals: rng.chance(0.4),
            dense: rng.chance(0.3),
            near: *rng.pick(&[Near::Off, Near::Off, Near::Off, Near::Dyadic, Near::Inside]),
        }
    }
}

/// one node line of the file: `pre` ends with the outcome number
struct OutLine {
    pre: String,
    oc: u64,
    name: Option<String>,
    pays: Option<String>,
    interior: bool,
}

/// write a gambit file: constant sum `k`, part of each path's payoff attached to interior nodes,
/// outcomes shared between nodes with equal payoffs.  The game written is, by construction, `ng`
/// with player two paid `k - u1 + eps` at the terminals (`eps` all zero unless `feat.near`).
pub struct EfgWriter<'a> {
    pub rng: &'a mut Rng,
    pub names: &'a Names,
    pub k: f64,
    pub next_outcome: u64,
    pub shared: BTreeMap<(Q, Q), u64>,
    pub anon_chance: u64,
    pub interior: bool,
    pub feat: EfgFeat,
    /// every outcome defined so far with its payoffs
    defined: Vec<(u64, (Q, Q))>,
    lines: Vec<OutLine>,
    /// player two's perturbation per terminal, in file order
    pub eps: Vec<Q>,
    /// the unit of perturbation (zero when the file is exactly constant sum)
    unit: Q,
    near_done: bool,
    /// named infosets whose name has been written at a node already
    named_once: std::collections::BTreeSet<(usize, u32)>,
    /// nodes of named infosets written without the name
    pub partial_names: u64,
}

fn dyadic(x: f64) -> String {
    // multiples of 1/8 written exactly
    let n = (x * 8.0).round() as i64;
    if n % 8 == 0 {
        format!("{}", n / 8)
    } else {
        format!("{}/8", n)
    }
}

impl EfgWriter<'_> {
    /// one payoff as text
    fn fmt_q(&mut self, q: Q) -> String {
        let basic = |q: Q| -> String {
            if 8 % q.d == 0 {
                dyadic(q.to_f64())
            } else {
                format!("{}/{}", q.n, q.d)
            }
        };
        if !self.feat.decimals {
            return basic(q);
        }
        match (self.rng.below(5), q.decimal_digits()) {
            (0, Some((neg, digits, m))) => {
                // plain decimal, e.g. -0.125, 3.0, .5
                let mut dg = digits;
                while (dg.len() as u32) <= m {
                    dg.insert(0, '0');
                }
                let (ip, fp) = dg.split_at(dg.len() - m as usize);
                let ip = if ip == "0" && !fp.is_empty() && self.rng.chance(0.3) { "" } else { ip };
                let fp = if fp.is_empty() && self.rng.chance(0.5) { "0" } else { fp };
                let dot = if fp.is_empty() && self.rng.chance(0.5) { "" } else { "." };
                format!("{}{}{}{}", if neg { "-" } else { "" }, ip, dot, fp)
            }
            (1, Some((neg, digits, m))) => format!("{}{}e-{}", if neg { "-" } else { "" }, digits, m),
            (2, _) => format!("{}{}/{}", if q.n >= 0 && self.rng.chance(0.2) { "+" } else { "" }, q.n, q.d),
            (3, _) => format!("{}/{}", q.n * 3, q.d * 3),
            _ => basic(q),
        }
    }
    fn fmt_pays(&mut self, a: Q, b: Q) -> String {
        let (x, y) = (self.fmt_q(a), self.fmt_q(b));
        let comma = if self.feat.decimals && self.rng.chance(0.3) { "" } else { "," };
        format!("{{ {}{} {} }}", x, comma, y)
    }
    fn outcome_name(&self, id: u64, interior: bool) -> String {
        if self.feat.reuse || !interior {
            format!("\"out{}\"", id)
        } else {
            format!("\"mid{}\"", id)
        }
    }
    pub fn node(&mut self, ng: &NG, carried: (Q, Q)) {
        match ng {
            NG::Term(p) => {
                let mut e = Q::ZERO;
                if self.unit != Q::ZERO {
                    match self.feat.near {
                        Near::Dyadic => {
                            if self.rng.chance(0.4) {
                                e = self.unit.mul(*self.rng.pick(&[Q { n: 1, d: 4 }, Q { n: 1, d: 2 }, Q { n: 1, d: 1 }]));
                            }
                        }
                        Near::Inside | Near::Outside => {
                            if !self.near_done {
                                e = self.unit;
                                self.near_done = true;
                            }
                        }
                        Near::Off => {}
                    }
                }
                self.eps.push(e);
                let one = Q::dyadic(*p).sub(carried.0);
                let two = Q::dyadic(self.k).sub(Q::dyadic(*p)).add(e).sub(carried.1);
                let key = (one, two);
                let id = match self.shared.get(&key) {
                    Some(id) if self.rng.chance(0.7) => *id,
                    _ => {
                        self.next_outcome += 1;
                        self.shared.insert(key, self.next_outcome);
                        self.defined.push((self.next_outcome, key));
                        self.next_outcome
                    }
                };
                let pays = self.fmt_pays(one, two);
                let name = self.outcome_name(id, false);
                self.lines.push(OutLine { pre: format!("t \"\" {}", id), oc: id, name: Some(name), pays: Some(pays), interior: false });
            }
            NG::Chance(i, outs) => {
                let tot: u32 = outs.iter().map(|o| o.1).sum();
                let id = match i {
                    Some(l) => *l as u64 + 1,
                    None => {
                        self.anon_chance += 1;
                        1000 + self.anon_chance
                    }
                };
                let acts: Vec<String> = outs.iter().map(|(n, w, _)| format!("{} {}/{}", jstr(n), w, tot)).collect();
                let (oc, add, pays) = self.interior_outcome();
                self.lines.push(OutLine { pre: format!("c \"\" {} \"\" {{ {} }} {}", id, acts.join(" "), oc), oc, name: None, pays, interior: true });
                for (_, _, c) in outs {
                    self.node(c, (carried.0.add(add.0), carried.1.add(add.1)));
                }
            }
            NG::Player(one, i, acts) => {
                let p = if *one { 0 } else { 1 };
                // the name of an infoset may be written at some of its nodes and left out at others
                // (the grammar makes it optional per node): once it has been written, later nodes
                // of the infoset sometimes omit it
                let nm = match &self.names.info[p][i].1 {
                    Some(n) => {
                        if self.named_once.contains(&(p, *i)) && self.rng.chance(0.4) {
                            self.partial_names += 1;
                            String::new()
                        } else {
                            self.named_once.insert((p, *i));
                            format!(" {}", jstr(n))
                        }
                    }
                    None => String::new(),
                };
                let list: Vec<String> = acts.iter().map(|(n, _)| jstr(n)).collect();
                let (oc, add, pays) = self.interior_outcome();
                let name = if oc != 0 { Some(self.outcome_name(oc, true)) } else { None };
                self.lines.push(OutLine { pre: format!("p \"\" {} {}{} {{ {} }} {}", p + 1, i + 1, nm, list.join(" "), oc), oc, name, pays, interior: true });
                for (_, c) in acts {
                    self.node(c, (carried.0.add(add.0), carried.1.add(add.1)));
                }
            }
        }
    }
    /// sometimes attach an outcome to an interior node (the terminals below compensate): a new one
    /// `{ d, d }` (both players get `d`), with `feat.reuse` also `{ d1, d2 }` or an outcome defined
    /// elsewhere in the file — returns the outcome number, the amounts carried, the payoff text
    fn interior_outcome(&mut self) -> (u64, (Q, Q), Option<String>) {
        let prob = if self.feat.dense { 0.45 } else { 0.2 };
        if self.interior && self.rng.chance(prob) {
            if self.feat.reuse && !self.defined.is_empty() && self.rng.chance(0.5) {
                let (id, pays) = *self.rng.pick(&self.defined);
                let text = self.fmt_pays(pays.0, pays.1);
                return (id, pays, Some(text));
            }
            let d = Q::new(self.rng.range(0, 8) as i128 - 4, 8);
            let d2 = if self.feat.reuse && self.rng.chance(0.5) { Q::new(self.rng.range(0, 8) as i128 - 4, 8) } else { d };
            self.next_outcome += 1;
            self.defined.push((self.next_outcome, (d, d2)));
            if self.feat.reuse {
                self.shared.entry((d, d2)).or_insert(self.next_outcome);
            }
            let text = self.fmt_pays(d, d2);
            (self.next_outcome, (d, d2), Some(text))
        } else {
            (0, (Q::ZERO, Q::ZERO), None)
        }
    }
    /// refer to outcomes by number only where the grammar allows: an interior node may omit the
    /// payoffs (and a player node the outcome name) of an outcome whose payoffs are written at
    /// another node, anywhere in the file; a terminal always lists payoffs but may omit the name
    fn strip(&mut self) {
        let mut by_id: BTreeMap<u64, Vec<usize>> = BTreeMap::new();
        for (i, l) in self.lines.iter().enumerate() {
            if l.oc != 0 {
                by_id.entry(l.oc).or_default().push(i);
            }
        }
        for (_, occ) in by_id {
            let interior: Vec<usize> = occ.iter().cloned().filter(|i| self.lines[*i].interior).collect();
            let has_terminal = interior.len() < occ.len();
            let keeper = if has_terminal || interior.is_empty() { usize::MAX } else { *self.rng.pick(&interior) };
            for i in &interior {
                if *i != keeper && occ.len() >= 2 && self.rng.chance(0.7) {
                    self.lines[*i].pays = None;
                }
            }
            for i in &occ {
                if self.lines[*i].name.is_some() && self.rng.chance(0.4) {
                    self.lines[*i].name = None;
                }
            }
        }
    }
    fn render(&self, out: &mut String) {
        for l in &self.lines {
            out.push_str(&l.pre);
            if l.oc != 0 {
                if let Some(n) = &l.name {
                    out.push(' ');
                    out.push_str(n);
                }
                if let Some(p) = &l.pays {
                    out.push(' ');
                    out.push_str(p);
                }
            }
            out.push('\n');
        }
    }
}

/// a generated gambit file with what the generator knows about it
pub struct EfgOut {
    pub text: String,
    /// player two's payoff at the terminals is `k - u1 + eps` (file order)
    pub eps: Vec<f64>,
    /// the offset a correct reader extracts (`min + (max - min) / 2` over the pair sums)
    pub sum: f64,
    /// `max - min` of the terminals' `eps`
    pub spread: f64,
    /// nodes of named infosets written without their name
    pub partial_names: u64,
}

fn ng_payoffs(ng: &NG, out: &mut Vec<f64>) {
    match ng {
        NG::Term(p) => out.push(*p),
        NG::Chance(_, o) => o.iter().for_each(|x| ng_payoffs(&x.2, out)),
        NG::Player(_, _, a) => a.iter().for_each(|x| ng_payoffs(&x.1, out)),
    }
}

pub fn to_efg_file(rng: &mut Rng, ng: &NG, names: &Names, k: f64, interior: bool, feat: &EfgFeat) -> EfgOut {
    let mut out = String::from("EFG 2 R \"generated\" { \"one\" \"two\" }\n\"a generated game\"\n\n");
    // the largest perturbation of one pair sum the 0.1 % tolerance admits is range1 / 500
    let mut pv = Vec::new();
    ng_payoffs(ng, &mut pv);
    let range1 = pv.iter().cloned().fold(f64::NEG_INFINITY, f64::max) - pv.iter().cloned().fold(f64::INFINITY, f64::min);
    let unit = if range1 > 0.0 {
        let lim = Q::dyadic(range1).mul(Q { n: 1, d: 500 });
        match feat.near {
            Near::Off => Q::ZERO,
            Near::Dyadic => {
                let mut e = Q { n: 1, d: 1 };
                while e.gt(lim) {
                    e = e.mul(Q { n: 1, d: 2 });
                }
                e
            }
            Near::Inside => lim.mul(Q { n: 255, d: 256 }),
            Near::Outside => lim.mul(Q { n: 257, d: 256 }),
        }
    } else {
        Q::ZERO
    };
    let mut w = EfgWriter {
        rng, names, k, next_outcome: 0, shared: BTreeMap::new(), anon_chance: 0, interior, feat: feat.clone(),
        defined: Vec::new(), lines: Vec::new(), eps: Vec::new(), unit, near_done: false,
        named_once: Default::default(), partial_names: 0,
    };
    w.node(ng, (Q::ZERO, Q::ZERO));
    if w.feat.reuse {
        w.strip();
    }
    w.render(&mut out);
    let eps: Vec<f64> = w.eps.iter().map(|e| e.to_f64()).collect();
    let (lo, hi) = if eps.is_empty() { (0.0, 0.0) } else { (eps.iter().cloned().fold(f64::INFINITY, f64::min), eps.iter().cloned().fold(f64::NEG_INFINITY, f64::max)) };
    let (smin, smax) = ((k + lo) / 2.0, (k + hi) / 2.0);
    let partial_names = w.partial_names;
    EfgOut { text: out, eps, sum: smin + (smax - smin) / 2.0, spread: hi - lo, partial_names }
}

/// the game of player two's own payoffs as written in the file: `k - u1 + eps`
pub fn ng_player_two(ng: &NG, k: f64, eps: &[f64]) -> NG {
    fn go(ng: &NG, k: f64, eps: &[f64], at: &mut usize) -> NG {
        match ng {
            NG::Term(p) => {
                let e = eps.get(*at).cloned().unwrap_or(0.0);
                *at += 1;
                NG::Term(k - p + e)
            }
            NG::Chance(i, o) => NG::Chance(*i, o.iter().map(|(n, w, c)| (n.clone(), *w, go(c, k, eps, at))).collect()),
            NG::Player(p, i, a) => NG::Player(*p, *i, a.iter().map(|(n, c)| (n.clone(), go(c, k, eps, at))).collect()),
        }
    }
    go(ng, k, eps, &mut 0)
}

/// deepest game tree whose JSON encoding serde_json still parses (3 JSON levels per game level)
pub const JSON_MAX_DEPTH: usize = 40;

pub struct Run {
    pub status: Option<i32>,
    pub stdout: String,
    pub stderr: String,
}

pub fn run_cfr(ctx: &Ctx, args: &[String], stdin: Option<&str>) -> Run {
    let mut cmd = Command::new(&ctx.cfr_bin);
    cmd.args(args).env("RUST_BACKTRACE", "0").stdin(Stdio::piped()).stdout(Stdio::piped()).stderr(Stdio::piped());
    let mut child = cmd.spawn().expect("cannot run the cfr binary");
    {
        let mut si = child.stdin.take().unwrap();
        if let Some(s) = stdin {
            let _ = si.write_all(s.as_bytes());
        }
    }
    let out = child.wait_with_output().expect("cfr did not finish");
    Run {
        status: out.status.code(),
        stdout: String::from_utf8_lossy(&out.stdout).to_string(),
        stderr: String::from_utf8_lossy(&out.stderr).to_string(),
    }
}

fn scratch_file(ctx: &Ctx, name: &str, content: &str) -> String {
    let _ = std::fs::create_dir_all(&ctx.scratch);
    let p = format!("{}/{}", ctx.scratch, name);
    std::fs::write(&p, content).unwrap();
    p
}

/// parse the printed strategies into numeric named strategies through the interning maps
fn printed_named(v: &Value, it: &Interned, names: &Names, t: &T) -> Result<[Named; 2], String> {
    let mut out = [Vec::new(), Vec::new()];
    let _ = names;
    let infos = infosets_of(t);
    for (p, key) in ["player_one_strategy", "player_two_strategy"].iter().enumerate() {
        let m = v.get(*key).and_then(|x| x.as_object()).ok_or(format!("no {}", key))?;
        for (iname, acts) in m {
            let l = *it.info_of[p].get(iname).ok_or(format!("printed infoset {:?} is not in the file", iname))?;
            let mut av = Vec::new();
            for (aname, pr) in acts.as_object().ok_or("actions are not an object")? {
                let a = *it.act_of.get(aname).ok_or(format!("printed action {:?} is not in the file", aname))?;
                if !infos[p].get(&l).map(|x| x.contains(&a)).unwrap_or(false) {
                    return Err(format!("printed action {:?} is not an action of infoset {:?}", aname, iname));
                }
                av.push((a, pr.as_f64().ok_or("probability is not a number")?));
            }
            out[p].push((l, av));
        }
        // every infoset of the file must be there
        for l in infos[p].keys() {
            if !out[p].iter().any(|x| x.0 == *l) {
                return Err(format!("player {} infoset with label {} is missing from the output", p + 1, l));
            }
        }
    }
    Ok(out)
}

fn case_ng(case: &Value) -> (T, u64) {
    (T::from_json(&case["tree"]).expect("case without tree"), case["nseed"].as_u64().unwrap_or(0))
}

/// one run of the binary on a generated valid file
pub fn case_cli(ctx: &mut Ctx, case: &Value) {
    ctx.record_current(case);
    let (t, nseed) = case_ng(case);
    let mut nrng = Rng::new(nseed);
    let (ng, names) = name_game(&mut nrng, &t);
    let format = case["format"].as_str().unwrap_or("json");
    let k = case["k"].as_f64().unwrap_or(0.0);
    let gambit = format == "gambit";
    let feat = EfgFeat::from_case(&case["efg"]);
    let efg = if gambit { Some(to_efg_file(&mut nrng, &ng, &names, k, case["interior"].as_bool().unwrap_or(false) || feat.reuse || feat.dense, &feat)) } else { None };
    let content = match &efg {
        Some(e) => e.text.clone(),
        None => to_json_file(&ng, &names),
    };
    if gambit {
        for (on, key) in [(feat.reuse, "efg_outcomes_by_reference"), (feat.decimals, "efg_decimal_payoffs"), (feat.dense, "efg_dense_interior_outcomes"), (feat.near != Near::Off, "efg_nearly_constant_sum")] {
            if on {
                ctx.stat(key);
            }
        }
        if efg.as_ref().map_or(false, |e| e.partial_names > 0) {
            ctx.stat("efg_infoset_name_left_out_at_some_nodes");
        }
    }
    let method = case["method"].as_str().unwrap_or("full");
    let preset = case["discount"].as_str().unwrap_or("dcfr");
    let iters = case["t"].as_u64().unwrap_or(20);
    let maxreg = case["r"].as_f64().unwrap_or(0.0);
    let par = case["p"].as_u64().unwrap_or(1);
    let clip = case["c"].as_f64().unwrap_or(0.0);
    let route = case["route"].as_str().unwrap_or("file-ext");
    let mut args: Vec<String> = vec![
        "-m".into(), method.into(), "-d".into(), preset.into(), "-t".into(), iters.to_string(),
        "-r".into(), format!("{:?}", maxreg), "-p".into(), par.to_string(), "-c".into(), format!("{:?}", clip),
    ];
    let ext = if gambit { "efg" } else { "json" };
    let mut stdin = None;
    match route {
        "stdin-auto" => stdin = Some(content.as_str()),
        "stdin-explicit" => {
            stdin = Some(content.as_str());
            args.extend(["--input-format".to_string(), format.to_string()]);
        }
        "file-other-auto" => {
            let f = scratch_file(ctx, "game.txt", &content);
            args.extend(["-i".to_string(), f]);
        }
        "file-other-explicit" => {
            let f = scratch_file(ctx, "game.dat", &content);
            args.extend(["-i".to_string(), f, "--input-format".to_string(), format.to_string()]);
        }
        // an explicit format wins over a file name that suggests the other one
        "file-wrong-ext-explicit" => {
            let f = scratch_file(ctx, &format!("game.{}", if gambit { "json" } else { "efg" }), &content);
            args.extend(["-i".to_string(), f, "--input-format".to_string(), format.to_string()]);
        }
        _ => {
            let f = scratch_file(ctx, &format!("game.{}", ext), &content);
            args.extend(["-i".to_string(), f]);
        }
    }
    let to_file = case["outfile"].as_bool().unwrap_or(false);
    let outpath = format!("{}/out.json", ctx.scratch);
    if to_file {
        let _ = std::fs::create_dir_all(&ctx.scratch);
        let _ = std::fs::remove_file(&outpath);
        // "regardless of output destination": half of the time the destination already exists
        // and holds something longer than any result (a file is replaced, not overwritten in place)
        if nseed % 2 == 0 {
            let _ = std::fs::write(&outpath, format!("{{\"stale\": \"{}\"}}\n", "x".repeat(200_000)));
            ctx.stat("output_file_existed_before");
        }
        args.extend(["-o".to_string(), outpath.clone()]);
    }
    let run = run_cfr(ctx, &args, stdin);
    ctx.stat(&format!("format_{}", format));
    ctx.stat(&format!("route_{}", route));
    ctx.stat(&format!("method_{}", method));
    let shown = json!({"args": args, "file": content});
    if run.status != Some(0) {
        return ctx.fail_prop(case, format!("valid {} file: exit status {:?}, stderr {:?}; {}", format, run.status, &run.stderr[..run.stderr.len().min(300)], shown));
    }
    let text = if to_file {
        if !run.stdout.is_empty() {
            ctx.fail_prop(case, "output file requested but stdout is not empty".to_string());
        }
        std::fs::read_to_string(&outpath).unwrap_or_default()
    } else {
        run.stdout.clone()
    };
    let v: Value = match serde_json::from_str(&text) {
        Ok(v) => v,
        Err(e) => return ctx.fail_prop(case, format!("output is not one JSON object: {} ({:?})", e, &text[..text.len().min(200)])),
    };
    // the numeric game the library call sees, and the game as written in the file (payoffs u1)
    // (a nearly constant-sum file has pair sums k + eps; the offset is the middle of their range)
    let offset = efg.as_ref().map(|e| e.sum).unwrap_or(0.0);
    let spread = efg.as_ref().map(|e| e.spread).unwrap_or(0.0);
    let it = intern(&ng, &names, offset, gambit);
    let it_file = intern(&ng, &names, 0.0, gambit);
    // player two's own payoffs as written in the file
    let it_file2 = intern(&ng_player_two(&ng, k, efg.as_ref().map(|e| e.eps.as_slice()).unwrap_or(&[])), &names, 0.0, gambit);
    let named = match printed_named(&v, &it, &names, &it.tree) {
        Ok(n) => n,
        Err(e) => return ctx.fail_prop(case, format!("printed strategies: {}; {}", e, shown)),
    };
    for p in 0..2 {
        if let Err(e) = named_valid(&named[p]) {
            ctx.fail_prop(case, format!("printed strategy of player {} is not a valid behavioural strategy: {}", p + 1, e));
            return;
        }
    }
    let num = |k: &str| v.get(k).and_then(|x| x.as_f64()).unwrap_or(f64::NAN);
    let (pu1, pu2, pr1, pr2, preg) = (num("player_one_utility"), num("player_two_utility"), num("player_one_regret"), num("player_two_regret"), num("regret"));
    // independent evaluation of the printed strategies on the game as written in the file
    let beh = beh_of_named(&named);
    let sc = {
        let mut pv = Vec::new();
        it_file.tree.payoffs(&mut pv);
        pv.iter().fold(1.0f64, |a, b| a.max(b.abs())).max(k.abs())
    };
    let tol = 1e-9 * sc;
    let u1 = ev_raw(&it_file.tree, &beh, &[None, None]);
    // each player's own payoffs; for a file that is constant-sum only within the 0.1 % tolerance the
    // program reports 2 * offset - u1 for player two, off by at most half the spread of the pair sums
    let u2 = ev_raw(&it_file2.tree, &beh, &[None, None]);
    if !close_tol(pu1, u1, tol) || !((pu2 - u2).abs() <= spread / 2.0 + tol * 1f64.max(u2.abs())) {
        ctx.fail_prop(case, format!("printed utilities ({:e}, {:e}); evaluating the printed strategies on the file's own payoffs gives ({:e}, {:e}) (constant sum {}, spread {:e}); {}", pu1, pu2, u1, u2, k, spread, shown));
    }
    if !close_tol(pu1 + pu2, 2.0 * offset, 2.0 * tol) {
        ctx.fail_prop(case, format!("printed utilities ({:e}, {:e}) do not add up to the constant {:e} of the file; {}", pu1, pu2, 2.0 * offset, shown));
    }
    if preg != f64::max(pr1, pr2) {
        ctx.fail_prop(case, format!("printed regret {:e} is not the larger of {:e} and {:e}", preg, pr1, pr2));
    }
    // regrets: through the model's evaluator (the proven oracle) on the file game
    let mut req = "eval ".to_string();
    it_file.tree.ser(&mut req);
    req.push(' ');
    ser_named(&named[0], &mut req);
    req.push(' ');
    ser_named(&named[1], &mut req);
    let resp = ctx.model.ask(&req);
    let mut tk = Toks::new(&resp);
    if tk.tok() == "ok" {
        let (mu, m1, m2) = (tk.f(), tk.f(), tk.f());
        if !(close_tol(mu, pu1, tol) && close_tol(m1, pr1, tol) && close_tol(m2, pr2, tol)) {
            ctx.fail_prop(case, format!("printed utility/regrets ({:e}; {:e}, {:e}); the evaluator on the file game gives ({:e}; {:e}, {:e}); {}", pu1, pr1, pr2, mu, m1, m2, shown));
        }
    } else {
        ctx.fail_corr(case, format!("model could not evaluate the printed strategies: {}", resp));
    }
    for p in 0..2 {
        let np = num_pure(&it_file.tree, p);
        if np <= 1024 && np.saturating_mul(it_file.tree.size() as u64) <= 1_000_000 {
            let br = brute_br(&it_file.tree, &beh, p);
            let up = if p == 0 { u1 } else { -u1 };
            let want = f64::max(br - up, 0.0);
            let got = if p == 0 { pr1 } else { pr2 };
            if !close_tol(want, got, tol) {
                ctx.fail_prop(case, format!("printed regret of player {} is {:e}; best unilateral gain on the file game is {:e}", p + 1, got, want));
            }
        }
    }
    // the program against its model (lean/CfrVerif/Model/Cli.lean) on the AST the third-party
    // parser returns for this very text
    let ast = ast_of(&content);
    let right_kind = matches!((&ast, gambit), (Ast::Gambit(..), true) | (Ast::Json(..), false));
    if !right_kind {
        ctx.fail_corr(case, format!("the harness could not obtain the AST of a generated {} file; {}", format, shown));
    } else {
        // the conversion on its own: the model's argument of from_root against the generator's game
        if let Some(req) = ast.raw_request() {
            let resp = ctx.model.ask(&req);
            ctx.stat("cli_model_raw_requests");
            let mut ok = false;
            if let Some(body) = resp.strip_prefix("ok ") {
                let mut tk = Toks::new(body);
                let msum = tk.f();
                let rest = tk.rest().join(" ");
                match T::parse_line(&rest) {
                    Some(mt) => match raw_equiv(&mt, &it.tree, 1e-12 * sc) {
                        Ok(()) if close_tol(msum, offset, 1e-12 * sc) => ok = true,
                        Ok(()) => ctx.fail_corr(case, format!("the model's conversion extracts the offset {:e}, the file was written with {:e}; {}", msum, offset, shown)),
                        Err(e) => ctx.fail_corr(case, format!("the model's conversion of the AST is not the game the file was written from: {}; {}", e, shown)),
                    },
                    None => ctx.fail_corr(case, format!("unreadable cli-raw answer {:?}", &resp[..resp.len().min(200)])),
                }
            } else {
                ctx.fail_corr(case, format!("the model's conversion rejects a generated valid file: {}; {}", &resp[..resp.len().min(200)], shown));
            }
            if ok {
                ctx.stat("cli_model_raw_agree");
            }
        }
        let opts = Opts { method: method.to_string(), discount: preset.to_string(), t: iters, r: maxreg, p: par, c: clip };
        if opts.reproducible() {
            let (mfmt, mkind) = route_fmt_kind(route, format);
            let resp = ctx.model.ask(&ast.run_request(&mfmt, mkind, &opts));
            ctx.stat("cli_model_run_requests");
            compare_run(ctx, case, &ast, &resp, run.status, &text, &run.stderr, sc, &shown.to_string());
        } else {
            compare_eval(ctx, case, &ast, &v, sc, &shown.to_string());
        }
    }
    // C16: the options select the library behaviour
    if case["compare_library"].as_bool().unwrap_or(false) && method == "full" {
        let params = match preset {
            "vanilla" => Params::vanilla(),
            "lcfr" => Params::lcfr(),
            "cfr-plus" => Params::cfr_plus(),
            "dcfr-prune" => Params::dcfr_prune(),
            _ => Params::dcfr(),
        };
        match build(&it.tree) {
            Err(e) => ctx.fail_prop(case, format!("the library rejects the game of a file the program solved: {:?}", e)),
            Ok(g) => {
                let max_iters = if iters == 0 { u64::MAX } else { iters };
                match g.solve(SolveMethod::Full, max_iters, maxreg, par as usize, Some(params.to_lib())) {
                    Err(e) => ctx.fail_prop(case, format!("library solve failed: {:?}", e)),
                    Ok((s, _)) => {
                        let info = s.get_info();
                        let mut pruned = s.clone();
                        pruned.truncate(clip);
                        let pinfo = pruned.get_info();
                        let unpruned_named = drain_named(&s);
                        let pruned_named = drain_named(&pruned);
                        let use_pruned = pinfo.regret() < info.regret();
                        // the two processes may differ in the last place: at a knife edge of the
                        // clip decision either profile is accepted
                        let knife = (pinfo.regret() - info.regret()).abs() <= 1e-9 * sc;
                        if use_pruned {
                            ctx.stat("clip_pruned_profile_expected");
                        }
                        let dist = |w: &[Named; 2]| named_diff(&w[0], &named[0]).max(named_diff(&w[1], &named[1]));
                        let d = if use_pruned { dist(&pruned_named) } else { dist(&unpruned_named) };
                        let d_other = if use_pruned { dist(&unpruned_named) } else { dist(&pruned_named) };
                        if d <= 1e-8 {
                            ctx.stat("matches_library");
                            if d == 0.0 {
                                ctx.stat("matches_library_bit_equal");
                            }
                        } else if knife && d_other <= 1e-8 && pinfo.regret() == info.regret() && !use_pruned && par == 1 {
                            // an exact tie computed by the same code in both processes: "printed
                            // exactly when its regret is strictly lower" decides it
                            ctx.fail_prop(case, format!("the pruned profile was printed although its regret {:e} is not lower than the unpruned one's {:e}; {}", pinfo.regret(), info.regret(), shown));
                        } else if knife && d_other <= 1e-8 {
                            ctx.skipped_illcond += 1;
                        } else if {
                            // the file's game and the generator's differ by the constant-sum offset
                            // the program computes (a payoff shift): where the trajectory hangs on an
                            // exact zero of a cumulative regret, rounding decides it
                            let c1 = crate::solve_props::Cfg { method: "F".into(), params, iters: iters.min(200), thr: maxreg, threads: 1, target: None, seed: 0 };
                            crate::solve_props::model_margin(ctx, &it.tree, &c1) < 1e-6
                        } {
                            ctx.skipped_illcond += 1;
                            ctx.stat("library_comparison_ill_conditioned");
                        } else {
                            ctx.fail_prop(case, format!("printed strategies differ from Game::solve with the same parameters{} by {:e}; {}", if clip > 0.0 { " and clip step" } else { "" }, d, shown));
                        }
                        let _ = PlayerNum::One;
                    }
                }
            }
        }
    }
    let mut h = t.hash() ^ mix64(nseed);
    for a in &args {
        for b in a.bytes() {
            h = (h ^ b as u64).wrapping_mul(0x100000001b3);
        }
    }
    ctx.count(h, t.size() >= 3);
}

fn cli_game(ctx: &mut Ctx, i: u64) -> T {
    loop {
        let mut cfg = if i % 3 == 0 { ObsCfg::medium() } else { ObsCfg::small() };
        cfg.int_payoffs = i % 2 == 0;
        cfg.max_nodes = cfg.max_nodes.min(120);
        let t = match i % 9 {
            7 => kuhn(3),
            8 => adversarial(&mut ctx.rng, i / 9),
            // payoff-equivalent actions: regrets tie exactly, so whatever is decided by comparing
            // two regrets (the clip step) is decided by the rule for ties
            6 => {
                let flat = if (i / 9) % 2 == 0 { 0.0 } else { 0.5 };
                gen_obs(&mut ctx.rng, &cfg).map_payoffs(&|_| flat)
            }
            _ => gen_obs(&mut ctx.rng, &cfg),
        };
        // payoffs are rounded to multiples of 1/8 by the naming step; deep chains are too big for a file
        if t.size() <= 300 && build(&t).is_ok() {
            return t;
        }
    }
}

fn gen_cli_case(ctx: &mut Ctx, i: u64, compare_library: bool) -> Value {
    let t = cli_game(ctx, i);
    // JSON files nested deeper than serde_json's recursion limit (128 values, about 42 game levels)
    // are rejected: known finding F29, excluded here by its class predicate
    let gambit = ctx.rng.chance(0.5) || t.depth() > JSON_MAX_DEPTH;
    let method = if compare_library { "full" } else { *ctx.rng.pick(&["full", "sampled", "external"]) };
    let k = if gambit { *ctx.rng.pick(&[0.0, 0.0, 1.0, 4.0, -2.5, 10.0]) } else { 0.0 };
    // clip thresholds: ordinary ones, and values a probability can be exactly equal to (the
    // uniform start 1/n survives a single iteration's average; "only actions above the threshold")
    let clip = *ctx.rng.pick(&[0.0, 0.0, 0.01, 0.1, 0.3, 0.6, 0.5, 0.25, 1.0 / 3.0, 0.2]);
    let exact_clip = clip == 0.5 || clip == 0.25 || clip == 1.0 / 3.0 || clip == 0.2;
    json!({
        "op": "cli", "tree": t.to_json(), "nseed": ctx.rng.next() >> 12,
        "format": if gambit { "gambit" } else { "json" },
        "k": k, "interior": gambit && ctx.rng.chance(0.6),
        "efg": if gambit && ctx.rng.chance(0.7) { EfgFeat::random(&mut ctx.rng).to_json() } else { EfgFeat::default().to_json() },
        "method": method,
        "discount": *ctx.rng.pick(&["vanilla", "lcfr", "cfr-plus", "dcfr", "dcfr-prune"]),
        "t": if exact_clip && ctx.rng.chance(0.6) { 1 } else { *ctx.rng.pick(&[1u64, 2, 5, 20, 60]) },
        "r": *ctx.rng.pick(&[0.0, 0.0, 0.05, 0.5]),
        "p": if compare_library { *ctx.rng.pick(&[1u64, 1, 1, 2]) } else { *ctx.rng.pick(&[0u64, 1, 2, 3]) },
        "c": clip,
        "route": *ctx.rng.pick(&["file-ext", "file-ext", "stdin-auto", "stdin-explicit", "file-other-auto", "file-other-explicit", "file-wrong-ext-explicit"]),
        "outfile": ctx.rng.chance(0.25),
        "compare_library": compare_library,
    })
}

pub fn c15(ctx: &mut Ctx) -> String {
    let n = if ctx.thorough { 4000 } else { 260 };
    for i in 0..n {
        if ctx.out_of_time() {
            break;
        }
        let case = gen_cli_case(ctx, i, false);
        if i < 2 {
            ctx.sample(json!({"format": case["format"], "k": case["k"], "method": case["method"], "discount": case["discount"], "route": case["route"], "tree_line": T::from_json(&case["tree"]).unwrap().to_line()}));
        }
        case_cli(ctx, &case);
    }
    // the largest representable payoffs: a constant-sum file whose two payoffs each fit in a double,
    // as does half their sum, while the sum itself does not
    {
        let txt = "EFG 2 R \"huge\" { \"one\" \"two\" }\np \"\" 1 1 \"r\" { \"a\" \"b\" } 0\nt \"\" 1 { 1.00000001e308 0.99999999e308 }\nt \"\" 2 { 0.99999999e308 1.00000001e308 }\n";
        let case = json!({"op": "cli-huge-sum", "input": txt});
        for fmt in ["gambit", "auto"] {
            let run = run_cfr(ctx, &["--input-format".to_string(), fmt.to_string(), "-m".to_string(), "full".to_string(), "-t".to_string(), "1".to_string(), "-p".to_string(), "1".to_string()], Some(txt));
            ctx.stat("huge_constant_sum_runs");
            match (run.status, serde_json::from_str::<Value>(&run.stdout)) {
                (Some(0), Ok(v)) => {
                    let (u1, u2) = (v["player_one_utility"].as_f64().unwrap_or(f64::NAN), v["player_two_utility"].as_f64().unwrap_or(f64::NAN));
                    // each player's own payoffs lie in [0.99999999e308, 1.00000001e308]
                    if !(u1 >= 0.9999e308 && u1 <= 1.0001e308 && u2 >= 0.9999e308 && u2 <= 1.0001e308) {
                        ctx.fail_prop(&case, format!("payoffs of about 1e308 for both players, printed utilities ({:e}, {:e})", u1, u2));
                    }
                }
                (st, _) => ctx.fail_prop(&case, format!("a valid constant-sum Gambit file with payoffs near the largest double was not solved ({}): exit status {:?}, stderr {:?}", fmt, st, &run.stderr[..run.stderr.len().min(300)])),
            }
        }
    }
    "generated valid JSON-DSL and Gambit files (constant sums 0, 1, 4, -2.5, 10; payoffs attached to interior nodes; shared outcomes; unnamed infosets; rational chance probabilities; action lists in non-sorted order) x methods x presets x -t x -r x -p x -c x input routes x output destination; the printed strategies are re-evaluated on the game as written in the file by an independent evaluator, by the model's evaluator and (small games) by brute force over pure strategies; Gambit files also use outcomes referred to by number only, one outcome on interior nodes and terminals, interior outcomes paying the players differently, decimal / exponent payoffs, several interior outcomes on a path, pair sums varying inside the 0.1 % tolerance; every file's text is parsed by the real gambit-parser / serde_json into the AST the program sees and given to the model of the command-line layer (Model/Cli.lean): its conversion (cli-raw) against the generator's game, its whole run (-m full -p 1) against the printed object, otherwise its evaluation of the printed strategies (cli-eval) against the printed numbers".to_string()
}

pub fn c16(ctx: &mut Ctx) -> String {
    let n = if ctx.thorough { 3000 } else { 220 };
    for i in 0..n {
        if ctx.out_of_time() {
            break;
        }
        let case = gen_cli_case(ctx, i, true);
        if i < 2 {
            ctx.sample(json!({"format": case["format"], "k": case["k"], "discount": case["discount"], "t": case["t"], "r": case["r"], "p": case["p"], "c": case["c"], "route": case["route"], "outfile": case["outfile"]}));
        }
        case_cli(ctx, &case);
        // a JSON and a Gambit encoding of the same game give the same solution
        if i % 4 == 0 && T::from_json(&case["tree"]).map(|t| t.depth() <= JSON_MAX_DEPTH).unwrap_or(false) {
            let mut tw = case.clone();
            tw["op"] = json!("cli-twins");
            case_twins(ctx, &tw);
        }
    }
    // zero iterations means no limit: needs a positive regret threshold
    let t = kuhn(3);
    let case = json!({"op": "cli", "tree": t.to_json(), "nseed": 5, "format": "json", "k": 0.0, "method": "full", "discount": "dcfr",
        "t": 0, "r": 0.05, "p": 1, "c": 0.0, "route": "file-ext", "outfile": false, "compare_library": true});
    case_cli(ctx, &case);
    "generated valid files x -m full x -d x -t (incl. 0 = unlimited with -r > 0) x -r x -p {1, 2} x -c x input routes {file by extension, stdin auto, stdin explicit, other extension auto / explicit} x {-o file, stdout}: printed strategies against Game::solve + truncate + get_info called in-process with the mapped arguments (bit-equal for -p 1); JSON / Gambit twins of one game; the same runs against the model of the command-line layer (Model/Cli.lean: format selection, conversion, option mapping, solve, clip step, output assembly) on the AST the real third-party parser returns for the file text".to_string()
}

/// a JSON and a Gambit encoding of the same game give the same solution (`-m full -p 1`)
pub fn case_twins(ctx: &mut Ctx, case: &Value) {
    ctx.record_current(case);
    let mut a = case.clone();
    let mut b = case.clone();
    a["format"] = json!("json");
    a["k"] = json!(0.0);
    b["format"] = json!("gambit");
    b["k"] = json!(0.0);
    b["interior"] = json!(false);
    // the same game: pair sums exactly constant (a file whose sums vary inside the tolerance
    // is read as a slightly shifted game)
    if b["efg"].is_object() {
        b["efg"]["near"] = json!("off");
    }
    for c in [&mut a, &mut b] {
        c["route"] = json!("file-ext");
        c["outfile"] = json!(false);
        c["p"] = json!(1);
    }
    let ra = twin_output(ctx, &a);
    let rb = twin_output(ctx, &b);
    match (ra, rb) {
        (Some(x), Some(y)) => {
            let d = named_diff(&x[0], &y[0]).max(named_diff(&x[1], &y[1]));
            if !(d <= 1e-9) {
                // the two files give the program two games that differ by how the payoffs
                // are written (offset, order of additions): where the trajectory hangs on
                // an exact tie, or a probability sits at the clip threshold, the last bit
                // decides and the two runs may legitimately part
                let tree = T::from_json(&case["tree"]).unwrap();
                let preset = case["discount"].as_str().unwrap_or("dcfr");
                let params = match preset {
                    "vanilla" => Params::vanilla(),
                    "lcfr" => Params::lcfr(),
                    "cfr-plus" => Params::cfr_plus(),
                    "dcfr-prune" => Params::dcfr_prune(),
                    _ => Params::dcfr(),
                };
                let iters = case["t"].as_u64().unwrap_or(1);
                let maxreg = case["r"].as_f64().unwrap_or(0.0);
                let clip = case["c"].as_f64().unwrap_or(0.0);
                let c1 = crate::solve_props::Cfg { method: "F".into(), params, iters: iters.min(200), thr: maxreg, threads: 1, target: None, seed: 0 };
                // ... measured on each of the two games as the program sees them (action order
                // differs between the formats: a tie between the first and a later action is
                // broken by position)
                let mut margin = crate::solve_props::model_margin(ctx, &tree, &c1);
                {
                    let (t0, nseed) = case_ng(case);
                    let mut nrng = Rng::new(nseed);
                    let (ng, names) = name_game(&mut nrng, &t0);
                    for gambit in [false, true] {
                        let it = intern(&ng, &names, 0.0, gambit);
                        margin = margin.min(crate::solve_props::model_margin(ctx, &it.tree, &c1));
                    }
                }
                let at_clip = clip > 0.0 && build(&tree).ok().and_then(|g| g.solve(SolveMethod::Full, iters, maxreg, 1, Some(params.to_lib())).ok().map(|(s, _)| {
                    let n = drain_named(&s);
                    n.iter().flatten().flat_map(|(_, acts)| acts.iter()).any(|(_, p)| (p - clip).abs() <= 1e-6 * clip)
                })).unwrap_or(false);
                if margin < 1e-6 || at_clip {
                    ctx.skipped_illcond += 1;
                    ctx.stat("twin_comparison_ill_conditioned");
                } else {
                    ctx.fail_prop(&a, format!("the JSON and the Gambit encoding of one game give solutions differing by {:e} (conditioning margin {:e})", d, margin));
                }
            } else {
                ctx.stat("json_gambit_twins_agree");
            }
        }
        _ => ctx.fail_prop(&a, "a twin encoding could not be solved".to_string()),
    }
}

/// C12 at the command line: adding a constant to both players' payoffs of a Gambit file (constant
/// sum 2c instead of 0) shifts both printed utilities by c and changes nothing else
pub fn case_shift(ctx: &mut Ctx, case: &Value) {
    ctx.record_current(case);
    let (t, nseed) = case_ng(case);
    let c = case["shift"].as_f64().unwrap_or(1.0);
    let discount = case["discount"].as_str().unwrap_or("dcfr").to_string();
    let iters = case["t"].as_u64().unwrap_or(5);
    let mut run_one = |ctx: &mut Ctx, tree: &T, k: f64, tag: &str| -> Option<([Named; 2], [f64; 5])> {
        let mut nrng = Rng::new(nseed);
        let (ng, names) = name_game(&mut nrng, tree);
        let content = to_efg_file(&mut nrng, &ng, &names, k, false, &EfgFeat::default()).text;
        let f = scratch_file(ctx, &format!("shift-{}.efg", tag), &content);
        let args: Vec<String> = vec!["-m".into(), "full".into(), "-d".into(), discount.clone(), "-t".into(), iters.to_string(), "-p".into(), "1".into(), "-i".into(), f];
        let run = run_cfr(ctx, &args, None);
        if run.status != Some(0) {
            return None;
        }
        let v: Value = serde_json::from_str(&run.stdout).ok()?;
        let it = intern(&ng, &names, 0.0, true);
        let named = printed_named(&v, &it, &names, &it.tree).ok()?;
        let num = |k: &str| v.get(k).and_then(|x| x.as_f64()).unwrap_or(f64::NAN);
        Some((named, [num("player_one_utility"), num("player_two_utility"), num("player_one_regret"), num("player_two_regret"), num("regret")]))
    };
    let shifted = t.map_payoffs(&|p| p + c);
    let (a, b) = match (run_one(ctx, &t, 0.0, "a"), run_one(ctx, &shifted, 2.0 * c, "b")) {
        (Some(a), Some(b)) => (a, b),
        _ => return ctx.fail_prop(case, "a valid Gambit file (or the same game with a constant added to all payoffs) was not solved".to_string()),
    };
    ctx.stat("cli_shift_pairs");
    let sc = {
        let mut pv = Vec::new();
        shifted.payoffs(&mut pv);
        t.payoffs(&mut pv);
        pv.iter().fold(1.0f64, |x, y| x.max(y.abs()))
    };
    let d = named_diff(&a.0[0], &b.0[0]).max(named_diff(&a.0[1], &b.0[1]));
    if !(d <= 1e-8) {
        // a payoff shift changes the rounding of every regret: exact ties may be broken differently
        let params = match discount.as_str() {
            "vanilla" => Params::vanilla(),
            "lcfr" => Params::lcfr(),
            "cfr-plus" => Params::cfr_plus(),
            "dcfr-prune" => Params::dcfr_prune(),
            _ => Params::dcfr(),
        };
        let c1 = crate::solve_props::Cfg { method: "F".into(), params, iters, thr: 0.0, threads: 1, target: None, seed: 0 };
        let mut nrng = Rng::new(nseed);
        let (ng, names) = name_game(&mut nrng, &t);
        let it = intern(&ng, &names, 0.0, true);
        let margin = crate::solve_props::model_margin(ctx, &it.tree, &c1);
        if margin < 1e-6 {
            ctx.skipped_illcond += 1;
            ctx.stat("cli_shift_ill_conditioned");
        } else {
            ctx.fail_prop(case, format!("adding {} to all payoffs changes the printed strategies by {:e} (conditioning margin {:e})", c, d, margin));
        }
        return;
    }
    let tol = 1e-9 * sc;
    let (x, y) = (a.1, b.1);
    if !(close_tol(x[0] + c, y[0], tol) && close_tol(x[1] + c, y[1], tol)) {
        ctx.fail_prop(case, format!("adding {} to all payoffs: printed utilities ({:e}, {:e}) became ({:e}, {:e}), expected both shifted by the constant", c, x[0], x[1], y[0], y[1]));
    }
    if !(close_tol(x[2], y[2], tol) && close_tol(x[3], y[3], tol) && close_tol(x[4], y[4], tol)) {
        ctx.fail_prop(case, format!("adding {} to all payoffs changes the printed regrets: {:?} vs {:?}", c, &x[2..], &y[2..]));
    }
}

/// C12 at the command line: single-outcome chance nodes inserted into a Gambit file whose interior
/// nodes carry outcomes (payoffs collected along the path) change nothing that is printed.
pub fn case_degenerate_cli(ctx: &mut Ctx, case: &Value) {
    ctx.record_current(case);
    let (t, nseed) = case_ng(case);
    let discount = case["discount"].as_str().unwrap_or("dcfr").to_string();
    let iters = case["t"].as_u64().unwrap_or(5);
    let mut nrng = Rng::new(nseed);
    let (ng, names) = name_game(&mut nrng, &t);
    // insert `Chance(None, [only outcome])` above randomly chosen nodes (never renames anything)
    fn ins(rng: &mut Rng, g: &NG, count: &mut u64) -> NG {
        let inner = match g {
            NG::Term(p) => NG::Term(*p),
            NG::Chance(i, o) => NG::Chance(*i, o.iter().map(|(n, w, c)| (n.clone(), *w, ins(rng, c, count))).collect()),
            NG::Player(p, i, a) => NG::Player(*p, *i, a.iter().map(|(n, c)| (n.clone(), ins(rng, c, count))).collect()),
        };
        if rng.chance(0.3) {
            *count += 1;
            NG::Chance(None, vec![("only".to_string(), 1 + rng.below(5) as u32, inner)])
        } else {
            inner
        }
    }
    let mut count = 0;
    let ng2 = ins(&mut nrng, &ng, &mut count);
    if count == 0 {
        return;
    }
    let feat = EfgFeat { dense: true, ..EfgFeat::default() };
    let mut run_one = |ctx: &mut Ctx, g: &NG, tag: &str, seed: u64| -> Option<([Named; 2], [f64; 5])> {
        let mut r = Rng::new(seed);
        let content = to_efg_file(&mut r, g, &names, 0.0, true, &feat).text;
        let f = scratch_file(ctx, &format!("degenerate-{}.efg", tag), &content);
        let args: Vec<String> = vec!["-m".into(), "full".into(), "-d".into(), discount.clone(), "-t".into(), iters.to_string(), "-p".into(), "1".into(), "-i".into(), f];
        let run = run_cfr(ctx, &args, None);
        if run.status != Some(0) {
            return None;
        }
        let v: Value = serde_json::from_str(&run.stdout).ok()?;
        let it = intern(g, &names, 0.0, true);
        let named = printed_named(&v, &it, &names, &it.tree).ok()?;
        let num = |k: &str| v.get(k).and_then(|x| x.as_f64()).unwrap_or(f64::NAN);
        Some((named, [num("player_one_utility"), num("player_two_utility"), num("player_one_regret"), num("player_two_regret"), num("regret")]))
    };
    let (a, b) = match (run_one(ctx, &ng, "a", nseed ^ 0x55), run_one(ctx, &ng2, "b", nseed ^ 0xaa)) {
        (Some(a), Some(b)) => (a, b),
        _ => return ctx.fail_prop(case, "a valid Gambit file (or the same game with single-outcome chance nodes inserted) was not solved".to_string()),
    };
    ctx.stat("cli_degenerate_pairs");
    let sc = {
        let mut pv = Vec::new();
        t.payoffs(&mut pv);
        pv.iter().fold(1.0f64, |x, y| x.max(y.abs()))
    };
    let d = named_diff(&a.0[0], &b.0[0]).max(named_diff(&a.0[1], &b.0[1]));
    if !(d <= 1e-8) {
        // the inserted nodes multiply reach probabilities by w/w = 1 exactly, but the interior
        // outcomes of the two files are split differently along the paths: terminal payoffs are
        // sums in a different order, and exact ties may be broken differently
        let params = match discount.as_str() {
            "vanilla" => Params::vanilla(),
            "lcfr" => Params::lcfr(),
            "cfr-plus" => Params::cfr_plus(),
            "dcfr-prune" => Params::dcfr_prune(),
            _ => Params::dcfr(),
        };
        let c1 = crate::solve_props::Cfg { method: "F".into(), params, iters, thr: 0.0, threads: 1, target: None, seed: 0 };
        let it = intern(&ng, &names, 0.0, true);
        let margin = crate::solve_props::model_margin(ctx, &it.tree, &c1);
        if margin < 1e-6 {
            ctx.skipped_illcond += 1;
            ctx.stat("cli_degenerate_ill_conditioned");
        } else {
            ctx.fail_prop(case, format!("inserting {} single-outcome chance nodes into the Gambit file changes the printed strategies by {:e} (conditioning margin {:e})", count, d, margin));
        }
        return;
    }
    let tol = 1e-9 * sc;
    let (x, y) = (a.1, b.1);
    if !(0..5).all(|k| close_tol(x[k], y[k], tol)) {
        ctx.fail_prop(case, format!("inserting {} single-outcome chance nodes into the Gambit file changes the printed numbers: {:?} vs {:?}", count, x, y));
    }
}

/// C10 at the command line: a Gambit chance infoset (whatever its number, 0 included) met at two
/// nodes in one pass follows ONE draw.  Player one picks `a` or `b`; behind each sits a coin of the
/// same chance infoset, `a` wins on heads, `b` on tails.  With a shared draw exactly one of the two
/// wins in a pass, so after two chance-sampled iterations the average strategy is {3/4, 1/4} one
/// way or the other whatever was drawn; with separate draws it is {1/2, 1/2} half of the time.
pub fn shared_coin(ctx: &mut Ctx) {
    for infoset in [0u32, 1, 7] {
        let text = format!(
            "EFG 2 R \"coin\" {{ \"one\" \"two\" }}\np \"\" 1 1 \"pick\" {{ \"a\" \"b\" }} 0\nc \"\" {i} \"coin\" {{ \"H\" 1/2 \"T\" 1/2 }} 0\nt \"\" 1 \"win\" {{ 1 -1 }}\nt \"\" 2 \"lose\" {{ 0 0 }}\nc \"\" {i} \"coin\" {{ \"H\" 1/2 \"T\" 1/2 }} 0\nt \"\" 2 \"lose\" {{ 0 0 }}\nt \"\" 1 \"win\" {{ 1 -1 }}\n",
            i = infoset
        );
        for threads in ["1", "2"] {
            for rep in 0..24 {
                let args: Vec<String> = ["--input-format", "gambit", "-m", "sampled", "-d", "vanilla", "-t", "2", "-p", threads].iter().map(|x| x.to_string()).collect();
                let run = run_cfr(ctx, &args, Some(&text));
                ctx.stat("shared_coin_runs");
                let case = json!({"op": "cli-shared-coin", "infoset": infoset, "threads": threads, "rep": rep, "input": text});
                let v: Value = match (run.status, serde_json::from_str(&run.stdout)) {
                    (Some(0), Ok(v)) => v,
                    (st, _) => {
                        ctx.fail_prop(&case, format!("a valid Gambit file was not solved: exit status {:?}", st));
                        return;
                    }
                };
                let pa = v["player_one_strategy"]["pick"]["a"].as_f64().unwrap_or(0.0);
                let pb = v["player_one_strategy"]["pick"]["b"].as_f64().unwrap_or(0.0);
                if !((pa.max(pb) - 0.75).abs() < 1e-9 && (pa.min(pb) - 0.25).abs() < 1e-9) {
                    ctx.fail_prop(&case, format!("chance infoset {} met at two nodes ({} thread(s), run {}): the average strategy after two chance-sampled iterations is ({}, {}), which a shared draw cannot produce", infoset, threads, rep, pa, pb));
                    return;
                }
            }
        }
    }
}

fn twin_output(ctx: &mut Ctx, case: &Value) -> Option<[Named; 2]> {
    let (t, nseed) = case_ng(case);
    let mut nrng = Rng::new(nseed);
    let (ng, names) = name_game(&mut nrng, &t);
    let gambit = case["format"].as_str() == Some("gambit");
    let content = if gambit { to_efg_file(&mut nrng, &ng, &names, 0.0, false, &EfgFeat::default()).text } else { to_json_file(&ng, &names) };
    if let Ok(dir) = std::env::var("VERIF_DEBUG_TWINS") {
        let _ = std::fs::write(format!("{}/twin.{}", dir, if gambit { "efg" } else { "json" }), &content);
    }
    let f = scratch_file(ctx, if gambit { "twin.efg" } else { "twin.json" }, &content);
    let args: Vec<String> = vec![
        "-m".into(), "full".into(), "-d".into(), case["discount"].as_str().unwrap_or("dcfr").into(),
        "-t".into(), case["t"].as_u64().unwrap_or(5).to_string(), "-p".into(), "1".into(), "-i".into(), f,
    ];
    let run = run_cfr(ctx, &args, None);
    if run.status != Some(0) {
        return None;
    }
    let v: Value = serde_json::from_str(&run.stdout).ok()?;
    let it = intern(&ng, &names, 0.0, gambit);
    printed_named(&v, &it, &names, &it.tree).ok()
}

// ---------------------------------------------------------------------------------------------
// C17

/// One run of the binary on an input that is (mostly) not a valid game, under one input route:
/// the property's oracle (non-zero exit, empty stdout, diagnostic naming the expected category;
/// `"accept"` = the input is a valid game and must be solved) and the model's prediction for the
/// AST the third-party parsers return on these very bytes.
pub fn case_reject(ctx: &mut Ctx, case: &Value) {
    ctx.record_current(case);
    let bad = case["input"].as_str().unwrap_or("");
    let format = case["format"].as_str().unwrap_or("json");
    let route = case["route"].as_str().unwrap_or("explicit");
    let what = case["corruption"].as_str().unwrap_or("");
    let expect = case["expected_category"].as_str().unwrap_or("");
    // the format named on the command line when the route names one
    let flag = case["explicit_format"].as_str().unwrap_or(format);
    let opts = Opts { method: "full".into(), discount: "dcfr".into(), t: 5, r: 0.0, p: 1, c: 0.0 };
    let mut args: Vec<String> = vec!["-m".into(), "full".into(), "-t".into(), "5".into(), "-p".into(), "1".into()];
    let mut stdin = None;
    let (mfmt, mkind): (String, &str) = match route {
        "explicit" => {
            args.extend(["--input-format".to_string(), flag.to_string()]);
            stdin = Some(bad);
            (flag.to_string(), "stdin")
        }
        "auto" => {
            stdin = Some(bad);
            ("auto".to_string(), "stdin")
        }
        "explicit-file" => {
            // the format named on the command line, and a file whose extension says the opposite:
            // the named format decides
            let ext = if flag == "gambit" { "json" } else { "efg" };
            let f = scratch_file(ctx, &format!("bad.{}", ext), bad);
            args.extend(["--input-format".to_string(), flag.to_string(), "-i".to_string(), f]);
            (flag.to_string(), ext)
        }
        _ => {
            // a file whose extension selects the reader
            let ext = if format == "gambit" { "efg" } else { "json" };
            let f = scratch_file(ctx, &format!("bad.{}", ext), bad);
            args.extend(["-i".to_string(), f]);
            ("auto".to_string(), ext)
        }
    };
    let run = run_cfr(ctx, &args, stdin);
    ctx.stat(&format!("corruption_{}_{}", format, what));
    ctx.stat(&format!("reject_route_{}", route));
    let shown = json!({"corruption": what, "format": format, "route": route, "args": args}).to_string();
    if expect == "accept" {
        let solved = run.status == Some(0) && serde_json::from_str::<Value>(&run.stdout).map(|v| v.is_object()).unwrap_or(false);
        if !solved {
            ctx.fail_prop(case, format!("{} ({}, {}): a valid game was not solved: exit status {:?}, stderr {:?}", what, format, route, run.status, &run.stderr[..run.stderr.len().min(300)]));
        }
    } else {
        let solved = run.status == Some(0);
        if solved || !run.stdout.trim().is_empty() {
            ctx.fail_prop(case, format!("{} ({}, {} format): exit status {:?}, stdout {:?}", what, format, route, run.status, &run.stdout[..run.stdout.len().min(200)]));
        } else {
            let parse_level = expect.split('|').any(|x| x == "json-error" || x == "gambit-error");
            let auto_want = format!("{}|auto-error", expect);
            let want: &str = if route == "auto" && parse_level { &auto_want } else { expect };
            // with auto-detection a file that one parser accepts surfaces that parser's later diagnostic
            let names_one = |w: &str| w.split('|').any(|x| run.stderr.contains(x));
            if !want.is_empty() && !names_one(want) && !(route == "auto" && names_one(expect)) {
                ctx.fail_prop(case, format!("{} ({}, {}): diagnostic does not name {:?}: {:?}", what, format, route, want, &run.stderr[..run.stderr.len().min(400)]));
            }
        }
    }
    // the model on the AST of these bytes
    let ast = ast_of(bad);
    ctx.stat(match &ast {
        Ast::Json(..) => "cli_model_reject_ast_json",
        Ast::Gambit(..) => "cli_model_reject_ast_gambit",
        Ast::Unparsed => "cli_model_reject_unparsed",
    });
    let resp = ctx.model.ask(&ast.run_request(&mfmt, mkind, &opts));
    ctx.stat("cli_model_run_requests");
    compare_run(ctx, case, &ast, &resp, run.status, &run.stdout, &run.stderr, 1.0, &shown);
    let mut h = mix64(what.len() as u64) ^ mix64(route.len() as u64 + 77);
    for b in bad.bytes().take(4000) {
        h = (h ^ b as u64).wrapping_mul(0x100000001b3);
    }
    ctx.count(h, true);
}

pub fn c17(ctx: &mut Ctx) -> String {
    let n = if ctx.thorough { 3000 } else { 240 };
    for i in 0..n {
        if ctx.out_of_time() {
            break;
        }
        let t = cli_game(ctx, i);
        let mut nrng = ctx.rng.fork();
        let (ng, names) = name_game(&mut nrng, &t);
        let gambit = i % 2 == 1;
        let k = if gambit { *ctx.rng.pick(&[0.0, 2.0]) } else { 0.0 };
        let good = if gambit { to_efg_file(&mut nrng, &ng, &names, k, false, &EfgFeat::default()).text } else { to_json_file(&ng, &names) };
        // (corrupted text, expected diagnostic category, "" when only rejection is required,
        //  "accept" when the text is a valid game)
        let kind = ctx.rng.below(if gambit { 22 } else { 15 });
        let mut other_format = false;
        let (bad, what, expect): (String, &str, &str) = if !gambit {
            match kind {
                0 => (good[..good.len() * 2 / 3].to_string(), "truncated", "json-error"),
                1 => (good.replacen("\"prob\"", "\"probability\"", 1), "renamed-field-prob", "json-error"),
                2 => (good.replacen("\"player_one\": true", "\"player_one\": 1", 1).replacen("\"player_one\": false", "\"player_one\": 0", 1), "wrong-type-player_one", "json-error"),
                3 => (good.replacen("\"terminal\": ", "\"terminal\": \"x\", \"y\": ", 1), "wrong-type-terminal", "json-error"),
                4 => (replace_first_prob(&good, "0.0"), "zero-probability", "game-error"),
                5 => (replace_first_prob(&good, "-1.0"), "negative-probability", "game-error"),
                6 => (good.replacen("\"actions\": {", "\"moves\": {", 1), "renamed-field-actions", "json-error"),
                7 => ("[1, 2, 3]".to_string(), "not-an-object", "json-error"),
                8 => (good.replacen("\"infoset\": \"", "\"infoset\": 5, \"x\": \"", 1), "wrong-type-infoset", "json-error"),
                9 => (drop_first_state(&good), "dropped-field-state", "json-error"),
                // every weight negated: the normalised "probabilities" would all be positive again
                13 | 14 => (good.replace("\"prob\": ", "\"prob\": -"), "all-probabilities-negated", "game-error"),
                10 | 11 => {
                    // a complete valid document followed by bytes that are not white space
                    let tail = *ctx.rng.pick(&["}", " ]", ",", "\n{\"terminal\": 0.0}", " x", "\n0", " \"", "\t}}", " {\"terminal\": 0.0", "null"]);
                    (format!("{}{}", good, tail), "trailing-bytes-after-the-document", "json-error")
                }
                _ => {
                    other_format = true;
                    (good.clone(), "valid-json-read-as-gambit", "gambit-error")
                }
            }
        } else {
            match kind {
                0 => (good[..good.len() * 2 / 3].trim_end().to_string(), "truncated", "gambit-error"),
                1 => (
                    good.replacen("{ \"one\" \"two\" }", "{ \"one\" \"two\" \"three\" }", 1)
                        .lines()
                        .map(|l| if l.starts_with("t ") { l.replacen(" }", ", 0 }", 1) } else { l.to_string() })
                        .collect::<Vec<_>>()
                        .join("\n"),
                    "three-players",
                    "only supports two player games",
                ),
                2 => (perturb_payoff(&good), "not-constant-sum", "constant-sum|gambit-error"),
                3 => (good.replacen("EFG 2 R", "EFG 3 X", 1), "bad-header", "gambit-error"),
                4 => (good.replacen("p \"\" 1 ", "p \"\" 3 ", 1), "player-number-three", "gambit-error"),
                5 => (break_probability(&good), "probabilities-do-not-sum-to-one", "gambit-error"),
                6 => (same_infoset_names(&good), "two-infosets-one-name", "duplicate-infosets"),
                7 => (number_name_clash(&good), "number-used-as-name", "duplicate-infosets"),
                8 => (good.replacen(" { ", " { \"dup\" \"dup\" ", 2), "garbled-action-list", ""),
                9 => (huge_payoffs(&good), "payoffs-beyond-double", "non-finite|gambit-error"),
                10 => (good.replace("t \"\"", "x \"\""), "unknown-node-kind", "gambit-error"),
                11 => (String::new(), "empty-input", "gambit-error"),
                12 => {
                    let tail = *ctx.rng.pick(&["t", " }", " 0", "t \"\" 1 { 0, 0 }\n", "x", "{}"]);
                    (format!("{}{}", good, tail), "trailing-bytes-after-the-document", "gambit-error")
                }
                13 | 14 => {
                    // one pair sum moved just beyond / just within the 0.1 % tolerance, in files using
                    // the whole grammar
                    let mut feat = EfgFeat::random(&mut ctx.rng);
                    feat.near = if kind == 13 { Near::Outside } else { Near::Inside };
                    let f = to_efg_file(&mut nrng, &ng, &names, k, true, &feat);
                    if f.spread == 0.0 {
                        (good.clone(), "not-applicable", "")
                    } else if kind == 13 {
                        (f.text, "pair-sum-just-beyond-the-tolerance", "constant-sum")
                    } else {
                        (f.text, "pair-sum-just-within-the-tolerance", "accept")
                    }
                }
                15 => (cross_player_name(&good), "one-name-for-infosets-of-both-players", "accept"),
                16 => (outcome_arity(&good), "three-payoffs-behind-a-forward-reference", ""),
                19 | 20 => (partial_name_clash(&good), "two-infosets-one-name-left-out-on-the-last-node", "duplicate-infosets"),
                17 | 18 => {
                    let v = ctx.rng.below(8) as usize;
                    (cancelling_infinities(&good, v), "overflows-of-opposite-sign-along-one-path", "non-finite|gambit-error")
                }
                _ => {
                    other_format = true;
                    (good.clone(), "valid-gambit-read-as-json", "json-error")
                }
            }
        };
        if (bad == good && !other_format) || what == "not-applicable" {
            ctx.stat("corruption_not_applicable");
            continue;
        }
        let format = if gambit { "gambit" } else { "json" };
        let routes: &[&str] = if other_format { &["explicit", "explicit-file"] } else if i % 4 == 0 { &["explicit", "auto", "file-ext", "explicit-file"] } else { &["explicit", "auto", "file-ext"] };
        for route in routes {
            let mut case = json!({"op": "cli-reject", "format": format, "corruption": what, "route": route, "expected_category": expect, "input": bad});
            if other_format {
                case["explicit_format"] = json!(if gambit { "json" } else { "gambit" });
            }
            case_reject(ctx, &case);
        }
        // contract violations of C11 surface as the game-error category
        if i % 3 == 2 {
            // every third case: a random small raw tree (the stream that probes `from_root` in C11),
            // written as a JSON file whenever it violates the contract and its names can be written
            for _ in 0..16 {
            let mut budget = ctx.rng.range(3, 10) as i64;
            let t2 = gen_small_raw(&mut ctx.rng, &mut budget, 0);
            let viol = violations(&t2);
            if !viol.is_empty() && !viol.contains("NonFinitePayoff") && !viol.contains("NonPositiveChance") && !viol.contains("EmptyChance") && !viol.contains("EmptyPlayer") {
                let (ng2, names2) = name_game(&mut nrng, &t2);
                if names_ok(&ng2) {
                    let txt = to_json_file(&ng2, &names2);
                    let it = intern(&ng2, &names2, 0.0, false);
                    if !violations(&it.tree).is_empty() {
                        let case = json!({"op": "cli-reject", "format": "json", "corruption": "contract-raw-tree", "input": txt});
                        let run = run_cfr(ctx, &["--input-format".to_string(), "json".to_string(), "-t".to_string(), "3".to_string(), "-m".to_string(), "full".to_string(), "-p".to_string(), "1".to_string()], Some(&txt));
                        ctx.stat("contract_violation_raw-tree");
                        if run.status == Some(0) || !run.stdout.trim().is_empty() {
                            ctx.fail_prop(&case, format!("a tree violating the library contract ({:?}) was solved", violations(&it.tree)));
                        } else if !run.stderr.contains("game-error") && !run.stderr.contains("json-error") {
                            ctx.fail_prop(&case, format!("contract violation {:?}: diagnostic names no documented category: {:?}", violations(&it.tree), &run.stderr[..run.stderr.len().min(300)]));
                        }
                        let ast = ast_of(&txt);
                        let opts = Opts { method: "full".into(), discount: "dcfr".into(), t: 3, r: 0.0, p: 1, c: 0.0 };
                        let resp = ctx.model.ask(&ast.run_request("json", "stdin", &opts));
                        ctx.stat("cli_model_run_requests");
                        compare_run(ctx, &case, &ast, &resp, run.status, &run.stdout, &run.stderr, 1.0, "contract-raw-tree");
                        ctx.count(t2.hash(), true);
                    }
                }
            }
            }
        }
        if i % 3 != 2 {
            // every third case on a game of the stream with any kind of violation; every third on
            // one infoset shared by several nodes with three or four actions, with the kinds that
            // make nodes of one infoset disagree (a dropped last action leaves a strict prefix)
            let (t2, planted) = if i % 3 == 0 {
                plant(&mut ctx.rng, &t)
            } else {
                let (w, a) = (ctx.rng.range(2, 4) as u32, ctx.rng.range(3, 4) as u32);
                let base = wide_infoset(&mut ctx.rng, w, a);
                let kind = *ctx.rng.pick(&[9u64, 9, 9, 3, 8, 6, 11, 5, 10, 4]);
                plant_kind(&mut ctx.rng, &base, kind)
            };
            if !violations(&t2).is_empty() && !matches!(planted, "nan-payoff") {
                let (ng2, names2) = name_game(&mut nrng, &t2);
                if names_ok(&ng2) {
                    let txt = to_json_file(&ng2, &names2);
                    let case = json!({"op": "cli-reject", "format": "json", "corruption": format!("contract-{}", planted), "input": txt});
                    let run = run_cfr(ctx, &["--input-format".to_string(), "json".to_string(), "-t".to_string(), "3".to_string(), "-m".to_string(), "full".to_string(), "-p".to_string(), "1".to_string()], Some(&txt));
                    ctx.stat(&format!("contract_violation_{}", planted));
                    // the file encoding merges duplicate action / outcome names (maps), which can repair a violation
                    let it = intern(&ng2, &names2, 0.0, false);
                    let still = !violations(&it.tree).is_empty();
                    if still && (run.status == Some(0) || !run.stdout.trim().is_empty()) {
                        ctx.fail_prop(&case, format!("a tree violating the library contract ({}) was solved", planted));
                    } else if still && !run.stderr.contains("game-error") && !run.stderr.contains("json-error") {
                        ctx.fail_prop(&case, format!("contract violation {}: diagnostic names no documented category: {:?}", planted, &run.stderr[..run.stderr.len().min(300)]));
                    }
                    // the model names the library error the program reports
                    let ast = ast_of(&txt);
                    let opts = Opts { method: "full".into(), discount: "dcfr".into(), t: 3, r: 0.0, p: 1, c: 0.0 };
                    let resp = ctx.model.ask(&ast.run_request("json", "stdin", &opts));
                    ctx.stat("cli_model_run_requests");
                    compare_run(ctx, &case, &ast, &resp, run.status, &run.stdout, &run.stderr, 1.0, &format!("contract-{}", planted));
                    ctx.count(t2.hash(), true);
                }
            }
        }
    }
    "systematic corruptions of generated valid files under explicit (stdin), auto-detected (stdin) and extension-selected (file) formats: JSON {truncation, renamed / dropped fields, wrong types, zero and negative probabilities, non-object, trailing bytes after a complete document, read as gambit}, Gambit {truncation, three players, payoffs perturbed beyond and just beyond / within the constant-sum tolerance, bad header, player number 3, probabilities not summing to one, two infosets with one name, number used as a name, one name across players (valid), garbled lists, payoffs beyond double range, three payoffs behind a forward reference, unknown node kind, empty input, trailing bytes, read as json}, library contract violations planted in JSON files; required: non-zero exit, empty stdout, diagnostic naming the documented category; every run is also compared with the model's (Model/Cli.lean) outcome for the AST the third-party parsers return on the same bytes".to_string()
}

/// give an infoset of player two the name of an infoset of player one (allowed: names are per player)
fn cross_player_name(s: &str) -> String {
    // the quoted token starting at `tag` (escapes inside it respected)
    let find = |tag: &str| -> Option<String> {
        let i = s.find(tag)?;
        let rest = &s[i + 1..];
        let mut esc = false;
        for (j, c) in rest.char_indices() {
            if esc {
                esc = false;
            } else if c == '\\' {
                esc = true;
            } else if c == '"' {
                return Some(rest[..j].to_string());
            }
        }
        None
    };
    match (find("\"I1-"), find("\"I2-")) {
        (Some(a), Some(b)) => s.replace(&format!("\"{}\"", b), &format!("\"{}\"", a)),
        _ => s.to_string(),
    }
}

/// the root refers to a new outcome by number only; the last terminal defines it with three payoffs:
/// gambit-parser's validate does not check the arity behind a forward reference
fn outcome_arity(s: &str) -> String {
    let lines: Vec<&str> = s.lines().collect();
    let root = match lines.iter().position(|l| l.starts_with("p ") || l.starts_with("c ") || l.starts_with("t ")) {
        Some(r) => r,
        None => return s.to_string(),
    };
    let last = match lines.iter().rposition(|l| l.starts_with("t ")) {
        Some(r) => r,
        None => return s.to_string(),
    };
    if lines[root].starts_with("t ") || !lines[root].ends_with(" 0") || last <= root {
        return s.to_string();
    }
    let mut out = String::new();
    for (i, l) in lines.iter().enumerate() {
        if i == root {
            out.push_str(&format!("{}9999", &l[..l.len() - 1]));
        } else if i == last {
            out.push_str("t \"\" 9999 { 1, 2, 3 }");
        } else {
            out.push_str(l);
        }
        out.push('\n');
    }
    out
}

fn names_ok(ng: &NG) -> bool {
    // duplicate action names inside a node collapse in a JSON object: skip such files
    match ng {
        NG::Term(_) => true,
        NG::Chance(_, o) => o.iter().all(|x| names_ok(&x.2)),
        NG::Player(_, _, a) => {
            let s: BTreeSet<&String> = a.iter().map(|x| &x.0).collect();
            s.len() == a.len() && a.iter().all(|x| names_ok(&x.1))
        }
    }
}

fn replace_first_prob(s: &str, with: &str) -> String {
    match s.find("\"prob\": ") {
        None => s.to_string(),
        Some(i) => {
            let start = i + 8;
            let end = s[start..].find(',').map(|e| start + e).unwrap_or(start);
            format!("{}{}{}", &s[..start], with, &s[end..])
        }
    }
}

fn drop_first_state(s: &str) -> String {
    s.replacen(", \"state\": ", ", \"status\": ", 1)
}

fn perturb_payoff(s: &str) -> String {
    // change player two's payoff of the first terminal by one unit (a game with a single terminal
    // is constant sum whatever it pays)
    if s.lines().filter(|l| l.starts_with("t ")).count() < 2 {
        return s.to_string();
    }
    match s.find("t \"\" ") {
        None => s.to_string(),
        Some(i) => {
            let line_end = s[i..].find('\n').map(|e| i + e).unwrap_or(s.len());
            let line = &s[i..line_end];
            match line.rfind(", ") {
                None => s.to_string(),
                Some(c) => {
                    let new_line = format!("{}, 977 }}", &line[..c]);
                    format!("{}{}{}", &s[..i], new_line, &s[line_end..])
                }
            }
        }
    }
}

/// A new chance root above the valid game: the other branch carries an interior outcome whose
/// payoff for one player overflows a double, above terminals whose payoff for the same player
/// overflows with the opposite sign, so that the cumulative payoff along those paths is not a
/// number while every other terminal of the file stays finite.
fn cancelling_infinities(s: &str, variant: usize) -> String {
    let mut at = None;
    let mut pos = 0;
    for line in s.split_inclusive('\n') {
        if pos > 0 && (line.starts_with("c ") || line.starts_with("p ") || line.starts_with("t ")) {
            at = Some(pos);
            break;
        }
        pos += line.len();
    }
    let at = match at {
        None => return s.to_string(),
        Some(a) => a,
    };
    let (up, down) = if variant & 1 == 0 { ("1e999", "-1e999") } else { ("-1e999", "1e999") };
    let two = variant & 2 == 0;
    let pay = |a: &str, b: &str| if two { format!("{{ {}, {} }}", a, b) } else { format!("{{ {}, {} }}", b, a) };
    let interior = if variant & 4 == 0 {
        format!("p \"\" 1 987002 \"cancelinf\" {{ \"a\" \"b\" }} 987003 \"\" {}\n", pay("0", up))
    } else {
        format!("c \"\" 987002 \"\" {{ \"a\" 1/4 \"b\" 3/4 }} 987003 \"\" {}\n", pay("0", up))
    };
    let mut out = String::new();
    out.push_str(&s[..at]);
    out.push_str("c \"\" 987001 \"\" { \"l\" 1/2 \"r\" 1/2 } 0\n");
    out.push_str(&interior);
    out.push_str(&format!("t \"\" 987004 \"\" {}\n", pay("1", down)));
    out.push_str(&format!("t \"\" 987005 \"\" {}\n", pay("-1", down)));
    out.push_str(&s[at..]);
    out
}

fn huge_payoffs(s: &str) -> String {
    match s.find("t \"\" ") {
        None => s.to_string(),
        Some(i) => {
            let line_end = s[i..].find('\n').map(|e| i + e).unwrap_or(s.len());
            let line = &s[i..line_end];
            match line.find("{ ") {
                None => s.to_string(),
                Some(c) => format!("{}{}{{ 1e999, -1e999 }}{}", &s[..i], &line[..c], &s[line_end..]),
            }
        }
    }
}

fn break_probability(s: &str) -> String {
    match s.find("c \"\" ") {
        None => s.to_string(),
        Some(i) => match s[i..].find("/") {
            None => s.to_string(),
            Some(j) => {
                // numerator just before the slash: prepend a digit
                let at = i + j;
                format!("{}9{}", &s[..at], &s[at..])
            }
        },
    }
}

fn same_infoset_names(s: &str) -> String {
    // give every named infoset of player 1 the same name
    let mut out = String::new();
    let mut changed = 0;
    for line in s.lines() {
        if line.starts_with("p \"\" 1 ") {
            let parts: Vec<&str> = line.splitn(6, ' ').collect();
            // p "" 1 <num> "name" { ... } or p "" 1 <num> { ...
            if parts.len() == 6 && parts[4].starts_with('"') && parts[4].ends_with('"') {
                out.push_str(&format!("p \"\" 1 {} \"same\" {}\n", parts[3], parts[5]));
                changed += 1;
                continue;
            }
        }
        out.push_str(line);
        out.push('\n');
    }
    // only a clash if two *distinct* infoset numbers were renamed
    let nums: BTreeSet<String> = out
        .lines()
        .filter(|l| l.starts_with("p \"\" 1 ") && l.contains("\"same\""))
        .map(|l| l.split(' ').nth(3).unwrap_or("").to_string())
        .collect();
    if changed >= 2 && nums.len() >= 2 {
        out
    } else {
        s.to_string()
    }
}

/// two infosets of player one share a name, and the node of one of them that comes LAST in the
/// file leaves the name out (legal: a name may be given on some nodes of an infoset only) - the
/// clash is there all the same
fn partial_name_clash(s: &str) -> String {
    let lines: Vec<&str> = s.lines().collect();
    // named node lines of player one: (line, infoset number, name token)
    let mut named: Vec<(usize, String, String)> = Vec::new();
    for (i, l) in lines.iter().enumerate() {
        if l.starts_with("p \"\" 1 ") {
            let parts: Vec<&str> = l.splitn(6, ' ').collect();
            if parts.len() == 6 && parts[4].starts_with('"') && parts[4].ends_with('"') && parts[4].len() > 2 {
                named.push((i, parts[3].to_string(), parts[4].to_string()));
            }
        }
    }
    let mut by_num: BTreeMap<String, Vec<usize>> = BTreeMap::new();
    for (i, n, _) in &named {
        by_num.entry(n.clone()).or_default().push(*i);
    }
    // A: an infoset named on at least two nodes; B: any other named infoset
    let a = match by_num.iter().find(|(_, v)| v.len() >= 2) {
        Some((n, _)) => n.clone(),
        None => return s.to_string(),
    };
    let b = match by_num.keys().find(|n| **n != a) {
        Some(n) => n.clone(),
        None => return s.to_string(),
    };
    let a_name = named.iter().find(|x| x.1 == a).map(|x| x.2.clone()).unwrap();
    let a_last = *by_num[&a].last().unwrap();
    let mut out = String::new();
    for (i, l) in lines.iter().enumerate() {
        let parts: Vec<&str> = l.splitn(6, ' ').collect();
        if i == a_last {
            out.push_str(&format!("p \"\" 1 {} {}\n", parts[3], parts[5]));
        } else if by_num[&b].contains(&i) {
            out.push_str(&format!("p \"\" 1 {} {} {}\n", parts[3], a_name, parts[5]));
        } else {
            out.push_str(l);
            out.push('\n');
        }
    }
    out
}

fn number_name_clash(s: &str) -> String {
    // name one infoset of player 1 with the number of an unnamed infoset of player 1
    // (unnamed: no node of the infoset carries a name - a file may leave the name of a named
    // infoset out at some of its nodes)
    let mut unnamed: Option<String> = None;
    let mut named: BTreeSet<String> = BTreeSet::new();
    for line in s.lines() {
        if line.starts_with("p \"\" 1 ") {
            let parts: Vec<&str> = line.splitn(6, ' ').collect();
            if parts.len() >= 5 && parts[4] != "{" {
                named.insert(parts[3].to_string());
            }
        }
    }
    for line in s.lines() {
        if line.starts_with("p \"\" 1 ") {
            let parts: Vec<&str> = line.splitn(6, ' ').collect();
            if parts.len() >= 5 && parts[4] == "{" && !named.contains(parts[3]) {
                unnamed = Some(parts[3].to_string());
                break;
            }
        }
    }
    let un = match unnamed {
        Some(u) => u,
        None => return s.to_string(),
    };
    let mut out = String::new();
    let mut done = false;
    for line in s.lines() {
        if !done && line.starts_with("p \"\" 1 ") {
            let parts: Vec<&str> = line.splitn(6, ' ').collect();
            if parts.len() == 6 && parts[4].starts_with('"') && parts[3] != un {
                // rename every occurrence of this infoset number consistently
                let num = parts[3].to_string();
                let old = parts[4].to_string();
                let renamed = s.replace(&format!("p \"\" 1 {} {} ", num, old), &format!("p \"\" 1 {} \"{}\" ", num, un));
                out = renamed;
                done = true;
                break;
            }
        }
    }
    if done {
        out
    } else {
        s.to_string()
    }
}
