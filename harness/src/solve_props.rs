//! stub
use crate::Ctx;
use serde_json::Value;
pub fn case_solve(_ctx: &mut Ctx, _case: &Value) {}
pub fn case_meta(_ctx: &mut Ctx, _case: &Value) {}
pub fn c02(_ctx: &mut Ctx) -> String { String::new() }
pub fn c03(_ctx: &mut Ctx) -> String { String::new() }
pub fn c04(_ctx: &mut Ctx) -> String { String::new() }
pub fn c05(_ctx: &mut Ctx) -> String { String::new() }
pub fn c06(_ctx: &mut Ctx) -> String { String::new() }
pub fn c07(_ctx: &mut Ctx) -> String { String::new() }
pub fn c08(_ctx: &mut Ctx) -> String { String::new() }
pub fn c09(_ctx: &mut Ctx) -> String { String::new() }
pub fn c10(_ctx: &mut Ctx) -> String { String::new() }
pub fn c12(_ctx: &mut Ctx) -> String { String::new() }
