//! Properties that run the solvers: C02..C10, C12
use crate::core::*;
use crate::gen::*;
use crate::lib_props::{case_multinomial, case_prof, case_tree, prof_hash, prof_json};
use crate::Ctx;
use cfr::verif::DrawRecord;
use cfr::{PlayerNum, RegretParams, SolveError, SolveMethod};
use serde_json::{json, Value};
use std::collections::{BTreeMap, BTreeSet};
use std::panic::{catch_unwind, AssertUnwindSafe};

#[derive(Clone, Copy, Debug, PartialEq)]
pub struct Params {
    pub pos: f64,
    pub neg: f64,
    pub strat: f64,
    pub nopos: f64,
}

pub const INF: f64 = f64::INFINITY;

impl Params {
    pub fn vanilla() -> Self {
        Params { pos: INF, neg: INF, strat: 0.0, nopos: 0.0 }
    }
    pub fn lcfr() -> Self {
        Params { pos: 1.0, neg: 1.0, strat: 1.0, nopos: INF }
    }
    pub fn cfr_plus() -> Self {
        Params { pos: INF, neg: -INF, strat: 2.0, nopos: INF }
    }
    pub fn dcfr() -> Self {
        Params { pos: 1.5, neg: 0.0, strat: 2.0, nopos: INF }
    }
    pub fn dcfr_prune() -> Self {
        Params { pos: 1.5, neg: 0.5, strat: 2.0, nopos: INF }
    }
    pub fn presets() -> [(&'static str, Params); 5] {
        [
            ("vanilla", Self::vanilla()),
            ("lcfr", Self::lcfr()),
            ("cfr_plus", Self::cfr_plus()),
            ("dcfr", Self::dcfr()),
            ("dcfr_prune", Self::dcfr_prune()),
        ]
    }
    pub fn to_lib(&self) -> RegretParams {
        RegretParams::new(self.pos, self.neg, self.strat, self.nopos)
    }
    pub fn ser(&self) -> String {
        format!("{} {} {:016x} {}", ext(self.pos), ext(self.neg), self.strat.to_bits(), ext(self.nopos))
    }
    pub fn json(&self) -> Value {
        json!([fjson(self.pos), fjson(self.neg), fjson(self.strat), fjson(self.nopos)])
    }
    pub fn from_json(v: &Value) -> Params {
        Params {
            pos: fparse(&v[0]).unwrap_or(INF),
            neg: fparse(&v[1]).unwrap_or(INF),
            strat: fparse(&v[2]).unwrap_or(0.0),
            nopos: fparse(&v[3]).unwrap_or(0.0),
        }
    }
    pub fn show(&self) -> String {
        format!("({}, {}, {}, {})", self.pos, self.neg, self.strat, self.nopos)
    }
    /// parameter tuples beyond the presets
    pub fn random(rng: &mut Rng) -> Params {
        let e = [-INF, -1e3, -60.0, -12.0, -1.5, -1.0, 0.0, 0.5, 1.0, 1.5, 2.0, 10.0, 1e3, INF];
        let w = [-INF, -1000.0, -2.0, -0.5, 0.0, 0.5, 1.0, 3.0, 20.0, INF];
        Params {
            pos: *rng.pick(&e),
            neg: *rng.pick(&e),
            strat: *rng.pick(&[0.0, 0.5, 1.0, 2.0, 3.0, 30.0, 1e3]),
            nopos: *rng.pick(&w),
        }
    }
    pub fn pick(rng: &mut Rng) -> (String, Params) {
        if rng.chance(0.65) {
            let (n, p) = *rng.pick(&Self::presets());
            (n.to_string(), p)
        } else {
            let p = Self::random(rng);
            ("custom".to_string(), p)
        }
    }
}

fn ext(x: f64) -> String {
    if x == INF {
        "+inf".to_string()
    } else if x == -INF {
        "-inf".to_string()
    } else {
        format!("{:016x}", x.to_bits())
    }
}

fn thr_ser(x: f64) -> String {
    if x.is_nan() {
        "nan".to_string()
    } else {
        ext(x)
    }
}

pub fn method_of(m: &str) -> SolveMethod {
    match m {
        "F" => SolveMethod::Full,
        "S" => SolveMethod::Sampled,
        _ => SolveMethod::External,
    }
}

#[derive(Clone, Debug)]
pub struct Cfg {
    pub method: String,
    pub params: Params,
    pub iters: u64,
    pub thr: f64,
    pub threads: usize,
    pub target: Option<usize>,
    pub seed: u64,
}

impl Cfg {
    pub fn json(&self) -> Value {
        json!({"method": self.method, "params": self.params.json(), "params_shown": self.params.show(),
               "T": self.iters, "thr": fjson(self.thr), "thr_shown": format!("{}", self.thr),
               "threads": self.threads, "target": self.target, "seed": self.seed})
    }
    pub fn from_json(v: &Value) -> Cfg {
        Cfg {
            method: v["method"].as_str().unwrap_or("F").to_string(),
            params: Params::from_json(&v["params"]),
            iters: v["T"].as_u64().unwrap_or(1),
            thr: fparse(&v["thr"]).unwrap_or(0.0),
            threads: v["threads"].as_u64().unwrap_or(1) as usize,
            target: v["target"].as_u64().map(|x| x as usize),
            seed: v["seed"].as_u64().unwrap_or(0),
        }
    }
    pub fn hash(&self) -> u64 {
        let s = format!("{:?}", self);
        s.bytes().fold(0xcbf29ce484222325u64, |h, b| (h ^ b as u64).wrapping_mul(0x100000001b3))
    }
}

#[derive(Clone, Debug)]
pub struct Res {
    pub named: [Named; 2],
    pub bounds: [f64; 2],
    pub total: f64,
    pub log: Vec<DrawRecord>,
}

#[derive(Clone, Debug)]
pub enum Outcome {
    Ok(Res),
    Err(String),
    Panic(String),
}

/// run the library under the draw hook
/// the index maps of the game of the latest `run_lib` (for the mutex labels of that run)
pub static LAST_MAPS: std::sync::Mutex<IndexMaps> = std::sync::Mutex::new(IndexMaps { to_canon: [Vec::new(), Vec::new(), Vec::new()] });

pub fn run_lib(g: &G, c: &Cfg) -> Outcome {
    let seed = c.seed;
    cfr::verif::set_observe(false);
    // draws are keyed by canonical infoset indices (see `IndexMaps`)
    let maps = IndexMaps::of_dump(&g.verif_dump());
    *LAST_MAPS.lock().unwrap() = maps.clone();
    let hook_maps = maps.clone();
    cfr::verif::set_draw_hook(Some(Box::new(move |kind, id, pass, ws| draw_hash(seed, kind, hook_maps.canon(kind, id), pass, ws))));
    let _ = cfr::verif::take_log();
    let r = catch_unwind(AssertUnwindSafe(|| {
        let params = c.params.to_lib();
        let res = match c.target {
            Some(t) if c.threads != 1 => {
                g.verif_solve_with_target(method_of(&c.method), c.iters, c.thr, c.threads, t, Some(params))
            }
            _ => g.solve(method_of(&c.method), c.iters, c.thr, c.threads, Some(params)),
        };
        match res {
            Ok((s, b)) => Ok((
                drain_named(&s),
                [b.player_regret_bound(PlayerNum::One), b.player_regret_bound(PlayerNum::Two)],
                b.regret_bound(),
            )),
            Err(e) => Err(match e {
                SolveError::ThreadOverflow => "ThreadOverflow".to_string(),
                SolveError::ThreadSpawnError => "ThreadSpawnError".to_string(),
                _ => "OtherError".to_string(),
            }),
        }
    }));
    cfr::verif::set_draw_hook(None);
    let mut log = cfr::verif::take_log();
    for rec in log.iter_mut() {
        rec.id = maps.canon(rec.kind, rec.id);
    }
    match r {
        Ok(Ok((named, bounds, total))) => Outcome::Ok(Res { named, bounds, total, log }),
        Ok(Err(e)) => Outcome::Err(e),
        Err(p) => Outcome::Panic(
            p.downcast_ref::<String>()
                .cloned()
                .or_else(|| p.downcast_ref::<&str>().map(|s| s.to_string()))
                .unwrap_or_else(|| "panic".to_string()),
        ),
    }
}

pub struct ModelRes {
    pub iters: usize,
    pub bounds: [f64; 2],
    pub full: [Vec<(u32, Vec<(u32, f64)>)>; 2],
    pub log: Vec<(u8, usize, u64, usize, Vec<f64>)>,
}

fn solve_req(cmd: &str, t: &T, c: &Cfg, multi: Option<usize>) -> String {
    let mut s = format!("{} ", cmd);
    t.ser(&mut s);
    s.push_str(&format!(" {} {} {} {} {}", c.method, c.params.ser(), c.iters, thr_ser(c.thr), c.seed));
    if cmd == "solve" {
        match multi {
            None => s.push_str(" single"),
            Some(tg) => s.push_str(&format!(" multi {}", tg)),
        }
    }
    s
}

pub fn run_model(ctx: &mut Ctx, t: &T, c: &Cfg, multi: Option<usize>) -> Result<ModelRes, String> {
    let resp = ctx.model.ask(&solve_req("solve", t, c, multi));
    let body = resp.strip_prefix("ok ").ok_or_else(|| resp.clone())?;
    let mut tk = Toks::new(body);
    let iters = tk.nat();
    let b1 = tk.f();
    let b2 = tk.f();
    let f1 = tk.full_named();
    let f2 = tk.full_named();
    if tk.tok() != "L" {
        return Err(format!("malformed model answer {:?}", &resp[..resp.len().min(200)]));
    }
    let n = tk.nat();
    let mut log = Vec::new();
    for _ in 0..n {
        let kind = tk.nat() as u8;
        let id = tk.nat();
        let pass = tk.nat() as u64;
        let result = tk.nat();
        let k = tk.nat();
        let ws = (0..k).map(|_| tk.f()).collect();
        log.push((kind, id, pass, result, ws));
    }
    Ok(ModelRes { iters, bounds: [b1, b2], full: [f1, f2], log })
}

/// relative margin of the closest discontinuous decision on the model's single-threaded trajectory
pub fn model_margin(ctx: &mut Ctx, t: &T, c: &Cfg) -> f64 {
    let resp = ctx.model.ask(&solve_req("margins", t, c, None));
    match resp.strip_prefix("ok ") {
        Some(b) => Toks::new(b).f(),
        None => 0.0,
    }
}

const ILL: f64 = 1e-6;

fn bounds_close(a: &[f64; 2], b: &[f64; 2], tol: f64) -> bool {
    close_tol(a[0], b[0], tol) && close_tol(a[1], b[1], tol)
}

/// library result against the model's result for the same configuration
fn compare_with_model(lib: &Res, m: &ModelRes, sc: f64) -> Result<(), String> {
    if !bounds_close(&lib.bounds, &m.bounds, 1e-9 * sc.max(1.0)) {
        return Err(format!("bounds: library {:?}, model {:?}", lib.bounds, m.bounds));
    }
    for p in 0..2 {
        named_matches_full(&lib.named[p], &m.full[p], 1e-8).map_err(|e| format!("player {} strategy: {}", p + 1, e))?;
    }
    Ok(())
}

type LogMap = BTreeMap<(u8, usize, u64), (usize, Vec<f64>)>;

fn lib_log_map(log: &[DrawRecord]) -> Result<LogMap, String> {
    let mut m = LogMap::new();
    for r in log {
        if m.insert((r.kind, r.id, r.pass), (r.result, r.weights.clone())).is_some() {
            return Err(format!("two draws for (kind {}, infoset {}, pass {})", r.kind, r.id, r.pass));
        }
    }
    Ok(m)
}

fn model_log_map(log: &[(u8, usize, u64, usize, Vec<f64>)]) -> LogMap {
    log.iter().map(|r| ((r.0, r.1, r.2), (r.3, r.4.clone()))).collect()
}

fn logs_agree(a: &LogMap, b: &LogMap) -> Result<(), String> {
    if a.len() != b.len() {
        let ka: BTreeSet<_> = a.keys().collect();
        let kb: BTreeSet<_> = b.keys().collect();
        let d: Vec<_> = ka.symmetric_difference(&kb).take(4).collect();
        return Err(format!("{} draws vs {} draws; keys in one only: {:?}", a.len(), b.len(), d));
    }
    for (k, (r, ws)) in a {
        match b.get(k) {
            None => return Err(format!("draw {:?} missing on one side", k)),
            Some((r2, ws2)) => {
                if ws.len() != ws2.len() || ws.iter().zip(ws2.iter()).any(|(x, y)| !close_tol(*x, *y, 1e-8)) {
                    return Err(format!("draw {:?}: weights {:?} vs {:?}", k, ws, ws2));
                }
                if r != r2 {
                    return Err(format!("draw {:?}: index {} vs {}", k, r, r2));
                }
            }
        }
    }
    Ok(())
}

fn all_infosets_listed(t: &T, named: &[Named; 2]) -> Result<(), String> {
    let infos = infosets_of(t);
    for p in 0..2 {
        let listed: Vec<u32> = named[p].iter().map(|x| x.0).collect();
        let set: BTreeSet<u32> = listed.iter().cloned().collect();
        let want: BTreeSet<u32> = infos[p].keys().cloned().collect();
        if set.len() != listed.len() || set != want {
            return Err(format!("player {} infosets listed {:?}, expected {:?}", p + 1, listed, want));
        }
    }
    Ok(())
}

fn true_regret(g: &G, named: &[Named; 2]) -> Result<(f64, [f64; 2], f64), String> {
    let s = g.from_named(named.clone()).map_err(|e| format!("returned profile cannot be imported: {:?}", e))?;
    let i = s.get_info();
    Ok((
        i.regret(),
        [i.player_regret(PlayerNum::One), i.player_regret(PlayerNum::Two)],
        i.player_utility(PlayerNum::One),
    ))
}

// ---------------------------------------------------------------------------------------------
// the generic solve case: which assertions apply is listed in the case

pub fn case_solve(ctx: &mut Ctx, case: &Value) {
    let t = case_tree(case);
    let cfg = Cfg::from_json(&case["cfg"]);
    let asserts: Vec<String> = case["asserts"]
        .as_array()
        .map(|a| a.iter().filter_map(|x| x.as_str().map(|s| s.to_string())).collect())
        .unwrap_or_default();
    let has = |a: &str| asserts.iter().any(|x| x == a);
    ctx.record_current(case);
    let g = match build(&t) {
        Ok(g) => g,
        Err(e) => return ctx.fail_corr(case, format!("tree rejected: {:?}", e)),
    };
    let (n_info, a_max, d_range) = stats_of(&t);
    let sc = match case.get("scale").and_then(|x| fparse(x)) {
        // the magnitude of the numbers this run adds up, where the case knows it to be far below
        // the largest payoff (a single iteration under uniform play on a deep ladder)
        Some(x) => x,
        None => {
            let mut v = Vec::new();
            t.payoffs(&mut v);
            v.iter().fold(1.0f64, |a, b| a.max(b.abs()))
        }
    };
    // the mutexes of the multi-threaded solvers are observed in the runs of C05, C06 and C07
    let watch_locks = (has("wellformed") || has("multi_eq_single")) && cfg.threads >= 2 && cfg.threads <= 16 && cfg.iters <= 12;
    if watch_locks {
        cfr::verif::sync::reset();
        cfr::verif::sync::set_observe(true);
    }
    let out = run_lib(&g, &cfg);
    if watch_locks {
        cfr::verif::sync::set_observe(false);
        let lock_log = cfr::verif::sync::take_log();
        let ran = if let Outcome::Ok(_) = &out { Some(cfg.iters) } else { None };
        crate::locks::check_locks(ctx, case, &t, &cfg, &lock_log, ran);
    }
    ctx.count(mix64(t.hash() ^ cfg.hash()), n_info >= 2 && cfg.iters >= 1);
    ctx.stat(&format!("method_{}", cfg.method));
    ctx.stat(&format!("threads_{}", if cfg.threads > 16 { "huge".to_string() } else { cfg.threads.to_string() }));

    // --- C05: totality and well-formedness
    if has("wellformed") {
        let over = cfg.threads != 1 && cfg.threads != 0 && cfg.threads.checked_mul(3).is_none();
        match &out {
            Outcome::Panic(m) => ctx.fail_prop(case, format!("solve panicked: {}", m)),
            Outcome::Err(e) => {
                if cfg.threads == 1 {
                    ctx.fail_prop(case, format!("one thread returned the error {}", e));
                } else if over && e != "ThreadOverflow" {
                    ctx.fail_prop(case, format!("3 x threads overflows but the error is {}", e));
                } else if !over && e != "ThreadSpawnError" {
                    ctx.fail_prop(case, format!("unexpected error {}", e));
                } else if !over && cfg.threads <= 64 {
                    ctx.fail_prop(case, format!("{} threads could not be spawned", cfg.threads));
                }
                ctx.stat(&format!("error_{}", e));
            }
            Outcome::Ok(r) => {
                if over {
                    ctx.fail_prop(case, "3 x threads overflows but solve returned normally".to_string());
                }
                if let Err(e) = all_infosets_listed(&t, &r.named) {
                    ctx.fail_prop(case, e);
                }
                for p in 0..2 {
                    if let Err(e) = named_valid(&r.named[p]) {
                        ctx.fail_prop(case, format!("player {} returned strategy: {}", p + 1, e));
                    }
                    let b = r.bounds[p];
                    if b.is_nan() || b < 0.0 {
                        ctx.fail_prop(case, format!("player {} bound is {:e}", p + 1, b));
                    }
                    if (b == INF) != (cfg.iters == 0) {
                        ctx.fail_prop(case, format!("player {} bound is {:e} after a budget of {} iterations", p + 1, b, cfg.iters));
                    }
                }
            }
        }
    }
    if std::env::var("HARNESS_DEBUG").is_ok() {
        if let Outcome::Ok(r) = &out {
            eprintln!("solve {} T={} threads={} target={:?}: bounds {:?}", cfg.method, cfg.iters, cfg.threads, cfg.target, r.bounds);
        }
    }
    let res = match &out {
        Outcome::Ok(r) => r.clone(),
        Outcome::Err(e) => {
            if !has("wellformed") {
                ctx.fail_prop(case, format!("solve returned the error {}", e));
            }
            return;
        }
        Outcome::Panic(m) => {
            if !has("wellformed") {
                ctx.fail_prop(case, format!("solve panicked: {}", m));
            }
            return;
        }
    };

    // --- C02: the bound dominates the true regret (Full, vanilla)
    if has("bound") {
        match true_regret(&g, &res.named) {
            Err(e) => ctx.fail_prop(case, e),
            Ok((reg, _, _)) => {
                if res.bounds[0] < 0.0 || res.bounds[1] < 0.0 || res.total != f64::max(res.bounds[0], res.bounds[1]) {
                    ctx.fail_prop(case, format!("bounds {:?} total {:e}", res.bounds, res.total));
                }
                if !(reg <= res.total + 1e-9 * sc) {
                    ctx.fail_prop(case, format!("true regret {:e} exceeds the returned bound {:e}", reg, res.total));
                }
                if cfg.thr > 0.0 && res.total < cfg.thr && !(reg < cfg.thr + 1e-9 * sc) {
                    ctx.fail_prop(case, format!("stopped below the threshold {:e} but the true regret is {:e}", cfg.thr, reg));
                }
            }
        }
    }

    // --- C03: the CFR rate
    if has("rate") && cfg.iters >= 1 {
        let tt = cfg.iters as f64;
        let (nn, aa) = (n_info as f64, a_max as f64);
        if cfg.params == Params::vanilla() {
            let env = 2.0 * d_range * nn * aa.sqrt() / tt.sqrt();
            for p in 0..2 {
                if !(res.bounds[p] <= env + 1e-9 * sc) {
                    ctx.fail_prop(case, format!("player {} bound {:e} above 2 D N sqrt(A)/sqrt(T) = {:e}", p + 1, res.bounds[p], env));
                }
            }
        }
        let env = 6.0 * d_range * nn * (aa.sqrt() + 1.0 / tt.sqrt()) / tt.sqrt();
        match true_regret(&g, &res.named) {
            Err(e) => ctx.fail_prop(case, e),
            Ok((reg, _, _)) => {
                if !(reg <= env + 1e-9 * sc) {
                    ctx.fail_prop(case, format!("true regret {:e} above 6 D N (sqrt(A)+1/sqrt(T))/sqrt(T) = {:e}", reg, env));
                }
                if let Some(rel) = case.get("collect").and_then(|c| c.as_str()) {
                    // relative regret in parts per million, for the collection statistics
                    let ppm = if d_range > 0.0 { (reg / d_range * 1e6) as u64 } else { 0 };
                    ctx.statn(&format!("sum_ppm_{}", rel), ppm);
                    ctx.stat(&format!("n_{}", rel));
                }
            }
        }
    }

    // --- C04: sampled convergence envelope
    if has("sampled_rate") && cfg.iters >= 1 {
        let tt = cfg.iters as f64;
        let env = 3.0 * d_range * (n_info as f64) * (a_max as f64).sqrt() / tt.sqrt();
        match true_regret(&g, &res.named) {
            Err(e) => ctx.fail_prop(case, e),
            Ok((reg, _, _)) => {
                if !(reg <= env + 1e-9 * sc) {
                    ctx.fail_prop(case, format!("true regret {:e} above 3 D N sqrt(A)/sqrt(T) = {:e}", reg, env));
                }
            }
        }
    }

    // --- C10 (on the implementation): draw discipline
    if has("draws") {
        match lib_log_map(&res.log) {
            Err(e) => ctx.fail_prop(case, format!("more than one draw per infoset and pass: {}", e)),
            Ok(m) => {
                if cfg.method == "F" && !m.is_empty() {
                    ctx.fail_prop(case, format!("the unsampled method made {} draws", m.len()));
                }
                if cfg.method == "S" && m.keys().any(|k| k.0 != 0) {
                    ctx.fail_prop(case, "the chance-sampled method sampled a player action".to_string());
                }
                let dump = g.verif_dump();
                let mut tk = Toks::new(&dump);
                tk.tok();
                let nc = tk.nat();
                let probs_internal: Vec<Vec<f64>> = (0..nc).map(|_| { let k = tk.nat(); (0..k).map(|_| tk.f()).collect() }).collect();
                // the log is in canonical indices
                let maps = IndexMaps::of_dump(&dump);
                let mut probs: Vec<Vec<f64>> = vec![Vec::new(); probs_internal.len()];
                for (i, p) in probs_internal.into_iter().enumerate() {
                    let c = maps.canon(0, i);
                    if c < probs.len() {
                        probs[c] = p;
                    }
                }
                for (k, (r, ws)) in &m {
                    if *r >= ws.len() {
                        ctx.fail_prop(case, format!("draw {:?} returned index {} of {}", k, r, ws.len()));
                    }
                    if k.0 == 0 && (k.1 >= probs.len() || probs[k.1] != *ws) {
                        ctx.fail_prop(case, format!("chance infoset {} sampled with weights {:?}", k.1, ws));
                    }
                    if k.0 != 0 && (ws.iter().any(|w| !(*w >= 0.0)) || (ws.iter().sum::<f64>() - 1.0).abs() > 1e-9) {
                        ctx.fail_prop(case, format!("player infoset sampled with weights {:?}", ws));
                    }
                }
                ctx.statn("draws_logged", m.len() as u64);
            }
        }
    }

    // --- correspondence with the model (C08, C10, and the backbone of the rest)
    if has("corr") {
        let multi = if cfg.threads != 1 { cfg.target } else { None };
        match run_model(ctx, &t, &cfg, multi) {
            Err(e) => ctx.fail_corr(case, format!("model answered {}", &e[..e.len().min(200)])),
            Ok(m) => {
                let mut bad: Option<String> = compare_with_model(&res, &m, sc).err();
                if bad.is_none() && cfg.method != "F" || has("draws") {
                    if let Ok(lm) = lib_log_map(&res.log) {
                        if let Err(e) = logs_agree(&lm, &model_log_map(&m.log)) {
                            bad = Some(bad.map(|b| format!("{}; draw logs: {}", b, e)).unwrap_or(format!("draw logs: {}", e)));
                        }
                    }
                }
                if let Some(e) = bad {
                    let margin = model_margin(ctx, &t, &cfg);
                    // a case may declare that nothing in it is decided by rounding (a two-level game
                    // on one thread: no sum has more than two terms, a tiny regret is tiny because it
                    // was discounted, not because something cancelled)
                    let exact = case["exact"].as_bool().unwrap_or(false);
                    if margin < ILL && !exact {
                        ctx.skipped_illcond += 1;
                        ctx.stat("ill_conditioned_skipped");
                    } else {
                        ctx.fail_corr(case, format!("{} (conditioning margin {:e})", e, margin));
                    }
                } else {
                    ctx.stat("model_agrees");
                    if res.bounds == m.bounds {
                        ctx.stat("model_bounds_bit_equal");
                    }
                }
            }
        }
    }

    // --- C06 / C07: k threads equal one thread (same draws)
    if has("multi_eq_single") && cfg.threads != 1 {
        let mut c1 = cfg.clone();
        c1.threads = 1;
        c1.target = None;
        match run_lib(&g, &c1) {
            Outcome::Ok(r1) => {
                let d = named_diff(&res.named[0], &r1.named[0]).max(named_diff(&res.named[1], &r1.named[1]));
                let mut bad = None;
                if !(d <= 1e-8) || !bounds_close(&res.bounds, &r1.bounds, 1e-9 * sc) {
                    bad = Some(format!(
                        "{} threads (target {:?}) differ from one thread: strategies by {:e}, bounds {:?} vs {:?}",
                        cfg.threads, cfg.target, d, res.bounds, r1.bounds
                    ));
                }
                if bad.is_none() && cfg.method != "F" {
                    match (lib_log_map(&res.log), lib_log_map(&r1.log)) {
                        (Ok(a), Ok(b)) => {
                            if let Err(e) = logs_agree(&a, &b) {
                                bad = Some(format!("draws with {} threads differ from one thread: {}", cfg.threads, e));
                            }
                        }
                        (Err(e), _) | (_, Err(e)) => bad = Some(e),
                    }
                }
                if let Some(e) = bad {
                    let margin = model_margin(ctx, &t, &c1);
                    // a case may declare that no sum in it depends on the order of its terms (every
                    // infoset at no more than two nodes): then ties are broken the same way for every
                    // thread count and nothing is ill-conditioned
                    let order_free = case["order_free"].as_bool().unwrap_or(false);
                    if margin < ILL && !order_free {
                        ctx.skipped_illcond += 1;
                        ctx.stat("ill_conditioned_skipped");
                    } else {
                        ctx.fail_prop(case, format!("{} (conditioning margin {:e})", e, margin));
                    }
                } else {
                    ctx.stat("threads_agree");
                    if res.named == r1.named {
                        ctx.stat("threads_bit_equal");
                    }
                }
            }
            o => ctx.fail_prop(case, format!("single-threaded reference run failed: {:?}", o)),
        }
    }

    // --- C09: threshold equals prefix
    if has("prefix") {
        // the bound sequence without a threshold
        let mut tstar = cfg.iters;
        let mut seq = Vec::new();
        for k in 1..=cfg.iters {
            let mut ck = cfg.clone();
            ck.iters = k;
            ck.thr = 0.0;
            match run_lib(&g, &ck) {
                Outcome::Ok(r) => {
                    seq.push(r.total);
                    if r.total < cfg.thr {
                        tstar = k;
                        break;
                    }
                }
                o => return ctx.fail_prop(case, format!("prefix run failed: {:?}", o)),
            }
        }
        // with more than one thread the bounds of two runs may differ in the last places
        // (summation order of the atomic adds): a threshold within rounding distance of a bound
        // of the sequence is decided by rounding, not by the property
        if cfg.threads != 1 && cfg.thr.is_finite() && seq.iter().any(|b| (b - cfg.thr).abs() <= 1e-9 * b.abs().max(cfg.thr.abs())) {
            ctx.skipped_illcond += 1;
            ctx.stat("threshold_within_rounding_of_a_bound_multi_threaded");
            return;
        }
        let mut cp = cfg.clone();
        cp.iters = tstar;
        cp.thr = 0.0;
        match run_lib(&g, &cp) {
            Outcome::Ok(rp) => {
                let exact = cfg.threads == 1;
                let d = named_diff(&res.named[0], &rp.named[0]).max(named_diff(&res.named[1], &rp.named[1]));
                let same = if exact {
                    res.named == rp.named && res.bounds == rp.bounds
                } else {
                    d <= 1e-8 && bounds_close(&res.bounds, &rp.bounds, 1e-9 * sc)
                };
                if !same {
                    ctx.fail_prop(
                        case,
                        format!(
                            "threshold {:e}, budget {}: result differs from the run with budget t* = {} and no threshold (bounds {:?} vs {:?}, strategies by {:e}; bound sequence {:?})",
                            cfg.thr, cfg.iters, tstar, res.bounds, rp.bounds, d, seq
                        ),
                    );
                }
                if tstar < cfg.iters && !(res.total < cfg.thr) {
                    ctx.fail_prop(case, format!("fewer than {} iterations ran but the bound {:e} is not below {:e}", cfg.iters, res.total, cfg.thr));
                }
                if tstar < cfg.iters {
                    ctx.stat("stopped_early");
                } else {
                    ctx.stat("ran_to_budget");
                }
            }
            o => ctx.fail_prop(case, format!("prefix run failed: {:?}", o)),
        }
    }
}

fn solve_case(t: &T, cfg: &Cfg, asserts: &[&str]) -> Value {
    json!({"op": "solve", "tree": t.to_json(), "cfg": cfg.json(), "asserts": asserts})
}

fn small_game(ctx: &mut Ctx, i: u64, max_nodes: usize) -> (T, &'static str) {
    loop {
        let (t, fam) = gen_game(&mut ctx.rng, i, max_nodes);
        if build(&t).is_ok() {
            // now and then the same game in other units: payoffs times an exact power of two
            // (nothing in the documented algorithms depends on the absolute payoff scale)
            return match ctx.rng.below(16) {
                0 => {
                    ctx.stat("payoff_units_2^-80");
                    (t.map_payoffs(&|p| p * 2f64.powi(-80)), fam)
                }
                1 => {
                    ctx.stat("payoff_units_2^40");
                    (t.map_payoffs(&|p| p * 2f64.powi(40)), fam)
                }
                _ => (t, fam),
            };
        }
    }
}

fn sample_case(ctx: &mut Ctx, t: &T, fam: &str, cfg: &Cfg) {
    let v = json!({"family": fam, "nodes": t.size(), "cfg": cfg.json(), "tree_line": t.to_line()});
    ctx.sample(v);
}

// ---------------------------------------------------------------------------------------------
// C02

pub fn c02(ctx: &mut Ctx) -> String {
    let n = if ctx.thorough { 6000 } else { 500 };
    for i in 0..n {
        if ctx.out_of_time() {
            break;
        }
        let (t, fam) = small_game(ctx, i, 500);
        ctx.stat(&format!("family_{}", fam));
        let iters = match ctx.rng.below(10) {
            0 => 100,
            1 => if ctx.thorough { 1000 } else { 200 },
            _ => ctx.rng.range(1, 40),
        };
        let threads = *ctx.rng.pick(&[1usize, 1, 2, 5, 16]);
        let mut cfg = Cfg { method: "F".into(), params: Params::vanilla(), iters, thr: 0.0, threads, target: None, seed: 0 };
        // place the threshold around a bound value of the run
        if ctx.rng.chance(0.5) {
            let g = build(&t).unwrap();
            let mut c0 = cfg.clone();
            c0.iters = ctx.rng.range(1, iters);
            c0.threads = 1;
            if let Outcome::Ok(r) = run_lib(&g, &c0) {
                cfg.thr = r.total * *ctx.rng.pick(&[0.5, 1.0, 1.0000001, 2.0]);
            }
        }
        if i < 2 {
            sample_case(ctx, &t, fam, &cfg);
        }
        // short runs are also compared with the model's run (the object of the theorems); with
        // several threads too: the model's single-threaded run is what C06 proves them equal to
        let asserts: &[&str] = if iters <= 40 && t.size() <= 200 { &["bound", "corr"] } else { &["bound"] };
        case_solve(ctx, &solve_case(&t, &cfg, asserts));
    }
    // reaches far below machine epsilon with payoffs that make up for it: nothing in the
    // algorithm may treat "tiny" as "zero"
    for i in 0..(if ctx.thorough { 40u64 } else { 8 }) {
        if ctx.out_of_time() {
            break;
        }
        let depth = 50 + (i % 8) as u32 * 2;
        let t = deep_alternating(&mut ctx.rng, depth, depth as i32 + 2 + (i % 5) as i32 * 3);
        ctx.stat("family_deep-alternating");
        let exp = depth as i32 + 2 + (i % 5) as i32 * 3;
        let cfg = Cfg { method: "F".into(), params: Params::vanilla(), iters: 1 + i % 3, thr: 0.0, threads: if i % 4 == 3 { 2 } else { 1 }, target: None, seed: 0 };
        let asserts: &[&str] = if cfg.threads == 1 { &["bound", "corr"] } else { &["bound"] };
        let mut case = solve_case(&t, &cfg, asserts);
        if cfg.iters == 1 {
            // one iteration: every strategy is uniform, every number added up is a payoff times a
            // reach of at most 2^-depth for the end payoff (and at most 1 for the stop payoffs)
            case["scale"] = fjson(4.0 * 2f64.powi(exp - depth as i32).max(1.0));
        }
        case_solve(ctx, &case);
    }
    "Full method, vanilla parameters: games from the mixed stream x budgets {1..40, 100, 200/1000} x thresholds {0, around a bound value of the run} x threads {1, 2, 5, 16}; the returned total bound against get_info().regret() of the returned profile; single-threaded short runs are also compared with the model".to_string()
}

// ---------------------------------------------------------------------------------------------
// C03

pub fn c03(ctx: &mut Ctx) -> String {
    let n = if ctx.thorough { 4000 } else { 320 };
    let grid: &[u64] = if ctx.thorough { &[1, 2, 3, 5, 10, 30, 100, 300, 1000, 5000] } else { &[1, 2, 3, 5, 10, 30, 100, 500] };
    for i in 0..n {
        if ctx.out_of_time() {
            break;
        }
        let (t, fam) = small_game(ctx, i, 300);
        ctx.stat(&format!("family_{}", fam));
        let (pn, params) = Params::presets()[(i % 5) as usize];
        ctx.stat(&format!("preset_{}", pn));
        let mut iters = grid[((i / 5) as usize) % grid.len()];
        // small games are cheap: long budgets, where the envelope is tight enough to see a regret
        // that stopped shrinking
        if t.size() <= 40 && (i / 5) % 2 == 1 {
            iters = *ctx.rng.pick(&[20_000u64, 100_000]);
            ctx.stat("long_budget_runs_on_small_games");
        }
        let threads = *ctx.rng.pick(&[1usize, 1, 2, 16]);
        let cfg = Cfg { method: "F".into(), params, iters, thr: 0.0, threads, target: None, seed: 0 };
        if i < 2 {
            sample_case(ctx, &t, fam, &cfg);
        }
        // the envelope is loose by design; what the rate theorems are about is the model's run, so
        // short runs are also compared with it (every thread count: the model's single-threaded
        // run is what C06 proves the multi-threaded one equal to)
        let asserts: &[&str] = if iters <= 30 && t.size() <= 150 { &["rate", "corr"] } else { &["rate"] };
        let mut case = solve_case(&t, &cfg, asserts);
        case["collect"] = json!(format!("T{}", iters));
        case_solve(ctx, &case);
    }
    // chance nodes on the multi-threaded frontier, an infoset straddling them: the rate is claimed
    // for every thread count, and what the rate theorems are about is the model's run
    for i in 0..(if ctx.thorough { 120u64 } else { 20 }) {
        if ctx.out_of_time() {
            break;
        }
        let t = coins_behind_choice(&mut ctx.rng);
        ctx.stat("family_coins_behind_choice");
        let (_, params) = Params::presets()[(i % 5) as usize];
        let threads = *ctx.rng.pick(&[2usize, 2, 3]);
        let iters = if i % 4 == 3 { 3000 } else { *ctx.rng.pick(&[2u64, 5, 12, 30]) };
        let cfg = Cfg { method: "F".into(), params, iters, thr: 0.0, threads, target: None, seed: 0 };
        let asserts: &[&str] = if iters <= 30 { &["rate", "corr"] } else { &["rate"] };
        case_solve(ctx, &solve_case(&t, &cfg, asserts));
    }
    // regret tends to zero: mean relative regret per budget must decrease along the grid
    let mut means = Vec::new();
    for tt in grid.iter().chain([20_000u64, 100_000].iter()) {
        let s = ctx.stats.get(&format!("sum_ppm_T{}", tt)).cloned().unwrap_or(0);
        let k = ctx.stats.get(&format!("n_T{}", tt)).cloned().unwrap_or(0);
        if k >= 5 {
            means.push((*tt, s as f64 / k as f64));
        }
    }
    if means.len() >= 3 {
        let first = means[0].1;
        let last = means[means.len() - 1].1;
        if !(last < first * 0.2) {
            ctx.fail_prop(&json!({"op": "collection", "means_ppm": means}), format!("mean relative regret does not fall with the budget: {:?}", means));
        }
    }
    "Full method: games from the mixed stream x the five presets x budgets on a grid from 1 to 500 (quick) / 5000 (thorough) x threads {1, 2, 16}; vanilla bounds against 2 D N sqrt(A)/sqrt(T), true regret (get_info) against 6 D N (sqrt(A)+1/sqrt(T))/sqrt(T); mean relative regret must fall along the grid".to_string()
}

// ---------------------------------------------------------------------------------------------
// C04

pub fn c04(ctx: &mut Ctx) -> String {
    let n = if ctx.thorough { 1500 } else { 160 };
    let (t_lo, t_hi) = if ctx.thorough { (100u64, 3000u64) } else { (100u64, 1500u64) };
    let mut rel_lo: Vec<f64> = Vec::new();
    let mut rel_hi: Vec<f64> = Vec::new();
    for i in 0..n {
        if ctx.out_of_time() {
            break;
        }
        let (t, fam) = small_game(ctx, i, 200);
        let (n_info, _, d) = stats_of(&t);
        if n_info == 0 || d <= 0.0 {
            continue;
        }
        ctx.stat(&format!("family_{}", fam));
        let method = if i % 2 == 0 { "S" } else { "E" };
        let (pn, params) = Params::presets()[((i / 2) % 5) as usize];
        ctx.stat(&format!("preset_{}", pn));
        let threads = *ctx.rng.pick(&[1usize, 1, 2, 4]);
        let seed = ctx.rng.next() >> 12;
        let g = build(&t).unwrap();
        for (which, tt) in [(0, t_lo), (1, t_hi)] {
            let cfg = Cfg { method: method.into(), params, iters: tt, thr: 0.0, threads, target: None, seed };
            if i < 1 && which == 0 {
                sample_case(ctx, &t, fam, &cfg);
            }
            // (the sampling discipline - one draw per infoset and pass, with the presented weights -
            // is what makes the sampled regrets unbiased: checked on every short run)
            let case = if which == 0 && i % 4 <= 1 && t.size() <= 120 {
                solve_case(&t, &cfg, &["sampled_rate", "corr", "draws"])
            } else if which == 0 {
                solve_case(&t, &cfg, &["sampled_rate", "draws"])
            } else {
                solve_case(&t, &cfg, &["sampled_rate"])
            };
            case_solve(ctx, &case);
            if let Outcome::Ok(r) = run_lib(&g, &cfg) {
                if let Ok((reg, _, _)) = true_regret(&g, &r.named) {
                    if which == 0 { rel_lo.push(reg / d) } else { rel_hi.push(reg / d) }
                }
            }
        }
    }
    // a lottery in front of a game: passes that draw the terminal outcome move nothing; the run
    // must nevertheless use its budget ("regret shrinks as the budget grows")
    for i in 0..(if ctx.thorough { 60 } else { 16 }) {
        if ctx.out_of_time() {
            break;
        }
        let t = lottery(&mut ctx.rng);
        let method = if i % 2 == 0 { "S" } else { "E" };
        let (_, params) = Params::presets()[((i / 2) % 5) as usize];
        let seed = ctx.rng.next() >> 12;
        let cfg = Cfg { method: method.into(), params, iters: t_hi, thr: 0.0, threads: 1, target: None, seed };
        ctx.stat("family_lottery");
        case_solve(ctx, &solve_case(&t, &cfg, &["sampled_rate"]));
        // and the same draws through the model the pathwise theorems are about (short budget)
        let cfg = Cfg { iters: 25, ..cfg };
        case_solve(ctx, &solve_case(&t, &cfg, &["corr"]));
    }
    // a leaf (or a coin) left on the multi-threaded frontier: its payoff goes through the cache
    for i in 0..(if ctx.thorough { 120u64 } else { 24 }) {
        if ctx.out_of_time() {
            break;
        }
        let t = if i % 3 == 2 { coins_behind_choice(&mut ctx.rng) } else { early_exit(&mut ctx.rng) };
        let method = if i % 2 == 0 { "E" } else { "S" };
        let (_, params) = Params::presets()[((i / 2) % 5) as usize];
        let seed = ctx.rng.next() >> 12;
        let threads = *ctx.rng.pick(&[2usize, 2, 3]);
        ctx.stat("family_leaf_on_the_frontier");
        let cfg = Cfg { method: method.into(), params, iters: t_hi, thr: 0.0, threads, target: None, seed };
        case_solve(ctx, &solve_case(&t, &cfg, &["sampled_rate"]));
        let cfg = Cfg { iters: *ctx.rng.pick(&[4u64, 12, 25]), ..cfg };
        case_solve(ctx, &solve_case(&t, &cfg, &["corr"]));
    }
    // repeated matrix games: a player's sampled tree is wide at every level, so with several
    // threads the per-pass frontier is really handed to the pool (`Game::solve` picks the task
    // target itself: three per thread)
    for i in 0..(if ctx.thorough { 90u64 } else { 18 }) {
        if ctx.out_of_time() {
            break;
        }
        let (ra, rr) = [(3u32, 2u32), (4, 2), (2, 3), (3, 2)][((i / 4) % 4) as usize];
        // every third case: one player moves twice in a row at the top (her reach at the frontier is
        // a product of two of her own probabilities), then a blind opponent
        let twice = i % 3 == 2;
        let t = if twice { double_decision(&mut ctx.rng) } else { repeated_matrix(&mut ctx.rng, ra, rr) };
        if t.size() > 400 {
            continue;
        }
        let method = if i % 4 == 3 || twice { "S" } else { "E" };
        let (_, params) = Params::presets()[((i / 2) % 5) as usize];
        let seed = ctx.rng.next() >> 12;
        let threads = [2usize, 3, 4, 2][(i % 4) as usize];
        let cfg = Cfg { method: method.into(), params, iters: t_hi, thr: 0.0, threads, target: None, seed };
        ctx.stat("family_repeated_matrix");
        case_solve(ctx, &solve_case(&t, &cfg, &["sampled_rate"]));
        let cfg = Cfg { iters: 25, ..cfg };
        case_solve(ctx, &solve_case(&t, &cfg, &["corr"]));
    }
    let med = |v: &mut Vec<f64>| -> f64 {
        v.sort_by(|a, b| a.partial_cmp(b).unwrap());
        if v.is_empty() { 0.0 } else { v[v.len() / 2] }
    };
    if rel_lo.len() >= 20 {
        let (mlo, mhi) = (med(&mut rel_lo), med(&mut rel_hi));
        ctx.statn("median_relative_regret_ppm_at_low_budget", (mlo * 1e6) as u64);
        ctx.statn("median_relative_regret_ppm_at_high_budget", (mhi * 1e6) as u64);
        if !(mhi < 0.01) {
            ctx.fail_prop(&json!({"op": "collection"}), format!("median relative regret after {} iterations is {:e} (not below one percent)", t_hi, mhi));
        }
        if mlo > 1e-4 && !(mhi < mlo * 0.6) {
            ctx.fail_prop(&json!({"op": "collection"}), format!("median relative regret {:e} after {} iterations is not far below {:e} after {}", mhi, t_hi, mlo, t_lo));
        }
    }
    "Sampled and External methods under the keyed draw hook (draws follow the presented distributions through the inverse CDF): games from the mixed stream (no chance infoset twice on a path) x the five presets x threads {1, 2, 4} x seeds; per game the true regret against 3 D N sqrt(A)/sqrt(T) at two budgets; over the collection the median relative regret at the high budget below 1% and well below the low-budget median".to_string()
}

// ---------------------------------------------------------------------------------------------
// C05

pub fn c05(ctx: &mut Ctx) -> String {
    // the edge of what `RegretParams::new` accepts: huge averaging exponents on deep own ladders
    // (the average-strategy accumulators then live among the subnormal doubles)
    for i in 0..(if ctx.thorough { 120u64 } else { 24 }) {
        if ctx.out_of_time() {
            break;
        }
        let t = ladder(&mut ctx.rng, 24 + (i % 8) as u32);
        let params = Params { pos: 1.5, neg: 0.0, strat: *ctx.rng.pick(&[1e3, 300.0, 30.0]), nopos: INF };
        let method = ["F", "S", "E"][(i % 3) as usize];
        let (iters, thr) = *ctx.rng.pick(&[(1u64, 0.0), (2, 0.0), (5, INF), (3, 0.0)]);
        let seed = ctx.rng.next() >> 12;
        let cfg = Cfg { method: method.into(), params, iters, thr, threads: *ctx.rng.pick(&[1usize, 2]), target: None, seed };
        ctx.stat("family_ladder_huge_exponent");
        case_solve(ctx, &solve_case(&t, &cfg, &["wellformed"]));
    }
    let n = if ctx.thorough { 12000 } else { 900 };
    for i in 0..n {
        if ctx.out_of_time() {
            break;
        }
        let (t, fam) = small_game(ctx, i, 400);
        ctx.stat(&format!("family_{}", fam));
        let method = *ctx.rng.pick(&["F", "S", "E"]);
        let (pn, params) = Params::pick(&mut ctx.rng);
        ctx.stat(&format!("params_{}", pn));
        let iters = *ctx.rng.pick(&[0u64, 1, 2, 7, 50]);
        let thr = *ctx.rng.pick(&[-1.0, 0.0, 1e-3, INF, f64::NAN, 0.5]);
        let threads = match ctx.rng.below(14) {
            0 => 0usize,
            1 | 2 | 3 | 4 => 1,
            5 => 2,
            6 => 3,
            7 => 16,
            8 => 17,
            9 => if ctx.thorough { 300 } else { 40 },
            // usize::MAX / 3 itself (no overflow, so the pool is really requested) is known finding
            // F28: the call does not return within minutes; see known_findings.txt
            10 => usize::MAX / 3 + 2,
            11 => usize::MAX / 3 + 1,
            12 => usize::MAX,
            _ => 4,
        };
        let seed = ctx.rng.next() >> 12;
        let cfg = Cfg { method: method.into(), params, iters, thr, threads, target: None, seed };
        if i < 2 {
            sample_case(ctx, &t, fam, &cfg);
        }
        // production samplers every fourth case (no hook): covered by running the library directly
        case_solve(ctx, &solve_case(&t, &cfg, &["wellformed"]));
        if i % 4 == 0 && threads <= 17 {
            let g = build(&t).unwrap();
            let r = catch_unwind(AssertUnwindSafe(|| {
                g.solve(method_of(method), iters, thr, threads, Some(params.to_lib())).map(|(s, _)| drain_named(&s))
            }));
            ctx.stat("production_sampler_runs");
            match r {
                Err(_) => ctx.fail_prop(&solve_case(&t, &cfg, &["wellformed"]), "solve with the production samplers panicked".to_string()),
                Ok(Ok(nm)) => {
                    for p in 0..2 {
                        if let Err(e) = named_valid(&nm[p]) {
                            ctx.fail_prop(&solve_case(&t, &cfg, &["wellformed"]), format!("production samplers: {}", e));
                        }
                    }
                }
                Ok(Err(_)) => {}
            }
        }
    }
    // the unlimited budget with a reachable threshold, on one thread and on several
    for i in 0..(if ctx.thorough { 120u64 } else { 18 }) {
        if ctx.out_of_time() {
            break;
        }
        let (t, fam) = small_game(ctx, i, 120);
        ctx.stat(&format!("family_{}", fam));
        let method = ["F", "S", "E"][(i % 3) as usize];
        let params = Params::presets()[((i / 3) % 5) as usize].1;
        let seed = ctx.rng.next() >> 12;
        let g0 = build(&t).unwrap();
        let c0 = Cfg { method: method.into(), params, iters: ctx.rng.range(1, 6), thr: 0.0, threads: 1, target: None, seed };
        let b = match run_lib(&g0, &c0) {
            Outcome::Ok(r) if r.total.is_finite() && r.total > 1e-9 => r.total,
            _ => continue,
        };
        ctx.stat("budget_u64_max");
        let cfg = Cfg { method: method.into(), params, iters: u64::MAX, thr: 1.5 * b, threads: [1usize, 2, 3][((i / 3) % 3) as usize], target: None, seed };
        case_solve(ctx, &solve_case(&t, &cfg, &["wellformed"]));
    }
    // the soft-max fallback at its extremes: every positive regret forgotten at once, weights of
    // large magnitude, payoffs of size one and of size one thousand
    for i in 0..(if ctx.thorough { 240u64 } else { 36 }) {
        if ctx.out_of_time() {
            break;
        }
        let (t, fam) = small_game(ctx, i, 120);
        let t = if i % 2 == 1 { t.map_payoffs(&|p| p * 1000.0) } else { t };
        ctx.stat(&format!("family_{}", fam));
        let method = ["F", "S", "E"][(i % 3) as usize];
        let params = [
            Params { pos: -INF, neg: INF, strat: 1.0, nopos: -1000.0 },
            Params { pos: -INF, neg: 0.0, strat: 1.0, nopos: 20.0 },
            Params { pos: -INF, neg: INF, strat: 0.0, nopos: -1.0 },
            Params { pos: -INF, neg: 1.0, strat: 2.0, nopos: 1000.0 },
        ][((i / 3) % 4) as usize];
        ctx.stat("params_softmax-extremes");
        let seed = ctx.rng.next() >> 12;
        let cfg = Cfg { method: method.into(), params, iters: *ctx.rng.pick(&[3u64, 8, 12]), thr: 0.0, threads: if i % 5 == 4 { 2 } else { 1 }, target: None, seed };
        let asserts: &[&str] = if cfg.threads == 1 { &["wellformed", "corr"] } else { &["wellformed"] };
        case_solve(ctx, &solve_case(&t, &cfg, asserts));
    }
    "all three methods x games from the mixed stream x {five presets, RegretParams::new tuples over exponents {-inf, -1e3, -1.5, -1, 0, 0.5, 1, 1.5, 2, 1e3, +inf}, gamma {0, .5, 1, 2, 3}, soft-max weights {-inf, -2, -.5, 0, .5, 1, 3, +inf}} x budgets {0, 1, 2, 7, 50} x thresholds {-1, 0, 1e-3, 0.5, +inf, NaN} x threads {0, 1, 2, 3, 4, 16, 17, 40/300, usize::MAX/3, usize::MAX/3+1, usize::MAX}; every call under catch_unwind; every fourth case additionally with the production samplers".to_string()
}

// ---------------------------------------------------------------------------------------------
// C06 / C07

fn threads_check(ctx: &mut Ctx, methods: &[&str]) {
    let n = if ctx.thorough { 5000 } else { 420 };
    let reps = if ctx.thorough { 3 } else { 1 };
    for i in 0..n {
        if ctx.out_of_time() {
            break;
        }
        let (mut t, mut fam) = small_game(ctx, i, 500);
        let method = methods[(i as usize) % methods.len()];
        let (pn, params) = Params::pick(&mut ctx.rng);
        ctx.stat(&format!("params_{}", pn));
        let mut iters = *ctx.rng.pick(&[1u64, 2, 2, 3, 3, 4, 4, 6, 10, 25, 0]);
        let mut threads = *ctx.rng.pick(&[2usize, 2, 3, 4, 8, 16]);
        if i % 12 == 5 {
            // schedule pressure: many tasks below one opponent infoset, more workers, longer runs
            let fan = ctx.rng.range(4, 9) as u32;
            t = contention_game(&mut ctx.rng, fan, 7);
            fam = "contention";
            threads = *ctx.rng.pick(&[4usize, 5, 6, 8, 16]);
            iters = *ctx.rng.pick(&[4u64, 30, 60]);
        }
        let mut force_default_target = false;
        if i % 12 == 7 || i % 12 == 11 {
            // an opponent infoset shared by several nodes right below the root: the frontier walk
            // itself follows some of them
            t = hidden_move(&mut ctx.rng);
            fam = "hidden-move";
            threads = *ctx.rng.pick(&[2usize, 2, 3]);
            iters = *ctx.rng.pick(&[2u64, 3, 4, 6]);
            force_default_target = i % 12 == 7;
        }
        // (residues 1 and 14 of 24: one odd and one even case, so that both methods of C07 meet the
        // family, and the odd residue 13 stays with the mixed stream - budgets of zero, players
        // without infosets and the like must keep reaching the second method of the list)
        if i % 24 == 1 || i % 24 == 14 {
            // a leaf or a coin still in the queue when the frontier walk stops: terminals and chance
            // nodes become tasks, their payoffs go through the cache
            t = if (i / 24) % 2 == 0 { early_exit(&mut ctx.rng) } else { coins_behind_choice(&mut ctx.rng) };
            fam = "leaf-on-the-frontier";
            threads = *ctx.rng.pick(&[2usize, 2, 3]);
            iters = *ctx.rng.pick(&[2u64, 3, 4, 6]);
            force_default_target = true;
        }
        let mut exact_zero = false;
        if i % 12 == 3 {
            // symmetric classics: after the first pass every cumulative regret is exactly zero, so a
            // bound *equal* to a threshold of zero occurs (the stop test is a strict comparison)
            t = match (i / 12) % 3 {
                0 => matching_pennies(0.0),
                1 => matching_pennies(0.0).map_payoffs(&|p| 3.0 * p),
                _ => matrix_game(&mut ctx.rng, 2, 2).map_payoffs(&|_| 0.5),
            };
            fam = "exact-zero-regret";
            iters = *ctx.rng.pick(&[2u64, 3, 4, 6]);
            exact_zero = true;
        }
        ctx.stat(&format!("family_{}", fam));
        let target = if !force_default_target && ctx.rng.chance(0.6) { Some(ctx.rng.range(1, 64) as usize) } else { None };
        let thr = if exact_zero { 0.0 } else if ctx.rng.chance(0.2) { 0.05 * t.range() } else { 0.0 };
        let seed = ctx.rng.next() >> 12;
        let params = if exact_zero { *ctx.rng.pick(&[Params::dcfr(), Params::cfr_plus(), Params::lcfr()]) } else { params };
        // tuples for which the ORDER of the update steps of `advance` shows (match, then discount):
        // positive regrets discounted to nothing, a finite soft-max weight - every solver has its
        // own copy of that sequence (one even and one odd residue: both methods of C07)
        let params = if !exact_zero && (i % 8 == 2 || i % 8 == 7) {
            ctx.stat("params_order_sensitive");
            *ctx.rng.pick(&[
                Params { pos: -INF, neg: 0.5, strat: 2.0, nopos: 0.0 },
                Params { pos: -INF, neg: INF, strat: 1.0, nopos: INF },
                Params { pos: -INF, neg: 0.0, strat: 1.0, nopos: 20.0 },
                Params { pos: -INF, neg: INF, strat: 0.0, nopos: -1.0 },
            ])
        } else {
            params
        };
        // the unlimited budget (what the documentation recommends together with a threshold, and what
        // the CLI passes for -t 0) with a threshold the run reaches
        let (iters, thr) = if i % 12 == 9 && t.size() <= 200 {
            let g0 = build(&t).unwrap();
            let k = ctx.rng.range(1, 6);
            let c0 = Cfg { method: method.into(), params, iters: k, thr: 0.0, threads: 1, target: None, seed };
            match run_lib(&g0, &c0) {
                Outcome::Ok(r) if r.total.is_finite() && r.total > 1e-9 => {
                    ctx.stat("budget_u64_max");
                    (u64::MAX, 1.5 * r.total)
                }
                _ => (iters, thr),
            }
        } else {
            (iters, thr)
        };
        let cfg = Cfg { method: method.into(), params, iters, thr, threads, target, seed };
        if i < 2 {
            sample_case(ctx, &t, fam, &cfg);
        }
        let asserts: &[&str] = if target.is_some() && i % 3 == 0 { &["multi_eq_single", "corr"] } else { &["multi_eq_single"] };
        for _ in 0..reps {
            let mut case = solve_case(&t, &cfg, asserts);
            if exact_zero {
                // 2 x 2: every infoset at one or two nodes, every sum has at most two terms
                case["order_free"] = json!(true);
            }
            case_solve(ctx, &case);
        }
    }
}

pub fn c06(ctx: &mut Ctx) -> String {
    threads_check(ctx, &["F"]);
    "Full method: games from the mixed stream x presets and custom parameter tuples x budgets {1, 2, 3, 4, 6, 10, 25} x threads {2, 3, 4, 8, 16} x task targets {3 x threads, 1..64 through the hook} x thresholds; strategies and bounds against the single-threaded run (tolerance 1e-8 / 1e-9); a third of the explicit-target cases also against the model's frontier/task/cached-traversal run".to_string()
}

pub fn c07(ctx: &mut Ctx) -> String {
    threads_check(ctx, &["S", "E"]);
    "Sampled and External methods under the keyed draw hook: same grid as C06; strategies, bounds and draw logs (one draw per infoset and pass, same keys, same weights, same indices) against the single-threaded run with the same draws; a third of the explicit-target cases also against the model".to_string()
}

// ---------------------------------------------------------------------------------------------
// C08

pub fn c08(ctx: &mut Ctx) -> String {
    // presets and default through the public fields
    let resp = ctx.model.ask("presets");
    let mut tk = Toks::new(resp.strip_prefix("ok ").unwrap_or(""));
    let libs = [
        RegretParams::vanilla(),
        RegretParams::lcfr(),
        RegretParams::cfr_plus(),
        RegretParams::dcfr(),
        RegretParams::dcfr_prune(),
        RegretParams::default(),
    ];
    let docs = [
        (INF, INF, 0.0, 0.0),
        (1.0, 1.0, 1.0, INF),
        (INF, -INF, 2.0, INF),
        (1.5, 0.0, 2.0, INF),
        (1.5, 0.5, 2.0, INF),
        (1.5, 0.0, 2.0, INF),
    ];
    for (k, l) in libs.iter().enumerate() {
        let m = (tk.f(), tk.f(), tk.f(), tk.f());
        let got = (l.pos_regret, l.neg_regret, l.strat, l.no_positive);
        if got != m {
            ctx.fail_corr(&json!({"op": "presets", "index": k}), format!("preset {}: library {:?}, model {:?}", k, got, m));
        }
        if got != docs[k] {
            ctx.fail_prop(&json!({"op": "presets", "index": k}), format!("preset {}: library {:?}, documented {:?}", k, got, docs[k]));
        }
        ctx.count(k as u64, true);
    }
    let n = if ctx.thorough { 2500 } else { 220 };
    let grid: &[u64] = &[0, 1, 2, 3, 5, 8, 13, 21, 34, 50];
    for i in 0..n {
        if ctx.out_of_time() {
            break;
        }
        let (t, fam) = small_game(ctx, i, 300);
        ctx.stat(&format!("family_{}", fam));
        let method = ["F", "S", "E"][(i % 3) as usize];
        let (mut pn, mut params) = Params::pick(&mut ctx.rng);
        if i % 4 == 3 {
            // tuples for which the ORDER of the update steps shows (match, then discount): positive
            // regrets discounted to nothing (the next strategy must still come from them), or a
            // finite soft-max weight (the fallback must see the undiscounted regrets)
            params = *ctx.rng.pick(&[
                Params { pos: -INF, neg: 0.5, strat: 2.0, nopos: 0.0 },
                Params { pos: -INF, neg: INF, strat: 1.0, nopos: INF },
                Params { pos: 1.5, neg: 0.5, strat: 2.0, nopos: 1.0 },
                Params { pos: 0.0, neg: 2.0, strat: 0.0, nopos: -0.5 },
                Params { pos: -1e3, neg: 1.0, strat: 1.0, nopos: 0.5 },
                // discount factors t^a/(t^a+1) far below machine epsilon but not zero: a regret
                // discounted to 1e-20 of itself is still positive, and still decides the strategy
                // wherever no new regret arrives
                Params { pos: -60.0, neg: INF, strat: 0.0, nopos: 0.0 },
                Params { pos: -12.0, neg: INF, strat: 0.0, nopos: 0.0 },
                Params { pos: -10.0, neg: 0.5, strat: 1.0, nopos: INF },
                // soft-max fallback over regrets that are all far below zero (positive regrets are
                // forgotten at once): the exponent must be shifted by the right extreme
                Params { pos: -INF, neg: 0.0, strat: 1.0, nopos: 20.0 },
                Params { pos: -INF, neg: INF, strat: 1.0, nopos: -1000.0 },
                Params { pos: -INF, neg: INF, strat: 0.0, nopos: 1000.0 },
            ]);
            pn = "order-sensitive".to_string();
        }
        // a finite soft-max weight meets regrets of size hundreds (the exponentials must be taken
        // relative to the right extreme, or they all underflow)
        let t = if i % 4 == 3 && params.nopos.is_finite() && params.nopos != 0.0 { t.map_payoffs(&|p| p * 64.0) } else { t };
        // with those tuples, every other time on a game in which one player's move switches the
        // other's infoset off (reach exactly zero: no new regret arrives there)
        let (t, fam) = if i % 8 == 7 {
            let (x, y, z) = (1.0 + ctx.rng.below(3) as f64, -3.0 + ctx.rng.below(2) as f64, 0.25 * ctx.rng.below(3) as f64);
            (T::Player(true, 0, vec![(0, T::Term(z)), (1, T::Player(false, 0, vec![(0, T::Term(x)), (1, T::Term(y))]))]), "switch-off")
        } else {
            (t, fam)
        };
        if i % 8 == 7 {
            ctx.stat("family_switch-off");
        }
        ctx.stat(&format!("params_{}", pn));
        let seed = ctx.rng.next() >> 12;
        for (k, tt) in grid.iter().enumerate() {
            if !ctx.thorough && k % 2 == (i % 2) as usize && *tt > 3 {
                continue;
            }
            let cfg = Cfg { method: method.into(), params, iters: *tt, thr: 0.0, threads: 1, target: None, seed };
            if i < 2 && *tt == 5 {
                sample_case(ctx, &t, fam, &cfg);
            }
            let mut case = solve_case(&t, &cfg, &["corr", "draws"]);
            if fam == "switch-off" && method == "F" {
                case["exact"] = json!(true);
            }
            case_solve(ctx, &case);
        }
        // the documented iterates do not depend on the thread count either
        if i % 3 == 0 {
            let threads = *ctx.rng.pick(&[2usize, 3, 4, 8]);
            for tt in [2u64, 5, 13] {
                let cfg = Cfg { method: method.into(), params, iters: tt, thr: 0.0, threads, target: None, seed };
                ctx.stat("multi_threaded_trajectories");
                case_solve(ctx, &solve_case(&t, &cfg, &["corr"]));
            }
        }
        // None means the documented default
        if i % 10 == 0 {
            let g = build(&t).unwrap();
            if let (Ok((a, _)), Ok((b, _))) = (
                g.solve(SolveMethod::Full, 5, 0.0, 1, None),
                g.solve(SolveMethod::Full, 5, 0.0, 1, Some(RegretParams::dcfr())),
            ) {
                if a != b {
                    ctx.fail_prop(&json!({"op": "default-params", "tree": t.to_json()}), "omitting the parameters differs from dcfr".to_string());
                }
            }
        }
    }
    // payoffs in the subnormal range (finite, so the game is accepted): every cumulative regret is a
    // subnormal number, and a positive subnormal sum of regrets is a positive sum (one thread only:
    // subnormal numbers carry few bits, so a different summation order is a different result)
    for i in 0..(if ctx.thorough { 160u64 } else { 20 }) {
        if ctx.out_of_time() {
            break;
        }
        let (t, _) = small_game(ctx, i, 100);
        let mx = {
            let mut v = Vec::new();
            t.payoffs(&mut v);
            v.iter().fold(0.0f64, |a, b| a.max(b.abs()))
        };
        if !(mx > 0.0) {
            continue;
        }
        // an exact power of two that brings the largest payoff to about 1e-309: just below the
        // smallest normal double, where the numbers still carry some forty-five bits (deeper down a
        // harmless reordering of two multiplications already moves a strategy by 1e-8)
        let e = (1e-309f64 / mx).log2().floor() as i32;
        let t = t.map_payoffs(&|p| p * 2f64.powi(e / 2) * 2f64.powi(e - e / 2));
        ctx.stat("family_subnormal-payoffs");
        let method = ["F", "S", "E"][(i % 3) as usize];
        let params = Params::presets()[((i / 3) % 5) as usize].1;
        let seed = ctx.rng.next() >> 12;
        for tt in [1u64, 3, 8] {
            let cfg = Cfg { method: method.into(), params, iters: tt, thr: 0.0, threads: 1, target: None, seed };
            case_solve(ctx, &solve_case(&t, &cfg, &["corr"]));
        }
    }
    // the soft-max fallback in earnest: matrix games with payoffs of size ten, every positive regret
    // forgotten at once, so that again and again no regret is positive and the fallback decides -
    // over regrets that are all well below zero
    for i in 0..(if ctx.thorough { 120u64 } else { 18 }) {
        if ctx.out_of_time() {
            break;
        }
        let (rows, cols) = (2 + (i % 2) as u32, 3);
        let t = if i % 3 == 0 {
            // a safe row next to two risky ones (every regret of the column player ends up far below zero)
            // (every sixth case with the round numbers themselves: the constant row makes the column
            // player's regrets coincide, which is where all of them end up far below zero together)
            let round = i % 6 == 0;
            let mut e = |x: f64| if round { x } else { x + 0.25 * ctx.rng.unit() };
            let pay = [[e(3.0), e(3.0), e(3.0)], [e(9.0), e(4.0), e(-10.0)], [e(6.0), e(-10.0), e(-2.0)]];
            T::Player(true, 0, (0..3u32).map(|r| (r, T::Player(false, 0, (0..3u32).map(|c| (c, T::Term(pay[r as usize][c as usize]))).collect()))).collect())
        } else {
            matrix_game(&mut ctx.rng, rows, cols).map_payoffs(&|p| p * 5.0)
        };
        ctx.stat("family_matrix-softmax");
        let params = [
            Params { pos: -INF, neg: 0.0, strat: 1.0, nopos: 20.0 },
            Params { pos: -INF, neg: 0.5, strat: 2.0, nopos: 1000.0 },
            Params { pos: -INF, neg: INF, strat: 1.0, nopos: -1000.0 },
            Params { pos: -INF, neg: 1.0, strat: 0.0, nopos: -20.0 },
            Params { pos: -INF, neg: 0.0, strat: 1.0, nopos: 3.0 },
            Params { pos: -INF, neg: INF, strat: 1.0, nopos: 0.5 },
        ][(i % 6) as usize];
        ctx.stat("params_softmax-in-earnest");
        let method = ["F", "F", "E"][((i / 6) % 3) as usize];
        let seed = ctx.rng.next() >> 12;
        for tt in [2u64, 5, 8, 13, 21, 40] {
            let cfg = Cfg { method: method.into(), params, iters: tt, thr: 0.0, threads: 1, target: None, seed };
            let mut case = solve_case(&t, &cfg, &["corr"]);
            if i % 6 == 0 && method == "F" {
                // a 3 x 3 matrix game on one thread: both sides perform the same operations in the
                // same order, ties included
                case["exact"] = json!(true);
            }
            case_solve(ctx, &case);
        }
    }
    "solves of all three methods under the keyed draw hook (single-threaded on the whole grid, 2/3/4/8 threads on three budgets for every third game): games from the mixed stream (generic and tie-rich integer payoffs) x presets and custom tuples incl. 0 and +-inf x every prefix budget in {0,1,2,3,5,8,13,21,34,50}; returned strategies, both bounds and the draw log against the model; preset tuples and the default through the public fields".to_string()
}

// ---------------------------------------------------------------------------------------------
// C09

fn next_up(x: f64) -> f64 {
    if x.is_nan() || x == INF {
        return x;
    }
    if x == 0.0 {
        return 5e-324;
    }
    let b = x.to_bits();
    f64::from_bits(if x > 0.0 { b + 1 } else { b - 1 })
}

pub fn c09(ctx: &mut Ctx) -> String {
    let n = if ctx.thorough { 2500 } else { 260 };
    for i in 0..n {
        if ctx.out_of_time() {
            break;
        }
        let (t, fam) = small_game(ctx, i, 200);
        ctx.stat(&format!("family_{}", fam));
        let method = ["F", "S", "E"][(i % 3) as usize];
        let (pn, params) = Params::pick(&mut ctx.rng);
        ctx.stat(&format!("params_{}", pn));
        let budget = ctx.rng.range(2, if ctx.thorough { 16 } else { 10 });
        let seed = ctx.rng.next() >> 12;
        let threads = if ctx.rng.chance(0.25) { *ctx.rng.pick(&[2usize, 4]) } else { 1 };
        let g = build(&t).unwrap();
        // a bound value occurring along the run
        let k = ctx.rng.range(1, budget);
        let c0 = Cfg { method: method.into(), params, iters: k, thr: 0.0, threads: 1, target: None, seed };
        let b = match run_lib(&g, &c0) {
            Outcome::Ok(r) => r.total,
            _ => 0.1,
        };
        let thr = match ctx.rng.below(9) {
            0 => 0.0,
            1 => -1.0,
            2 => f64::NAN,
            3 => INF,
            4 => b,
            5 => next_up(b),
            6 => -next_up(-b),
            7 => b * 1.5,
            _ => b * 0.7,
        };
        ctx.stat(&format!("threshold_{}", match ctx.rng.0 % 1 { _ => if thr.is_nan() { "nan" } else if thr <= 0.0 { "nonpositive" } else if thr == INF { "inf" } else { "around_a_bound" } }));
        let cfg = Cfg { method: method.into(), params, iters: budget, thr, threads, target: None, seed };
        if i < 2 {
            sample_case(ctx, &t, fam, &cfg);
        }
        let asserts: &[&str] = if threads == 1 { &["prefix", "corr"] } else { &["prefix"] };
        case_solve(ctx, &solve_case(&t, &cfg, asserts));
    }
    // the smallest budgets, every thread count: "the budget is never exceeded" includes a budget
    // of zero (no iteration: infinite bounds, the initial uniform profile) and of one
    for i in 0..(if ctx.thorough { 240u64 } else { 36 }) {
        if ctx.out_of_time() {
            break;
        }
        let (t, fam) = small_game(ctx, i, 120);
        ctx.stat(&format!("family_{}", fam));
        let method = ["F", "S", "E"][(i % 3) as usize];
        let (_, params) = Params::pick(&mut ctx.rng);
        let budget = (i / 3) % 2;
        let threads = [1usize, 2, 3, 4][((i / 6) % 4) as usize];
        let thr = *ctx.rng.pick(&[0.0, -1.0, f64::NAN, INF, 1e-3]);
        let seed = ctx.rng.next() >> 12;
        ctx.stat(&format!("budget_{}", budget));
        let cfg = Cfg { method: method.into(), params, iters: budget, thr, threads, target: None, seed };
        case_solve(ctx, &solve_case(&t, &cfg, &["prefix", "wellformed", "corr"]));
    }
    // the largest budget there is ("no limit": what the documentation recommends with a threshold,
    // and what the CLI passes for -t 0), with a threshold the run reaches
    for i in 0..(if ctx.thorough { 120u64 } else { 18 }) {
        if ctx.out_of_time() {
            break;
        }
        let (t, fam) = small_game(ctx, i, 120);
        ctx.stat(&format!("family_{}", fam));
        let method = ["F", "S", "E"][(i % 3) as usize];
        let params = Params::presets()[((i / 3) % 5) as usize].1;
        let seed = ctx.rng.next() >> 12;
        let threads = if i % 6 >= 3 { 2 } else { 1 };
        let g = build(&t).unwrap();
        let k = ctx.rng.range(1, 9);
        let c0 = Cfg { method: method.into(), params, iters: k, thr: 0.0, threads: 1, target: None, seed };
        let b = match run_lib(&g, &c0) {
            Outcome::Ok(r) if r.total.is_finite() && r.total > 0.0 => r.total,
            _ => continue,
        };
        let budget = if (i / 6) % 2 == 0 { u64::MAX } else { u64::MAX - 1 };
        ctx.stat(if budget == u64::MAX { "budget_u64_max" } else { "budget_u64_max_minus_one" });
        let cfg = Cfg { method: method.into(), params, iters: budget, thr: 1.5 * b, threads, target: None, seed };
        let asserts: &[&str] = if threads == 1 { &["prefix", "corr"] } else { &["prefix"] };
        case_solve(ctx, &solve_case(&t, &cfg, asserts));
    }
    "all three methods (sampled ones under the keyed draw hook) x games x presets and custom tuples x budgets {0, 1} x threads {1, 2, 3, 4}, budgets {u64::MAX, u64::MAX - 1} with a reachable threshold, and budgets 2..10 (quick) / 2..16 (thorough) x thresholds {0, -1, NaN, +inf, a bound value b occurring along the run, its two float neighbours, 1.5 b, 0.7 b} x threads {1, 2, 4}: the run with the threshold against the run with budget t* and no threshold (bit-exact for one thread); single-threaded cases also against the model".to_string()
}

// ---------------------------------------------------------------------------------------------
// C10

pub fn c10(ctx: &mut Ctx) -> String {
    // the categorical sampler on the complete dyadic grid: weights are multiples of 1/8 summing to
    // at most 2, u = j/64
    let ws_alpha = [0.0, 0.125, 0.25, 0.5, 0.75, 1.0];
    let max_len = if ctx.thorough { 5 } else { 4 };
    let mut stack: Vec<Vec<f64>> = vec![vec![]];
    while let Some(ws) = stack.pop() {
        if !ws.is_empty() {
            for j in 0..64u64 {
                let k = j << 47; // j/64 as a 53-bit variate
                let case = json!({"op": "multinomial", "weights": ws.iter().map(|w| fjson(*w)).collect::<Vec<_>>(), "k": k, "dyadic": true});
                case_multinomial(ctx, &case);
            }
            ctx.stat("dyadic_weight_vectors");
        }
        if ws.len() < max_len {
            for w in ws_alpha {
                let mut v = ws.clone();
                v.push(w);
                if v.iter().sum::<f64>() <= 2.0 {
                    stack.push(v);
                }
            }
        }
    }
    // random doubles
    let m = if ctx.thorough { 40_000 } else { 4_000 };
    for i in 0..m {
        let len = ctx.rng.range(1, 6) as usize;
        let mut ws: Vec<f64> = (0..len).map(|_| ctx.rng.unit()).collect();
        if ctx.rng.chance(0.8) {
            let tot: f64 = ws.iter().sum();
            ws.iter_mut().for_each(|w| *w /= tot);
        }
        let k = ctx.rng.next() >> 11;
        let case = json!({"op": "multinomial", "weights": ws.iter().map(|w| fjson(*w)).collect::<Vec<_>>(), "k": k});
        if i == 0 {
            ctx.sample(json!({"sampler_weights": ws, "variate_numerator": k}));
        }
        case_multinomial(ctx, &case);
    }
    // draw discipline of the solvers
    let n = if ctx.thorough { 2500 } else { 240 };
    for i in 0..n {
        if ctx.out_of_time() {
            break;
        }
        let (t, fam) = small_game(ctx, i, 400);
        ctx.stat(&format!("family_{}", fam));
        let method = ["S", "E", "F", "E"][(i % 4) as usize];
        let (_, params) = Params::pick(&mut ctx.rng);
        let iters = ctx.rng.range(1, 12);
        let threads = if ctx.rng.chance(0.3) { *ctx.rng.pick(&[2usize, 3, 8]) } else { 1 };
        let seed = ctx.rng.next() >> 12;
        let cfg = Cfg { method: method.into(), params, iters, thr: 0.0, threads, target: None, seed };
        if i < 2 {
            sample_case(ctx, &t, fam, &cfg);
        }
        let asserts: &[&str] = if threads == 1 { &["draws", "corr"] } else { &["draws", "multi_eq_single"] };
        case_solve(ctx, &solve_case(&t, &cfg, asserts));
    }
    // wide tables: an outcome or action index above 255 / 65535 is an index like any other
    let fans: Vec<(&str, usize, &str)> = if ctx.thorough {
        vec![("chance", 300, "S"), ("chance", 300, "E"), ("player", 600, "E"), ("chance", 65_538, "S"), ("chance", 65_538, "E"), ("player", 70_000, "E"), ("chance", 1000, "S"), ("player", 300, "E")]
    } else {
        vec![("chance", 300, "S"), ("chance", 300, "E"), ("player", 600, "E"), ("chance", 65_538, "S")]
    };
    for (fi, (kind, n, method)) in fans.iter().enumerate() {
        if ctx.out_of_time() {
            break;
        }
        let t = if *kind == "chance" { chance_fan(&mut ctx.rng, *n) } else { player_fan(&mut ctx.rng, *n) };
        ctx.stat(&format!("family_{}-fan-{}", kind, n));
        let seed = ctx.rng.next() >> 12;
        let iters = if *n > 10_000 { 2 } else { 5 };
        let threads = if fi % 2 == 1 && *n < 10_000 { 2 } else { 1 };
        let cfg = Cfg { method: (*method).into(), params: Params::dcfr(), iters, thr: 0.0, threads, target: None, seed };
        let asserts: &[&str] = if threads == 1 { &["draws", "corr"] } else { &["draws", "multi_eq_single"] };
        case_solve(ctx, &solve_case(&t, &cfg, asserts));
    }
    // the production samplers, observed: frequencies follow the declared weights (5 sigma)
    let reps = if ctx.thorough { 20 } else { 6 };
    for r in 0..reps {
        // (two of the vectors carry a declared weight that is positive but vanishes beside the others:
        // the outcome exists, its probability is exactly zero, and the indices of the others stay)
        let w = if r % 6 == 4 {
            [1e-320, 1e300, 2e300]
        } else if r % 6 == 5 {
            [1e300, 1e-320, 1e300]
        } else {
            [1.0 + ctx.rng.below(3) as f64, 1.0 + ctx.rng.below(3) as f64, 1.0]
        };
        let t = T::Chance(
            Some(0),
            w.iter().map(|x| (*x, T::Player(true, 0, vec![(0, T::Term(1.0)), (1, T::Term(-1.0))]))).collect(),
        );
        let g = build(&t).unwrap();
        let iters = 6000u64;
        cfr::verif::set_draw_hook(None);
        cfr::verif::set_observe(true);
        let _ = cfr::verif::take_log();
        let method = if r % 2 == 0 { SolveMethod::Sampled } else { SolveMethod::External };
        let _ = g.solve(method, iters, 0.0, 1, None);
        cfr::verif::set_observe(false);
        let log = cfr::verif::take_log();
        let chance: Vec<&DrawRecord> = log.iter().filter(|d| d.kind == 0).collect();
        let passes = chance.len() as f64;
        let tot: f64 = w.iter().sum();
        let expected_passes = if r % 2 == 0 { iters } else { 2 * iters } as f64;
        if passes != expected_passes {
            ctx.fail_prop(&json!({"op": "production-sampler", "weights": w}), format!("{} chance draws in {} passes", passes, expected_passes));
        }
        for (k, wk) in w.iter().enumerate() {
            let p = wk / tot;
            let cnt = chance.iter().filter(|d| d.result == k).count() as f64;
            let sigma = (passes * p * (1.0 - p)).sqrt();
            if (cnt - passes * p).abs() > 5.0 * sigma + 1.0 {
                ctx.fail_prop(&json!({"op": "production-sampler", "weights": w}), format!("outcome {} drawn {} times in {} passes, expected {:.0} +- {:.0}", k, cnt, passes, passes * p, sigma));
            }
        }
        ctx.stat("production_sampler_frequency_tests");
    }
    // one draw per chance infoset and pass, seen from the command line (Gambit files)
    crate::cli::shared_coin(ctx);
    "the categorical sampler on the complete dyadic grid (weights in {0, 1/8, 1/4, 1/2, 3/4, 1}, length <= 4 (quick) / 5 (thorough), sum <= 2, u = j/64; exact interval oracle) and on random doubles, against the model; draw logs of the three methods (kind, infoset, pass, weights, index) against the model and against the discipline rules; observed production samplers against the declared weights".to_string()
}

// ---------------------------------------------------------------------------------------------
// C12: presentation invariance (metamorphic, on the implementation)

fn rename_map(rng: &mut Rng) -> (u32, u32) {
    // injective affine renaming x -> a*x + b with odd a
    (1 + 2 * rng.below(4) as u32, rng.below(50) as u32)
}

fn transform(t: &T, what: &str, rng: &mut Rng, c: f64) -> T {
    match what {
        "rescale_chance" => match t {
            T::Term(p) => T::Term(*p),
            T::Chance(i, o) => {
                // same constant for every node of a named infoset is not required: any positive constant per node
                // (weights as small or as large as positive doubles go are weights like any other)
                let k = if i.is_some() { c } else { *rng.pick(&[0.5, 2.0, 4.0, c, 2f64.powi(-1040), 2f64.powi(900)]) };
                T::Chance(*i, o.iter().map(|(w, x)| (w * k, transform(x, what, rng, c))).collect())
            }
            T::Player(p, i, a) => T::Player(*p, *i, a.iter().map(|(x, y)| (*x, transform(y, what, rng, c))).collect()),
        },
        "degenerate" => {
            let inner = match t {
                T::Term(p) => T::Term(*p),
                T::Chance(i, o) => T::Chance(*i, o.iter().map(|(w, x)| (*w, transform(x, what, rng, c))).collect()),
                T::Player(p, i, a) => T::Player(*p, *i, a.iter().map(|(x, y)| (*x, transform(y, what, rng, c))).collect()),
            };
            match rng.below(5) {
                0 => T::Chance(None, vec![(3.0, inner)]),
                1 => T::Player(rng.chance(0.5), 9000 + rng.below(3) as u32, vec![(5, inner)]),
                _ => inner,
            }
        }
        "swap" => match t {
            T::Term(p) => T::Term(-*p),
            T::Chance(i, o) => T::Chance(*i, o.iter().map(|(w, x)| (*w, transform(x, what, rng, c))).collect()),
            T::Player(p, i, a) => T::Player(!*p, *i, a.iter().map(|(x, y)| (*x, transform(y, what, rng, c))).collect()),
        },
        _ => t.clone(),
    }
}

fn rename_tree(t: &T, mi: (u32, u32), ma: (u32, u32), mc: (u32, u32)) -> T {
    match t {
        T::Term(p) => T::Term(*p),
        T::Chance(i, o) => T::Chance(i.map(|l| mc.0 * l + mc.1), o.iter().map(|(w, x)| (*w, rename_tree(x, mi, ma, mc))).collect()),
        T::Player(p, i, a) => T::Player(*p, mi.0 * *i + mi.1, a.iter().map(|(x, y)| (ma.0 * *x + ma.1, rename_tree(y, mi, ma, mc))).collect()),
    }
}

fn rename_named(n: &Named, mi: (u32, u32), ma: (u32, u32)) -> Named {
    n.iter().map(|(l, a)| (mi.0 * l + mi.1, a.iter().map(|(x, p)| (ma.0 * x + ma.1, *p)).collect())).collect()
}

fn drop_labels(n: &Named, pred: &dyn Fn(u32) -> bool) -> Named {
    n.iter().filter(|(l, _)| !pred(*l)).cloned().collect()
}

pub fn case_meta(ctx: &mut Ctx, case: &Value) {
    let t = case_tree(case);
    let what = case["what"].as_str().unwrap_or("");
    let c = fparse(&case["c"]).unwrap_or(2.0);
    let cfg = Cfg::from_json(&case["cfg"]);
    let prof = case_prof(case, "prof");
    ctx.record_current(case);
    let mut rng = Rng::new(case["rseed"].as_u64().unwrap_or(0));
    let (mi, ma, mc) = (rename_map(&mut rng), rename_map(&mut rng), rename_map(&mut rng));
    let t2 = match what {
        "rename" => rename_tree(&t, mi, ma, mc),
        "scale" => t.map_payoffs(&|p| p * c),
        "shift" => t.map_payoffs(&|p| p + c),
        _ => transform(&t, what, &mut rng, c),
    };
    // infoset names are per player: half of the inserted single-action nodes take the name of an
    // infoset of the *other* player (one the acting player does not use herself)
    let own_labels = infosets_of(&t);
    let t2 = if what == "degenerate" {
        fn relabel(t: &T, own: &[BTreeMap<u32, Vec<u32>>; 2], flip: u64) -> T {
            match t {
                T::Term(p) => T::Term(*p),
                T::Chance(i, o) => T::Chance(*i, o.iter().map(|(w, x)| (*w, relabel(x, own, flip))).collect()),
                T::Player(p, i, a) => {
                    let me = if *p { 0 } else { 1 };
                    let mut label = *i;
                    if *i >= 9000 && (flip >> (*i - 9000)) & 1 == 1 {
                        if let Some(l) = own[1 - me].iter().filter(|(l, acts)| acts.len() >= 2 && !own[me].contains_key(*l)).map(|(l, _)| *l).nth((*i - 9000) as usize % 2) {
                            label = l;
                        }
                    }
                    T::Player(*p, label, a.iter().map(|(x, y)| (*x, relabel(y, own, flip))).collect())
                }
            }
        }
        relabel(&t2, &own_labels, rng.next())
    } else {
        t2
    };
    let inserted = |p: usize, l: u32| what == "degenerate" && !own_labels[p].contains_key(&l);
    let (g1, g2) = match (build(&t), build(&t2)) {
        (Ok(a), Ok(b)) => (a, b),
        (a, b) => {
            return ctx.fail_prop(case, format!("transformation {} changes acceptance: {:?} vs {:?}", what, a.err(), b.err()));
        }
    };
    let sc = {
        let mut v = Vec::new();
        t.payoffs(&mut v);
        t2.payoffs(&mut v);
        v.iter().fold(1.0f64, |a, b| a.max(b.abs()))
    };
    // how results map back
    let back = |n: &[Named; 2]| -> [Named; 2] {
        match what {
            "rename" => {
                // invert by renaming the original instead
                n.clone()
            }
            "swap" => [n[1].clone(), n[0].clone()],
            "degenerate" => [drop_labels(&n[0], &|l| inserted(0, l)), drop_labels(&n[1], &|l| inserted(1, l))],
            _ => n.clone(),
        }
    };
    let fwd_prof = |n: &[Named; 2]| -> [Named; 2] {
        match what {
            "rename" => [rename_named(&n[0], mi, ma), rename_named(&n[1], mi, ma)],
            "swap" => [n[1].clone(), n[0].clone()],
            "degenerate" => {
                let infos = infosets_of(&t2);
                let mut out = n.clone();
                for p in 0..2 {
                    for (l, a) in &infos[p] {
                        if inserted(p, *l) {
                            out[p].push((*l, vec![(a[0], 1.0)]));
                        }
                    }
                }
                out
            }
            _ => n.clone(),
        }
    };
    // evaluation
    let (s1, s2) = match (g1.from_named(prof.clone()), g2.from_named(fwd_prof(&prof))) {
        (Ok(a), Ok(b)) => (a, b),
        (a, b) => return ctx.fail_prop(case, format!("profile import differs under {}: {:?} vs {:?}", what, a.err(), b.err())),
    };
    let (i1, i2) = (s1.get_info(), s2.get_info());
    let (u1, u2) = (i1.player_utility(PlayerNum::One), i2.player_utility(PlayerNum::One));
    let r1 = [i1.player_regret(PlayerNum::One), i1.player_regret(PlayerNum::Two)];
    let r2 = [i2.player_regret(PlayerNum::One), i2.player_regret(PlayerNum::Two)];
    // numbers of the transformed game are compared at the transformed game's own scale
    let sc2 = {
        let mut v = Vec::new();
        t2.payoffs(&mut v);
        v.iter().fold(0.0f64, |a, b| a.max(b.abs()))
    };
    let sc2 = if what == "scale" && sc2 > 0.0 { sc2 } else { sc };
    let tol = 1e-9 * sc2;
    let (wu, wr) = match what {
        "scale" => (u1 * c, [r1[0] * c, r1[1] * c]),
        "shift" => (u1 + c, r1),
        "swap" => (-u1, [r1[1], r1[0]]),
        _ => (u1, r1),
    };
    if !(close_tol(wu, u2, tol) && close_tol(wr[0], r2[0], tol) && close_tol(wr[1], r2[1], tol)) {
        ctx.fail_prop(case, format!("evaluation under {}: expected util {:e} regrets {:?}, got util {:e} regrets {:?}", what, wu, wr, u2, r2));
    }
    // the same through the other import route, and (an inserted single-action decision may be listed
    // with any valid weight: 1, 0, or another finite non-negative number) with other weights on the
    // inserted infosets: none of this may change an evaluation (added after seeded change m12r)
    {
        let base = fwd_prof(&prof);
        let mut variants: Vec<(&str, [Named; 2])> = vec![("as listed", base.clone())];
        if what == "degenerate" {
            let infos = infosets_of(&t2);
            for (name, w) in [("weight 0", 0.0f64), ("weight 2.5", 2.5f64)] {
                let mut v = base.clone();
                for p in 0..2 {
                    for (l, acts) in v[p].iter_mut() {
                        if inserted(p, *l) && infos[p].iter().any(|(m, _)| m == l) {
                            for a in acts.iter_mut() {
                                a.1 = w;
                            }
                        }
                    }
                }
                variants.push((name, v));
            }
        }
        for (name, v) in variants {
            for route in ["from_named", "from_named_eq"] {
                if name == "as listed" && route == "from_named" {
                    continue;
                }
                let imported = catch_unwind(AssertUnwindSafe(|| {
                    let s = if route == "from_named" { g2.from_named(v.clone()) } else { g2.from_named_eq(v.clone()) };
                    s.map(|s| {
                        let i = s.get_info();
                        (i.player_utility(PlayerNum::One), [i.player_regret(PlayerNum::One), i.player_regret(PlayerNum::Two)])
                    })
                }));
                ctx.stat("c12_import_variants");
                match imported {
                    Ok(Ok((u, r))) => {
                        if !(close_tol(wu, u, tol) && close_tol(wr[0], r[0], tol) && close_tol(wr[1], r[1], tol)) {
                            ctx.fail_prop(case, format!("evaluation under {} ({}, inserted infosets {}): expected util {:e} regrets {:?}, got util {:e} regrets {:?}", what, route, name, wu, wr, u, r));
                        }
                    }
                    Ok(Err(e)) => ctx.fail_prop(case, format!("under {} the profile ({}, inserted infosets {}) is rejected by {}: {:?}", what, name, name, route, e)),
                    Err(_) => ctx.fail_prop(case, format!("under {} {} panics (inserted infosets {})", what, route, name)),
                }
            }
        }
    }
    // deterministic solve
    let o1 = run_lib(&g1, &cfg);
    let o2 = run_lib(&g2, &cfg);
    match (o1, o2) {
        (Outcome::Ok(a), Outcome::Ok(b)) => {
            let bn = back(&b.named);
            let an = if what == "rename" { [rename_named(&a.named[0], mi, ma), rename_named(&a.named[1], mi, ma)] } else { a.named.clone() };
            let d = named_diff(&an[0], &bn[0]).max(named_diff(&an[1], &bn[1]));
            let wb = match what {
                "scale" => [a.bounds[0] * c, a.bounds[1] * c],
                "swap" => [a.bounds[1], a.bounds[0]],
                _ => a.bounds,
            };
            if !(d <= 1e-8) || !bounds_close(&wb, &b.bounds, 1e-9 * sc2) {
                let mut c1 = cfg.clone();
                c1.threads = 1;
                let margin = model_margin(ctx, &t, &c1).min(model_margin(ctx, &t2, &c1));
                // a stored witness may declare its exact zeros structural (independent of summation order)
                let force = case["structural_zeros"].as_bool().unwrap_or(false);
                if margin < ILL && !force {
                    ctx.skipped_illcond += 1;
                    ctx.stat("ill_conditioned_skipped");
                } else {
                    ctx.fail_prop(case, format!("solve under {}: strategies differ by {:e}, bounds expected {:?} got {:?} (margin {:e})", what, d, wb, b.bounds, margin));
                }
            } else {
                ctx.stat("solutions_agree");
            }
        }
        (a, b) => ctx.fail_prop(case, format!("solve outcome differs under {}: {:?} vs {:?}", what, a, b)),
    }
    ctx.stat(&format!("transformation_{}", what));
    ctx.count(mix64(t.hash() ^ mix64(t2.hash()) ^ prof_hash(&prof)), t.size() >= 3);
}

pub fn c12(ctx: &mut Ctx) -> String {
    let n = if ctx.thorough { 8000 } else { 700 };
    let kinds = ["rescale_chance", "degenerate", "rename", "scale", "shift", "swap"];
    for i in 0..n {
        if ctx.out_of_time() {
            break;
        }
        let (t, fam) = small_game(ctx, i, 400);
        ctx.stat(&format!("family_{}", fam));
        let what = kinds[(i % 6) as usize];
        let c = match what {
            // (exact powers of two far from one: nothing in the algorithm may depend on the unit)
            "scale" => *ctx.rng.pick(&[0.5, 2.0, 8.0, 3.0, 0.1, 1e-3, 1e3, 2f64.powi(-70), 2f64.powi(-70), 2f64.powi(60), 2f64.powi(-200)]),
            "shift" => *ctx.rng.pick(&[1.0, -4.0, 0.5, 100.0, 0.3]),
            _ => *ctx.rng.pick(&[0.25, 2.0, 8.0]),
        };
        // scale invariance is documented for the limiting soft-max weights only (presets, default)
        let params = if what == "scale" {
            Params::presets()[ctx.rng.below(5) as usize].1
        } else {
            Params::pick(&mut ctx.rng).1
        };
        let kind = pick_prof_kind(&mut ctx.rng);
        let prof = gen_profile(&mut ctx.rng, &t, kind);
        let cfg = Cfg { method: "F".into(), params, iters: ctx.rng.range(0, 30), thr: 0.0, threads: *ctx.rng.pick(&[1usize, 1, 1, 2]), target: None, seed: 0 };
        let case = json!({"op": "meta", "tree": t.to_json(), "what": what, "c": fjson(c), "c_shown": c, "cfg": cfg.json(), "prof": prof_json(&prof), "rseed": ctx.rng.next() >> 12});
        if i < 3 {
            ctx.sample(json!({"family": fam, "nodes": t.size(), "what": what, "c": c, "cfg": cfg.json(), "tree_line": t.to_line()}));
        }
        case_meta(ctx, &case);
    }
    // the same at the command line (Gambit files: a constant added to both players' payoffs)
    for i in 0..(if ctx.thorough { 200u64 } else { 24 }) {
        if ctx.out_of_time() {
            break;
        }
        let (t, _) = small_game(ctx, i, 80);
        if t.depth() > 30 || t.range() > 1e6 || t.range() < 1e-6 {
            continue;
        }
        let c = *ctx.rng.pick(&[1.0, 2.0, -3.0, 0.5, 8.0]);
        let case = json!({"op": "cli-shift", "tree": t.to_json(), "nseed": ctx.rng.next() >> 12, "shift": c,
            "discount": *ctx.rng.pick(&["vanilla", "lcfr", "cfr-plus", "dcfr", "dcfr-prune"]), "t": *ctx.rng.pick(&[1u64, 3, 10])});
        crate::cli::case_shift(ctx, &case);
        // and single-outcome chance nodes inserted into a file whose interior nodes carry outcomes
        let case = json!({"op": "cli-degenerate", "tree": t.to_json(), "nseed": ctx.rng.next() >> 12,
            "discount": *ctx.rng.pick(&["vanilla", "lcfr", "cfr-plus", "dcfr", "dcfr-prune"]), "t": *ctx.rng.pick(&[1u64, 3, 10])});
        crate::cli::case_degenerate_cli(ctx, &case);
    }
    "metamorphic pairs on the implementation: games x {rescale chance weights by positive constants, insert single-outcome chance and single-action decision nodes, injective renaming of infosets / actions / chance infosets, payoff scale c > 0 (presets), payoff shift, player swap with negated payoffs} x profiles (evaluation) x Full solves with budgets 0..30 (strategies mapped back, bounds scaled / swapped)".to_string()
}
