//! The lock discipline of the multi-threaded solvers, observed through `cfr::verif::sync` (the
//! feature-gated wrapper around `std::sync::Mutex` that logs every `lock`, `try_lock` and guard
//! drop per thread, and the start of every pass).
//!
//! Per pass, the traces of the worker threads are sent to the model:
//!  * `poolok2`    — the decidable form of the (wide) hypotheses of the interleaving theorems
//!                   (`Proofs/LocksWide.lean`: `poolOK2b ts = true → no schedule of ts panics on a
//!                   try_lock, deadlocks, or fails to end`): a mutex acquired once in the pass may
//!                   be taken by either call and held across others; any other acquisition must
//!                   be a `lock()` released by the thread's next operation;
//!  * `locksearch` — when the hypotheses fail: a search over the interleavings of the observed
//!                   traces for a schedule that panics or deadlocks (the replay);
//!  * `locktrace`  — external sampling: the events the model's traversal makes in each pass
//!                   (`etrace`), compared as a multiset with what the crate did in that pass;
//!  * `vlocktrace` — full / chance sampling: the events of the model's traversal (`vtrace`); the
//!                   players' mutexes are compared as a multiset, the chance mutexes as a set.
use crate::core::*;
use crate::solve_props::Cfg;
use crate::Ctx;
use cfr::verif::sync::{LockRecord, NO_LABEL, OP_LOCK, OP_PHASE, OP_TRY, OP_TRY_FAIL, OP_UNLOCK};
use serde_json::Value;
use std::collections::BTreeMap;

type Ev = (u8, u8, usize);

fn name_of(r: &LockRecord, maps: &IndexMaps) -> (u8, usize) {
    if r.index == NO_LABEL {
        // an unlabelled mutex (vanilla.rs): an opaque name
        (0, r.serial)
    } else {
        // canonical infoset index (internal numbering is the crate's own business)
        (r.kind, maps.canon(r.kind, r.index))
    }
}

/// split the log at the pass markers; per pass, one trace per thread (in order of first appearance)
fn passes_of(log: &[LockRecord], maps: &IndexMaps) -> Vec<Vec<Vec<Ev>>> {
    let mut out: Vec<Vec<Vec<Ev>>> = Vec::new();
    let mut cur: Vec<(u64, Vec<Ev>)> = Vec::new();
    let mut started = false;
    let flush = |cur: &mut Vec<(u64, Vec<Ev>)>, out: &mut Vec<Vec<Vec<Ev>>>| {
        out.push(cur.drain(..).map(|(_, t)| t).collect());
    };
    for r in log {
        if r.op == OP_PHASE {
            if started {
                flush(&mut cur, &mut out);
            }
            started = true;
            continue;
        }
        let (k, i) = name_of(r, maps);
        match cur.iter_mut().find(|(t, _)| *t == r.thread) {
            Some((_, t)) => t.push((r.op, k, i)),
            None => cur.push((r.thread, vec![(r.op, k, i)])),
        }
    }
    if started {
        flush(&mut cur, &mut out);
    }
    out
}

fn ser_traces(ts: &[Vec<Ev>]) -> String {
    let mut s = format!("{}", ts.len());
    for t in ts {
        s.push_str(&format!(" {}", t.len()));
        for (op, k, i) in t {
            s.push_str(&format!(" {} {} {}", op, k, i));
        }
    }
    s
}

fn multiset(evs: impl Iterator<Item = Ev>) -> BTreeMap<Ev, usize> {
    let mut m = BTreeMap::new();
    for e in evs {
        *m.entry(e).or_insert(0) += 1;
    }
    m
}

pub fn check_locks(ctx: &mut Ctx, case: &Value, t: &T, cfg: &Cfg, log: &[LockRecord], ran_iters: Option<u64>) {
    let maps = crate::solve_props::LAST_MAPS.lock().unwrap().clone();
    let passes = passes_of(log, &maps);
    ctx.statn("lock_events_observed", log.len() as u64);
    ctx.statn("lock_passes_observed", passes.len() as u64);
    if !log.iter().any(|r| r.op != OP_PHASE) {
        // nothing went through the observed mutex type (a solver that synchronises by other means):
        // there is no lock discipline to check here; the results are checked as always
        ctx.stat("runs_without_observed_mutex_operations");
        return;
    }
    if let Some(r) = log.iter().find(|r| r.op == OP_TRY_FAIL) {
        ctx.fail_prop(case, format!("a try_lock found its mutex held (kind {}, infoset {})", r.kind, r.index));
        return;
    }
    for (pi, ts) in passes.iter().enumerate() {
        if ts.iter().all(|t| t.is_empty()) {
            continue;
        }
        debug_assert!(ts.iter().flatten().all(|e| e.0 == OP_LOCK || e.0 == OP_TRY || e.0 == OP_UNLOCK));
        let req = ser_traces(ts);
        let resp = ctx.model.ask(&format!("poolok2 {}", req));
        ctx.stat("lock_passes_checked");
        if resp.starts_with("ok true") {
            continue;
        }
        if !resp.starts_with("ok false") {
            ctx.fail_corr(case, format!("model answered {:?} to poolok2", &resp[..resp.len().min(120)]));
            return;
        }
        let why = resp["ok false".len()..].trim().to_string();
        let found = ctx.model.ask(&format!("locksearch 300000 {}", req));
        if found.starts_with("ok panic") || found.starts_with("ok deadlock") {
            ctx.fail_prop(case, format!(
                "pass {}: the mutex operations the workers made can {} under the thread schedule [{}] (task numbers = worker threads in order of appearance; {}); traces: {}",
                pi, if found.starts_with("ok panic") { "panic on a try_lock" } else { "deadlock" },
                found.splitn(3, ' ').nth(2).unwrap_or(""), why, &req[..req.len().min(600)]));
        } else {
            ctx.fail_corr(case, format!("pass {}: the observed lock discipline is outside the hypotheses of the interleaving theorems ({}); no failing schedule found ({}); traces: {}", pi, why, found, &req[..req.len().min(400)]));
        }
        return;
    }
    // external sampling: the events of each pass are those of the model's traversal
    if cfg.method == "E" && cfg.threads != 1 && cfg.iters <= 12 && (cfg.thr.is_nan() || cfg.thr <= 0.0) && ran_iters.is_some() {
        let mut req = "locktrace ".to_string();
        t.ser(&mut req);
        req.push_str(&format!(" {} {} {}", cfg.params.ser(), cfg.iters, cfg.seed));
        let resp = ctx.model.ask(&req);
        let body = match resp.strip_prefix("ok ") {
            Some(b) => b,
            None => {
                ctx.fail_corr(case, format!("model answered {:?} to locktrace", &resp[..resp.len().min(120)]));
                return;
            }
        };
        let mut tk = Toks::new(body);
        let n = tk.nat();
        if n != passes.len() {
            ctx.fail_corr(case, format!("the crate made {} passes, the model {}", passes.len(), n));
            return;
        }
        for (pi, ts) in passes.iter().enumerate() {
            let k = tk.nat();
            let model: Vec<Ev> = (0..k).map(|_| (tk.nat() as u8, tk.nat() as u8, tk.nat())).collect();
            // which call acquires a mutex (`lock` or `try_lock`) is left to the checker above: a
            // mutex acquired once per pass may be taken either way
            let flat = |e: Ev| if e.0 == OP_TRY { (OP_LOCK, e.1, e.2) } else { e };
            let a = multiset(ts.iter().flatten().cloned().map(flat));
            let b = multiset(model.into_iter().map(flat));
            if a != b {
                let only_a: Vec<_> = a.iter().filter(|(e, c)| b.get(e) != Some(c)).take(4).collect();
                let only_b: Vec<_> = b.iter().filter(|(e, c)| a.get(e) != Some(c)).take(4).collect();
                ctx.fail_corr(case, format!("pass {}: mutex operations (op, kind, infoset) x count differ: crate {:?}, model {:?}", pi, only_a, only_b));
                return;
            }
        }
        ctx.stat("lock_traces_agree_with_model");
    }
    // full / chance sampling: per pass, the mutex of every player infoset is taken exactly once per
    // node of the infoset the model's traversal visits (`vtrace`, `vtrace_acqCount`); a chance
    // infoset's mutex is taken in the pass exactly when the model's traversal draws there (the
    // frontier expansion and the closing recursion both ask it for the cached draw, so the count is
    // not part of the comparison).  Needs the labels of the vanilla mutexes (hook in /repo).
    let labelled = log.iter().any(|r| r.op != OP_PHASE && r.index != NO_LABEL);
    if (cfg.method == "F" || cfg.method == "S") && labelled && cfg.threads != 1 && cfg.iters <= 12 && (cfg.thr.is_nan() || cfg.thr <= 0.0) && ran_iters.is_some() {
        let mut req = "vlocktrace ".to_string();
        t.ser(&mut req);
        req.push_str(&format!(" {} {} {} {}", cfg.method, cfg.params.ser(), cfg.iters, cfg.seed));
        let resp = ctx.model.ask(&req);
        let body = match resp.strip_prefix("ok ") {
            Some(b) => b,
            None => {
                ctx.fail_corr(case, format!("model answered {:?} to vlocktrace", &resp[..resp.len().min(120)]));
                return;
            }
        };
        let mut tk = Toks::new(body);
        let n = tk.nat();
        if n != passes.len() {
            ctx.fail_corr(case, format!("the crate made {} passes, the model {}", passes.len(), n));
            return;
        }
        let mut counts_differ = false;
        for (pi, ts) in passes.iter().enumerate() {
            let k = tk.nat();
            let model: Vec<Ev> = (0..k).map(|_| (tk.nat() as u8, tk.nat() as u8, tk.nat())).collect();
            let flat = |e: Ev| if e.0 == OP_TRY { (OP_LOCK, e.1, e.2) } else { e };
            let players = |m: BTreeMap<Ev, usize>| -> BTreeMap<Ev, usize> { m.into_iter().filter(|(e, _)| e.1 != 0).collect() };
            let chances = |m: &BTreeMap<Ev, usize>| -> Vec<Ev> { m.keys().filter(|e| e.1 == 0).cloned().collect() };
            let a = multiset(ts.iter().flatten().cloned().map(flat));
            let b = multiset(model.into_iter().map(flat));
            let (ca, cb) = (chances(&a), chances(&b));
            let (pa, pb) = (players(a), players(b));
            // WHICH infosets are touched in the pass is the contract ("visits exactly the sampled
            // part of the tree"); HOW OFTEN a mutex is taken per visit is the crate's business (one
            // lock per node today, which is what the model has: counted, reported, not demanded)
            let (sa, sb): (Vec<&Ev>, Vec<&Ev>) = (pa.keys().collect(), pb.keys().collect());
            if sa != sb {
                let only_a: Vec<_> = sa.iter().filter(|e| !sb.contains(e)).take(4).collect();
                let only_b: Vec<_> = sb.iter().filter(|e| !sa.contains(e)).take(4).collect();
                ctx.fail_corr(case, format!("pass {}: player infosets whose average-strategy mutex was taken (op, kind, infoset): only in the crate {:?}, only in the model's traversal {:?}", pi, only_a, only_b));
                return;
            }
            if pa != pb {
                counts_differ = true;
            }
            // (a crate that does not put its chance draws behind the observed mutex type shows no
            // chance operations at all: nothing to compare then)
            if !ca.is_empty() && ca != cb {
                ctx.fail_corr(case, format!("pass {}: chance infosets whose mutex was taken: crate {:?}, model {:?}", pi, ca, cb));
                return;
            }
        }
        if counts_differ {
            ctx.stat("vanilla_lock_counts_differ_from_model_same_infosets");
        } else {
            ctx.stat("vanilla_lock_traces_agree_with_model");
        }
    }
}
