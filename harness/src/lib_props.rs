//! Properties decided without running a solver: C01 C11 C13 C14 C18 C19 (and the sampler of C10)
use crate::core::*;
use crate::gen::*;
use crate::Ctx;
use cfr::{PlayerNum, SolveMethod};
use serde_json::{json, Value};
use std::collections::{BTreeMap, BTreeSet};
use std::panic::{catch_unwind, AssertUnwindSafe};

pub fn case_tree(case: &Value) -> T {
    T::from_json(&case["tree"]).expect("case without tree")
}

pub fn named_from_json(v: &Value) -> Named {
    v.as_array()
        .map(|a| {
            a.iter()
                .map(|e| {
                    (
                        e[0].as_u64().unwrap_or(0) as u32,
                        e[1].as_array()
                            .map(|acts| {
                                acts.iter()
                                    .map(|x| {
                                        (x[0].as_u64().unwrap_or(0) as u32, fparse(&x[1]).unwrap_or(f64::NAN))
                                    })
                                    .collect()
                            })
                            .unwrap_or_default(),
                    )
                })
                .collect()
        })
        .unwrap_or_default()
}

pub fn case_prof(case: &Value, key: &str) -> [Named; 2] {
    [named_from_json(&case[key][0]), named_from_json(&case[key][1])]
}

pub fn prof_json(p: &[Named; 2]) -> Value {
    json!([named_json(&p[0]), named_json(&p[1])])
}

fn req_with_prof(cmd: &str, t: &T, p: &[Named; 2]) -> String {
    let mut s = format!("{} ", cmd);
    t.ser(&mut s);
    s.push(' ');
    ser_named(&p[0], &mut s);
    s.push(' ');
    ser_named(&p[1], &mut s);
    s
}

fn scale_of(t: &T) -> f64 {
    let mut v = Vec::new();
    t.payoffs(&mut v);
    // the game's own unit (no floor at one: a game whose payoffs are of size 1e-24 is compared at 1e-24)
    let m = v.iter().fold(0.0f64, |a, b| a.max(b.abs()));
    if m > 0.0 { m } else { 1.0 }
}

// ---------------------------------------------------------------------------------------------
// C01

pub fn case_eval(ctx: &mut Ctx, case: &Value) {
    let t = case_tree(case);
    let prof = case_prof(case, "prof");
    let game = match build(&t) {
        Ok(g) => g,
        Err(e) => {
            ctx.fail_corr(case, format!("generator produced a tree the library rejects: {:?}", e));
            return;
        }
    };
    let strat = match game.from_named(prof.clone()) {
        Ok(s) => s,
        Err(e) => {
            ctx.fail_corr(case, format!("generator produced a profile the library rejects: {:?}", e));
            return;
        }
    };
    let info = strat.get_info();
    let u = info.player_utility(PlayerNum::One);
    let r = [
        info.player_regret(PlayerNum::One),
        info.player_regret(PlayerNum::Two),
    ];
    // tolerances follow the magnitude of the numbers this evaluation adds up (|payoff| x reach),
    // not the largest payoff, when the case asks for it (payoffs of 1e308 behind reaches of 1e-308)
    let sc = if case["effective_scale"].as_bool().unwrap_or(false) {
        effective_scale(&t, &beh_of_named(&prof)).max(1e-300)
    } else {
        scale_of(&t)
    };
    let tol = 1e-9 * sc;
    // "every valid strategy profile": the same profile loaded through the other import function
    // is the same profile
    match catch_unwind(AssertUnwindSafe(|| game.from_named_eq(prof.clone()).map(|s| {
        let i = s.get_info();
        (i.player_utility(PlayerNum::One), i.player_regret(PlayerNum::One), i.player_regret(PlayerNum::Two))
    }))) {
        Ok(Ok((u2, a, b))) => {
            if !(close_tol(u, u2, tol) && close_tol(r[0], a, tol) && close_tol(r[1], b, tol)) {
                ctx.fail_prop(case, format!("the profile loaded with from_named evaluates to util {:e} regrets {:e} {:e}, loaded with from_named_eq to util {:e} regrets {:e} {:e}", u, r[0], r[1], u2, a, b));
            }
        }
        Ok(Err(e)) => ctx.fail_prop(case, format!("from_named accepts the profile, from_named_eq rejects it: {:?}", e)),
        Err(_) => ctx.fail_prop(case, "from_named_eq panicked on a profile from_named accepts".to_string()),
    }
    // correspondence with the model
    let resp = ctx.model.ask(&req_with_prof("eval", &t, &prof));
    let mut tk = Toks::new(&resp);
    if tk.tok() != "ok" {
        ctx.fail_corr(case, format!("model answered {:?}, library evaluated", resp));
    } else {
        let (mu, m1, m2) = (tk.f(), tk.f(), tk.f());
        if !(close_tol(u, mu, tol) && close_tol(r[0], m1, tol) && close_tol(r[1], m2, tol)) {
            ctx.fail_corr(
                case,
                format!(
                    "get_info: library util {:e} regrets {:e} {:e}; model util {:e} regrets {:e} {:e}",
                    u, r[0], r[1], mu, m1, m2
                ),
            );
        }
    }
    // the property's own oracle on the implementation
    if info.player_utility(PlayerNum::Two) != -u {
        ctx.fail_prop(case, "player two's utility is not the negation".to_string());
    }
    if info.regret() != f64::max(r[0], r[1]) {
        ctx.fail_prop(case, "total regret is not the larger player regret".to_string());
    }
    let beh = beh_of_named(&prof);
    let ev = ev_raw(&t, &beh, &[None, None]);
    if !close_tol(ev, u, tol) {
        ctx.fail_prop(
            case,
            format!("reported utility {:e}, expected payoff under the profile {:e}", u, ev),
        );
    }
    let mut brute = false;
    for p in 0..2 {
        let np = num_pure(&t, p);
        if np <= 4096 && np.saturating_mul(t.size() as u64) <= 3_000_000 {
            brute = true;
            let br = brute_br(&t, &beh, p);
            let up = if p == 0 { ev } else { -ev };
            let want = f64::max(br - up, 0.0);
            if !close_tol(want, r[p], tol) {
                ctx.fail_prop(
                    case,
                    format!(
                        "player {} regret reported {:e}, best unilateral gain over all {} pure strategies {:e}",
                        p + 1,
                        r[p],
                        np,
                        want
                    ),
                );
            }
        }
    }
    if brute {
        ctx.stat("brute_force_best_response");
    }
    let (n, _, _) = stats_of(&t);
    ctx.count(mix64(t.hash() ^ mix64(prof_hash(&prof))), n >= 2 && t.size() >= 5);
}

pub fn prof_hash(p: &[Named; 2]) -> u64 {
    let mut s = String::new();
    ser_named(&p[0], &mut s);
    ser_named(&p[1], &mut s);
    s.bytes().fold(0xcbf29ce484222325u64, |h, b| (h ^ b as u64).wrapping_mul(0x100000001b3))
}

pub fn c01(ctx: &mut Ctx) -> String {
    let n = if ctx.thorough { 40_000 } else { 1_500 };
    for i in 0..n {
        if ctx.out_of_time() {
            break;
        }
        let (t, fam) = gen_game(&mut ctx.rng, i, if ctx.thorough { 3000 } else { 1200 });
        // now and then the same game in other units (exact powers of two): a regret of 1e-24 in a
        // game whose payoffs are of size 1e-24 is a regret, not rounding noise
        let t = match ctx.rng.below(12) {
            0 => {
                ctx.stat("payoff_units_2^-80");
                t.map_payoffs(&|p| p * 2f64.powi(-80))
            }
            1 => {
                ctx.stat("payoff_units_2^-1000");
                t.map_payoffs(&|p| p * 2f64.powi(-1000))
            }
            2 => {
                ctx.stat("payoff_units_2^60");
                t.map_payoffs(&|p| p * 2f64.powi(60))
            }
            _ => t,
        };
        ctx.stat(&format!("family_{}", fam));
        let kind = pick_prof_kind(&mut ctx.rng);
        ctx.stat(&format!("profile_{:?}", kind));
        let prof = gen_profile(&mut ctx.rng, &t, kind);
        let case = json!({"op": "eval", "tree": t.to_json(), "prof": prof_json(&prof)});
        if i < 2 {
            ctx.sample(json!({"family": fam, "nodes": t.size(), "profile_kind": format!("{:?}", kind), "tree_line": t.to_line()}));
        }
        case_eval(ctx, &case);
    }
    // stakes of 1e308 behind reaches of 1e-308
    for i in 0..(if ctx.thorough { 400u64 } else { 40 }) {
        if ctx.out_of_time() {
            break;
        }
        let t = needle(&mut ctx.rng);
        ctx.stat("family_needle");
        let mut prof = gen_profile(&mut ctx.rng, &t, if i % 2 == 0 { ProfKind::Random } else { ProfKind::Uniform });
        // the opponent's corner: two probabilities of about 1e-154 in a row
        for (l, acts) in prof[1].iter_mut() {
            if (*l == 5 || *l == 6) && acts.len() == 2 {
                acts[0].1 = 1.0;
                acts[1].1 = *ctx.rng.pick(&[1e-154, 2e-155, 1e-150]);
            }
        }
        let case = json!({"op": "eval", "tree": t.to_json(), "prof": prof_json(&prof), "effective_scale": true});
        case_eval(ctx, &case);
    }
    "games from the mixed stream (obs-* valid-by-construction imperfect-information games, adversarial shapes, Kuhn poker) x profiles {random, pure, with zeros, uniform, unnormalised}; distinct = hash of (tree, profile); non-trivial = at least two decision infosets and five nodes".to_string()
}

// ---------------------------------------------------------------------------------------------
// C11

#[derive(Debug, PartialEq)]
struct Dump {
    ch: Vec<Vec<f64>>,
    p: [Vec<(u32, String, Vec<u32>)>; 2],
    s: [Vec<(u32, u32)>; 2],
    node: Vec<String>,
}

fn parse_dump(s: &str) -> Option<Dump> {
    let mut tk = Toks::new(s);
    if tk.tok() != "CH" {
        return None;
    }
    let nc = tk.nat();
    let mut ch = Vec::new();
    for _ in 0..nc {
        let k = tk.nat();
        ch.push((0..k).map(|_| tk.f()).collect());
    }
    let mut p: [Vec<(u32, String, Vec<u32>)>; 2] = [Vec::new(), Vec::new()];
    for pl in 0..2 {
        let tag = tk.tok();
        if tag != ["P1", "P2"][pl] {
            return None;
        }
        let n = tk.nat();
        for _ in 0..n {
            let l = tk.nat() as u32;
            let prev = format!("{} {}", tk.tok(), tk.tok());
            let k = tk.nat();
            let acts = (0..k).map(|_| tk.nat() as u32).collect();
            p[pl].push((l, prev, acts));
        }
    }
    let mut sg: [Vec<(u32, u32)>; 2] = [Vec::new(), Vec::new()];
    for pl in 0..2 {
        let tag = tk.tok();
        if tag != ["S1", "S2"][pl] {
            return None;
        }
        let n = tk.nat();
        for _ in 0..n {
            sg[pl].push((tk.nat() as u32, tk.nat() as u32));
        }
        sg[pl].sort();
    }
    if tk.tok() != "N" {
        return None;
    }
    let node = tk.rest().into_iter().map(|x| x.to_string()).collect();
    Some(Dump { ch, p, s: sg, node })
}

/// renumber the infosets of a dump canonically (order of first appearance in the pre-order walk
/// of the tree): internal indices are the crate's own business
fn canonical_dump(d: &Dump, text: &str) -> Dump {
    let maps = IndexMaps::of_dump(text);
    let mut ch = vec![Vec::new(); d.ch.len()];
    for (i, p) in d.ch.iter().enumerate() {
        let c = maps.canon(0, i);
        if c < ch.len() {
            ch[c] = p.clone();
        }
    }
    let mut p: [Vec<(u32, String, Vec<u32>)>; 2] = [Vec::new(), Vec::new()];
    for pl in 0..2 {
        let mut tab: Vec<Option<(u32, String, Vec<u32>)>> = vec![None; d.p[pl].len()];
        for (i, (l, prev, acts)) in d.p[pl].iter().enumerate() {
            // "prev infoset, action index" of the same player, or "- -"
            let mut it = prev.split(' ');
            let (a, b) = (it.next().unwrap_or("-"), it.next().unwrap_or("-"));
            let prev2 = match a.parse::<usize>() {
                Ok(x) => format!("{} {}", maps.canon(pl as u8 + 1, x), b),
                Err(_) => prev.clone(),
            };
            let c = maps.canon(pl as u8 + 1, i);
            if c < tab.len() {
                tab[c] = Some((*l, prev2, acts.clone()));
            }
        }
        p[pl] = tab.into_iter().flatten().collect();
    }
    let mut node = Vec::with_capacity(d.node.len());
    let mut i = 0;
    while i < d.node.len() {
        match d.node[i].as_str() {
            "C" if i + 2 < d.node.len() => {
                let idx = d.node[i + 1].parse::<usize>().unwrap_or(0);
                node.push("C".to_string());
                node.push(maps.canon(0, idx).to_string());
                node.push(d.node[i + 2].clone());
                i += 3;
            }
            "P" if i + 3 < d.node.len() => {
                let k = if d.node[i + 1] == "1" { 1 } else { 2 };
                let idx = d.node[i + 2].parse::<usize>().unwrap_or(0);
                node.push("P".to_string());
                node.push(d.node[i + 1].clone());
                node.push(maps.canon(k, idx).to_string());
                node.push(d.node[i + 3].clone());
                i += 4;
            }
            _ => {
                node.push(d.node[i].clone());
                i += 1;
            }
        }
    }
    Dump { ch, p, s: [d.s[0].clone(), d.s[1].clone()], node }
}

fn dumps_agree(a: &Dump, b: &Dump) -> Result<(), String> {
    if a.ch.len() != b.ch.len() {
        return Err(format!("{} vs {} chance infosets", a.ch.len(), b.ch.len()));
    }
    for (x, y) in a.ch.iter().zip(b.ch.iter()) {
        if x.len() != y.len() || x.iter().zip(y.iter()).any(|(p, q)| !close(*p, *q)) {
            return Err(format!("chance probabilities {:?} vs {:?}", x, y));
        }
    }
    if a.p != b.p {
        return Err(format!("player infoset tables differ: {:?} vs {:?}", a.p, b.p));
    }
    if a.s != b.s {
        return Err(format!("single-action infosets differ: {:?} vs {:?}", a.s, b.s));
    }
    if a.node.len() != b.node.len() {
        return Err("compact trees differ in size".to_string());
    }
    for (x, y) in a.node.iter().zip(b.node.iter()) {
        if x != y {
            if x.len() == 16 && y.len() == 16 {
                let fx = f64::from_bits(u64::from_str_radix(x, 16).unwrap_or(0));
                let fy = f64::from_bits(u64::from_str_radix(y, 16).unwrap_or(1));
                if close(fx, fy) {
                    continue;
                }
            }
            return Err(format!("compact trees differ at token {} vs {}", x, y));
        }
    }
    Ok(())
}

pub fn case_compile(ctx: &mut Ctx, case: &Value) {
    let t = case_tree(case);
    let lib = catch_unwind(AssertUnwindSafe(|| build(&t)));
    let viol = violations(&t);
    let mut req = "compile ".to_string();
    t.ser(&mut req);
    let resp = ctx.model.ask(&req);
    let lib = match lib {
        Err(_) => {
            ctx.fail_prop(case, "Game::from_root panicked".to_string());
            return;
        }
        Ok(r) => r,
    };
    match &lib {
        Ok(g) => {
            ctx.stat("accepted");
            if !viol.is_empty() {
                ctx.fail_prop(
                    case,
                    format!("accepted a tree that violates the documented contract: {:?}", viol),
                );
            }
            match resp.strip_prefix("ok ") {
                None => ctx.fail_corr(case, format!("library accepted, model answered {:?}", resp)),
                Some(d) => match (parse_dump(&g.verif_dump()).map(|x| canonical_dump(&x, &g.verif_dump())), parse_dump(d).map(|x| canonical_dump(&x, d))) {
                    (Some(a), Some(b)) => {
                        if let Err(e) = dumps_agree(&a, &b) {
                            ctx.fail_corr(case, format!("compiled games differ: {}", e));
                        }
                        // the public count N of C03's rate is the number of infosets of the model's game
                        let n_model = b.p[0].len() + b.p[1].len();
                        if g.num_infosets() != n_model {
                            ctx.fail_corr(case, format!("num_infosets() = {}, the model's game has {} player infosets", g.num_infosets(), n_model));
                        }
                    }
                    _ => ctx.fail_corr(case, "could not parse a game dump".to_string()),
                },
            }
            // whatever is accepted must be evaluable and solvable
            if t.size() <= 400 {
                let ok = catch_unwind(AssertUnwindSafe(|| {
                    let (s, b) = g.solve(SolveMethod::Full, 2, 0.0, 1, None).unwrap();
                    let i = s.get_info();
                    let (s2, _) = g.solve(SolveMethod::External, 2, 0.0, 1, None).unwrap();
                    let _ = s2.get_info();
                    i.regret().is_finite() && b.regret_bound().is_finite()
                }));
                match ok {
                    Ok(true) => {}
                    Ok(false) => ctx.fail_prop(case, "accepted tree evaluates to a non-finite regret".to_string()),
                    Err(_) => ctx.fail_prop(case, "accepted tree makes solve or get_info panic".to_string()),
                }
            }
        }
        Err(e) => {
            let k = game_err_name(e);
            ctx.stat(&format!("rejected_{}", k));
            if viol.is_empty() {
                ctx.fail_prop(
                    case,
                    format!("rejected ({}) a tree that satisfies the documented contract", k),
                );
            } else if !viol.contains(k.as_str()) {
                ctx.fail_prop(
                    case,
                    format!("error {} names a rule the tree does not violate (violated: {:?})", k, viol),
                );
            }
            if resp != format!("err game {}", k) {
                // a tree that violates several rules may be reported under any of them: which one
                // the traversal meets first is not part of the contract.  The model must reject
                // too, and both named rules must be violated (checked against the declarative
                // contract above for the library, here for the model).
                match resp.strip_prefix("err game ") {
                    Some(m) if viol.contains(m) && viol.contains(k.as_str()) => ctx.stat("rejected_under_another_violated_rule"),
                    _ => ctx.fail_corr(case, format!("library Err({}), model answered {:?}", k, resp)),
                }
            }
        }
    }
    ctx.count(t.hash(), t.size() >= 3);
}

pub fn c11(ctx: &mut Ctx) -> String {
    let n = if ctx.thorough { 300_000 } else { 12_000 };
    for i in 0..n {
        if ctx.out_of_time() {
            break;
        }
        let (t, src) = match i % 4 {
            0 => {
                let mut budget = ctx.rng.range(2, 9) as i64;
                (gen_small_raw(&mut ctx.rng, &mut budget, 0), "small-raw".to_string())
            }
            1 => {
                let (t, fam) = gen_game(&mut ctx.rng, i / 4, 600);
                (t, format!("valid-{}", fam))
            }
            _ => {
                let (t, _) = gen_game(&mut ctx.rng, i / 4, 600);
                let (t2, what) = plant(&mut ctx.rng, &t);
                (t2, format!("planted-{}", what))
            }
        };
        ctx.stat(&format!("source_{}", src));
        if i < 3 {
            ctx.sample(json!({"source": src, "nodes": t.size(), "tree_line": t.to_line(), "oracle_violations": violations(&t)}));
        }
        let case = json!({"op": "compile", "tree": t.to_json()});
        case_compile(ctx, &case);
    }
    "raw trees: random small trees over 3 infoset / 3 action / 2 chance labels with bad weights, bad payoffs, empty nodes; valid generated games; valid games with one planted mutation (12 kinds) at a random node; distinct = hash of the tree; non-trivial = at least three nodes".to_string()
}

// ---------------------------------------------------------------------------------------------
// C13

type Blocks = Vec<(usize, u32, Vec<(usize, Option<(u32, f64)>)>)>;

fn lib_blocks(it: cfr::NamedStrategyIter<'_, u32, u32>) -> (Blocks, usize) {
    let mut it = it;
    let mut out = Vec::new();
    loop {
        let len = it.len();
        match it.next() {
            None => return (out, len),
            Some((l, mut acts)) => {
                let mut items = Vec::new();
                loop {
                    let alen = acts.len();
                    match acts.next() {
                        None => {
                            items.push((alen, None));
                            break;
                        }
                        Some((a, p)) => items.push((alen, Some((*a, p)))),
                    }
                }
                out.push((len, *l, items));
            }
        }
    }
}

fn model_blocks(s: &str) -> (Blocks, usize) {
    let mut out: Blocks = Vec::new();
    let toks: Vec<&str> = s.split_ascii_whitespace().collect();
    let mut i = 0;
    let mut last_len = 0;
    while i < toks.len() {
        let big = toks[i][1..].parse::<usize>().unwrap_or(usize::MAX);
        i += 1;
        if i >= toks.len() || !toks[i].starts_with('I') {
            last_len = big;
            break;
        }
        let label = toks[i][1..].parse::<u32>().unwrap_or(u32::MAX);
        i += 1;
        let mut items = Vec::new();
        loop {
            let alen = toks[i][1..].parse::<usize>().unwrap_or(usize::MAX);
            i += 1;
            if i < toks.len() && !toks[i].starts_with('L') && !toks[i].starts_with('l') && !toks[i].starts_with('I') {
                let a = toks[i].parse::<u32>().unwrap_or(u32::MAX);
                let p = f64::from_bits(u64::from_str_radix(toks[i + 1], 16).unwrap_or(0));
                i += 2;
                items.push((alen, Some((a, p))));
            } else {
                items.push((alen, None));
                break;
            }
        }
        out.push((big, label, items));
    }
    (out, last_len)
}

fn blocks_agree(lib: &(Blocks, usize), model: &(Blocks, usize), n_multi: usize) -> Result<(), String> {
    if lib.1 != model.1 || lib.0.len() != model.0.len() {
        return Err(format!(
            "library yields {} infosets (final len {}), model {} (final len {})",
            lib.0.len(),
            lib.1,
            model.0.len(),
            model.1
        ));
    }
    let lens_l: Vec<usize> = lib.0.iter().map(|b| b.0).collect();
    let lens_m: Vec<usize> = model.0.iter().map(|b| b.0).collect();
    if lens_l != lens_m {
        return Err(format!("advertised lengths differ: library {:?} model {:?}", lens_l, lens_m));
    }
    let canon = |b: &Blocks| -> Vec<(u32, Vec<(usize, Option<(u32, f64)>)>)> {
        // the order in which infosets are listed is not part of the contract: by label
        let _ = n_multi;
        let mut all: Vec<_> = b.iter().map(|x| (x.1, x.2.clone())).collect();
        all.sort_by_key(|x| x.0);
        all
    };
    for (x, y) in canon(&lib.0).iter().zip(canon(&model.0).iter()) {
        if x.0 != y.0 || x.1.len() != y.1.len() {
            return Err(format!("infoset {} vs {}: {:?} vs {:?}", x.0, y.0, x.1, y.1));
        }
        for (a, b) in x.1.iter().zip(y.1.iter()) {
            let same = a.0 == b.0
                && match (a.1, b.1) {
                    (None, None) => true,
                    (Some((a1, p1)), Some((a2, p2))) => a1 == a2 && close(p1, p2),
                    _ => false,
                };
            if !same {
                return Err(format!("infoset {}: library item {:?}, model item {:?}", x.0, a, b));
            }
        }
    }
    Ok(())
}

pub fn case_named(ctx: &mut Ctx, case: &Value) {
    let t = case_tree(case);
    let prof = case_prof(case, "prof");
    let game = match build(&t) {
        Ok(g) => g,
        Err(e) => return ctx.fail_corr(case, format!("tree rejected: {:?}", e)),
    };
    let mut strat = match game.from_named(prof.clone()) {
        Ok(s) => s,
        Err(e) => return ctx.fail_corr(case, format!("profile rejected: {:?}", e)),
    };
    if let Some(h) = case.get("truncate").and_then(fparse) {
        strat.truncate(h);
    }
    let infos = infosets_of(&t);
    let [a, b] = strat.as_named();
    let lib = [lib_blocks(a), lib_blocks(b)];
    // oracle on the implementation: lengths, completeness, validity
    for p in 0..2 {
        let (blocks, fin) = &lib[p];
        let total = blocks.len();
        for (k, b) in blocks.iter().enumerate() {
            if b.0 != total - k {
                ctx.fail_prop(
                    case,
                    format!("player {} infoset iterator advertised {} with {} items to come", p + 1, b.0, total - k),
                );
            }
            let items = b.2.len() - 1;
            for (j, it) in b.2.iter().enumerate() {
                if it.0 != items - j.min(items) {
                    ctx.fail_prop(
                        case,
                        format!(
                            "player {} infoset {} action iterator advertised {} with {} items to come",
                            p + 1,
                            b.1,
                            it.0,
                            items - j.min(items)
                        ),
                    );
                }
            }
        }
        if *fin != 0 {
            ctx.fail_prop(case, "exhausted infoset iterator advertises a non-zero length".to_string());
        }
        let listed: Vec<u32> = blocks.iter().map(|b| b.1).collect();
        let set: BTreeSet<u32> = listed.iter().cloned().collect();
        let want: BTreeSet<u32> = infos[p].keys().cloned().collect();
        if set.len() != listed.len() || set != want {
            ctx.fail_prop(
                case,
                format!("player {} named view lists {:?}, the game's infosets are {:?}", p + 1, listed, want),
            );
        }
        for b in blocks {
            let acts: Vec<(u32, f64)> = b.2.iter().filter_map(|x| x.1).collect();
            let legal = &infos[p][&b.1];
            if legal.len() == 1 {
                if acts != vec![(legal[0], 1.0)] {
                    ctx.fail_prop(case, format!("single-action infoset {} listed as {:?}", b.1, acts));
                }
            } else {
                let tot: f64 = acts.iter().map(|x| x.1).sum();
                let order: Vec<usize> = acts.iter().filter_map(|x| legal.iter().position(|l| *l == x.0)).collect();
                let sorted = order.windows(2).all(|w| w[0] < w[1]);
                if acts.is_empty() || acts.iter().any(|x| !(x.1 > 0.0)) || (tot - 1.0).abs() > 1e-9 || order.len() != acts.len() || !sorted {
                    ctx.fail_prop(case, format!("infoset {} listed as {:?} (legal actions {:?})", b.1, acts, legal));
                }
            }
        }
    }
    // round trip (through both import functions)
    let named = drain_named(&strat);
    match catch_unwind(AssertUnwindSafe(|| game.from_named_eq(named.clone()).map(|b| drain_named(&b)))) {
        Err(_) => ctx.fail_prop(case, "importing the named view with from_named_eq panics".to_string()),
        Ok(Err(e)) => ctx.fail_prop(case, format!("importing the named view with from_named_eq fails: {:?}", e)),
        Ok(Ok(again)) => {
            let d = named_diff(&named[0], &again[0]).max(named_diff(&named[1], &again[1]));
            if !(d <= 1e-12) {
                ctx.fail_prop(case, format!("round trip through from_named_eq changes a probability by {:e}", d));
            }
        }
    }
    match game.from_named(named.clone()) {
        Err(e) => ctx.fail_prop(case, format!("importing the named view fails: {:?}", e)),
        Ok(back) => {
            let again = drain_named(&back);
            let d = named_diff(&named[0], &again[0]).max(named_diff(&named[1], &again[1]));
            if !(d <= 1e-12) {
                ctx.fail_prop(case, format!("round trip changes a probability by {:e}", d));
            }
        }
    }
    // correspondence
    let mut req = req_with_prof("named", &t, &prof);
    if let Some(h) = case.get("truncate").and_then(fparse) {
        req = req_with_prof("namedtrunc", &t, &prof);
        req.push_str(&format!(" {:016x}", h.to_bits()));
    }
    let resp = ctx.model.ask(&req);
    match resp.strip_prefix("ok ") {
        None => ctx.fail_corr(case, format!("model answered {:?}", resp)),
        Some(body) => {
            let parts: Vec<&str> = body.split('|').collect();
            if parts.len() != 2 {
                ctx.fail_corr(case, format!("model answered {:?}", resp));
            } else {
                for p in 0..2 {
                    let n_multi = infos[p].values().filter(|a| a.len() >= 2).count();
                    if let Err(e) = blocks_agree(&lib[p], &model_blocks(parts[p]), n_multi) {
                        ctx.fail_corr(case, format!("player {} named view: {}", p + 1, e));
                    }
                }
            }
        }
    }
    let zeros = prof.iter().any(|n| n.iter().any(|(_, a)| a.iter().any(|x| x.1 == 0.0)));
    ctx.count(mix64(t.hash() ^ prof_hash(&prof)), infos[0].len() + infos[1].len() >= 2);
    if zeros {
        ctx.stat("profiles_with_zero_entries");
    }
}

pub fn c13(ctx: &mut Ctx) -> String {
    let n = if ctx.thorough { 40_000 } else { 2_000 };
    for i in 0..n {
        if ctx.out_of_time() {
            break;
        }
        let (t, fam) = gen_game(&mut ctx.rng, i, 1500);
        ctx.stat(&format!("family_{}", fam));
        let kind = pick_prof_kind_view(&mut ctx.rng);
        let prof = gen_profile(&mut ctx.rng, &t, kind);
        let mut case = json!({"op": "named", "tree": t.to_json(), "prof": prof_json(&prof)});
        if i % 3 == 2 {
            // (thresholds that keep everything, nothing, and the one that compares with nothing)
            let h = *ctx.rng.pick(&[0.05, 0.2, 0.34, 0.5, 0.9, f64::NAN, 1.5, -1.0, 0.0, 1.0]);
            case["truncate"] = fjson(h);
            ctx.stat("truncated_profiles");
        }
        if i < 2 {
            ctx.sample(json!({"family": fam, "nodes": t.size(), "profile_kind": format!("{:?}", kind), "tree_line": t.to_line()}));
        }
        case_named(ctx, &case);
    }
    // solver output
    let m = if ctx.thorough { 600 } else { 60 };
    for i in 0..m {
        if ctx.out_of_time() {
            break;
        }
        let (t, _) = gen_game(&mut ctx.rng, i, 400);
        if let Ok(g) = build(&t) {
            let method = *ctx.rng.pick(&[SolveMethod::Full, SolveMethod::Sampled, SolveMethod::External]);
            let iters = ctx.rng.range(0, 30);
            if let Ok((s, _)) = g.solve(method, iters, 0.0, 1, None) {
                let named = drain_named(&s);
                ctx.stat("solver_output_profiles");
                let case = json!({"op": "named", "tree": t.to_json(), "prof": prof_json(&named)});
                case_named(ctx, &case);
            }
        }
    }
    "games from the mixed stream x profiles {random, pure, zeros, uniform, unnormalised, tiny (weights down to subnormal doubles), truncated, solver output of the three methods}; len() is queried before every next() of both iterator levels; distinct = hash of (tree, profile); non-trivial = at least two infosets".to_string()
}

// ---------------------------------------------------------------------------------------------
// C14

fn import_outcome(r: Result<cfr::Strategies<'_, u32, u32>, cfr::StratError>) -> Result<[Named; 2], String> {
    match r {
        Ok(s) => Ok(drain_named(&s)),
        Err(e) => Err(strat_err_name(&e)),
    }
}

/// the documented import semantics, computed independently of the library
fn import_spec(t: &T, cand: &[Named; 2]) -> Result<[Dense; 2], BTreeSet<&'static str>> {
    let infos = infosets_of(t);
    let mut viol = BTreeSet::new();
    let mut out: [Dense; 2] = [BTreeMap::new(), BTreeMap::new()];
    for p in 0..2 {
        let mut w: Dense = BTreeMap::new();
        let mut covered_single: BTreeSet<u32> = BTreeSet::new();
        for (l, acts) in &cand[p] {
            match infos[p].get(l) {
                None => {
                    viol.insert("InvalidInfoset");
                }
                Some(legal) => {
                    for (a, x) in acts {
                        if !legal.contains(a) {
                            viol.insert("InvalidAction");
                        }
                        if !(*x >= 0.0 && x.is_finite()) {
                            viol.insert("InvalidProbability");
                        }
                        if legal.contains(a) && *x >= 0.0 && x.is_finite() {
                            if legal.len() == 1 {
                                covered_single.insert(*l);
                            } else {
                                w.entry(*l).or_default().insert(*a, *x);
                            }
                        }
                    }
                }
            }
        }
        for (l, legal) in &infos[p] {
            if legal.len() == 1 {
                if !covered_single.contains(l) {
                    viol.insert("UninitializedInfoset");
                }
            } else {
                let mut m = w.get(l).cloned().unwrap_or_default();
                // shares are scale free: divide by the largest weight first so that the total of
                // huge finite weights cannot overflow in the oracle
                let mx = m.values().cloned().fold(0.0f64, f64::max);
                if mx > 0.0 {
                    m.values_mut().for_each(|x| *x /= mx);
                }
                let mut tot = 0.0;
                for a in legal {
                    tot += m.get(a).cloned().unwrap_or(0.0);
                }
                if !(tot > 0.0) {
                    viol.insert("UninitializedInfoset");
                } else {
                    out[p].insert(
                        *l,
                        legal.iter().map(|a| (*a, m.get(a).cloned().unwrap_or(0.0) / tot)).collect(),
                    );
                }
            }
        }
    }
    if viol.is_empty() {
        Ok(out)
    } else {
        Err(viol)
    }
}

/// class predicate of known finding F15: an infoset's weights sum to +inf
fn import_overflows(t: &T, cand: &[Named; 2]) -> bool {
    let infos = infosets_of(t);
    for p in 0..2 {
        let mut sums: BTreeMap<u32, BTreeMap<u32, f64>> = BTreeMap::new();
        for (l, acts) in &cand[p] {
            if infos[p].contains_key(l) {
                for (a, x) in acts {
                    if x.is_finite() && *x >= 0.0 {
                        sums.entry(*l).or_default().insert(*a, *x);
                    }
                }
            }
        }
        for m in sums.values() {
            let tot: f64 = m.values().sum();
            if !tot.is_finite() {
                return true;
            }
        }
    }
    false
}

pub fn case_import(ctx: &mut Ctx, case: &Value) {
    let t = case_tree(case);
    let cand = case_prof(case, "cand");
    let game = match build(&t) {
        Ok(g) => g,
        Err(e) => return ctx.fail_corr(case, format!("tree rejected: {:?}", e)),
    };
    // `strict` (used by known-finding witnesses) switches the class exclusion off
    let strict = case.get("strict").and_then(|x| x.as_bool()).unwrap_or(false);
    let overflow = import_overflows(&t, &cand) && !strict;
    let a = catch_unwind(AssertUnwindSafe(|| import_outcome(game.from_named(cand.clone()))));
    let b = catch_unwind(AssertUnwindSafe(|| import_outcome(game.from_named_eq(cand.clone()))));
    let (a, b) = match (a, b) {
        (Ok(a), Ok(b)) => (a, b),
        _ => return ctx.fail_prop(case, "an import function panicked".to_string()),
    };
    // both routes agree
    let same = match (&a, &b) {
        (Ok(x), Ok(y)) => named_diff(&x[0], &y[0]) == 0.0 && named_diff(&x[1], &y[1]) == 0.0,
        (Err(x), Err(y)) => x == y,
        _ => false,
    };
    if !same {
        ctx.fail_prop(case, format!("from_named gives {:?}, from_named_eq gives {:?}", a, b));
    }
    // documented semantics
    let spec = import_spec(&t, &cand);
    match (&a, &spec) {
        (Ok(x), Ok(want)) => {
            if overflow {
                ctx.stat("known_finding_class_overflow");
            } else {
                for p in 0..2 {
                    let full: Vec<(u32, Vec<(u32, f64)>)> =
                        want[p].iter().map(|(l, m)| (*l, m.iter().map(|(a, q)| (*a, *q)).collect())).collect();
                    if let Err(e) = named_matches_full(&x[p], &full, 1e-12) {
                        ctx.fail_prop(case, format!("player {} imported profile differs from weight/total: {}", p + 1, e));
                    }
                }
            }
            ctx.stat("import_ok");
        }
        (Err(k), Err(viol)) => {
            ctx.stat(&format!("import_err_{}", k));
            if !viol.contains(k.as_str()) {
                ctx.fail_prop(case, format!("error {} is not a violated rule (violated: {:?})", k, viol));
            }
        }
        (Ok(_), Err(viol)) => ctx.fail_prop(case, format!("accepted although {:?} is violated", viol)),
        (Err(k), Ok(_)) => ctx.fail_prop(case, format!("rejected ({}) a candidate that satisfies every rule", k)),
    }
    // correspondence
    let resp = ctx.model.ask(&req_with_prof("import", &t, &cand));
    let parts: Vec<&str> = resp.splitn(2, " B ").collect();
    if parts.len() != 2 || !parts[0].starts_with("A ") {
        ctx.fail_corr(case, format!("model answered {:?}", resp));
    } else {
        for (which, (lib, m)) in [(&a, &parts[0][2..]), (&b, parts[1])].iter().enumerate() {
            match lib {
                Err(k) => {
                    if *m != format!("err {}", k) {
                        // an input that violates several rules may be reported under any of them
                        // (which one the importer meets first is not part of the contract): the
                        // model must reject too, and both named rules must be violated
                        match (m.strip_prefix("err "), &spec) {
                            (Some(mk), Err(viol)) if viol.contains(mk) && viol.contains(k.as_str()) => ctx.stat("import_rejected_under_another_violated_rule"),
                            _ => ctx.fail_corr(case, format!("route {}: library Err({}), model {:?}", which, k, m)),
                        }
                    }
                }
                Ok(x) => match m.strip_prefix("ok ") {
                    None => ctx.fail_corr(case, format!("route {}: library Ok, model {:?}", which, m)),
                    Some(body) => {
                        let mut tk = Toks::new(body);
                        let f1 = tk.full_named();
                        let f2 = tk.full_named();
                        if !overflow {
                            for (p, f) in [f1, f2].iter().enumerate() {
                                if let Err(e) = named_matches_full(&x[p], f, 1e-12) {
                                    ctx.fail_corr(case, format!("route {} player {}: {}", which, p + 1, e));
                                }
                            }
                        }
                    }
                },
            }
        }
    }
    ctx.count(mix64(t.hash() ^ prof_hash(&cand)), cand[0].len() + cand[1].len() >= 2);
}

/// corrupt a valid named profile into an arbitrary candidate
fn gen_candidate(rng: &mut Rng, t: &T) -> [Named; 2] {
    let kind = pick_prof_kind(rng);
    let mut cand = gen_profile(rng, t, kind);
    let nmut = rng.below(4);
    for _ in 0..nmut {
        let p = rng.below(2) as usize;
        match rng.below(12) {
            11 => {
                // one single-action infoset mentioned twice, another one not at all (each entry
                // counts for its own infoset, however often it is repeated)
                let infos = infosets_of(t);
                let singles: Vec<u32> = infos[p].iter().filter(|(_, a)| a.len() == 1).map(|(l, _)| *l).collect();
                if singles.len() >= 2 {
                    let keep = singles[rng.below(singles.len() as u64) as usize];
                    let drop = *singles.iter().find(|l| **l != keep).unwrap();
                    cand[p].retain(|(l, _)| *l != drop);
                    if let Some(e) = cand[p].iter().find(|(l, _)| *l == keep).cloned() {
                        if rng.chance(0.5) {
                            cand[p].push(e);
                        } else if let Some(k) = cand[p].iter().position(|(l, _)| *l == keep) {
                            if let Some(x) = cand[p][k].1.first().cloned() {
                                cand[p][k].1.push(x);
                            }
                        }
                    }
                }
            }
            0 => {
                // drop an infoset
                if !cand[p].is_empty() {
                    let k = rng.below(cand[p].len() as u64) as usize;
                    cand[p].remove(k);
                }
            }
            1 => {
                // foreign infoset
                cand[p].push((1000 + rng.below(3) as u32, vec![(0, 1.0)]));
            }
            2 => {
                // infoset of the other player
                if let Some(e) = cand[1 - p].first().cloned() {
                    cand[p].push(e);
                }
            }
            3 => {
                // illegal action
                if !cand[p].is_empty() {
                    let k = rng.below(cand[p].len() as u64) as usize;
                    cand[p][k].1.push((777, 0.5));
                }
            }
            4 | 5 => {
                // special weight
                if !cand[p].is_empty() {
                    let k = rng.below(cand[p].len() as u64) as usize;
                    if !cand[p][k].1.is_empty() {
                        let j = rng.below(cand[p][k].1.len() as u64) as usize;
                        cand[p][k].1[j].1 = *rng.pick(&[
                            -1.0,
                            0.0,
                            5e-324,
                            1e308,
                            f64::MAX,
                            f64::MIN_POSITIVE,
                            f64::NAN,
                            f64::INFINITY,
                            f64::NEG_INFINITY,
                            -0.0,
                            3.0,
                        ]);
                    }
                }
            }
            6 => {
                // duplicate infoset entry (later overrides earlier)
                if !cand[p].is_empty() {
                    let k = rng.below(cand[p].len() as u64) as usize;
                    let mut e = cand[p][k].clone();
                    for x in e.1.iter_mut() {
                        x.1 = rng.range(0, 3) as f64;
                    }
                    cand[p].push(e);
                }
            }
            7 => {
                // duplicate action entry
                if !cand[p].is_empty() {
                    let k = rng.below(cand[p].len() as u64) as usize;
                    if let Some(x) = cand[p][k].1.first().cloned() {
                        cand[p][k].1.push((x.0, rng.range(0, 4) as f64));
                    }
                }
            }
            8 => {
                // all-zero infoset
                if !cand[p].is_empty() {
                    let k = rng.below(cand[p].len() as u64) as usize;
                    for x in cand[p][k].1.iter_mut() {
                        x.1 = 0.0;
                    }
                }
            }
            9 => {
                // empty action list
                if !cand[p].is_empty() {
                    let k = rng.below(cand[p].len() as u64) as usize;
                    cand[p][k].1.clear();
                }
            }
            _ => {
                cand[p].reverse();
            }
        }
    }
    cand
}

pub fn c14(ctx: &mut Ctx) -> String {
    let n = if ctx.thorough { 120_000 } else { 6_000 };
    for i in 0..n {
        if ctx.out_of_time() {
            break;
        }
        let (t, fam) = gen_game(&mut ctx.rng, i, 600);
        ctx.stat(&format!("family_{}", fam));
        let cand = gen_candidate(&mut ctx.rng, &t);
        if i < 2 {
            ctx.sample(json!({"family": fam, "nodes": t.size(), "tree_line": t.to_line(), "candidate": prof_json(&cand)}));
        }
        let case = json!({"op": "import", "tree": t.to_json(), "cand": prof_json(&cand)});
        case_import(ctx, &case);
    }
    "games from the mixed stream x candidate named strategies: valid profiles with 0-3 corruptions (dropped / foreign / other player's infosets, illegal actions, weights in {-1, 0, 5e-324, 1e308, NaN, +-inf, -0}, duplicate infoset and action entries, all-zero and empty entries, reordering); both import routes, the documented semantics computed independently, and the model; distinct = hash of (tree, candidate)".to_string()
}

// ---------------------------------------------------------------------------------------------
// C18

fn dense_of_named(n: &Named) -> Dense {
    n.iter().map(|(l, a)| (*l, a.iter().cloned().collect())).collect()
}

pub fn case_truncate(ctx: &mut Ctx, case: &Value) {
    let t = case_tree(case);
    let prof = case_prof(case, "prof");
    let h = fparse(&case["h"]).unwrap_or(f64::NAN);
    let game = match build(&t) {
        Ok(g) => g,
        Err(e) => return ctx.fail_corr(case, format!("tree rejected: {:?}", e)),
    };
    let strat = match game.from_named(prof.clone()) {
        Ok(s) => s,
        Err(e) => return ctx.fail_corr(case, format!("profile rejected: {:?}", e)),
    };
    let before = drain_named(&strat);
    let mut once = strat.clone();
    once.truncate(h);
    let after = drain_named(&once);
    let mut twice = once.clone();
    twice.truncate(h);
    let after2 = drain_named(&twice);
    let infos = infosets_of(&t);
    for p in 0..2 {
        // always a valid profile
        let listed: BTreeSet<u32> = after[p].iter().map(|x| x.0).collect();
        if listed.len() != infos[p].len() {
            ctx.fail_prop(case, format!("player {}: truncated profile lists {} of {} infosets", p + 1, listed.len(), infos[p].len()));
        }
        if let Err(e) = named_valid(&after[p]) {
            ctx.fail_prop(case, format!("player {}: truncated profile is not a valid profile: {}", p + 1, e));
        }
        // survivors rescaled proportionally, others removed; unchanged when none exceeds h
        let b = dense_of_named(&before[p]);
        let a = dense_of_named(&after[p]);
        for (l, m) in &b {
            if infos[p][l].len() < 2 {
                continue;
            }
            let surv: Vec<(&u32, &f64)> = m.iter().filter(|(_, q)| **q > h).collect();
            let am = a.get(l).cloned().unwrap_or_default();
            if surv.is_empty() {
                for (x, q) in m {
                    if !close_tol(*q, am.get(x).cloned().unwrap_or(0.0), 1e-12) {
                        ctx.fail_prop(case, format!("infoset {} has no action above h but was changed", l));
                        break;
                    }
                }
            } else {
                let tot: f64 = surv.iter().map(|(_, q)| **q).sum();
                for (x, q) in m {
                    let want = if *q > h { q / tot } else { 0.0 };
                    let got = am.get(x).cloned().unwrap_or(0.0);
                    // "exactly those actions": the support is exact, however small the numbers
                    if (*q > h) != (got > 0.0) {
                        ctx.fail_prop(case, format!("infoset {} action {}: probability {:e} before, {:e} after truncation at {:e} (an action stays exactly when its probability exceeds the threshold)", l, x, q, got, h));
                        break;
                    }
                    if !close_tol(want, got, 1e-12) {
                        ctx.fail_prop(case, format!("infoset {} action {}: {:e} after truncation, expected {:e}", l, x, got, want));
                        break;
                    }
                }
            }
        }
        // idempotent (a probability within rounding of h after the first pass is a knife edge:
        // rescaling by a total of 1 +- ulp may move it across h; not counted either way)
        let knife = after[p]
            .iter()
            .any(|(_, acts)| acts.iter().any(|(_, q)| (q - h).abs() <= 1e-9 * q.abs().max(h.abs())));
        let d = named_diff(&after[p], &after2[p]);
        if knife {
            ctx.skipped_illcond += 1;
        } else if !(d <= 1e-12) {
            ctx.fail_prop(case, format!("player {}: truncating twice differs from once by {:e}", p + 1, d));
        }
    }
    // evaluation of the result is defined
    let i = once.get_info();
    if !i.regret().is_finite() {
        ctx.fail_prop(case, "truncated profile evaluates to a non-finite regret".to_string());
    }
    // correspondence
    let mut req = req_with_prof("truncate", &t, &prof);
    req.push_str(&format!(" {:016x}", h.to_bits()));
    let resp = ctx.model.ask(&req);
    match resp.strip_prefix("ok ") {
        None => ctx.fail_corr(case, format!("model answered {:?}", resp)),
        Some(body) => {
            let mut tk = Toks::new(body);
            for p in 0..2 {
                let f = tk.full_named();
                if let Err(e) = named_matches_full(&after[p], &f, 1e-12) {
                    ctx.fail_corr(case, format!("player {}: {}", p + 1, e));
                }
            }
        }
    }
    ctx.count(mix64(t.hash() ^ prof_hash(&prof) ^ h.to_bits()), infos[0].len() + infos[1].len() >= 1);
}

fn next_up(x: f64) -> f64 {
    if x == 0.0 {
        return 5e-324;
    }
    let b = x.to_bits();
    f64::from_bits(if x > 0.0 { b + 1 } else { b - 1 })
}
fn next_down(x: f64) -> f64 {
    -next_up(-x)
}

pub fn c18(ctx: &mut Ctx) -> String {
    let n = if ctx.thorough { 60_000 } else { 3_000 };
    for i in 0..n {
        if ctx.out_of_time() {
            break;
        }
        let (t, fam) = gen_game(&mut ctx.rng, i, 800);
        ctx.stat(&format!("family_{}", fam));
        let kind = pick_prof_kind(&mut ctx.rng);
        let prof = gen_profile(&mut ctx.rng, &t, kind);
        // thresholds: fixed ones, and every probability present with its float neighbours
        let beh = beh_of_named(&prof);
        let mut present: Vec<f64> = beh.iter().flat_map(|m| m.values().flat_map(|a| a.values().cloned())).collect();
        present.retain(|x| *x > 0.0);
        let h = match ctx.rng.below(12) {
            10 => 1e-3,
            11 => 1e-10,
            0 => -1.0,
            1 => 0.0,
            2 => 0.5,
            3 => 1.0,
            4 => 2.0,
            5 => f64::NAN,
            6 => ctx.rng.unit(),
            k => {
                if present.is_empty() {
                    0.3
                } else {
                    let x = *ctx.rng.pick(&present);
                    match k {
                        7 => x,
                        8 => next_up(x),
                        _ => next_down(x),
                    }
                }
            }
        };
        ctx.stat(&format!("threshold_kind_{}", if h.is_nan() { "nan".to_string() } else if h < 0.0 { "negative".into() } else if h >= 1.0 { "ge1".into() } else { "inside".into() }));
        if i < 2 {
            ctx.sample(json!({"family": fam, "nodes": t.size(), "h": h, "tree_line": t.to_line()}));
        }
        let case = json!({"op": "truncate", "tree": t.to_json(), "prof": prof_json(&prof), "h": fjson(h)});
        case_truncate(ctx, &case);
    }
    "games from the mixed stream x profiles x thresholds from {-1, 0, 0.5, 1, 2, NaN, random, every probability present and its two float neighbours}; distinct = hash of (tree, profile, threshold)".to_string()
}

// ---------------------------------------------------------------------------------------------
// C19

pub fn case_distance(ctx: &mut Ctx, case: &Value) {
    let t = case_tree(case);
    let pa = case_prof(case, "a");
    let pb = case_prof(case, "b");
    let p = fparse(&case["p"]).unwrap_or(f64::NAN);
    let game = match build(&t) {
        Ok(g) => g,
        Err(e) => return ctx.fail_corr(case, format!("tree rejected: {:?}", e)),
    };
    let (sa, sb) = match (game.from_named(pa.clone()), game.from_named(pb.clone())) {
        (Ok(a), Ok(b)) => (a, b),
        _ => return ctx.fail_corr(case, "profile rejected".to_string()),
    };
    let d = catch_unwind(AssertUnwindSafe(|| sa.distance(&sb, p)));
    let d2 = catch_unwind(AssertUnwindSafe(|| sb.distance(&sa, p)));
    let should_panic = !(p > 0.0);
    match (&d, should_panic) {
        (Err(_), false) => ctx.fail_prop(case, format!("distance panicked for p = {:e}", p)),
        (Ok(_), true) => ctx.fail_prop(case, format!("distance did not panic for p = {:e}", p)),
        _ => {}
    }
    if let (Ok(d), Ok(d2)) = (&d, &d2) {
        let na = drain_named(&sa);
        let nb = drain_named(&sb);
        for q in 0..2 {
            let differ = named_diff(&na[q], &nb[q]);
            if d[q].is_nan() {
                ctx.fail_prop(case, format!("player {} distance is NaN", q + 1));
            } else {
                if d[q] < 0.0 || (p >= 1.0 && d[q] > 1.0 + 1e-12) {
                    ctx.fail_prop(case, format!("player {} distance {:e} outside [0, 1] (p = {:e})", q + 1, d[q], p));
                }
                if p < 1.0 && d[q] > 1.0 + 1e-12 {
                    ctx.stat("known_finding_class_p_below_one_overshoot");
                    if case.get("strict").and_then(|x| x.as_bool()).unwrap_or(false) {
                        ctx.fail_prop(case, format!("player {} distance {:e} above 1 for p = {:e}", q + 1, d[q], p));
                    }
                }
                if differ == 0.0 && d[q] != 0.0 {
                    ctx.fail_prop(case, format!("player {} distance {:e} between equal strategies", q + 1, d[q]));
                }
                // |x|^p underflows for tiny differences and large p: require positivity when representable
                if differ > 0.0 && differ.powf(p) > 1e-300 && !(d[q] > 0.0) {
                    ctx.fail_prop(case, format!("player {} distance {:e} although the strategies differ by {:e}", q + 1, d[q], differ));
                }
            }
            if !close_tol(d[q], d2[q], 1e-12) {
                ctx.fail_prop(case, format!("player {} distance not symmetric: {:e} vs {:e}", q + 1, d[q], d2[q]));
            }
        }
    }
    // correspondence
    let mut req = req_with_prof("distance", &t, &pa);
    req.push(' ');
    ser_named(&pb[0], &mut req);
    req.push(' ');
    ser_named(&pb[1], &mut req);
    req.push_str(&format!(" {:016x}", p.to_bits()));
    let resp = ctx.model.ask(&req);
    match (&d, resp.as_str()) {
        (Err(_), "panic") => {}
        (Ok(d), r) if r.starts_with("ok ") => {
            let mut tk = Toks::new(&r[3..]);
            let (m1, m2) = (tk.f(), tk.f());
            if !(close_tol(d[0], m1, 1e-9) && close_tol(d[1], m2, 1e-9)) {
                ctx.fail_corr(case, format!("library {:?}, model [{:e}, {:e}]", d, m1, m2));
            }
        }
        (d, r) => ctx.fail_corr(case, format!("library {:?}, model {:?}", d.as_ref().map_err(|_| "panic"), r)),
    }
    let infos = infosets_of(&t);
    let one_sided = infos.iter().any(|m| m.values().all(|a| a.len() < 2));
    if one_sided {
        ctx.stat("games_with_a_player_without_decisions");
    }
    ctx.count(mix64(t.hash() ^ prof_hash(&pa) ^ mix64(prof_hash(&pb)) ^ p.to_bits()), true);
}

pub fn c19(ctx: &mut Ctx) -> String {
    let n = if ctx.thorough { 60_000 } else { 3_000 };
    for i in 0..n {
        if ctx.out_of_time() {
            break;
        }
        let (t, fam) = gen_game(&mut ctx.rng, i, 800);
        ctx.stat(&format!("family_{}", fam));
        let ka = pick_prof_kind(&mut ctx.rng);
        let pa = gen_profile(&mut ctx.rng, &t, ka);
        let pb = match ctx.rng.below(5) {
            0 => pa.clone(),
            1 => gen_profile(&mut ctx.rng, &t, ProfKind::Pure),
            _ => {
                let kb = pick_prof_kind(&mut ctx.rng);
                gen_profile(&mut ctx.rng, &t, kb)
            }
        };
        // (exponents beyond the integer types included: 2^31, 2^32 + 2, 1e18 are exponents like any other)
        let p = *ctx.rng.pick(&[0.25, 0.5, 1.0, 1.0, 2.0, 2.0, 7.0, 1e3, 0.0, -1.0, f64::NAN, f64::INFINITY, 2147483648.0, 4294967298.0, 1e18, 3.0, 5e-324, 1e-310, f64::MIN_POSITIVE]);
        ctx.stat(&format!("p_{}", if p.is_nan() { "nan".to_string() } else { format!("{}", p) }));
        if i < 2 {
            ctx.sample(json!({"family": fam, "nodes": t.size(), "p": p, "tree_line": t.to_line()}));
        }
        let case = json!({"op": "distance", "tree": t.to_json(), "a": prof_json(&pa), "b": prof_json(&pb), "p": fjson(p)});
        case_distance(ctx, &case);
    }
    // different games must panic
    // (two games are different when they are two `Game` values, however alike: the same tree
    // built twice, games in which one or both players have no decision at all, …)
    let only = |one: bool, x: f64| T::Player(one, 0, vec![(0, T::Term(x)), (1, T::Term(-x)), (2, T::Term(0.25))]);
    let shapes: Vec<(&str, T)> = vec![
        ("kuhn", kuhn(3)),
        ("only-player-two-decides", only(false, 1.0)),
        ("only-player-one-decides", only(true, 1.0)),
        ("nobody-decides", T::Chance(None, vec![(1.0, T::Term(1.0)), (3.0, T::Term(-1.0))])),
        ("single-actions-only", T::Player(true, 0, vec![(0, T::Player(false, 0, vec![(0, T::Term(0.5))]))])),
        ("one-terminal", T::Term(0.0)),
    ];
    for (na, ta) in shapes.iter() {
        for (nb, tb) in shapes.iter() {
            // profiles of two different games can only be compared when they have the same shape
            // (otherwise the library may panic for that reason, which is fine too)
            let (g1, g2) = match (build(ta), build(tb)) {
                (Ok(a), Ok(b)) => (a, b),
                _ => continue,
            };
            let (s1, _) = g1.solve(SolveMethod::Full, 1, 0.0, 1, None).unwrap();
            let (s2, _) = g2.solve(SolveMethod::Full, 1, 0.0, 1, None).unwrap();
            ctx.stat("different_games_pairs");
            if let Ok(d) = catch_unwind(AssertUnwindSafe(|| s1.distance(&s2, 1.0))) {
                ctx.fail_prop(&json!({"op": "distance-different-games", "first": na, "second": nb}), format!("distance between profiles of different games ({} / {}) did not panic but returned {:?}", na, nb, d));
            }
            // and the same game with itself does not
            if na == nb && catch_unwind(AssertUnwindSafe(|| s1.distance(&s1, 1.0))).is_err() {
                ctx.fail_prop(&json!({"op": "distance-same-game", "game": na}), format!("distance between profiles of one game ({}) panicked", na));
            }
            // the two documented panics do not depend on *which* profiles are compared: a profile
            // against itself (the very same object) with a non-positive exponent panics too, and
            // with a valid exponent is at distance zero
            if na == nb {
                for p in [0.0, -1.0, f64::NAN, -0.0] {
                    if let Ok(d) = catch_unwind(AssertUnwindSafe(|| s1.distance(&s1, p))) {
                        ctx.fail_prop(&json!({"op": "distance-same-object", "game": na, "p": format!("{}", p)}), format!("distance of a profile to itself with p = {} did not panic but returned {:?}", p, d));
                    }
                }
                match catch_unwind(AssertUnwindSafe(|| s1.distance(&s1, 2.0))) {
                    Ok(d) if d == [0.0, 0.0] => ctx.stat("self_distance_zero"),
                    other => ctx.fail_prop(&json!({"op": "distance-same-object", "game": na}), format!("distance of a profile to itself is {:?}", other.ok())),
                }
            }
        }
    }
    "games from the mixed stream (incl. games where a player has no decision) x pairs of profiles (equal, pure vs pure, arbitrary) x p in {0.25, 0.5, 1, 2, 7, 1e3, 0, -1, NaN, inf}; distinct = hash of (tree, both profiles, p)".to_string()
}

// ---------------------------------------------------------------------------------------------
// the categorical sampler (part of C10)

pub fn case_multinomial(ctx: &mut Ctx, case: &Value) {
    let ws: Vec<f64> = case["weights"].as_array().map(|a| a.iter().filter_map(fparse).collect()).unwrap_or_default();
    let k = case["k"].as_u64().unwrap_or(0);
    let u = cfr::verif::uniform_of(k);
    let lib = cfr::verif::multinomial_index(&ws, k);
    let mut req = format!("multinomial {}", ws.len());
    for w in &ws {
        req.push_str(&format!(" {:016x}", w.to_bits()));
    }
    req.push_str(&format!(" {:016x}", u.to_bits()));
    let resp = ctx.model.ask(&req);
    if resp != format!("ok {}", lib) {
        ctx.fail_corr(case, format!("sampler returned {}, model answered {:?} (u = {:e})", lib, resp, u));
    }
    // exact interval oracle on the dyadic grid
    if case.get("dyadic").and_then(|d| d.as_bool()).unwrap_or(false) {
        // all numbers are multiples of 2^-6 below 2: exact in doubles
        let mut c = 0.0;
        let mut want = ws.len() - 1;
        for (j, w) in ws[..ws.len() - 1].iter().enumerate() {
            c += w;
            if u <= c {
                want = j;
                break;
            }
        }
        if want != lib {
            ctx.fail_prop(case, format!("u = {} weights {:?}: sampler returned {}, cumulative interval is {}", u, ws, lib, want));
        }
    }
    let mut h = k;
    for w in &ws {
        h = mix64(h ^ w.to_bits());
    }
    ctx.count(h, ws.len() >= 2);
}
