//! Generators: games valid by construction, classic games, adversarial shapes, small raw trees,
//! planted rule violations, strategy profiles; and independent oracles on raw trees
//! (documented-contract validity, expected value, brute-force best response).
use crate::core::*;
use std::collections::{BTreeMap, BTreeSet, HashMap};

// ---------------------------------------------------------------------------------------------
// imperfect-information games valid by construction

#[derive(Clone, Debug)]
pub struct ObsCfg {
    pub max_depth: usize,
    pub max_nodes: usize,
    pub max_actions: u64,
    pub int_payoffs: bool,
    pub p_chance: f64,
    pub p_single: f64,
    pub p_term: f64,
    /// allow a chance infoset to occur twice on one path (known finding F16 when sampled)
    pub allow_chance_repeat: bool,
}

impl ObsCfg {
    pub fn small() -> Self {
        ObsCfg {
            max_depth: 4,
            max_nodes: 24,
            max_actions: 3,
            int_payoffs: false,
            p_chance: 0.25,
            p_single: 0.12,
            p_term: 0.15,
            allow_chance_repeat: false,
        }
    }
    pub fn medium() -> Self {
        ObsCfg {
            max_depth: 6,
            max_nodes: 160,
            max_actions: 4,
            int_payoffs: false,
            p_chance: 0.25,
            p_single: 0.1,
            p_term: 0.12,
            allow_chance_repeat: false,
        }
    }
    pub fn large() -> Self {
        ObsCfg {
            max_depth: 8,
            max_nodes: 1500,
            max_actions: 4,
            int_payoffs: false,
            p_chance: 0.2,
            p_single: 0.08,
            p_term: 0.08,
            allow_chance_repeat: false,
        }
    }
}

struct ChanceClass {
    label: Option<u32>,
    weights: Vec<f64>,
    seen_by: [bool; 2],
}

struct ObsGen<'a> {
    rng: &'a mut Rng,
    cfg: ObsCfg,
    intern: [HashMap<u64, u32>; 2],
    classes: Vec<ChanceClass>,
    nodes: usize,
    salt: u64,
    next_label: [u32; 2],
}

impl ObsGen<'_> {
    fn payoff(&mut self) -> f64 {
        if self.cfg.int_payoffs {
            self.rng.range(0, 6) as f64 - 3.0
        } else {
            self.rng.unit() * 20.0 - 10.0
        }
    }

    fn gen(&mut self, depth: usize, h: [u64; 2], used: &mut Vec<usize>) -> T {
        self.nodes += 1;
        if depth >= self.cfg.max_depth
            || self.nodes >= self.cfg.max_nodes
            || (depth > 0 && self.rng.chance(self.cfg.p_term))
        {
            return T::Term(self.payoff());
        }
        if self.rng.chance(self.cfg.p_chance) {
            let mut ci = self.rng.below(self.classes.len() as u64) as usize;
            if !self.cfg.allow_chance_repeat && self.classes[ci].label.is_some() && used.contains(&ci) {
                // fall back to an anonymous class
                ci = 0;
            }
            let (label, weights, seen_by) = {
                let c = &self.classes[ci];
                (c.label, c.weights.clone(), c.seen_by)
            };
            used.push(ci);
            let mut outs = Vec::new();
            for (j, w) in weights.iter().enumerate() {
                let mut h2 = h;
                for p in 0..2 {
                    if seen_by[p] {
                        h2[p] = mix64(h2[p] ^ mix64(0xC000 + (ci as u64) * 64 + j as u64));
                    }
                }
                outs.push((*w, self.gen(depth + 1, h2, used)));
            }
            used.pop();
            return T::Chance(label, outs);
        }
        let one = self.rng.chance(0.5);
        let p = if one { 0 } else { 1 };
        let key = h[p];
        let next = &mut self.next_label[p];
        let label = *self.intern[p].entry(key).or_insert_with(|| {
            let l = *next;
            *next += 1;
            l
        });
        let props = mix64(key ^ self.salt);
        let single = ((props >> 8) % 1000) as f64 / 1000.0 < self.cfg.p_single;
        let nacts = if single {
            1
        } else {
            2 + ((props >> 20) % (self.cfg.max_actions - 1)) as usize
        };
        let base = ((props >> 32) % 4) as u32;
        let rev = (props >> 40) & 1 == 1;
        let observed = (props >> 41) & 1 == 1;
        let mut acts = Vec::new();
        for a in 0..nacts {
            let name = if rev {
                base + (nacts - 1 - a) as u32
            } else {
                base + a as u32
            };
            let mut h2 = h;
            h2[p] = mix64(h2[p] ^ mix64(0xA000 + a as u64));
            if observed {
                h2[1 - p] = mix64(h2[1 - p] ^ mix64(0xB000 + a as u64));
            }
            acts.push((name, self.gen(depth + 1, h2, used)));
        }
        T::Player(one, label, acts)
    }
}

pub fn gen_obs(rng: &mut Rng, cfg: &ObsCfg) -> T {
    let mut classes = vec![ChanceClass {
        label: None,
        weights: vec![1.0, 1.0],
        seen_by: [true, true],
    }];
    let nclasses = rng.range(1, 3);
    for c in 0..nclasses {
        let k = if rng.chance(0.12) { 1 } else { rng.range(2, 3) as usize };
        let weights: Vec<f64> = (0..k)
            .map(|_| match rng.below(4) {
                0 => 1.0,
                1 => rng.range(1, 5) as f64,
                2 => rng.range(1, 8) as f64 / 8.0,
                _ => 0.05 + rng.unit(),
            })
            .collect();
        classes.push(ChanceClass {
            label: if rng.chance(0.75) { Some(c as u32) } else { None },
            weights,
            seen_by: [rng.chance(0.6), rng.chance(0.6)],
        });
    }
    classes[0].weights = (0..rng.range(2, 3)).map(|_| rng.range(1, 4) as f64).collect();
    let salt = rng.next();
    let h = [rng.next(), rng.next()];
    let mut g = ObsGen {
        rng,
        cfg: cfg.clone(),
        intern: [HashMap::new(), HashMap::new()],
        classes,
        nodes: 0,
        salt,
        next_label: [0, 0],
    };
    g.gen(0, h, &mut Vec::new())
}

// ---------------------------------------------------------------------------------------------
// classic and adversarial games

/// Kuhn poker with `n` cards
pub fn kuhn(n: u32) -> T {
    let mut deals = Vec::new();
    for c1 in 0..n {
        for c2 in 0..n {
            if c1 == c2 {
                continue;
            }
            let win = |amt: f64| if c1 > c2 { amt } else { -amt };
            // P1: check(0) / bet(1)
            let p2_after_check = T::Player(
                false,
                c2 * 10,
                vec![
                    (0, T::Term(win(1.0))),
                    (
                        1,
                        T::Player(
                            true,
                            c1 * 10 + 1,
                            vec![(0, T::Term(-1.0)), (1, T::Term(win(2.0)))],
                        ),
                    ),
                ],
            );
            let p2_after_bet = T::Player(
                false,
                c2 * 10 + 1,
                vec![(0, T::Term(1.0)), (1, T::Term(win(2.0)))],
            );
            deals.push((
                1.0,
                T::Player(true, c1 * 10, vec![(0, p2_after_check), (1, p2_after_bet)]),
            ));
        }
    }
    T::Chance(None, deals)
}

pub fn matching_pennies(bias: f64) -> T {
    let p2 = |a: f64, b: f64| T::Player(false, 0, vec![(0, T::Term(a)), (1, T::Term(b))]);
    T::Player(true, 0, vec![(0, p2(1.0 + bias, -1.0)), (1, p2(-1.0, 1.0))])
}

/// a matrix game with random payoffs
pub fn matrix_game(rng: &mut Rng, rows: u32, cols: u32) -> T {
    T::Player(
        true,
        0,
        (0..rows)
            .map(|r| {
                (
                    r,
                    T::Player(
                        false,
                        0,
                        (0..cols).map(|c| (c, T::Term(rng.unit() * 4.0 - 2.0))).collect(),
                    ),
                )
            })
            .collect(),
    )
}

/// alternating chain of the given depth; every node has an exit to a terminal
pub fn deep_chain(rng: &mut Rng, depth: u32) -> T {
    let mut t = T::Term(rng.unit() * 2.0 - 1.0);
    for d in (0..depth).rev() {
        t = T::Player(
            d % 2 == 0,
            d / 2,
            vec![(0, T::Term(rng.unit() * 2.0 - 1.0)), (1, t)],
        );
    }
    t
}

/// one player's ladder of `depth` consecutive stop/go decisions (own reach down to 2^-depth under
/// uniform play), closed by a decision of the other player
pub fn ladder(rng: &mut Rng, depth: u32) -> T {
    let mut t = T::Player(false, 0, vec![(0, T::Term(rng.unit())), (1, T::Term(-rng.unit()))]);
    for d in (0..depth).rev() {
        t = T::Player(true, d, vec![(0, T::Term(rng.unit() * 2.0 - 1.0)), (1, t)]);
    }
    t
}

/// both players' ladders interleaved: `depth` stop/go decisions each, alternating; stopping pays
/// little, walking to the end pays `2^exp`.  Under uniform play both own reaches at the bottom are
/// `2^-depth` (far below `f64::EPSILON` for depth > 52) while reach x payoff is of order one.
pub fn deep_alternating(rng: &mut Rng, depth: u32, exp: i32) -> T {
    let mut t = T::Term(2f64.powi(exp) * if rng.chance(0.5) { 1.0 } else { -1.0 });
    for d in (0..2 * depth).rev() {
        t = T::Player(d % 2 == 0, d / 2, vec![(0, T::Term(rng.unit() * 2.0 - 1.0)), (1, t)]);
    }
    t
}

/// one infoset shared by many nodes behind an unobserved chance move
pub fn wide_infoset(rng: &mut Rng, width: u32, acts: u32) -> T {
    T::Chance(
        Some(0),
        (0..width)
            .map(|_| {
                (
                    1.0 + rng.below(3) as f64,
                    T::Player(
                        true,
                        7,
                        (0..acts)
                            .map(|a| {
                                (
                                    a,
                                    T::Player(
                                        false,
                                        3,
                                        vec![
                                            (0, T::Term(rng.unit() * 2.0 - 1.0)),
                                            (1, T::Term(rng.unit() * 2.0 - 1.0)),
                                        ],
                                    ),
                                )
                            })
                            .collect(),
                    ),
                )
            })
            .collect(),
    )
}

/// a rare chance outcome with a large payoff swing
pub fn rare_chance(rng: &mut Rng) -> T {
    let sub = |rng: &mut Rng, scale: f64| {
        T::Player(
            true,
            0,
            vec![
                (
                    0,
                    T::Player(
                        false,
                        0,
                        vec![(0, T::Term(scale * rng.unit())), (1, T::Term(-scale * rng.unit()))],
                    ),
                ),
                (
                    1,
                    T::Player(
                        false,
                        0,
                        vec![(0, T::Term(-scale * rng.unit())), (1, T::Term(scale * rng.unit()))],
                    ),
                ),
            ],
        )
    };
    T::Chance(None, vec![(1e-6, sub(rng, 100.0)), (1.0, sub(rng, 1.0))])
}

/// only player one decides; dominated and duplicate actions
pub fn one_sided(rng: &mut Rng) -> T {
    let x = rng.unit();
    T::Player(
        true,
        0,
        vec![
            (0, T::Term(x)),
            (1, T::Term(x)),
            (2, T::Term(x - 1.0)),
            (
                3,
                T::Player(true, 1, vec![(0, T::Term(x + 0.5)), (1, T::Term(-3.0))]),
            ),
        ],
    )
}

/// one player decides twice in a row (own reach is a product of two own probabilities), then a
/// blind opponent answers: one infoset across all four nodes
pub fn double_decision(rng: &mut Rng) -> T {
    let first = rng.chance(0.5);
    let p2 = |rng: &mut Rng, bonus: f64| {
        T::Player(
            !first,
            0,
            vec![(0, T::Term(bonus + rng.unit())), (1, T::Term(bonus - rng.unit()))],
        )
    };
    let second = |rng: &mut Rng, label: u32, bonus: f64| {
        T::Player(first, label, vec![(0, p2(rng, bonus)), (1, p2(rng, bonus))])
    };
    let hi = 1.0 + rng.unit();
    T::Player(first, 0, vec![(0, second(rng, 1, hi)), (1, second(rng, 2, -hi))])
}

/// many branches of the updating player lead into the same few opponent infosets: parallel tasks
/// of an external-sampling pass meet there
pub fn contention_game(rng: &mut Rng, fan: u32, depth: u32) -> T {
    fn go(rng: &mut Rng, fan: u32, depth: u32, d: u32, own: u32, opp: u32) -> T {
        if d >= depth {
            return T::Term(rng.unit() * 2.0 - 1.0);
        }
        if d % 2 == 1 {
            // the opponent remembers only her own moves: every branch of the other player leads
            // into the same infoset
            T::Player(
                false,
                opp,
                (0..3).map(|a| (a, go(rng, fan, depth, d + 1, own, opp * 4 + a + 1))).collect(),
            )
        } else {
            // the updating player remembers everything she did and saw
            let k = if d == 0 { fan } else { 2 };
            T::Player(
                true,
                own * 64 + opp,
                (0..k).map(|a| (a, go(rng, fan, depth, d + 1, own * 16 + a + 1, opp))).collect(),
            )
        }
    }
    go(rng, fan, depth, 0, 0, 0)
}

/// a matrix game played `rounds` times, both players seeing every finished round: the tree a
/// player's sampled pass walks is as wide as her own action count at every level (what the
/// thread split of the multi-threaded solvers needs before it hands anything to the pool)
pub fn repeated_matrix(rng: &mut Rng, acts: u32, rounds: u32) -> T {
    let m: Vec<Vec<f64>> = (0..acts).map(|_| (0..acts).map(|_| rng.unit() * 4.0 - 2.0).collect()).collect();
    fn go(m: &Vec<Vec<f64>>, acts: u32, rounds: u32, r: u32, hist: u32, pay: f64) -> T {
        if r >= rounds {
            return T::Term(pay);
        }
        T::Player(
            true,
            hist,
            (0..acts)
                .map(|a| {
                    (
                        a,
                        T::Player(
                            false,
                            hist,
                            (0..acts)
                                .map(|b| (b, go(m, acts, rounds, r + 1, (hist * acts + a) * acts + b + 1, pay + m[a as usize][b as usize] * (1.0 + r as f64))))
                                .collect(),
                        ),
                    )
                })
                .collect(),
        )
    }
    go(&m, acts, rounds, 0, 0, 0.0)
}

/// a hidden first move: one player moves, the other answers without seeing it (one infoset at
/// several nodes right below the root), and one of the answers leads into a wide decision of the
/// first player.  With a few threads the frontier walk of the multi-threaded sampled solvers passes
/// some nodes of the shared infoset itself and leaves others to the tasks or the closing recursion,
/// and which ones depends on the draws of the pass.
pub fn hidden_move(rng: &mut Rng) -> T {
    let first = rng.chance(0.5);
    let k0 = rng.range(2, 3) as u32;
    let wide = rng.range(4, 7) as u32;
    let answers = rng.range(2, 3) as u32;
    let mut top = Vec::new();
    for a in 0..k0 {
        let mut ans = Vec::new();
        for b in 0..answers {
            let child = if b == 0 {
                T::Player(first, 10 + a, (0..wide).map(|c| (c, T::Term(rng.unit() * 4.0 - 2.0))).collect())
            } else if rng.chance(0.5) {
                T::Term(rng.unit() * 4.0 - 2.0)
            } else {
                T::Player(first, 20 + a * 4 + b, (0..2).map(|c| (c, T::Term(rng.unit() * 4.0 - 2.0))).collect())
            };
            ans.push((b, child));
        }
        top.push((a, T::Player(!first, 0, ans)));
    }
    T::Player(first, 0, top)
}

/// A move of one player hidden from the other, a separate coin behind each action, then the other
/// player's guess in ONE infoset that straddles all the coins.  With two or three threads the
/// frontier walk of the multi-threaded solvers stops while one of the coins is still in its queue
/// and a sibling has already been expanded: chance nodes are handed to the pool as tasks, and the
/// straddling infoset has nodes inside and outside of them.
pub fn coins_behind_choice(rng: &mut Rng) -> T {
    let first = rng.chance(0.5);
    let k0 = rng.range(2, 3) as u32;
    let ways = *rng.pick(&[3u32, 5, 4]);
    let guesses = rng.range(2, 3) as u32;
    let mut top = Vec::new();
    for a in 0..k0 {
        let outs = (0..ways)
            .map(|_| {
                let guess = T::Player(!first, 0, (0..guesses).map(|c| (c, T::Term((rng.below(17) as f64 - 8.0) / 4.0))).collect());
                (1.0 + rng.below(3) as f64, guess)
            })
            .collect();
        top.push((a, T::Chance(None, outs)));
    }
    T::Player(first, 0, top)
}

/// The root player's first action ends the game at once; every other action leads to a small
/// simultaneous-move subgame.  With two threads the frontier walk of the multi-threaded solvers
/// stops with the terminal still in its queue: a leaf is handed to the pool as a task (and its
/// payoff cached), in either player's pass.
pub fn early_exit(rng: &mut Rng) -> T {
    let root_one = rng.chance(0.5);
    let others = rng.range(2, 3) as u32;
    let (rows, cols) = *rng.pick(&[(2u32, 3u32), (2, 2), (3, 2)]);
    let mut top = vec![(0u32, T::Term((rng.below(9) as f64 - 4.0) / 2.0))];
    for a in 0..others {
        let sub = T::Player(
            !root_one,
            a,
            (0..rows)
                .map(|r| (r, T::Player(root_one, 1 + a, (0..cols).map(|c| (c, T::Term((rng.below(17) as f64 - 8.0) / 4.0))).collect())))
                .collect(),
        );
        top.push((a + 1, sub));
    }
    T::Player(root_one, 0, top)
}

/// a chance infoset with `n` outcomes met twice on one path: almost all weight on the last three
/// outcomes, which lead to a second node of the same infoset (same weights); below it a decision of
/// player one whose infoset tells whether the *shared* outcome was followed.  Wide enough tables
/// catch an index kept in too narrow an integer.
pub fn chance_fan(rng: &mut Rng, n: usize) -> T {
    let ws: Vec<f64> = (0..n).map(|j| if j + 3 >= n { 1.0 + (j % 3) as f64 } else { 1e-9 }).collect();
    let leaf = |rng: &mut Rng, info: u32| T::Player(true, info, vec![(0, T::Term(rng.unit())), (1, T::Term(-rng.unit()))]);
    let second = |rng: &mut Rng, first: usize| {
        T::Chance(
            Some(0),
            (0..n)
                .map(|j| (ws[j], if j == first { leaf(rng, 1) } else if j + 3 >= n { leaf(rng, 2) } else { T::Term(0.0) }))
                .collect(),
        )
    };
    T::Chance(
        Some(0),
        (0..n).map(|j| (ws[j], if j + 3 >= n { second(rng, j) } else { T::Term(0.25) })).collect(),
    )
}

/// an infoset of player two with `n` actions at two nodes (player two does not see player one's
/// move): the external sampler draws her action once per pass and must follow it at both nodes
pub fn player_fan(rng: &mut Rng, n: usize) -> T {
    let col: Vec<f64> = (0..n).map(|_| rng.unit() * 2.0 - 1.0).collect();
    T::Player(
        true,
        0,
        (0..2u32)
            .map(|a| (a, T::Player(false, 0, (0..n).map(|b| (b as u32, T::Term(if a == 0 { col[b] } else { -col[b] } + 0.1 * a as f64))).collect())))
            .collect(),
    )
}

/// a lottery in front of a game: one chance outcome ends the game at once (a pass that draws it
/// moves no regret at all), the other leads to a matrix game whose equilibrium is not uniform
pub fn lottery(rng: &mut Rng) -> T {
    let sub = T::Player(
        true,
        0,
        vec![
            (0, T::Player(false, 0, vec![(0, T::Term(2.0 + rng.unit())), (1, T::Term(0.0))])),
            (1, T::Player(false, 0, vec![(0, T::Term(0.0)), (1, T::Term(1.0))])),
        ],
    );
    let w = 1.0 + (rng.below(3) as f64);
    T::Chance(None, vec![(w, T::Term(rng.unit() - 0.5)), (1.0, sub)])
}

pub fn adversarial(rng: &mut Rng, i: u64) -> T {
    let (x, y) = (rng.below(60) as u32, rng.below(3) as u32);
    let z = rng.below(3) as u32;
    match i % 11 {
        10 => ladder(rng, 20 + x % 20),
        9 => lottery(rng),
        8 => double_decision(rng),
        0 => deep_chain(rng, 12 + x),
        1 => wide_infoset(rng, 2 + x % 14, 2 + y),
        2 => rare_chance(rng),
        3 => one_sided(rng),
        4 => T::Term(rng.unit()),
        5 => matrix_game(rng, 2 + y, 2 + z),
        6 => kuhn(3 + y % 2),
        _ => matching_pennies(rng.unit()),
    }
}

/// the mixed stream most checks draw from
pub fn gen_game(rng: &mut Rng, i: u64, max_nodes: usize) -> (T, &'static str) {
    let (t, fam) = match i % 10 {
        0 | 1 | 2 => (gen_obs(rng, &ObsCfg::small()), "obs-small"),
        3 | 4 => (gen_obs(rng, &ObsCfg::medium()), "obs-medium"),
        5 => {
            let mut c = ObsCfg::small();
            c.int_payoffs = true;
            (gen_obs(rng, &c), "obs-small-int")
        }
        6 => {
            let mut c = ObsCfg::medium();
            c.int_payoffs = true;
            (gen_obs(rng, &c), "obs-medium-int")
        }
        7 => (gen_obs(rng, &ObsCfg::large()), "obs-large"),
        _ => {
            let k = rng.next();
            (adversarial(rng, k), "adversarial")
        }
    };
    if t.size() > max_nodes {
        return (gen_obs(rng, &ObsCfg::small()), "obs-small");
    }
    (t, fam)
}

// ---------------------------------------------------------------------------------------------
// small raw trees, valid or not

pub fn gen_small_raw(rng: &mut Rng, budget: &mut i64, depth: u32) -> T {
    *budget -= 1;
    let r = rng.below(100);
    if *budget <= 0 || depth >= 4 || r < 30 {
        let p = match rng.below(40) {
            0 => f64::NAN,
            1 => f64::INFINITY,
            2 => f64::NEG_INFINITY,
            x => (x % 5) as f64 - 2.0,
        };
        return T::Term(p);
    }
    if r < 50 {
        let info = match rng.below(3) {
            0 => None,
            x => Some((x - 1) as u32),
        };
        let k = match rng.below(20) {
            0 => 0,
            1..=4 => 1,
            5..=14 => 2,
            _ => 3,
        };
        let outs = (0..k)
            .map(|_| {
                let w = match rng.below(60) {
                    0 => 0.0,
                    1 => -1.0,
                    2 => f64::NAN,
                    3 => f64::INFINITY,
                    x => [1.0, 2.0, 0.5, 3.0][(x % 4) as usize],
                };
                (w, gen_small_raw(rng, budget, depth + 1))
            })
            .collect();
        return T::Chance(info, outs);
    }
    let one = rng.chance(0.5);
    let info = rng.below(3) as u32;
    let k = match rng.below(20) {
        0 => 0,
        1..=4 => 1,
        5..=15 => 2,
        _ => 3,
    };
    let start = rng.below(2) as u32;
    let dup = rng.chance(0.05);
    let sep = rng.chance(0.5);
    let acts = (0..k)
        .map(|a| {
            // all names equal, or (with three actions) the first name again at the end
            let name = if dup && !(sep && k >= 3 && a == 1) { start } else { start + a };
            (name, gen_small_raw(rng, budget, depth + 1))
        })
        .collect();
    T::Player(one, info, acts)
}

// ---------------------------------------------------------------------------------------------
// planted rule violations

fn count_nodes(t: &T) -> usize {
    t.size()
}

/// apply `f` to the `n`-th node in pre-order
fn with_nth(t: &mut T, n: &mut usize, f: &mut dyn FnMut(&mut T)) -> bool {
    if *n == 0 {
        f(t);
        return true;
    }
    *n -= 1;
    match t {
        T::Term(_) => false,
        T::Chance(_, o) => {
            for (_, c) in o.iter_mut() {
                if with_nth(c, n, f) {
                    return true;
                }
            }
            false
        }
        T::Player(_, _, a) => {
            for (_, c) in a.iter_mut() {
                if with_nth(c, n, f) {
                    return true;
                }
            }
            false
        }
    }
}

/// plant one random mutation that *may* violate the contract at a random node
pub fn plant(rng: &mut Rng, t: &T) -> (T, &'static str) {
    let kind = rng.below(15);
    plant_kind(rng, t, kind)
}

/// plant the mutation of the given kind (0..12) at a random node
pub fn plant_kind(rng: &mut Rng, t: &T, kind: u64) -> (T, &'static str) {
    if kind == 14 {
        // an infoset that the tree first shows below an own decision of its player, shown once more
        // at a node with no own decision above it, later in the tree (what the player remembers at
        // the two nodes differs)
        fn deep(t: &T, own: [bool; 2]) -> Option<(bool, u32, Vec<u32>)> {
            match t {
                T::Term(_) => None,
                T::Chance(_, o) => o.iter().find_map(|(_, c)| deep(c, own)),
                T::Player(one, i, a) => {
                    let p = if *one { 0 } else { 1 };
                    if a.len() >= 2 && own[p] {
                        return Some((*one, *i, a.iter().map(|x| x.0).collect()));
                    }
                    let mut o2 = own;
                    if a.len() >= 2 {
                        o2[p] = true;
                    }
                    a.iter().find_map(|(_, c)| deep(c, o2))
                }
            }
        }
        if let Some((one, lab, acts)) = deep(t, [false, false]) {
            let late = T::Player(one, lab, acts.iter().map(|a| (*a, T::Term(0.125 * *a as f64))).collect());
            return (T::Chance(None, vec![(1.0, t.clone()), (1.0, late)]), "late-shallow-infoset");
        }
        return (t.clone(), "none");
    }
    if kind == 13 {
        // one named chance infoset at a node whose first weight dominates so much that its
        // normalised probability is exactly one, and at a single-outcome node: the two nodes do not
        // have the same outcomes, whatever the first probability rounds to
        let tiny = *rng.pick(&[1e-17, 1e-300, 5e-324, 2.2250738585072014e-308]);
        let lab = 970 + rng.below(3) as u32;
        let a = T::Chance(Some(lab), vec![(1.0, t.clone()), (tiny, T::Term(0.5))]);
        let b = T::Chance(Some(lab), vec![(1.0, T::Term(-0.25))]);
        let pair = if rng.chance(0.7) { vec![(1.0, a), (2.0, b)] } else { vec![(1.0, b), (2.0, a)] };
        return (T::Chance(None, pair), "dominant-weight-and-single-outcome");
    }
    let mut out = t.clone();
    let n = count_nodes(t);
    let mut idx = rng.below(n as u64) as usize;
    let name: &'static str = match kind {
        0 => "bad-weight",
        1 => "empty-chance",
        2 => "empty-player",
        3 => "rename-action",
        4 => "duplicate-action",
        5 => "rescale-one-weight",
        6 => "relabel-infoset",
        7 => "nan-payoff",
        8 => "permute-actions",
        9 => "drop-action",
        10 => "relabel-chance",
        12 => "extreme-weight",
        _ => "swap-player",
    };
    let mut r2 = rng.fork();
    // try successive nodes until the mutation applies
    for _ in 0..n {
        let mut applied = false;
        let mut i = idx;
        with_nth(&mut out, &mut i, &mut |node: &mut T| match (kind, node) {
            (0, T::Chance(_, o)) if !o.is_empty() => {
                let j = r2.below(o.len() as u64) as usize;
                o[j].0 = *r2.pick(&[0.0, -1.0, f64::NAN, f64::INFINITY, -0.0]);
                applied = true;
            }
            (1, T::Chance(_, o)) => {
                o.clear();
                applied = true;
            }
            (2, T::Player(_, _, a)) => {
                a.clear();
                applied = true;
            }
            (3, T::Player(_, _, a)) if !a.is_empty() => {
                let j = r2.below(a.len() as u64) as usize;
                a[j].0 += 17;
                applied = true;
            }
            (4, T::Player(_, _, a)) if a.len() >= 2 => {
                // a repeated name at any two positions: adjacent ones, the two ends, or (by adding an
                // action) separated by another name: [a, b, a]
                if a.len() == 2 && r2.chance(0.5) {
                    let extra = (a[0].0, a[r2.below(2) as usize].1.clone());
                    a.push(extra);
                } else if a.len() >= 3 && r2.chance(0.7) {
                    let j = r2.below(a.len() as u64 - 2) as usize;
                    let k = j + 2 + r2.below((a.len() - j - 2) as u64) as usize;
                    a[k].0 = a[j].0;
                } else {
                    a[1].0 = a[0].0;
                }
                applied = true;
            }
            (5, T::Chance(_, o)) if o.len() >= 2 => {
                o[0].0 *= 3.0;
                applied = true;
            }
            (6, T::Player(_, i, _)) => {
                *i = r2.below(4) as u32;
                applied = true;
            }
            (7, T::Term(p)) => {
                *p = *r2.pick(&[f64::NAN, f64::INFINITY, f64::NEG_INFINITY]);
                applied = true;
            }
            (8, T::Player(_, _, a)) if a.len() >= 2 => {
                a.swap(0, 1);
                applied = true;
            }
            (9, T::Player(_, _, a)) if a.len() >= 2 => {
                a.pop();
                applied = true;
            }
            (10, T::Chance(i, _)) => {
                *i = Some(r2.below(3) as u32);
                applied = true;
            }
            (11, T::Player(p, _, _)) => {
                *p = !*p;
                applied = true;
            }
            // positive finite weights at the ends of the double range are valid weights
            (12, T::Chance(_, o)) if !o.is_empty() => {
                let all = r2.chance(0.5);
                let j = r2.below(o.len() as u64) as usize;
                for (k, out) in o.iter_mut().enumerate() {
                    if all || k == j {
                        out.0 = *r2.pick(&[5e-324, 1e-310, 2.2250738585072014e-308, 1e-300, 1e300, 3e-320]);
                    }
                }
                applied = true;
            }
            _ => {}
        });
        if applied {
            return (out, name);
        }
        idx = (idx + 1) % n;
    }
    (out, "none")
}

// ---------------------------------------------------------------------------------------------
// independent oracle: the documented contract of `Game::from_root`

pub fn normalised(ws: &[f64]) -> Vec<f64> {
    let mut tot = 0.0;
    for w in ws {
        tot += w;
    }
    ws.iter().map(|w| w / tot).collect()
}

#[derive(Default)]
struct Contract {
    violated: BTreeSet<&'static str>,
    chance: HashMap<u32, Vec<f64>>,
    acts: [HashMap<u32, Vec<u32>>; 2],
    hist: [HashMap<u32, Vec<(u32, u32)>>; 2],
}

impl Contract {
    fn walk(&mut self, t: &T, h: &[Vec<(u32, u32)>; 2]) {
        match t {
            T::Term(p) => {
                if !p.is_finite() {
                    self.violated.insert("NonFinitePayoff");
                }
            }
            T::Chance(info, outs) => {
                if outs.is_empty() {
                    self.violated.insert("EmptyChance");
                }
                let ws: Vec<f64> = outs.iter().map(|(w, _)| *w).collect();
                if ws.iter().any(|w| !(*w > 0.0 && w.is_finite())) {
                    self.violated.insert("NonPositiveChance");
                } else if let (Some(l), false) = (info, outs.is_empty()) {
                    let n = normalised(&ws);
                    match self.chance.get(l) {
                        Some(prev) => {
                            if *prev != n {
                                self.violated.insert("ProbabilitiesNotEqual");
                            }
                        }
                        None => {
                            self.chance.insert(*l, n);
                        }
                    }
                }
                for (_, c) in outs {
                    self.walk(c, h);
                }
            }
            T::Player(one, info, acts) => {
                let p = if *one { 0 } else { 1 };
                if acts.is_empty() {
                    self.violated.insert("EmptyPlayer");
                    return;
                }
                let names: Vec<u32> = acts.iter().map(|(a, _)| *a).collect();
                let distinct: BTreeSet<u32> = names.iter().cloned().collect();
                if distinct.len() != names.len() {
                    self.violated.insert("ActionsNotUnique");
                }
                match self.acts[p].get(info) {
                    Some(prev) => {
                        if *prev != names {
                            self.violated.insert("ActionsNotEqual");
                        }
                    }
                    None => {
                        self.acts[p].insert(*info, names.clone());
                    }
                }
                if names.len() >= 2 {
                    match self.hist[p].get(info) {
                        Some(prev) => {
                            if *prev != h[p] {
                                self.violated.insert("ImperfectRecall");
                            }
                        }
                        None => {
                            self.hist[p].insert(*info, h[p].clone());
                        }
                    }
                }
                for (a, c) in acts {
                    let mut h2 = h.clone();
                    if names.len() >= 2 {
                        h2[p].push((*info, *a));
                    }
                    self.walk(c, &h2);
                }
            }
        }
    }
}

/// the set of documented rules the tree violates (empty = the tree is in the documented class)
pub fn violations(t: &T) -> BTreeSet<&'static str> {
    let mut c = Contract::default();
    c.walk(t, &[Vec::new(), Vec::new()]);
    c.violated
}

// ---------------------------------------------------------------------------------------------
// infosets and profiles

/// label -> action labels, for each player (single-action infosets included)
pub fn infosets_of(t: &T) -> [BTreeMap<u32, Vec<u32>>; 2] {
    fn go(t: &T, out: &mut [BTreeMap<u32, Vec<u32>>; 2]) {
        match t {
            T::Term(_) => {}
            T::Chance(_, o) => o.iter().for_each(|(_, c)| go(c, out)),
            T::Player(one, i, a) => {
                out[if *one { 0 } else { 1 }]
                    .entry(*i)
                    .or_insert_with(|| a.iter().map(|(x, _)| *x).collect());
                a.iter().for_each(|(_, c)| go(c, out));
            }
        }
    }
    let mut out = [BTreeMap::new(), BTreeMap::new()];
    go(t, &mut out);
    out
}

pub fn stats_of(t: &T) -> (usize, usize, f64) {
    let infos = infosets_of(t);
    let n: usize = infos.iter().map(|m| m.values().filter(|a| a.len() >= 2).count()).sum();
    let a: usize = infos
        .iter()
        .flat_map(|m| m.values().map(|a| a.len()))
        .max()
        .unwrap_or(1)
        .max(1);
    (n, a, t.range())
}

#[derive(Clone, Copy, Debug, PartialEq)]
pub enum ProfKind {
    Random,
    Pure,
    Zeros,
    Uniform,
    Unnormalised,
    /// weights down to subnormal doubles next to ordinary ones
    Tiny,
}

pub fn gen_profile(rng: &mut Rng, t: &T, kind: ProfKind) -> [Named; 2] {
    let infos = infosets_of(t);
    let mut out = [Vec::new(), Vec::new()];
    for p in 0..2 {
        for (l, acts) in &infos[p] {
            let n = acts.len();
            let mut ws: Vec<f64> = match kind {
                ProfKind::Random => (0..n).map(|_| 0.05 + rng.unit()).collect(),
                ProfKind::Uniform => vec![1.0; n],
                ProfKind::Unnormalised => (0..n).map(|_| rng.range(1, 9) as f64).collect(),
                ProfKind::Pure => {
                    let k = rng.below(n as u64) as usize;
                    (0..n).map(|i| if i == k { 1.0 } else { 0.0 }).collect()
                }
                ProfKind::Tiny => {
                    let k = rng.below(n as u64) as usize;
                    // (now and then every weight of the infoset is tiny: a total far below the
                    // smallest normal double is a total like any other)
                    let big = if rng.chance(0.3) { *rng.pick(&[3e-310, 1e-315, 5e-324]) } else { 1.0 };
                    (0..n)
                        .map(|i| if i == k { big } else { *rng.pick(&[1e-310, 5e-324, 1e-300, 0.0, 2.5e-308, 0.25, 1e-20, 1e-17, 3e-16]) })
                        .collect()
                }
                ProfKind::Zeros => {
                    let k = rng.below(n as u64) as usize;
                    (0..n)
                        .map(|i| if i == k || rng.chance(0.5) { 0.1 + rng.unit() } else { 0.0 })
                        .collect()
                }
            };
            if kind == ProfKind::Random || kind == ProfKind::Zeros {
                let tot: f64 = ws.iter().sum();
                ws.iter_mut().for_each(|w| *w /= tot);
            }
            let mut entry: Vec<(u32, f64)> = acts.iter().cloned().zip(ws).collect();
            if kind == ProfKind::Zeros && rng.chance(0.5) {
                // omit the zero entries altogether
                entry.retain(|(_, w)| *w > 0.0);
            }
            out[p].push((*l, entry));
        }
        // arbitrary order
        if rng.chance(0.5) {
            out[p].reverse();
        }
    }
    out
}

/// profile kinds with a larger share of weights down to subnormal doubles (named view checks).
/// Since the repair of F30 (reach underflow) evaluation checks draw them too.
pub fn pick_prof_kind_view(rng: &mut Rng) -> ProfKind {
    if rng.chance(0.12) {
        ProfKind::Tiny
    } else {
        pick_prof_kind(rng)
    }
}

pub fn pick_prof_kind(rng: &mut Rng) -> ProfKind {
    *rng.pick(&[
        ProfKind::Random,
        ProfKind::Random,
        ProfKind::Pure,
        ProfKind::Zeros,
        ProfKind::Uniform,
        ProfKind::Unnormalised,
        ProfKind::Tiny,
    ])
}

// ---------------------------------------------------------------------------------------------
// independent oracles on raw trees: expected value and brute-force best response

pub type Beh = [BTreeMap<u32, BTreeMap<u32, f64>>; 2];

pub fn beh_of_named(n: &[Named; 2]) -> Beh {
    let f = |x: &Named| -> BTreeMap<u32, BTreeMap<u32, f64>> {
        x.iter()
            .map(|(l, acts)| {
                let tot: f64 = acts.iter().map(|(_, w)| *w).sum();
                (*l, acts.iter().map(|(a, w)| (*a, w / tot)).collect())
            })
            .collect()
    };
    [f(&n[0]), f(&n[1])]
}

/// The magnitude of the numbers an evaluation of this profile adds up: the largest
/// |payoff| x chance reach x reach of ONE player's strategy (the other player is the one whose
/// deviations are being valued, her probabilities count as one).  Tolerances scale with this, not
/// with the largest payoff: a payoff of 1e308 behind a probability of 1e-308 is a number of size one.
pub fn effective_scale(t: &T, beh: &Beh) -> f64 {
    fn go(t: &T, beh: &Beh, r: [f64; 2]) -> f64 {
        match t {
            T::Term(p) => p.abs() * r[0].max(r[1]),
            T::Chance(_, o) => {
                let tot: f64 = o.iter().map(|(w, _)| *w).sum();
                o.iter().map(|(w, c)| go(c, beh, [r[0] * (w / tot), r[1] * (w / tot)])).fold(0.0, f64::max)
            }
            T::Player(one, i, a) => {
                let p = if *one { 0 } else { 1 };
                if a.len() == 1 {
                    return go(&a[0].1, beh, r);
                }
                let m = beh[p].get(i);
                a.iter()
                    .map(|(x, c)| {
                        let pr = m.and_then(|m| m.get(x)).cloned().unwrap_or(0.0);
                        // r[k] is the reach that leaves player k's own probabilities out
                        let mut r2 = r;
                        r2[1 - p] *= pr;
                        go(c, beh, r2)
                    })
                    .fold(0.0, f64::max)
            }
        }
    }
    go(t, beh, [1.0, 1.0])
}

/// a payoff of astronomic size behind a probability of astronomically small size: chance (or the
/// opponent) reaches a decision of player one with probability about 1e-308 (a subnormal number),
/// where the stakes are about 1e308; everywhere else the game is ordinary
pub fn needle(rng: &mut Rng) -> T {
    let stake = *rng.pick(&[1e308, 4e307, 1e300]);
    let tiny = *rng.pick(&[1e-308, 3e-309, 1e-300]);
    let deep = T::Player(true, 1, vec![(0, T::Term(stake)), (1, T::Term(-stake * 0.5)), (2, T::Term(0.0))]);
    let ordinary = T::Player(true, 2, vec![(0, T::Term(rng.unit())), (1, T::Player(false, 0, vec![(0, T::Term(rng.unit() * 2.0 - 1.0)), (1, T::Term(rng.unit() * 2.0 - 1.0))]))]);
    if rng.chance(0.5) {
        T::Chance(None, vec![(1.0, ordinary), (tiny, deep)])
    } else {
        // the opponent walks into the corner with two tiny probabilities in a row
        T::Player(false, 5, vec![(0, ordinary), (1, T::Player(false, 6, vec![(0, T::Term(0.5)), (1, deep)]))])
    }
}

/// expected payoff to player one; `pure[p]` (label -> action) overrides `beh[p]` when present
pub fn ev_raw(t: &T, beh: &Beh, pure: &[Option<&BTreeMap<u32, u32>>; 2]) -> f64 {
    match t {
        T::Term(p) => *p,
        T::Chance(_, o) => {
            let tot: f64 = o.iter().map(|(w, _)| *w).sum();
            o.iter().map(|(w, c)| w / tot * ev_raw(c, beh, pure)).sum()
        }
        T::Player(one, i, a) => {
            let p = if *one { 0 } else { 1 };
            if a.len() == 1 {
                return ev_raw(&a[0].1, beh, pure);
            }
            if let Some(m) = pure[p] {
                let want = m.get(i).cloned().unwrap_or(a[0].0);
                for (x, c) in a {
                    if *x == want {
                        return ev_raw(c, beh, pure);
                    }
                }
                return ev_raw(&a[0].1, beh, pure);
            }
            let m = beh[p].get(i);
            a.iter()
                .map(|(x, c)| {
                    let pr = m.and_then(|m| m.get(x)).cloned().unwrap_or(0.0);
                    if pr > 0.0 {
                        pr * ev_raw(c, beh, pure)
                    } else {
                        0.0
                    }
                })
                .sum()
        }
    }
}

/// number of pure strategies of a player (product of action counts), saturating
pub fn num_pure(t: &T, p: usize) -> u64 {
    let infos = infosets_of(t);
    let mut n: u64 = 1;
    for a in infos[p].values() {
        n = n.saturating_mul(a.len() as u64);
    }
    n
}

/// best-response value of player `p` (in that player's own utility) by enumerating pure strategies
pub fn brute_br(t: &T, beh: &Beh, p: usize) -> f64 {
    let infos = infosets_of(t);
    let labels: Vec<(&u32, &Vec<u32>)> = infos[p].iter().filter(|(_, a)| a.len() >= 2).collect();
    let mut idx = vec![0usize; labels.len()];
    let mut best = f64::NEG_INFINITY;
    loop {
        let pure: BTreeMap<u32, u32> = labels
            .iter()
            .zip(idx.iter())
            .map(|((l, a), i)| (**l, a[*i]))
            .collect();
        let sel: [Option<&BTreeMap<u32, u32>>; 2] = if p == 0 {
            [Some(&pure), None]
        } else {
            [None, Some(&pure)]
        };
        let v = ev_raw(t, beh, &sel);
        let u = if p == 0 { v } else { -v };
        if u > best {
            best = u;
        }
        // next
        let mut k = 0;
        loop {
            if k == labels.len() {
                return best;
            }
            idx[k] += 1;
            if idx[k] < labels[k].1.len() {
                break;
            }
            idx[k] = 0;
            k += 1;
        }
    }
}
