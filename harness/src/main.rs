//! Correspondence check and implementation-side oracles for the properties C01..C19 of
//! erikbrinkman/cfr.  See /verif/DESIGN.md.
mod cli;
mod cli_model;
mod core;
mod gen;
mod lib_props;
mod locks;
mod solve_props;

use crate::core::*;
use serde_json::{json, Value};
use std::collections::{BTreeMap, HashSet};
use std::time::Instant;

pub struct Ctx {
    pub model: Model,
    pub rng: Rng,
    pub seed: u64,
    pub thorough: bool,
    pub property: String,
    pub evals: u64,
    pub distinct: HashSet<u64>,
    pub nontrivial: HashSet<u64>,
    pub samples: Vec<Value>,
    pub stats: BTreeMap<String, u64>,
    /// model-vs-implementation disagreements
    pub corr_fail: Vec<Value>,
    /// property violations shown on the implementation
    pub prop_fail: Vec<Value>,
    pub skipped_illcond: u64,
    pub cfr_bin: String,
    pub scratch: String,
    pub deadline: Instant,
    /// where the case being run is recorded, so that a crash or hang can name it
    pub current_path: String,
}

impl Ctx {
    pub fn stat(&mut self, k: &str) {
        *self.stats.entry(k.to_string()).or_insert(0) += 1;
    }
    pub fn statn(&mut self, k: &str, n: u64) {
        *self.stats.entry(k.to_string()).or_insert(0) += n;
    }
    pub fn count(&mut self, hash: u64, nontrivial: bool) {
        self.evals += 1;
        self.distinct.insert(hash);
        if nontrivial {
            self.nontrivial.insert(hash);
        }
    }
    pub fn sample(&mut self, v: Value) {
        if self.samples.len() < 3 {
            self.samples.push(v);
        }
    }
    pub fn fail_corr(&mut self, case: &Value, what: String) {
        if self.corr_fail.len() < 20 {
            self.corr_fail
                .push(json!({"kind": "correspondence", "case": case, "what": what}));
        }
        self.stat("correspondence_failures");
    }
    pub fn fail_prop(&mut self, case: &Value, what: String) {
        if self.prop_fail.len() < 20 {
            self.prop_fail
                .push(json!({"kind": "property", "case": case, "what": what}));
        }
        self.stat("property_failures");
    }
    pub fn record_current(&self, case: &Value) {
        let _ = std::fs::write(&self.current_path, serde_json::to_string(case).unwrap_or_default());
    }
    pub fn out_of_time(&self) -> bool {
        Instant::now() > self.deadline
    }
}

/// run one stored case (from a replay file or the corpus)
pub fn run_case(ctx: &mut Ctx, case: &Value) {
    let op = case.get("op").and_then(|o| o.as_str()).unwrap_or("");
    match op {
        "eval" => lib_props::case_eval(ctx, case),
        "compile" => lib_props::case_compile(ctx, case),
        "named" => lib_props::case_named(ctx, case),
        "import" => lib_props::case_import(ctx, case),
        "truncate" => lib_props::case_truncate(ctx, case),
        "distance" => lib_props::case_distance(ctx, case),
        "multinomial" => lib_props::case_multinomial(ctx, case),
        "solve" => solve_props::case_solve(ctx, case),
        "meta" => solve_props::case_meta(ctx, case),
        "cli" => cli::case_cli(ctx, case),
        "cli-reject" => cli::case_reject(ctx, case),
        "cli-twins" => cli::case_twins(ctx, case),
        "cli-shift" => cli::case_shift(ctx, case),
        "cli-degenerate" => cli::case_degenerate_cli(ctx, case),
        _ => ctx.fail_corr(case, format!("unknown case op {:?}", op)),
    }
}

fn main() {
    let args: Vec<String> = std::env::args().collect();
    let mut property = String::new();
    let mut tier = "quick".to_string();
    let mut seed: u64 = 1;
    let mut model_bin = String::new();
    let mut out = String::new();
    let mut replay: Option<String> = None;
    let mut corpus: Option<String> = None;
    let mut cfr_bin = String::new();
    let mut scratch = "/verif/build/scratch".to_string();
    let mut budget_s: u64 = 0;
    let mut i = 1;
    while i < args.len() {
        match args[i].as_str() {
            "--property" => {
                property = args[i + 1].clone();
                i += 1;
            }
            "--tier" => {
                tier = args[i + 1].clone();
                i += 1;
            }
            "--seed" => {
                seed = args[i + 1].parse().unwrap_or(1);
                i += 1;
            }
            "--model" => {
                model_bin = args[i + 1].clone();
                i += 1;
            }
            "--out" => {
                out = args[i + 1].clone();
                i += 1;
            }
            "--replay" => {
                replay = Some(args[i + 1].clone());
                i += 1;
            }
            "--corpus" => {
                corpus = Some(args[i + 1].clone());
                i += 1;
            }
            "--cfr-bin" => {
                cfr_bin = args[i + 1].clone();
                i += 1;
            }
            "--scratch" => {
                scratch = args[i + 1].clone();
                i += 1;
            }
            "--budget" => {
                budget_s = args[i + 1].parse().unwrap_or(0);
                i += 1;
            }
            other => panic!("unknown argument {}", other),
        }
        i += 1;
    }
    // panics inside the library are caught per case; keep the default hook quiet
    if std::env::var("HARNESS_PANIC").is_err() {
        std::panic::set_hook(Box::new(|_| {}));
    }
    let start = Instant::now();
    let thorough = tier == "thorough";
    if budget_s == 0 {
        budget_s = if thorough { 1500 } else { 100 };
    }
    let mut ctx = Ctx {
        model: Model::spawn(&model_bin),
        rng: Rng::new(seed ^ mix64(property.bytes().fold(7u64, |a, b| a * 131 + b as u64))),
        seed,
        thorough,
        property: property.clone(),
        evals: 0,
        distinct: HashSet::new(),
        nontrivial: HashSet::new(),
        samples: Vec::new(),
        stats: BTreeMap::new(),
        corr_fail: Vec::new(),
        prop_fail: Vec::new(),
        skipped_illcond: 0,
        cfr_bin,
        scratch,
        deadline: start + std::time::Duration::from_secs(budget_s),
        current_path: format!("{}.current", out),
    };
    let mut rule = String::new();
    if let Some(path) = replay {
        let text = std::fs::read_to_string(&path).expect("cannot read replay file");
        let v: Value = serde_json::from_str(&text).expect("replay file is not json");
        let cases: Vec<Value> = match v.get("failures").and_then(|f| f.as_array()) {
            Some(fs) => fs.iter().filter_map(|f| f.get("case").cloned()).collect(),
            None => vec![v.get("case").cloned().unwrap_or(v.clone())],
        };
        for c in &cases {
            run_case(&mut ctx, c);
        }
        rule = "replay of stored cases".to_string();
    } else {
        // corpus of minimised past failures runs first
        if let Some(dir) = corpus {
            if let Ok(rd) = std::fs::read_dir(&dir) {
                let mut files: Vec<_> = rd.filter_map(|e| e.ok()).map(|e| e.path()).collect();
                files.sort();
                for f in files {
                    if f.extension().map(|e| e == "json").unwrap_or(false) {
                        if let Ok(text) = std::fs::read_to_string(&f) {
                            if let Ok(v) = serde_json::from_str::<Value>(&text) {
                                let applies = v
                                    .get("properties")
                                    .and_then(|p| p.as_array())
                                    .map(|p| p.iter().any(|x| x.as_str() == Some(&property)))
                                    .unwrap_or(false);
                                if applies {
                                    if let Some(c) = v.get("case") {
                                        ctx.stat("corpus_cases");
                                        run_case(&mut ctx, c);
                                    }
                                }
                            }
                        }
                    }
                }
            }
        }
        rule = match property.as_str() {
            "C01" => lib_props::c01(&mut ctx),
            "C10" => solve_props::c10(&mut ctx),
            "C11" => lib_props::c11(&mut ctx),
            "C13" => lib_props::c13(&mut ctx),
            "C14" => lib_props::c14(&mut ctx),
            "C18" => lib_props::c18(&mut ctx),
            "C19" => lib_props::c19(&mut ctx),
            "C02" => solve_props::c02(&mut ctx),
            "C03" => solve_props::c03(&mut ctx),
            "C04" => solve_props::c04(&mut ctx),
            "C05" => solve_props::c05(&mut ctx),
            "C06" => solve_props::c06(&mut ctx),
            "C07" => solve_props::c07(&mut ctx),
            "C08" => solve_props::c08(&mut ctx),
            "C09" => solve_props::c09(&mut ctx),
            "C12" => solve_props::c12(&mut ctx),
            "C15" => cli::c15(&mut ctx),
            "C16" => cli::c16(&mut ctx),
            "C17" => cli::c17(&mut ctx),
            _ => panic!("unknown property {}", property),
        };
    }
    let res = json!({
        "property_id": property,
        "tier": tier,
        "seed": seed,
        "evaluations": ctx.evals,
        "distinct": ctx.distinct.len(),
        "distinct_nontrivial": ctx.nontrivial.len(),
        "rule": rule,
        "samples": ctx.samples,
        "stats": ctx.stats,
        "model_requests": ctx.model.requests,
        "skipped_ill_conditioned": ctx.skipped_illcond,
        "correspondence_failures": ctx.corr_fail,
        "property_failures": ctx.prop_fail,
        "wall_s": start.elapsed().as_secs_f64(),
    });
    std::fs::write(&out, serde_json::to_string_pretty(&res).unwrap()).expect("cannot write result");
    let _ = std::fs::remove_file(&ctx.current_path);
    let bad = !ctx.corr_fail.is_empty() || !ctx.prop_fail.is_empty();
    std::process::exit(if bad { 3 } else { 0 });
}
