//! The tie between the command-line program and its Lean model (`lean/CfrVerif/Model/Cli.lean`).
//!
//! The model starts at the AST the program sees after third-party parsing, so the harness obtains
//! that AST with the *same* third-party code: `gambit_parser::ExtensiveFormGame::try_from` on the
//! file text for Gambit files, `serde_json` for the JSON DSL (the shape `#[derive(Deserialize)]`
//! accepts for `json.rs::State` is re-stated here over `serde_json::Value`).  Strings are interned
//! order-preservingly: the label of a string is its rank among all strings of the request in
//! byte-lexicographic order, which is the order `String: Ord` / `BTreeMap<String, _>` use.
use crate::core::*;
use crate::Ctx;
use gambit_parser::{ExtensiveFormGame, Node};
use num_traits::ToPrimitive;
use serde_json::Value;
use std::collections::{BTreeMap, BTreeSet};

pub struct Interner {
    pub of: BTreeMap<String, u32>,
}

impl Interner {
    pub fn build(set: BTreeSet<String>) -> Interner {
        Interner { of: set.into_iter().enumerate().map(|(i, s)| (s, i as u32)).collect() }
    }
    pub fn get(&self, s: &str) -> u32 {
        *self.of.get(s).expect("string was not interned")
    }
}

fn hex(x: f64) -> String {
    format!("{:016x}", x.to_bits())
}

// ---------------------------------------------------------------------------------------------
// Gambit

fn efg_strings(n: &Node<'_>, set: &mut BTreeSet<String>) {
    match n {
        Node::Terminal(_) => {}
        Node::Chance(c) => {
            for (a, _, k) in c.actions() {
                set.insert(a.to_string());
                efg_strings(k, set);
            }
        }
        Node::Player(p) => {
            if let Some(nm) = p.infoset_name() {
                set.insert(nm.to_string());
            }
            set.insert(p.infoset().to_string());
            for (a, k) in p.actions() {
                set.insert(a.to_string());
                efg_strings(k, set);
            }
        }
    }
}

fn efg_numbers(n: &Node<'_>, set: &mut BTreeSet<u64>) {
    match n {
        Node::Terminal(_) => {}
        Node::Chance(c) => c.actions().iter().for_each(|(_, _, k)| efg_numbers(k, set)),
        Node::Player(p) => {
            set.insert(p.infoset());
            p.actions().iter().for_each(|(_, k)| efg_numbers(k, set));
        }
    }
}

fn pays_tokens<T: ToPrimitive>(p: &[T], out: &mut String) {
    out.push_str(&format!("{}", p.len()));
    for r in p {
        out.push_str(&format!(" {}", hex(r.to_f64().unwrap())));
    }
}

fn efg_tokens(n: &Node<'_>, it: &Interner, out: &mut String) {
    match n {
        Node::Terminal(t) => {
            out.push_str(&format!("t {} ", t.outcome()));
            pays_tokens(t.outcome_payoffs(), out);
        }
        Node::Chance(c) => {
            out.push_str(&format!("c {} {} ", c.infoset(), c.outcome()));
            match c.outcome_payoffs() {
                Some(p) => pays_tokens(p, out),
                None => out.push('-'),
            }
            out.push_str(&format!(" {}", c.actions().len()));
            for (a, pr, k) in c.actions() {
                out.push_str(&format!(" {} {} ", it.get(&a.to_string()), hex(pr.to_f64().unwrap())));
                efg_tokens(k, it, out);
            }
        }
        Node::Player(p) => {
            let nm = match p.infoset_name() {
                Some(n) => it.get(&n.to_string()).to_string(),
                None => "-".to_string(),
            };
            out.push_str(&format!("p {} {} {} {} ", p.player_num(), p.infoset(), nm, p.outcome()));
            match p.outcome_payoffs() {
                Some(x) => pays_tokens(x, out),
                None => out.push('-'),
            }
            out.push_str(&format!(" {}", p.actions().len()));
            for (a, k) in p.actions() {
                out.push_str(&format!(" {} ", it.get(&a.to_string())));
                efg_tokens(k, it, out);
            }
        }
    }
}

/// `<numnames> <nplayers> <tree>` of the protocol for the AST `gambit-parser` returns on `text`
/// (parse and `validate`), or `None` when it returns an error
pub fn gambit_ast(text: &str) -> Option<(String, Interner)> {
    let g = ExtensiveFormGame::try_from(text).ok()?;
    let mut set = BTreeSet::new();
    efg_strings(g.root(), &mut set);
    let it = Interner::build(set);
    let mut nums = BTreeSet::new();
    efg_numbers(g.root(), &mut nums);
    let mut out = format!("{}", nums.len());
    for n in &nums {
        out.push_str(&format!(" {} {}", n, it.get(&n.to_string())));
    }
    out.push_str(&format!(" {} ", g.player_names().len()));
    efg_tokens(g.root(), &it, &mut out);
    Some((out, it))
}

// ---------------------------------------------------------------------------------------------
// JSON DSL

enum JNode {
    T(f64),
    C(Option<String>, Vec<(String, f64, JNode)>),
    P(bool, String, Vec<(String, JNode)>),
}

/// the shape serde's derive accepts for `State` (externally tagged enum, struct variants as
/// objects, unknown fields ignored, a missing or null `Option` field is `None`); `None` = an error
/// or an encoding this re-statement does not cover (struct variants written as arrays)
fn jnode(v: &Value) -> Option<JNode> {
    let o = v.as_object()?;
    if o.len() != 1 {
        return None;
    }
    let (tag, body) = o.iter().next()?;
    match tag.as_str() {
        "terminal" => match body {
            Value::Number(n) => Some(JNode::T(n.as_f64()?)),
            _ => None,
        },
        "chance" => {
            let b = body.as_object()?;
            let info = match b.get("infoset") {
                None | Some(Value::Null) => None,
                Some(Value::String(s)) => Some(s.clone()),
                Some(_) => return None,
            };
            let mut outs = Vec::new();
            for (name, e) in b.get("outcomes")?.as_object()? {
                let e = e.as_object()?;
                let prob = match e.get("prob")? {
                    Value::Number(n) => n.as_f64()?,
                    _ => return None,
                };
                outs.push((name.clone(), prob, jnode(e.get("state")?)?));
            }
            Some(JNode::C(info, outs))
        }
        "player" => {
            let b = body.as_object()?;
            let one = b.get("player_one")?.as_bool()?;
            let info = b.get("infoset")?.as_str()?.to_string();
            let mut acts = Vec::new();
            for (name, e) in b.get("actions")?.as_object()? {
                acts.push((name.clone(), jnode(e)?));
            }
            Some(JNode::P(one, info, acts))
        }
        _ => None,
    }
}

fn jnode_strings(n: &JNode, set: &mut BTreeSet<String>) {
    match n {
        JNode::T(_) => {}
        JNode::C(i, o) => {
            if let Some(i) = i {
                set.insert(i.clone());
            }
            for (a, _, k) in o {
                set.insert(a.clone());
                jnode_strings(k, set);
            }
        }
        JNode::P(_, i, a) => {
            set.insert(i.clone());
            for (x, k) in a {
                set.insert(x.clone());
                jnode_strings(k, set);
            }
        }
    }
}

fn jnode_tokens(n: &JNode, it: &Interner, out: &mut String) {
    match n {
        JNode::T(p) => out.push_str(&format!("t {}", hex(*p))),
        JNode::C(i, o) => {
            match i {
                Some(i) => out.push_str(&format!("c {} {}", it.get(i), o.len())),
                None => out.push_str(&format!("c - {}", o.len())),
            }
            for (a, p, k) in o {
                out.push_str(&format!(" {} {} ", it.get(a), hex(*p)));
                jnode_tokens(k, it, out);
            }
        }
        JNode::P(one, i, a) => {
            out.push_str(&format!("p {} {} {}", if *one { 1 } else { 2 }, it.get(i), a.len()));
            for (x, k) in a {
                out.push_str(&format!(" {} ", it.get(x)));
                jnode_tokens(k, it, out);
            }
        }
    }
}

/// `<tree>` of the protocol for the `State` serde builds from `text`, or `None` when `serde_json`
/// rejects the text (syntax, trailing bytes, nesting limit) or the value has not the shape of `State`
pub fn json_ast(text: &str) -> Option<(String, Interner)> {
    let v: Value = serde_json::from_str(text).ok()?;
    let n = jnode(&v)?;
    let mut set = BTreeSet::new();
    jnode_strings(&n, &mut set);
    let it = Interner::build(set);
    let mut out = String::new();
    jnode_tokens(&n, &it, &mut out);
    Some((out, it))
}

// ---------------------------------------------------------------------------------------------
// requests and answers

/// the options of one run of the binary, as the model's `CliOpts`
#[derive(Clone, Debug)]
pub struct Opts {
    pub method: String,
    pub discount: String,
    pub t: u64,
    pub r: f64,
    pub p: u64,
    pub c: f64,
}

impl Opts {
    pub fn tokens(&self) -> String {
        let m = match self.method.as_str() {
            "full" => "F",
            "sampled" => "S",
            _ => "E",
        };
        let thr = if self.r.is_nan() {
            "nan".to_string()
        } else if self.r == f64::INFINITY {
            "+inf".to_string()
        } else if self.r == f64::NEG_INFINITY {
            "-inf".to_string()
        } else {
            hex(self.r)
        };
        format!("{} {} {} {} {} {} 1", m, self.discount, self.t, thr, self.p, hex(self.c))
    }
    /// can the model reproduce the run?  (deterministic method, one thread)
    pub fn reproducible(&self) -> bool {
        self.method == "full" && self.p == 1
    }
}

/// the AST of an input text as both third-party parsers see it
pub enum Ast {
    Json(String, Interner),
    Gambit(String, Interner),
    Unparsed,
}

pub fn ast_of(text: &str) -> Ast {
    if let Some((r, it)) = json_ast(text) {
        return Ast::Json(r, it);
    }
    if let Some((r, it)) = gambit_ast(text) {
        return Ast::Gambit(r, it);
    }
    Ast::Unparsed
}

impl Ast {
    pub fn interner(&self) -> Option<&Interner> {
        match self {
            Ast::Json(_, it) | Ast::Gambit(_, it) => Some(it),
            Ast::Unparsed => None,
        }
    }
    /// the whole program: `cli-json` / `cli-gambit` / `cli-none`
    pub fn run_request(&self, fmt: &str, kind: &str, o: &Opts) -> String {
        match self {
            Ast::Json(r, _) => format!("cli-json {} {} {} {}", fmt, kind, o.tokens(), r),
            Ast::Gambit(r, _) => format!("cli-gambit {} {} {} {}", fmt, kind, o.tokens(), r),
            Ast::Unparsed => format!("cli-none {} {}", fmt, kind),
        }
    }
    pub fn raw_request(&self) -> Option<String> {
        match self {
            Ast::Json(r, _) => Some(format!("cli-raw json {}", r)),
            Ast::Gambit(r, _) => Some(format!("cli-raw gambit {}", r)),
            Ast::Unparsed => None,
        }
    }
    pub fn eval_request(&self, named: &[Named; 2]) -> Option<String> {
        let mut s = match self {
            Ast::Json(r, _) => format!("cli-eval json {} ", r),
            Ast::Gambit(r, _) => format!("cli-eval gambit {} ", r),
            Ast::Unparsed => return None,
        };
        ser_named(&named[0], &mut s);
        s.push(' ');
        ser_named(&named[1], &mut s);
        Some(s)
    }
}

/// `--input-format` and the class of `--input` for one of the harness's input routes
pub fn route_fmt_kind(route: &str, format: &str) -> (String, &'static str) {
    match route {
        "stdin-auto" | "auto" => ("auto".to_string(), "stdin"),
        "stdin-explicit" | "explicit" => (format.to_string(), "stdin"),
        "file-other-auto" => ("auto".to_string(), "other"),
        "file-other-explicit" => (format.to_string(), "other"),
        "file-wrong-ext-explicit" => (format.to_string(), if format == "gambit" { "json" } else { "efg" }),
        "file-json" => ("auto".to_string(), "json"),
        "file-efg" => ("auto".to_string(), "efg"),
        _ => ("auto".to_string(), if format == "gambit" { "efg" } else { "json" }),
    }
}

/// the numbers of a model answer `ok <sum> <u1> <u2> <r1> <r2> <regret> <named> <named> [D …]`
pub struct ModelOut {
    pub sum: f64,
    pub u: [f64; 2],
    pub r: [f64; 2],
    pub regret: f64,
    pub named: [Named; 2],
    /// diagnostics of a full run: pruned profile chosen, the two regrets compared, trajectory margin
    pub diag: Option<(bool, f64, f64, f64)>,
}

pub enum ModelAnswer {
    Ok(ModelOut),
    /// category and detail (`game-error ActionsNotEqual`)
    Err(String),
    Bad(String),
}

pub fn parse_answer(resp: &str) -> ModelAnswer {
    if let Some(e) = resp.strip_prefix("err ") {
        return ModelAnswer::Err(e.trim().to_string());
    }
    let body = match resp.strip_prefix("ok ") {
        Some(b) => b,
        None => return ModelAnswer::Bad(resp[..resp.len().min(300)].to_string()),
    };
    let mut tk = Toks::new(body);
    let sum = tk.f();
    let u = [tk.f(), tk.f()];
    let r = [tk.f(), tk.f()];
    let regret = tk.f();
    let named = [tk.full_named(), tk.full_named()];
    let diag = if tk.tok() == "D" {
        let pr = tk.nat() == 1;
        Some((pr, tk.f(), tk.f(), tk.f()))
    } else {
        None
    };
    ModelAnswer::Ok(ModelOut { sum, u, r, regret, named, diag })
}

/// the documented category (and detail) a diagnostic of the binary names, in the model's words
pub fn classify_stderr(stderr: &str) -> String {
    if stderr.contains("#json-error") {
        "json-error".into()
    } else if stderr.contains("#gambit-error") {
        "gambit-error".into()
    } else if stderr.contains("#auto-error") {
        "auto-error".into()
    } else if stderr.contains("only supports two player games") {
        "player-count".into()
    } else if stderr.contains("received non-finite payoffs") {
        "non-finite".into()
    } else if stderr.contains("#constant-sum") {
        "constant-sum".into()
    } else if stderr.contains("two infosets of the same player had the same name") {
        "duplicate-infosets-name".into()
    } else if stderr.contains("some infosets had no names") {
        "duplicate-infosets-number".into()
    } else if stderr.contains("#game-error") {
        // the category is the documented anchor; the rule is whichever `GameError` name the
        // message carries (wherever the message puts it)
        let kinds = ["EmptyChance", "NonPositiveChance", "ProbabilitiesNotEqual", "EmptyPlayer", "ActionsNotEqual", "ActionsNotUnique", "ImperfectRecall", "NonFinitePayoff"];
        match kinds.iter().find(|k| stderr.contains(*k)) {
            Some(k) => format!("game-error {}", k),
            None => "game-error".to_string(),
        }
    } else if stderr.contains("src/gambit.rs") && stderr.contains("called `Result::unwrap()` on an `Err` value: [") {
        "internal-payoff-arity".into()
    } else if stderr.contains("ThreadOverflow") {
        "solve-error ThreadOverflow".into()
    } else if stderr.contains("ThreadSpawnError") {
        "solve-error ThreadSpawnError".into()
    } else {
        format!("undocumented: {}", &stderr[..stderr.len().min(200)])
    }
}

/// the printed strategies as labelled strategies through the interner of the request
pub fn printed_by_labels(v: &Value, it: &Interner) -> Result<[Named; 2], String> {
    let mut out = [Vec::new(), Vec::new()];
    for (p, key) in ["player_one_strategy", "player_two_strategy"].iter().enumerate() {
        let m = v.get(*key).and_then(|x| x.as_object()).ok_or(format!("no {}", key))?;
        for (iname, acts) in m {
            let l = *it.of.get(iname).ok_or(format!("printed infoset {:?} is not a name of the input", iname))?;
            let mut av = Vec::new();
            for (aname, pr) in acts.as_object().ok_or("actions are not an object")? {
                let a = *it.of.get(aname).ok_or(format!("printed action {:?} is not a name of the input", aname))?;
                av.push((a, pr.as_f64().ok_or("probability is not a number")?));
            }
            out[p].push((l, av));
        }
    }
    Ok(out)
}

pub struct Printed {
    pub u: [f64; 2],
    pub r: [f64; 2],
    pub regret: f64,
    pub named: [Named; 2],
}

pub fn printed_of(v: &Value, it: &Interner) -> Result<Printed, String> {
    let num = |k: &str| v.get(k).and_then(|x| x.as_f64()).unwrap_or(f64::NAN);
    Ok(Printed {
        u: [num("player_one_utility"), num("player_two_utility")],
        r: [num("player_one_regret"), num("player_two_regret")],
        regret: num("regret"),
        named: printed_by_labels(v, it)?,
    })
}

const ILL: f64 = 1e-6;

/// Compare one run of the binary with the model's prediction for the same AST and options.
/// `out_text` is what the binary wrote as its result (stdout or the `-o` file).
/// Returns `true` when they agree (or the case is ill-conditioned and was set aside).
pub fn compare_run(
    ctx: &mut Ctx,
    case: &Value,
    ast: &Ast,
    resp: &str,
    status: Option<i32>,
    out_text: &str,
    stderr: &str,
    scale: f64,
    shown: &str,
) -> bool {
    match parse_answer(resp) {
        ModelAnswer::Bad(b) => {
            ctx.fail_corr(case, format!("model request failed: {}; {}", b, shown));
            false
        }
        ModelAnswer::Err(want) => {
            ctx.stat(&format!("cli_model_predicts_{}", want.split(' ').next().unwrap_or("")));
            if status == Some(0) || !out_text.trim().is_empty() {
                ctx.fail_corr(case, format!("the model rejects the input ({}), the program exits with {:?} and prints {:?}; {}", want, status, &out_text[..out_text.len().min(160)], shown));
                return false;
            }
            let got = classify_stderr(stderr);
            if got != want && got.starts_with("game-error ") && want.starts_with("game-error ") {
                // the documented category is the same; a tree that violates several rules of the
                // library contract may be reported under any of them (which one is found first is
                // not part of the contract; that the named rule is violated is C11's oracle)
                ctx.stat("cli_model_game_error_other_rule");
                return true;
            }
            if got != want {
                ctx.fail_corr(case, format!("the model predicts the diagnostic category {:?}, the program's diagnostic is {:?}; {}", want, got, shown));
                return false;
            }
            ctx.stat("cli_model_rejections_agree");
            true
        }
        ModelAnswer::Ok(m) => {
            ctx.stat("cli_model_predicts_ok");
            if status != Some(0) {
                ctx.fail_corr(case, format!("the model solves the input, the program exits with {:?}: {:?}; {}", status, classify_stderr(stderr), shown));
                return false;
            }
            let v: Value = match serde_json::from_str(out_text) {
                Ok(v) => v,
                Err(e) => {
                    ctx.fail_corr(case, format!("the model solves the input, the program's output is not JSON ({}); {}", e, shown));
                    return false;
                }
            };
            let it = match ast.interner() {
                Some(it) => it,
                None => return false,
            };
            let pr = match printed_of(&v, it) {
                Ok(p) => p,
                Err(e) => {
                    ctx.fail_corr(case, format!("printed strategies against the model's AST: {}; {}", e, shown));
                    return false;
                }
            };
            let d = named_diff(&m.named[0], &pr.named[0]).max(named_diff(&m.named[1], &pr.named[1]));
            let (pruned, r_un, r_pr, margin) = m.diag.unwrap_or((false, 0.0, 0.0, f64::INFINITY));
            let _ = pruned;
            if !(d <= 1e-8) {
                let knife = (r_un - r_pr).abs() <= 1e-9 * scale && r_un != r_pr;
                if margin < ILL || knife {
                    ctx.skipped_illcond += 1;
                    ctx.stat("cli_model_ill_conditioned");
                    return true;
                }
                ctx.fail_corr(case, format!("printed strategies differ from the model's run of the program by {:e} (conditioning margin {:e}); {}", d, margin, shown));
                return false;
            }
            let tol = (1e-9f64).max(100.0 * d) * scale;
            let pairs = [
                ("player_one_utility", pr.u[0], m.u[0]),
                ("player_two_utility", pr.u[1], m.u[1]),
                ("player_one_regret", pr.r[0], m.r[0]),
                ("player_two_regret", pr.r[1], m.r[1]),
                ("regret", pr.regret, m.regret),
            ];
            for (k, got, want) in pairs {
                if !close_tol(got, want, tol) {
                    ctx.fail_corr(case, format!("printed {} is {:e}, the model's run of the program gives {:e} (sum {:e}); {}", k, got, want, m.sum, shown));
                    return false;
                }
            }
            ctx.stat("cli_model_runs_agree");
            if d == 0.0 {
                ctx.stat("cli_model_runs_agree_bit_equal_strategies");
            }
            true
        }
    }
}

/// The printed numbers against the model's evaluation of the *printed* profile on its own
/// conversion of the AST (for runs the model cannot reproduce: sampled methods, several threads).
pub fn compare_eval(ctx: &mut Ctx, case: &Value, ast: &Ast, v: &Value, scale: f64, shown: &str) -> bool {
    let it = match ast.interner() {
        Some(it) => it,
        None => return false,
    };
    let pr = match printed_of(v, it) {
        Ok(p) => p,
        Err(e) => {
            ctx.fail_corr(case, format!("printed strategies against the model's AST: {}; {}", e, shown));
            return false;
        }
    };
    let req = match ast.eval_request(&pr.named) {
        Some(r) => r,
        None => return false,
    };
    let resp = ctx.model.ask(&req);
    ctx.stat("cli_model_eval_requests");
    match parse_answer(&resp) {
        ModelAnswer::Ok(m) => {
            let tol = 1e-9 * scale;
            let pairs = [
                ("player_one_utility", pr.u[0], m.u[0]),
                ("player_two_utility", pr.u[1], m.u[1]),
                ("player_one_regret", pr.r[0], m.r[0]),
                ("player_two_regret", pr.r[1], m.r[1]),
                ("regret", pr.regret, m.regret),
            ];
            for (k, got, want) in pairs {
                if !close_tol(got, want, tol) {
                    ctx.fail_corr(case, format!("printed {} is {:e}; the model's conversion of the file evaluates the printed strategies to {:e} (sum {:e}); {}", k, got, want, m.sum, shown));
                    return false;
                }
            }
            let d = named_diff(&m.named[0], &pr.named[0]).max(named_diff(&m.named[1], &pr.named[1]));
            if !(d <= 1e-9) {
                ctx.fail_corr(case, format!("the printed strategies are not what the model's output assembly prints for them (difference {:e}: missing infosets, zero entries or unnormalised); {}", d, shown));
                return false;
            }
            ctx.stat("cli_model_evals_agree");
            true
        }
        ModelAnswer::Err(e) => {
            ctx.fail_corr(case, format!("the program solved the input; the model answers {:?} for the printed strategies; {}", e, shown));
            false
        }
        ModelAnswer::Bad(b) => {
            ctx.fail_corr(case, format!("model request failed: {}; {}", b, shown));
            false
        }
    }
}

/// are two raw trees the same up to a renaming of labels (per label space)?
pub fn raw_equiv(a: &T, b: &T, tol: f64) -> Result<(), String> {
    #[derive(Default)]
    struct Bij {
        f: BTreeMap<u32, u32>,
        g: BTreeMap<u32, u32>,
    }
    impl Bij {
        fn link(&mut self, x: u32, y: u32) -> bool {
            let a = *self.f.entry(x).or_insert(y);
            let b = *self.g.entry(y).or_insert(x);
            a == y && b == x
        }
    }
    fn go(a: &T, b: &T, tol: f64, info: &mut [Bij; 2], acts: &mut Bij, ch: &mut Bij) -> Result<(), String> {
        match (a, b) {
            (T::Term(x), T::Term(y)) => {
                if close_tol(*x, *y, tol) {
                    Ok(())
                } else {
                    Err(format!("terminal payoff {:e} vs {:e}", x, y))
                }
            }
            (T::Chance(i, o), T::Chance(j, q)) => {
                // an anonymous chance node stands for an infoset of its own
                let fresh = (1u32 << 30) + ch.f.len() as u32;
                let (i, j) = (i.unwrap_or(fresh), j.unwrap_or(fresh));
                if !ch.link(i, j) {
                    return Err(format!("chance infosets {} / {} are not matched one to one", i, j));
                }
                if o.len() != q.len() {
                    return Err(format!("chance node with {} vs {} outcomes", o.len(), q.len()));
                }
                let (ta, tb): (f64, f64) = (o.iter().map(|x| x.0).sum(), q.iter().map(|x| x.0).sum());
                for ((w, c), (x, d)) in o.iter().zip(q.iter()) {
                    if !close_tol(w / ta, x / tb, 1e-12) {
                        return Err(format!("chance probability {:e} vs {:e}", w / ta, x / tb));
                    }
                    go(c, d, tol, info, acts, ch)?;
                }
                Ok(())
            }
            (T::Player(p, i, x), T::Player(q, j, y)) => {
                if p != q {
                    return Err("player differs".to_string());
                }
                if !info[if *p { 0 } else { 1 }].link(*i, *j) {
                    return Err(format!("infosets {} / {} are not matched one to one", i, j));
                }
                if x.len() != y.len() {
                    return Err(format!("player node with {} vs {} actions", x.len(), y.len()));
                }
                for ((s, c), (t, d)) in x.iter().zip(y.iter()) {
                    if !acts.link(*s, *t) {
                        return Err(format!("actions {} / {} are not matched one to one", s, t));
                    }
                    go(c, d, tol, info, acts, ch)?;
                }
                Ok(())
            }
            _ => Err("node kinds differ".to_string()),
        }
    }
    go(a, b, tol, &mut [Bij::default(), Bij::default()], &mut Bij::default(), &mut Bij::default())
}
