import random, math
def factor(t, e):
    if e == -math.inf: return 0.0
    if e == math.inf: return 1.0
    if e == 0: return 0.5
    x = t**e
    return x/(x+1)
presets = {"vanilla": (math.inf, math.inf, 0), "lcfr": (1,1,1), "cfr_plus": (math.inf,-math.inf,2),
           "dcfr": (1.5,0,2), "dcfr_prune": (1.5,0.5,2)}
random.seed(1)
worst = {}
for name,(al,be,ga) in presets.items():
    worst[name] = (-1e9, None); viol = 0
    for trial in range(3000):
        A = random.choice([2,3,5]); T = random.choice([1,2,3,5,10,40,150])
        D = 1.0
        Q = [0.0]*A; sigma = [1.0/A]*A
        Rw = [0.0]*A; Qhist=[]; Phi_ok = True
        mode = random.choice(["rand","adv","osc"])
        for t in range(1,T+1):
            # utilities in [0,1]
            if mode=="rand": u=[random.random() for _ in range(A)]
            elif mode=="adv": u=[1.0 if sigma[a] < 1.0/A else 0.0 for a in range(A)]
            else: u=[1.0 if (t//3+a)%2==0 else 0.0 for a in range(A)]
            c = random.random()  # counterfactual mass <= 1
            ev = sum(s*x for s,x in zip(sigma,u))
            r = [c*(x-ev) for x in u]
            w = t**ga
            for a in range(A): Rw[a] += w*r[a]
            Qp = [Q[a]+r[a] for a in range(A)]
            # regret match on pre-discount
            norm = sum(x for x in Qp if x>0)
            if norm>0: sigma=[x/norm if x>0 else 0.0 for x in Qp]
            else:
                m = max(range(A), key=lambda a:(Qp[a],a)); sigma=[0.0]*A; sigma[m]=1.0
            p = factor(t,al); n = factor(t,be)
            Q = [x*p if x>0 else (x*n if x<0 else x) for x in Qp]
            Qhist.append((list(Q),p,n,w))
            if sum(max(x,0)**2 for x in Q) > t*A*D*D + 1e-9: Phi_ok=False
        # inequality E
        for a in range(A):
            QT,pT,nT,wT = Qhist[-1]
            rhs = (wT/pT)*max(QT[a],0) if pT>0 else float('inf')
            for t in range(1,T):
                Qt,pt,nt,wt = Qhist[t-1]; w1 = (t+1)**ga
                assert pt==0 or wt/pt <= w1+1e-9, (name,t)
                if nt>0 and w1/wt <= 1/nt + 1e-12: k=0.0
                elif nt>0: k = w1 - wt/nt
                else: k = 0.0  # n=0 => Q^- = 0
                rhs += k*max(-Qt[a],0)
            if Rw[a] > rhs + 1e-7: viol += 1
        W = sum(t**ga for t in range(1,T+1))
        per = max(max(Rw)/W,0)
        env = 6*D*(math.sqrt(A)+1/math.sqrt(T))/math.sqrt(T)
        ratio = per/env
        if ratio > worst[name][0]: worst[name]=(ratio,(A,T,mode))
        if not Phi_ok: viol += 1000
    print(name, "violations", viol, "worst per-infoset/envelope", worst[name])
