import Mathlib.Data.Real.Basic
import Mathlib.Tactic.Ring
import Mathlib.Tactic.Linarith
import Mathlib.Algebra.BigOperators.Group.Finset.Basic
import Mathlib.Algebra.BigOperators.Ring.Finset

namespace Cfr

inductive V where
  | term (u : ℝ)
  | nature (ws : List ℝ) (kids : List V)
  | decide (info : Nat) (kids : List V)

abbrev Strat := Nat → List ℝ
abbrev Hist := List (Nat × Nat)

mutual
def ev (σ : Strat) : V → ℝ
  | .term u => u
  | .nature ws ks => evs σ ws ks
  | .decide I ks => evs σ (σ I) ks
def evs (σ : Strat) : List ℝ → List V → ℝ
  | w :: ws, k :: ks => w * ev σ k + evs σ ws ks
  | _, _ => 0
end

-- pd with an explicit action counter and strategy lookups by index (σ' I).getD a 0
mutual
def pd (σ σ' : Strat) : V → ℝ → ℝ → ℝ
  | .term _, _, _ => 0
  | .nature ws ks, q, c => pdN σ σ' ws ks q c
  | .decide I ks, q, c => pdD σ σ' I (ev σ (.decide I ks)) 0 ks q c
def pdN (σ σ' : Strat) : List ℝ → List V → ℝ → ℝ → ℝ
  | w :: ws, k :: ks, q, c => pd σ σ' k q (c * w) + pdN σ σ' ws ks q c
  | _, _, _, _ => 0
def pdD (σ σ' : Strat) (I : Nat) (v : ℝ) : Nat → List V → ℝ → ℝ → ℝ
  | _, [], _, _ => 0
  | a, k :: ks, q, c =>
      q * c * ((σ' I).getD a 0 * (ev σ k - v)) + pd σ σ' k (q * (σ' I).getD a 0) c
        + pdD σ σ' I v (a + 1) ks q c
end

-- counterfactual regret vector of the subtree (what the solver accumulates)
mutual
def reg (σ : Strat) : V → ℝ → Nat → Nat → ℝ
  | .term _, _ => fun _ _ => 0
  | .nature ws ks, c => regN σ ws ks c
  | .decide I ks, c => regD σ I (ev σ (.decide I ks)) 0 ks c
def regN (σ : Strat) : List ℝ → List V → ℝ → Nat → Nat → ℝ
  | w :: ws, k :: ks, c => fun J b => reg σ k (c * w) J b + regN σ ws ks c J b
  | _, _, _ => fun _ _ => 0
def regD (σ : Strat) (I : Nat) (v : ℝ) : Nat → List V → ℝ → Nat → Nat → ℝ
  | _, [], _ => fun _ _ => 0
  | a, k :: ks, c => fun J b =>
      (if J = I ∧ b = a then c * (ev σ k - v) else 0) + reg σ k c J b + regD σ I v (a + 1) ks c J b
end

-- perfect recall in history form
mutual
def PRaux (hist : Nat → Hist) : Hist → V → Prop
  | _, .term _ => True
  | H, .nature _ ks => PRauxL hist H ks
  | H, .decide I ks => hist I = H ∧ PRauxD hist H I 0 ks
def PRauxL (hist : Nat → Hist) : Hist → List V → Prop
  | _, [] => True
  | H, k :: ks => PRaux hist H k ∧ PRauxL hist H ks
def PRauxD (hist : Nat → Hist) : Hist → Nat → Nat → List V → Prop
  | _, _, _, [] => True
  | H, I, a, k :: ks => PRaux hist (H ++ [(I, a)]) k ∧ PRauxD hist H I (a + 1) ks
end

-- all infosets of the subtree are < N and all action indices < M
mutual
def Bnd (N M : Nat) : V → Prop
  | .term _ => True
  | .nature _ ks => BndL N M ks
  | .decide I ks => I < N ∧ ks.length ≤ M ∧ BndL N M ks
def BndL (N M : Nat) : List V → Prop
  | [] => True
  | k :: ks => Bnd N M k ∧ BndL N M ks
end

def rho (σ' : Strat) (H : Hist) : ℝ := (H.map (fun p => (σ' p.1).getD p.2 0)).prod

theorem rho_snoc (σ' : Strat) (H : Hist) (I a : Nat) :
    rho σ' (H ++ [(I, a)]) = rho σ' H * (σ' I).getD a 0 := by
  simp [rho]

/-- Σ_{I<N} ρ(hist I) Σ_{a<M} σ'(I,a) f I a -/
def L (σ' : Strat) (hist : Nat → Hist) (N M : Nat) (f : Nat → Nat → ℝ) : ℝ :=
  ∑ I ∈ Finset.range N, rho σ' (hist I) * ∑ a ∈ Finset.range M, (σ' I).getD a 0 * f I a

theorem L_zero (σ' hist N M) : L σ' hist N M (fun _ _ => 0) = 0 := by simp [L]

theorem L_add (σ' hist N M) (f g : Nat → Nat → ℝ) :
    L σ' hist N M (fun J b => f J b + g J b) = L σ' hist N M f + L σ' hist N M g := by
  simp only [L, mul_add, Finset.sum_add_distrib]

theorem L_single (σ' : Strat) (hist N M) (I a : Nat) (x : ℝ) (hI : I < N) (ha : a < M) :
    L σ' hist N M (fun J b => if J = I ∧ b = a then x else 0)
      = rho σ' (hist I) * ((σ' I).getD a 0 * x) := by
  unfold L
  rw [Finset.sum_eq_single I]
  · congr 1
    rw [Finset.sum_eq_single a]
    · simp
    · intro b _ hb; simp [hb]
    · intro h; exact absurd (Finset.mem_range.mpr ha) h
  · intro J _ hJ; simp [hJ]
  · intro h; exact absurd (Finset.mem_range.mpr hI) h

mutual
theorem regroup (σ σ' : Strat) (hist : Nat → Hist) (N M : Nat) :
    ∀ (t : V) (H : Hist) (c : ℝ), PRaux hist H t → Bnd N M t →
      pd σ σ' t (rho σ' H) c = L σ' hist N M (reg σ t c)
  | .term _, H, c, _, _ => by simp [pd, reg, L_zero]
  | .nature ws ks, H, c, hp, hb => by
      simp only [pd, reg]
      exact regroupN σ σ' hist N M ws ks H c (by simpa [PRaux] using hp) (by simpa [Bnd] using hb)
  | .decide I ks, H, c, hp, hb => by
      obtain ⟨hH, hD⟩ := (by simpa [PRaux] using hp : hist I = H ∧ PRauxD hist H I 0 ks)
      obtain ⟨hI, hM, hL⟩ := (by simpa [Bnd] using hb : I < N ∧ ks.length ≤ M ∧ BndL N M ks)
      simp only [pd, reg]
      exact regroupD σ σ' hist N M I (ev σ (.decide I ks)) hI ks 0 H c hH hD (by simpa using hM) hL
theorem regroupN (σ σ' : Strat) (hist : Nat → Hist) (N M : Nat) :
    ∀ (ws : List ℝ) (ks : List V) (H : Hist) (c : ℝ), PRauxL hist H ks → BndL N M ks →
      pdN σ σ' ws ks (rho σ' H) c = L σ' hist N M (regN σ ws ks c)
  | [], ks, H, c, _, _ => by simp [pdN, regN, L_zero]
  | _ :: _, [], H, c, _, _ => by simp [pdN, regN, L_zero]
  | w :: ws, k :: ks, H, c, hp, hb => by
      obtain ⟨h1, h2⟩ := (by simpa [PRauxL] using hp : PRaux hist H k ∧ PRauxL hist H ks)
      obtain ⟨b1, b2⟩ := (by simpa [BndL] using hb : Bnd N M k ∧ BndL N M ks)
      simp only [pdN, regN]
      rw [L_add, ← regroup σ σ' hist N M k H (c * w) h1 b1, ← regroupN σ σ' hist N M ws ks H c h2 b2]
theorem regroupD (σ σ' : Strat) (hist : Nat → Hist) (N M : Nat) (I : Nat) (v : ℝ) (hI : I < N) :
    ∀ (ks : List V) (a : Nat) (H : Hist) (c : ℝ), hist I = H → PRauxD hist H I a ks →
      a + ks.length ≤ M → BndL N M ks →
      pdD σ σ' I v a ks (rho σ' H) c = L σ' hist N M (regD σ I v a ks c)
  | [], a, H, c, _, _, _, _ => by simp [pdD, regD, L_zero]
  | k :: ks, a, H, c, hH, hp, hM, hb => by
      obtain ⟨h1, h2⟩ := (by simpa [PRauxD] using hp :
        PRaux hist (H ++ [(I, a)]) k ∧ PRauxD hist H I (a + 1) ks)
      obtain ⟨b1, b2⟩ := (by simpa [BndL] using hb : Bnd N M k ∧ BndL N M ks)
      have ha : a < M := by simp at hM; omega
      have hM' : a + 1 + ks.length ≤ M := by simp at hM; omega
      have e1 := regroup σ σ' hist N M k (H ++ [(I, a)]) c h1 b1
      have e2 := regroupD σ σ' hist N M I v hI ks (a + 1) H c hH h2 hM' b2
      rw [rho_snoc] at e1
      simp only [pdD, regD]
      rw [L_add, L_add, L_single σ' hist N M I a _ hI ha, ← e1, ← e2, hH]
      ring
end

#print axioms regroup
end Cfr
