import Mathlib.Data.Real.Basic
import Mathlib.Tactic.Ring
import Mathlib.Tactic.Linarith

namespace Cfr

/-- player-i view of a game: opponent and chance folded into `nature`. -/
inductive V where
  | term (u : ℝ)
  | nature (ws : List ℝ) (kids : List V)
  | decide (info : Nat) (kids : List V)

abbrev Strat := Nat → List ℝ

mutual
def ev (σ : Strat) : V → ℝ
  | .term u => u
  | .nature ws ks => evs σ ws ks
  | .decide I ks => evs σ (σ I) ks
def evs (σ : Strat) : List ℝ → List V → ℝ
  | w :: ws, k :: ks => w * ev σ k + evs σ ws ks
  | _, _ => 0
end

-- pd: sum over own nodes
mutual
def pd (σ σ' : Strat) : V → ℝ → ℝ → ℝ
  | .term _, _, _ => 0
  | .nature ws ks, q, c => pdN σ σ' ws ks q c
  | .decide I ks, q, c =>
      pdD σ σ' (σ' I) ks (ev σ (.decide I ks)) q c
def pdN (σ σ' : Strat) : List ℝ → List V → ℝ → ℝ → ℝ
  | w :: ws, k :: ks, q, c => pd σ σ' k q (c * w) + pdN σ σ' ws ks q c
  | _, _, _, _ => 0
/-- children of a decide node: local term + recursion with own reach scaled -/
def pdD (σ σ' : Strat) : List ℝ → List V → ℝ → ℝ → ℝ → ℝ
  | s :: ss, k :: ks, v, q, c =>
      q * c * (s * (ev σ k - v)) + pd σ σ' k (q * s) c + pdD σ σ' ss ks v q c
  | _, _, _, _, _ => 0
end

-- Fits
mutual
def Fits (σ' : Strat) : V → Prop
  | .term _ => True
  | .nature _ ks => FitsL σ' ks
  | .decide I ks => (σ' I).length = ks.length ∧ (σ' I).sum = 1 ∧ FitsL σ' ks
def FitsL (σ' : Strat) : List V → Prop
  | [] => True
  | k :: ks => Fits σ' k ∧ FitsL σ' ks
end

theorem evs_sub_const (σ : Strat) : ∀ (ss : List ℝ) (ks : List V) (v : ℝ), ss.length = ks.length →
    evs σ ss ks - ss.sum * v = (List.zipWith (fun s k => s * (ev σ k - v)) ss ks).sum
  | [], [], v, _ => by simp [evs]
  | s :: ss, k :: ks, v, h => by
      have h' : ss.length = ks.length := by simpa using h
      have := evs_sub_const σ ss ks v h'
      simp only [evs, List.sum_cons, List.zipWith_cons_cons]
      linarith
  | [], _ :: _, _, h => by simp at h
  | _ :: _, [], _, h => by simp at h

mutual
theorem perf_diff (σ σ' : Strat) : ∀ (t : V) (q c : ℝ), Fits σ' t →
    q * c * (ev σ' t - ev σ t) = pd σ σ' t q c
  | .term u, q, c, _ => by simp [ev, pd]
  | .nature ws ks, q, c, h => by
      simp only [ev, pd]; exact perf_diffN σ σ' ws ks q c (by simpa [Fits] using h)
  | .decide I ks, q, c, h => by
      obtain ⟨hl, hs, hk⟩ := (by simpa [Fits] using h : (σ' I).length = ks.length ∧ (σ' I).sum = 1 ∧ FitsL σ' ks)
      have key := perf_diffD σ σ' (σ' I) ks (ev σ (.decide I ks)) q c hl hk
      simp only [pd]
      rw [← key, hs]; simp only [ev]; ring
theorem perf_diffN (σ σ' : Strat) : ∀ (ws : List ℝ) (ks : List V) (q c : ℝ), FitsL σ' ks →
    q * c * (evs σ' ws ks - evs σ ws ks) = pdN σ σ' ws ks q c
  | [], ks, q, c, _ => by simp [evs, pdN]
  | _ :: _, [], q, c, _ => by simp [evs, pdN]
  | w :: ws, k :: ks, q, c, h => by
      obtain ⟨h1, h2⟩ := (by simpa [FitsL] using h : Fits σ' k ∧ FitsL σ' ks)
      have a := perf_diff σ σ' k q (c * w) h1
      have b := perf_diffN σ σ' ws ks q c h2
      simp only [evs, pdN]; rw [← a, ← b]; ring
/-- q·c·(Σ_a s_a·ev σ' k_a − (Σ s)·v) = pdD -/
theorem perf_diffD (σ σ' : Strat) : ∀ (ss : List ℝ) (ks : List V) (v q c : ℝ),
    ss.length = ks.length → FitsL σ' ks →
    q * c * (evs σ' ss ks - ss.sum * v) = pdD σ σ' ss ks v q c
  | [], [], v, q, c, _, _ => by simp [evs, pdD]
  | [], _ :: _, _, _, _, h, _ => by simp at h
  | _ :: _, [], _, _, _, h, _ => by simp at h
  | s :: ss, k :: ks, v, q, c, hl, h => by
      obtain ⟨h1, h2⟩ := (by simpa [FitsL] using h : Fits σ' k ∧ FitsL σ' ks)
      have a := perf_diff σ σ' k (q * s) c h1
      have b := perf_diffD σ σ' ss ks v q c (by simpa using hl) h2
      simp only [evs, pdD, List.sum_cons]; rw [← a, ← b]; ring
end

#print axioms perf_diff
end Cfr
