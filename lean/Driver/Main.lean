import CfrVerif.Model.Scalar
import CfrVerif.Model.Tree
import CfrVerif.Model.Compile
import CfrVerif.Model.Eval
import CfrVerif.Model.Params
import CfrVerif.Model.Solve
import CfrVerif.Model.Vanilla
import CfrVerif.Model.External
import CfrVerif.Model.Parallel
import CfrVerif.Model.Named
import CfrVerif.Model.Dispatch
import CfrVerif.Model.Cli
import CfrVerif.Model.Worklist
import CfrVerif.Model.Locks
import CfrVerif.Model.LocksVanilla
import Std.Data.HashSet
/-!
# `cfrmodel` : the model (L1) at `α = Float` behind a line protocol

One request per line, one response per line.  Doubles cross the protocol as 16
hex digits (their IEEE bit pattern), never as decimal text.
-/
open Cfr

instance : Zero Float := ⟨0.0⟩
instance : One Float := ⟨1.0⟩
instance : NatCast Float := ⟨Float.ofNat⟩

def floatLog1p (x : Float) : Float :=
  let u := 1.0 + x
  if u == 1.0 then x else Float.log u * x / (u - 1.0)

instance : Transc Float where
  exp := Float.exp
  log := Float.log
  log1p := floatLog1p
  pow := Float.pow
  ln2 := Float.log 2.0

instance : FloatLike Float where
  isFinite := Float.isFinite
  isNaN := Float.isNaN

/-! ## the keyed draw function shared with the Rust hook -/

def mix64 (z0 : UInt64) : UInt64 :=
  let z := z0 + 0x9E3779B97F4A7C15
  let z := (z ^^^ (z >>> 30)) * 0xBF58476D1CE4E5B9
  let z := (z ^^^ (z >>> 27)) * 0x94D049BB133111EB
  z ^^^ (z >>> 31)

def drawU (seed : UInt64) (kind id pass : Nat) : Float :=
  let h := mix64 (mix64 (mix64 (mix64 seed ^^^ kind.toUInt64) ^^^ id.toUInt64) ^^^ pass.toUInt64)
  (h >>> 11).toFloat / 9007199254740992.0

def drawHash (seed : UInt64) : DrawFn Float := fun kind id pass ws =>
  let u := drawU seed kind id pass
  multinomialSample ws (u * lsum ws)

/-! ## canonical infoset numbers for the draw keys

The draw oracle of the correspondence is keyed by *(kind, infoset, pass)*.  Internal infoset
indices are not part of the crate's contract, so both sides key the oracle (and report their draw
logs and mutex labels) by the rank of the infoset in order of first appearance in a pre-order walk
of the compact tree, which does not depend on how either side numbers its tables. -/

partial def firstSeen : List (Node Float) → List Nat × List Nat × List Nat → List Nat × List Nat × List Nat
  | [], acc => acc
  | .term _ :: rest, acc => firstSeen rest acc
  | .chance i ks :: rest, (c, a, b) => firstSeen (ks ++ rest) (if c.contains i then c else c ++ [i], a, b)
  | .player true i ks :: rest, (c, a, b) => firstSeen (ks ++ rest) (c, if a.contains i then a else a ++ [i], b)
  | .player false i ks :: rest, (c, a, b) => firstSeen (ks ++ rest) (c, a, if b.contains i then b else b ++ [i])

structure Canon where
  ch : Array Nat
  one : Array Nat
  two : Array Nat

def rankArray (size : Nat) (seen : List Nat) : Array Nat := Id.run do
  let mut out : Array Nat := Array.replicate size 0
  let mut assigned : Array Bool := Array.replicate size false
  let mut next := 0
  for i in seen do
    if i < size then
      out := out.set! i next
      assigned := assigned.set! i true
      next := next + 1
  for i in [0:size] do
    if !assigned[i]! then
      out := out.set! i next
      next := next + 1
  out

def Canon.of (g : Game Float) : Canon :=
  let (c, a, b) := firstSeen [g.root] ([], [], [])
  ⟨rankArray g.chance.length c, rankArray g.p1.length a, rankArray g.p2.length b⟩

def Canon.get (cn : Canon) (kind id : Nat) : Nat :=
  let arr := if kind == 0 then cn.ch else if kind == 1 then cn.one else cn.two
  if h : id < arr.size then arr[id] else id

/-- the draw oracle keyed by canonical infoset numbers -/
def drawCanon (cn : Canon) (seed : UInt64) : DrawFn Float := fun kind id pass ws =>
  drawHash seed kind (cn.get kind id) pass ws

/-! ## tokens -/

abbrev P := StateT (Array String × Nat) (Except String)

def tok : P String := do
  let (a, i) ← get
  if h : i < a.size then
    set (a, i + 1)
    pure a[i]
  else throw "unexpected end of request"

def hexVal (c : Char) : Option Nat :=
  if '0' ≤ c && c ≤ '9' then some (c.toNat - '0'.toNat)
  else if 'a' ≤ c && c ≤ 'f' then some (c.toNat - 'a'.toNat + 10)
  else if 'A' ≤ c && c ≤ 'F' then some (c.toNat - 'A'.toNat + 10)
  else none

def parseHex (s : String) : Except String UInt64 := do
  if s.length != 16 then throw s!"bad float {s}"
  let mut v : Nat := 0
  for c in s.toList do
    match hexVal c with
    | some d => v := v * 16 + d
    | none => throw s!"bad float {s}"
  pure v.toUInt64

def pFloat : P Float := do
  let s ← tok
  match parseHex s with
  | .ok v => pure (Float.ofBits v)
  | .error e => throw e

def pNat : P Nat := do
  let s ← tok
  match s.toNat? with
  | some n => pure n
  | none => throw s!"bad nat {s}"

def pOptNat : P (Option Nat) := do
  let s ← tok
  if s == "-" then pure none else
  match s.toNat? with
  | some n => pure (some n)
  | none => throw s!"bad optnat {s}"

def pExt : P (Ext Float) := do
  let (a, i) ← get
  let s ← tok
  if s == "-inf" then pure .negInf
  else if s == "+inf" then pure .posInf
  else
    set (a, i)
    let f ← pFloat
    pure (.fin f)

def pThr : P (Option (Ext Float)) := do
  let (a, i) ← get
  let s ← tok
  if s == "nan" then pure none else
    set (a, i)
    let e ← pExt
    pure (some e)

partial def pTree : P (Raw Float) := do
  let t ← tok
  if t == "T" then
    let f ← pFloat
    pure (.term f)
  else if t == "C" then
    let info ← pOptNat
    let n ← pNat
    let mut ws : Array Float := #[]
    let mut ks : Array (Raw Float) := #[]
    for _ in [0:n] do
      ws := ws.push (← pFloat)
      ks := ks.push (← pTree)
    pure (.chance info ws.toList ks.toList)
  else if t == "P" then
    let pl ← pNat
    let info ← pNat
    let n ← pNat
    let mut as : Array Nat := #[]
    let mut ks : Array (Raw Float) := #[]
    for _ in [0:n] do
      as := as.push (← pNat)
      ks := ks.push (← pTree)
    pure (.player (pl == 1) info as.toList ks.toList)
  else throw s!"bad tree token {t}"

def pNamed : P (Named Float) := do
  let k ← pNat
  let mut out : Array (Nat × List (Nat × Float)) := #[]
  for _ in [0:k] do
    let l ← pNat
    let m ← pNat
    let mut acts : Array (Nat × Float) := #[]
    for _ in [0:m] do
      let a ← pNat
      let f ← pFloat
      acts := acts.push (a, f)
    out := out.push (l, acts.toList)
  pure out.toList

def pParams : P (RegretParams Float) := do
  let pos ← pExt
  let neg ← pExt
  let st ← pFloat
  let np ← pExt
  pure ⟨pos, neg, st, np⟩

/-! ## printing -/

def hexDigit (n : Nat) : Char := if n < 10 then Char.ofNat (48 + n) else Char.ofNat (87 + n)

def fHex (f : Float) : String :=
  let v := f.toBits.toNat
  String.ofList ((List.range 16).map (fun i => hexDigit ((v >>> (4 * (15 - i))) % 16)))

def fList (l : List Float) : String := " ".intercalate (s!"{l.length}" :: l.map fHex)
def nList (l : List Nat) : String := " ".intercalate (s!"{l.length}" :: l.map toString)
def stratStr (σ : Strat Float) : String := " ".intercalate (s!"{σ.length}" :: σ.map fList)
def optNat : Option Nat → String | none => "-" | some n => toString n
def extStr : Ext Float → String | .negInf => "-inf" | .posInf => "+inf" | .fin x => fHex x

def gameErr : GameError → String
  | .emptyChance => "EmptyChance" | .nonPositiveChance => "NonPositiveChance"
  | .probabilitiesNotEqual => "ProbabilitiesNotEqual" | .imperfectRecall => "ImperfectRecall"
  | .emptyPlayer => "EmptyPlayer" | .actionsNotEqual => "ActionsNotEqual"
  | .actionsNotUnique => "ActionsNotUnique" | .nonFinitePayoff => "NonFinitePayoff"

def stratErr : StratError → String
  | .invalidInfoset => "InvalidInfoset" | .invalidAction => "InvalidAction"
  | .invalidProbability => "InvalidProbability" | .uninitializedInfoset => "UninitializedInfoset"

partial def nodeStr : Node Float → String
  | .term p => s!"T {fHex p}"
  | .chance i ks => " ".intercalate (s!"C {i} {ks.length}" :: ks.map nodeStr)
  | .player one i ks => " ".intercalate (s!"P {if one then 1 else 2} {i} {ks.length}" :: ks.map nodeStr)

def pinfoStr (i : PInfo) : String :=
  let pv := match i.prev with | none => "- -" | some (a, b) => s!"{a} {b}"
  s!"{i.label} {pv} {nList i.actions}"

def sortPairs (l : List (Nat × Nat)) : List (Nat × Nat) :=
  (l.toArray.qsort (fun a b => a.1 < b.1 || (a.1 == b.1 && a.2 < b.2))).toList

def gameStr (g : Game Float) : String :=
  let ch := " ".intercalate (s!"{g.chance.length}" :: g.chance.map fList)
  let p (l : List PInfo) := " ".intercalate (s!"{l.length}" :: l.map pinfoStr)
  let s (l : List (Nat × Nat)) := " ".intercalate (s!"{l.length}" :: (sortPairs l).map (fun e => s!"{e.1} {e.2}"))
  s!"CH {ch} P1 {p g.p1} P2 {p g.p2} S1 {s g.s1} S2 {s g.s2} N {nodeStr g.root}"

def namedStr (n : Named Float) : String :=
  " ".intercalate (s!"{n.length}" :: n.map (fun e =>
    " ".intercalate (s!"{e.1} {e.2.length}" :: e.2.map (fun a => s!"{a.1} {fHex a.2}"))))

def logStr (cn : Canon) (l : List (DrawRec Float)) : String :=
  " ".intercalate (s!"{l.length}" :: l.reverse.map (fun r => s!"{r.kind} {cn.get r.kind r.id} {r.pass} {r.result} {fList r.weights}"))

/-- a dense strategy with its infoset and action labels (zero probabilities included) -/
def fullNamed (infos : List PInfo) (σ : Strat Float) : String :=
  " ".intercalate (s!"{infos.length}" :: (infos.zip σ).map (fun (i, v) =>
    " ".intercalate (s!"{i.label} {v.length}" :: (i.actions.zip v).map (fun (a, p) => s!"{a} {fHex p}"))))

def profStr (g : Game Float) (a b : Strat Float) : String :=
  s!"{fullNamed g.p1 a} {fullNamed g.p2 b}"

def outStr (g : Game Float) (o : SolveOut Float) : String :=
  s!"ok {o.iters} {extStr o.regOne} {extStr o.regTwo} {profStr g o.stratOne o.stratTwo} L {logStr (Canon.of g) o.log}"

/-! ## conditioning: the smallest relative margin by which a discontinuous decision was taken

Diagnostic only (used by the harness to tell a rounding-induced tie flip from a disagreement);
not part of the model. -/

def fInf : Float := 1.0 / 0.0

def regMargin (noPos : Ext Float) (v : List Float) : Float :=
  let s := v.foldl (fun a x => if a < x.abs then x.abs else a) 0.0
  if s == 0.0 then fInf else
  let m1 := (v.filter (· != 0.0)).foldl (fun a x => if x.abs / s < a then x.abs / s else a) fInf
  let pos := v.any (fun x => 0.0 < x)
  let gapTop (w : List Float) : Float :=
    match (w.toArray.qsort (fun a b => a > b)).toList with
    | a :: b :: _ => if a == 0.0 && b == 0.0 then fInf else (a - b) / s
    | _ => fInf
  let m2 := if pos then fInf else
    match noPos with
    | .posInf => gapTop v
    | .negInf => gapTop (v.map (fun x => -x))
    | .fin _ => fInf
  if m1 < m2 then m1 else m2

def stMargin (noPos : Ext Float) (l : List (InfoSt Float)) : Float :=
  l.foldl (fun a x => let m := regMargin noPos x.cumRegret; if m < a then m else a) fInf

/-- an accumulator entry that received non-zero additions and ended at exactly `0.0` is a
cancellation: in another summation order it is `±ulp`, and regret matching treats `0` and
`+ulp` differently -/
def cancelMargin (s : SolveSt Float) (es : List (Eff Float)) : Float :=
  es.foldl (fun m e =>
    if e.slot == Slot.regret && e.delta != 0.0 then
      match (s.get e.one)[e.info]? with
      | some x => if x.cumRegret.getD e.act 1.0 == 0.0 then 0.0 else m
      | none => m
    else m) fInf

def thrMargin (r1 r2 : Float) : Option (Ext Float) → Float
  | some (.fin t) =>
    let b := if r1 < r2 then r2 else r1
    let sc := if b.abs < t.abs then t.abs else b.abs
    if sc == 0.0 then fInf else (b - t).abs / sc
  | _ => fInf

def fmin2 (a b : Float) : Float := if b < a then b else a

partial def marginsVanilla (g : Game Float) (sampled : Bool) (p : RegretParams Float)
    (draw : DrawFn Float) (thr : Option (Ext Float)) (n it : Nat) (s : SolveSt Float) (m : Float) : Float :=
  if n == 0 then m else
  let c : VCtx Float := ⟨g.chance, sampled, s.strat, draw, it - 1⟩
  let (_, es, _) := vrec c g.root 1 1 1 {}
  let s := s.applyEffs es
  let m := fmin2 m (cancelMargin s es)
  let m := fmin2 m (fmin2 (stMargin p.noPositive s.one) (stMargin p.noPositive s.two))
  let (one, r1) := advanceAll p it it s.one 0
  let (two, r2) := advanceAll p it it s.two 0
  let m := fmin2 m (thrMargin r1 r2 thr)
  if belowThreshold r1 r2 thr then m else marginsVanilla g sampled p draw thr (n - 1) (it + 1) ⟨one, two⟩ m

partial def marginsExternal (g : Game Float) (p : RegretParams Float)
    (draw : DrawFn Float) (thr : Option (Ext Float)) (n it : Nat) (s : SolveSt Float) (m : Float) : Float :=
  if n == 0 then m else
  let pass (first : Bool) (s : SolveSt Float) (m : Float) : SolveSt Float × Float × Float :=
    let c : ECtx Float :=
      ⟨g.chance, first, s.strat, draw, 2 * (it - 1) + (if first then 0 else 1), if first then it - 1 else it⟩
    let (_, es, _) := erec c g.root {}
    let s := s.applyEffs es
    let m := fmin2 m (cancelMargin s es)
    let m := fmin2 m (stMargin p.noPositive (s.get first))
    let (xs, r) := advanceAll p it (if first then it - 1 else it) (s.get first) 0
    (s.set first xs, r, m)
  let (s, r1, m) := pass true s m
  let (s, r2, m) := pass false s m
  let m := fmin2 m (thrMargin r1 r2 thr)
  if belowThreshold r1 r2 thr then m else marginsExternal g p draw thr (n - 1) (it + 1) s m

/-! ## commands -/

def withGame (k : Game Float → P String) : P String := do
  let t ← pTree
  match fromRoot t with
  | .error e => pure s!"err game {gameErr e}"
  | .ok g => k g

def withProfile (g : Game Float) (k : (Bool → Strat Float) → P String) : P String := do
  let n1 ← pNamed
  let n2 ← pNamed
  match fromNamed g n1 n2 with
  | .error e => pure s!"err strat {stratErr e}"
  | .ok (a, b) => k (fun one => if one then a else b)

def resStr (g : Game Float) : Except StratError (Strat Float × Strat Float) → String
  | .error e => s!"err {stratErr e}"
  | .ok (a, b) => s!"ok {profStr g a b}"

/-- drain the two iterators of `as_named`, querying `len` before every `next` -/
partial def drainActs (it : ActIter Float) (acc : List String) : List String :=
  let acc := s!"l{it.len}" :: acc
  match it.next with
  | none => acc
  | some ((a, p), it') => drainActs it' (s!"{a} {fHex p}" :: acc)

partial def drainInfos (it : InfoIter Float) (acc : List String) : List String :=
  let acc := s!"L{it.len}" :: acc
  match it.next with
  | none => acc
  | some ((l, ai), it') => drainInfos it' (drainActs ai (s!"I{l}" :: acc))

/-! ## the command-line layer (`Model/Cli.lean`) -/

def pFloats : P (List Float) := do
  let k ← pNat
  let mut out : Array Float := #[]
  for _ in [0:k] do out := out.push (← pFloat)
  pure out.toList

def pOptFloats : P (Option (List Float)) := do
  let (a, i) ← get
  let s ← tok
  if s == "-" then pure none else
    set (a, i)
    pure (some (← pFloats))

/-- `t <outcome> <pays>` | `c <info> <outcome> <optpays> <n> (<name> <prob> <node>)*n` |
`p <num> <info> <name|-> <outcome> <optpays> <n> (<act> <node>)*n` -/
partial def pEfg : P (Efg Float) := do
  let t ← tok
  if t == "t" then
    let oc ← pNat
    let pays ← pFloats
    pure (.term oc pays)
  else if t == "c" then
    let info ← pNat
    let oc ← pNat
    let pays ← pOptFloats
    let n ← pNat
    let mut names : Array Nat := #[]
    let mut probs : Array Float := #[]
    let mut ks : Array (Efg Float) := #[]
    for _ in [0:n] do
      names := names.push (← pNat)
      probs := probs.push (← pFloat)
      ks := ks.push (← pEfg)
    pure (.chance info names.toList probs.toList ks.toList oc pays)
  else if t == "p" then
    let num ← pNat
    let info ← pNat
    let name ← pOptNat
    let oc ← pNat
    let pays ← pOptFloats
    let n ← pNat
    let mut acts : Array Nat := #[]
    let mut ks : Array (Efg Float) := #[]
    for _ in [0:n] do
      acts := acts.push (← pNat)
      ks := ks.push (← pEfg)
    pure (.player num info name acts.toList ks.toList oc pays)
  else throw s!"bad efg token {t}"

/-- `t <pay>` | `c <info|-> <n> (<name> <prob> <node>)*n` | `p <1|2> <info> <n> (<act> <node>)*n` -/
partial def pJState : P (JState Float) := do
  let t ← tok
  if t == "t" then
    pure (.terminal (← pFloat))
  else if t == "c" then
    let info ← pOptNat
    let n ← pNat
    let mut names : Array Nat := #[]
    let mut probs : Array Float := #[]
    let mut ks : Array (JState Float) := #[]
    for _ in [0:n] do
      names := names.push (← pNat)
      probs := probs.push (← pFloat)
      ks := ks.push (← pJState)
    pure (.chance info names.toList probs.toList ks.toList)
  else if t == "p" then
    let pl ← pNat
    let info ← pNat
    let n ← pNat
    let mut acts : Array Nat := #[]
    let mut ks : Array (JState Float) := #[]
    for _ in [0:n] do
      acts := acts.push (← pNat)
      ks := ks.push (← pJState)
    pure (.player (pl == 1) info acts.toList ks.toList)
  else throw s!"bad json-state token {t}"

/-- `<k> (<infoset number> <label of its decimal string>)*k` -/
def pNumNames : P (Nat → Nat) := do
  let k ← pNat
  let mut l : Array (Nat × Nat) := #[]
  for _ in [0:k] do
    let n ← pNat
    let lab ← pNat
    l := l.push (n, lab)
  let tbl := l.toList
  -- a number the request does not list gets a label no string of the request has
  pure (fun n => (assocFind tbl n).getD (1000000000 + n))

/-- `<nplayers> <tree>` -/
def pEfgFile : P (EfgFile Float) := do
  let n ← pNat
  let root ← pEfg
  pure ⟨n, root⟩

def pFormat : P InputFormat := do
  let s ← tok
  if s == "auto" then pure .auto else if s == "gambit" then pure .gambit
  else if s == "json" then pure .json else throw s!"bad input format {s}"

def pKind : P InputKind := do
  let s ← tok
  if s == "stdin" then pure .stdin else if s == "json" then pure .dotJson
  else if s == "efg" then pure .dotEfg else if s == "other" then pure .other
  else throw s!"bad input kind {s}"

/-- `<F|S|E> <discount> <max_iters> <max_regret> <parallel> <clip> <seed>` -/
def pOpts : P (CliOpts Float × Nat) := do
  let m ← tok
  let method ← (if m == "F" then pure Method.full else if m == "S" then pure Method.sampled
    else if m == "E" then pure Method.external else throw s!"bad method {m}")
  let d ← tok
  let discount ← (if d == "vanilla" then pure Discount.vanilla else if d == "lcfr" then pure Discount.lcfr
    else if d == "cfr-plus" then pure Discount.cfrPlus else if d == "dcfr" then pure Discount.dcfr
    else if d == "dcfr-prune" then pure Discount.dcfrPrune else throw s!"bad discount {d}")
  let iters ← pNat
  let thr ← pThr
  let par ← pNat
  let clip ← pFloat
  let seed ← pNat
  pure (⟨clip, thr, iters, par, method, discount⟩, seed)

def cliErrStr : CliError → String
  | .gameError e => s!"err game-error {gameErr e}"
  | .solveError .threadOverflow => "err solve-error ThreadOverflow"
  | .solveError .threadSpawn => "err solve-error ThreadSpawnError"
  | e => s!"err {e.category}"

partial def rawStr : Raw Float → String
  | .term p => s!"T {fHex p}"
  | .chance i ws ks =>
    " ".intercalate (s!"C {optNat i} {ks.length}" :: (ws.zip ks).map (fun (w, k) => s!"{fHex w} {rawStr k}"))
  | .player one i as ks =>
    " ".intercalate (s!"P {if one then 1 else 2} {i} {ks.length}" :: (as.zip ks).map (fun (a, k) => s!"{a} {rawStr k}"))

def cliOutStr (sum : Float) (o : CliOut Float) : String :=
  s!"{fHex sum} {fHex o.playerOneUtility} {fHex o.playerTwoUtility} {fHex o.playerOneRegret} {fHex o.playerTwoRegret} {fHex o.regret} {namedStr o.playerOneStrategy} {namedStr o.playerTwoStrategy}"

/-- the environment the driver assumes: 64-bit, one hardware thread reported, pools can be built -/
def driverEnv : Env := ⟨18446744073709551615, some 1, fun _ => true⟩

/-- diagnostics for the harness (not part of the model): was the pruned profile chosen, the two
total regrets the choice compared, and for the deterministic single-threaded solve the smallest
relative margin of a discontinuous decision on the trajectory -/
def cliDiag (o : CliOpts Float) (seed : Nat) (g : Game Float) : String :=
  let draw := drawHash seed.toUInt64
  match gameSolve driverEnv Sched.seq g o.method o.iters o.maxRegret o.parallel
      (some o.discount.intoParams) draw with
  | .error _ => "D 0 0000000000000000 0000000000000000 0000000000000000"
  | .ok out =>
    let info := getInfo g (fun p => if p then out.stratOne else out.stratTwo)
    let pOne := truncate o.clipThreshold out.stratOne
    let pTwo := truncate o.clipThreshold out.stratTwo
    let pInfo := getInfo g (fun p => if p then pOne else pTwo)
    let pruned := decide (pInfo.regret < info.regret)
    let margin :=
      if o.method == Method.full && o.parallel == 1 && o.iters ≤ 100000 then
        marginsVanilla g false o.discount.intoParams draw o.maxRegret o.iters 1 (SolveSt.init g) fInf
      else fInf
    -- the clip step keeps `p > threshold`: a probability at the threshold up to rounding makes the
    -- outcome depend on the last bit
    let clipMargin : Float :=
      if o.clipThreshold > 0.0 then
        (out.stratOne ++ out.stratTwo).foldl (fun m v =>
          v.foldl (fun m p => fmin m (Float.abs (p - o.clipThreshold) / o.clipThreshold)) m) fInf
      else fInf
    let margin := fmin margin clipMargin
    s!"D {if pruned then 1 else 0} {fHex info.regret} {fHex pInfo.regret} {fHex margin}"

/-- the whole program on an already loaded game -/
def cliRun (o : CliOpts Float) (seed : Nat) (loaded : Except CliError (Game Float × Float)) : String :=
  match loaded with
  | .error e => cliErrStr e
  | .ok (g, sum) =>
    match runGame driverEnv Sched.seq (drawHash seed.toUInt64) o g sum with
    | .error e => cliErrStr e
    | .ok out => s!"ok {cliOutStr sum out} {cliDiag o seed g}"

/-- evaluate a given (printed) profile on the loaded game through the output assembly of `main` -/
def cliEval (loaded : Except CliError (Game Float × Float)) : P String := do
  let n1 ← pNamed
  let n2 ← pNamed
  match loaded with
  | .error e => pure (cliErrStr e)
  | .ok (g, sum) =>
    match fromNamed g n1 n2 with
    | .error e => pure s!"err strat {stratErr e}"
    | .ok (a, b) =>
      match assemble g sum (getInfo g (fun p => if p then a else b)) a b with
      | .error e => pure (cliErrStr e)
      | .ok out => pure s!"ok {cliOutStr sum out}"


/-! ## mutex traces (Model/Locks.lean) -/

def lockIdStr : LockId → String
  | .chance i => s!"0 {i}"
  | .player true i => s!"1 {i}"
  | .player false i => s!"2 {i}"

/-- operation codes as in the crate's `verif::sync` : 0 lock, 1 try_lock, 3 unlock -/
def levStr : LEv → String
  | .acq l => s!"0 {lockIdStr l}"
  | .tryAcq l => s!"1 {lockIdStr l}"
  | .rel l => s!"3 {lockIdStr l}"

def pLockId : P LockId := do
  let k ← pNat
  let i ← pNat
  if k == 0 then pure (.chance i) else if k == 1 then pure (.player true i)
  else if k == 2 then pure (.player false i) else throw s!"bad lock kind {k}"

def pLEv : P LEv := do
  let op ← pNat
  let l ← pLockId
  if op == 0 then pure (.acq l) else if op == 1 then pure (.tryAcq l)
  else if op == 3 then pure (.rel l) else throw s!"bad lock operation {op}"

def pTraces : P (List (List LEv)) := do
  let n ← pNat
  let mut ts : Array (List LEv) := #[]
  for _ in [0:n] do
    let k ← pNat
    let mut t : Array LEv := #[]
    for _ in [0:k] do t := t.push (← pLEv)
    ts := ts.push t.toList
  pure ts.toList

/-- depth-first search for a schedule of the given traces that reaches a `try_lock` on a held
mutex or a deadlock (support for reporting a failing schedule; not a proof) -/
partial def searchBad (limit : Nat) (ts : List (List LEv)) : String :=
  let n := ts.length
  let key (c : LCfg) : List Nat := c.tasks.map List.length
  let rec go (stack : List (LCfg × List Nat)) (seen : Std.HashSet (List Nat)) : String :=
    match stack with
    | [] => "none"
    | (cfg, sched) :: rest =>
      if seen.size > limit then "limit" else
      let outs := (List.range n).map (fun j => (j, lstep cfg j))
      match outs.find? (fun o => match o.2 with | .panic => true | _ => false) with
      | some (j, _) => "panic " ++ " ".intercalate ((j :: sched).reverse.map toString)
      | none =>
        let succ := outs.filterMap (fun o => match o.2 with | .ok c => some (c, o.1 :: sched) | _ => none)
        if succ.isEmpty && !cfg.finished then
          "deadlock " ++ " ".intercalate (sched.reverse.map toString)
        else
          let fresh := succ.filter (fun x => !seen.contains (key x.1))
          let seen := fresh.foldl (fun s x => s.insert (key x.1)) seen
          go (fresh ++ rest) seen
  go [(LCfg.init ts, [])] (Std.HashSet.emptyWithCapacity.insert (key (LCfg.init ts)))

def cliCmd (c : String) : P String := do
  if c == "cli-gambit" then
    let fmt ← pFormat
    let kind ← pKind
    let (o, seed) ← pOpts
    let numName ← pNumNames
    let f ← pEfgFile
    pure (cliRun o seed (loadGame numName fmt kind ⟨none, some f⟩))
  else if c == "cli-json" then
    let fmt ← pFormat
    let kind ← pKind
    let (o, seed) ← pOpts
    let s ← pJState
    pure (cliRun o seed (loadGame (fun n => n) fmt kind ⟨some s, none⟩))
  else if c == "cli-none" then
    -- neither third-party parser accepts the bytes
    let fmt ← pFormat
    let kind ← pKind
    match loadGame (fun n => n) fmt kind (⟨none, none⟩ : Parsed Float) with
    | .error e => pure (cliErrStr e)
    | .ok _ => pure "ok"
  else if c == "cli-raw" then
    let w ← tok
    if w == "gambit" then
      let numName ← pNumNames
      let f ← pEfgFile
      match gambitRaw numName f with
      | .error e => pure (cliErrStr e)
      | .ok (raw, sum) => pure s!"ok {fHex sum} {rawStr raw}"
    else if w == "json" then
      let s ← pJState
      pure s!"ok {fHex 0.0} {rawStr s.toRaw}"
    else throw s!"bad cli-raw format {w}"
  else if c == "cli-eval" then
    let w ← tok
    if w == "gambit" then
      let numName ← pNumNames
      let f ← pEfgFile
      cliEval (gambitFromAst numName f)
    else if w == "json" then
      let s ← pJState
      cliEval (jsonFromState s)
    else throw s!"bad cli-eval format {w}"
  else throw s!"unknown command {c}"

def cmd : P String := do
  let c ← tok
  if c == "compile" then
    withGame fun g => pure s!"ok {gameStr g}"
  else if c == "eval" then
    withGame fun g => withProfile g fun σ => do
      let i := getInfoWL g σ  -- the crate's own work-list schedule (Model/Worklist.lean)
      pure s!"ok {fHex i.util} {fHex i.regretOne} {fHex i.regretTwo}"
  else if c == "import" then
    withGame fun g => do
      let n1 ← pNamed
      let n2 ← pNamed
      pure s!"A {resStr g (fromNamed g n1 n2)} B {resStr g (fromNamedEq g n1 n2)}"
  else if c == "named" then
    withGame fun g => withProfile g fun σ => do
      let one := drainInfos ⟨g.p1, σ true, g.s1⟩ []
      let two := drainInfos ⟨g.p2, σ false, g.s2⟩ []
      pure s!"ok {" ".intercalate one.reverse} | {" ".intercalate two.reverse}"
  else if c == "namedtrunc" then
    withGame fun g => withProfile g fun σ => do
      let h ← pFloat
      let one := drainInfos ⟨g.p1, truncate h (σ true), g.s1⟩ []
      let two := drainInfos ⟨g.p2, truncate h (σ false), g.s2⟩ []
      pure s!"ok {" ".intercalate one.reverse} | {" ".intercalate two.reverse}"
  else if c == "roundtrip" then
    withGame fun g => withProfile g fun σ => do
      let n1 := asNamed g.p1 g.s1 (σ true)
      let n2 := asNamed g.p2 g.s2 (σ false)
      pure s!"{resStr g (fromNamed g n1 n2)}"
  else if c == "truncate" then
    withGame fun g => withProfile g fun σ => do
      let h ← pFloat
      pure s!"ok {profStr g (truncate h (σ true)) (truncate h (σ false))}"
  else if c == "distance" then
    withGame fun g => withProfile g fun σ => withProfile g fun τ => do
      let p ← pFloat
      match distanceOne p (σ true) (τ true), distanceOne p (σ false) (τ false) with
      | some a, some b => pure s!"ok {fHex a} {fHex b}"
      | _, _ => pure "panic"
  else if c == "multinomial" then do
    let n ← pNat
    let mut ws : Array Float := #[]
    for _ in [0:n] do ws := ws.push (← pFloat)
    let u ← pFloat
    pure s!"ok {multinomialSample ws.toList u}"
  else if c == "solve" then
    withGame fun g => do
      let m ← tok
      let p ← pParams
      let T ← pNat
      let thr ← pThr
      let seed ← pNat
      let mode ← tok
      let draw := drawCanon (Canon.of g) seed.toUInt64
      if mode == "single" then
        if m == "F" then pure (outStr g (solveVanillaSingle g false p draw T thr))
        else if m == "S" then pure (outStr g (solveVanillaSingle g true p draw T thr))
        else if m == "E" then pure (outStr g (solveExternalSingle g p draw T thr))
        else throw s!"bad method {m}"
      else if mode == "multi" then
        let target ← pNat
        if m == "F" then pure (outStr g (solveVanillaMulti g false p draw T thr target))
        else if m == "S" then pure (outStr g (solveVanillaMulti g true p draw T thr target))
        else if m == "E" then pure (outStr g (solveExternalMulti g p draw T thr target))
        else throw s!"bad method {m}"
      else throw s!"bad mode {mode}"
  else if c == "margins" then
    withGame fun g => do
      let m ← tok
      let p ← pParams
      let T ← pNat
      let thr ← pThr
      let seed ← pNat
      let draw := drawCanon (Canon.of g) seed.toUInt64
      let s0 : SolveSt Float := SolveSt.init g
      if m == "E" then pure s!"ok {fHex (marginsExternal g p draw thr T 1 s0 fInf)}"
      else pure s!"ok {fHex (marginsVanilla g (m == "S") p draw thr T 1 s0 fInf)}"
  else if c == "locktrace" then
    withGame fun g => do
      let p ← pParams
      let T ← pNat
      let seed ← pNat
      let cn := Canon.of g
      let draw := drawCanon cn seed.toUInt64
      let passes := externalLockPasses g p draw T 1 (SolveSt.init g) []
      let canonLock : LockId → LockId
        | .chance i => .chance (cn.get 0 i)
        | .player true i => .player true (cn.get 1 i)
        | .player false i => .player false (cn.get 2 i)
      let canonEv : LEv → LEv
        | .acq l => .acq (canonLock l)
        | .tryAcq l => .tryAcq (canonLock l)
        | .rel l => .rel (canonLock l)
      pure (s!"ok {passes.length} " ++ " ".intercalate (passes.map (fun t =>
        s!"{t.length} " ++ " ".intercalate (t.map (fun e => levStr (canonEv e))))))
  else if c == "vlocktrace" then
    withGame fun g => do
      let m ← tok
      let p ← pParams
      let T ← pNat
      let seed ← pNat
      let cn := Canon.of g
      let draw := drawCanon cn seed.toUInt64
      let passes := vanillaLockPasses g (m == "S") p draw T 1 (SolveSt.init g) []
      let canonLock : LockId → LockId
        | .chance i => .chance (cn.get 0 i)
        | .player true i => .player true (cn.get 1 i)
        | .player false i => .player false (cn.get 2 i)
      let canonEv : LEv → LEv
        | .acq l => .acq (canonLock l)
        | .tryAcq l => .tryAcq (canonLock l)
        | .rel l => .rel (canonLock l)
      pure (s!"ok {passes.length} " ++ " ".intercalate (passes.map (fun t =>
        s!"{t.length} " ++ " ".intercalate (t.map (fun e => levStr (canonEv e))))))
  else if c == "poolok" then do
    let ts ← pTraces
    pure s!"ok {poolOKb ts} {poolOKwhy ts}"
  else if c == "poolok2" then do
    let ts ← pTraces
    pure s!"ok {poolOK2b ts} {poolOK2why ts}"
  else if c == "locksearch" then do
    let limit ← pNat
    let ts ← pTraces
    pure s!"ok {searchBad limit ts}"
  else if c == "presets" then
    let ps : List (RegretParams Float) :=
      [RegretParams.vanilla, RegretParams.lcfr, RegretParams.cfrPlus, RegretParams.dcfr,
       RegretParams.dcfrPrune, RegretParams.default]
    pure ("ok " ++ " ".intercalate (ps.map (fun p =>
      s!"{extStr p.posRegret} {extStr p.negRegret} {fHex p.strat} {extStr p.noPositive}")))
  else if c == "drawu" then
    let seed ← pNat
    let k ← pNat
    let i ← pNat
    let ps ← pNat
    pure s!"ok {fHex (drawU seed.toUInt64 k i ps)}"
  else cliCmd c

def handle (line : String) : String :=
  let toks := (line.trimAscii.toString.splitOn " ").filter (· != "")
  match (cmd.run (toks.toArray, 0)) with
  | .ok (s, (a, i)) => if i == a.size then s else s!"bad-request trailing tokens at {i}"
  | .error e => s!"bad-request {e}"

partial def loop (h : IO.FS.Stream) (out : IO.FS.Stream) : IO Unit := do
  let line ← h.getLine
  if line.isEmpty then return ()
  out.putStrLn (handle line)
  out.flush
  loop h out

def main : IO Unit := do
  loop (← IO.getStdin) (← IO.getStdout)
