import CfrVerif.Proofs.Dist
import CfrVerif.Model.Named
/-!
# C18 — truncation keeps a valid profile and only removes small actions

`truncateOne h v` is `Strategies::truncate` on one infoset, `truncate` on a whole
strategy.  Everything is stated for every linearly ordered field (exact
arithmetic), every threshold `h` and every probability vector.
-/
set_option linter.unusedSectionVars false
namespace Cfr
variable {α : Type} [Field α] [LinearOrder α] [IsStrictOrderedRing α]

/-- where some action's probability exceeds `h`: exactly those actions survive, rescaled
proportionally (divided by the total of the survivors); every other action gets `0` -/
theorem truncateOne_spec (h : α) (v : List α) (hv : IsDist v) (hex : ∃ p ∈ v, h < p) :
    truncateOne h v = v.map (fun p => if h < p then p / (v.filter (fun p => h < p)).sum else 0) := by
  sorry

/-- an infoset in which no action exceeds `h` is left as it is -/
theorem truncateOne_none_exceeds (h : α) (v : List α) (hv : IsDist v) (hno : ∀ p ∈ v, ¬ h < p) :
    truncateOne h v = v := by
  sorry

/-- the result is a probability vector, whatever the threshold -/
theorem truncateOne_valid (h : α) (v : List α) (hv : IsDist v) : IsDist (truncateOne h v) := by
  sorry

/-- the length (number of actions) never changes -/
theorem truncateOne_length (h : α) (v : List α) : (truncateOne h v).length = v.length := by
  sorry

/-- a threshold below every positive probability changes nothing -/
theorem truncateOne_below_support (h : α) (v : List α) (hv : IsDist v)
    (hlow : ∀ p ∈ v, 0 < p → h < p) : truncateOne h v = v := by
  sorry

/-- truncating twice equals truncating once -/
theorem truncateOne_idempotent (h : α) (v : List α) (hv : IsDist v) :
    truncateOne h (truncateOne h v) = truncateOne h v := by
  sorry

/-- whole profiles: always a valid strategy -/
theorem truncate_valid (h : α) (σ : Strat α) (hσ : IsStrat σ) : IsStrat (truncate h σ) := by
  sorry

/-- whole profiles: idempotent -/
theorem truncate_idempotent (h : α) (σ : Strat α) (hσ : IsStrat σ) :
    truncate h (truncate h σ) = truncate h σ := by
  sorry

/-- whole profiles: a threshold below every positive probability changes nothing -/
theorem truncate_below_support (h : α) (σ : Strat α) (hσ : IsStrat σ)
    (hlow : ∀ v ∈ σ, ∀ p ∈ v, 0 < p → h < p) : truncate h σ = σ := by
  sorry

/-- the shape of the profile (number of infosets, actions per infoset) never changes -/
theorem truncate_shape (h : α) (σ : Strat α) :
    (truncate h σ).map List.length = σ.map List.length := by
  sorry

/-! ## non-vacuity (over `ℚ`) -/

example : IsDist ([1/2, 1/3, 1/6] : List ℚ) := by
  constructor
  · intro p hp; simp at hp; rcases hp with rfl | rfl | rfl <;> norm_num
  · norm_num

/-- survivors rescaled, the small action removed -/
example : truncateOne (1/5 : ℚ) [1/2, 1/3, 1/6] = [3/5, 2/5, 0] := by
  norm_num [truncateOne, lsum, List.filter]

/-- no action exceeds the threshold: unchanged (the defect repaired by the `fix:` commit) -/
example : truncateOne (1/2 : ℚ) [1/3, 1/3, 1/3] = [1/3, 1/3, 1/3] := by
  norm_num [truncateOne, lsum, List.filter]

end Cfr
