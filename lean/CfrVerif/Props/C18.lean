import CfrVerif.Proofs.Dist
import CfrVerif.Model.Named
/-!
# C18 — truncation keeps a valid profile and only removes small actions

`truncateOne h v` is `Strategies::truncate` on one infoset, `truncate` on a whole
strategy.  Everything is stated for every linearly ordered field (exact
arithmetic), every threshold `h` and every probability vector.
-/
set_option linter.unusedSectionVars false
namespace Cfr
variable {α : Type} [Field α] [LinearOrder α] [IsStrictOrderedRing α]

/-! ## helper lemmas -/

theorem mem_nonneg_le_sum (v : List α) (hv : ∀ p ∈ v, 0 ≤ p) : 0 ≤ v.sum ∧ ∀ p ∈ v, p ≤ v.sum := by
  induction v with
  | nil => exact ⟨by simp, by simp⟩
  | cons x xs ih =>
    have hx : 0 ≤ x := hv x (by simp)
    obtain ⟨h0, hle⟩ := ih (fun p hp => hv p (by simp [hp]))
    refine ⟨by rw [List.sum_cons]; linarith, ?_⟩
    intro p hp
    rw [List.sum_cons]
    rcases List.mem_cons.mp hp with rfl | hp
    · linarith
    · have := hle p hp; linarith

theorem filter_sum_le (P : α → Bool) (v : List α) (hv : ∀ p ∈ v, 0 ≤ p) :
    (v.filter P).sum ≤ v.sum := by
  induction v with
  | nil => simp
  | cons x xs ih =>
    have hx : 0 ≤ x := hv x (by simp)
    have ih' := ih (fun p hp => hv p (by simp [hp]))
    rw [List.filter_cons]
    split_ifs
    · rw [List.sum_cons, List.sum_cons]; linarith
    · rw [List.sum_cons]; linarith

theorem filter_sum_pos (h : α) (v : List α) (hv : IsDist v) (hex : ∃ p ∈ v, h < p) :
    0 < (v.filter (fun p => h < p)).sum := by
  obtain ⟨p, hp, hlt⟩ := hex
  have hnn : ∀ q ∈ v.filter (fun p => h < p), 0 ≤ q :=
    fun q hq => hv.1 q (List.mem_of_mem_filter hq)
  have hmem : p ∈ v.filter (fun p => h < p) := by
    rw [List.mem_filter]; exact ⟨hp, by simpa using hlt⟩
  rcases lt_or_ge h 0 with hneg | hpos
  · have hall : v.filter (fun p => h < p) = v := by
      rw [List.filter_eq_self]
      intro q hq
      have := hv.1 q hq
      simpa using lt_of_lt_of_le hneg this
    rw [hall, hv.2]; exact one_pos
  · have := (mem_nonneg_le_sum _ hnn).2 p hmem
    linarith

theorem map_trunc_sum (h T : α) (v : List α) :
    (v.map (fun p => if h < p then p / T else 0)).sum = (v.filter (fun p => h < p)).sum / T := by
  induction v with
  | nil => simp
  | cons x xs ih =>
    rw [List.map_cons, List.sum_cons, ih, List.filter_cons]
    by_cases hx : h < x
    · simp only [hx, if_true, decide_true, List.sum_cons]; ring
    · simp only [hx, if_false, decide_false]
      simp

theorem filter_sum_eq_of_low (h : α) (v : List α) (hv : ∀ p ∈ v, 0 ≤ p)
    (hlow : ∀ p ∈ v, 0 < p → h < p) : (v.filter (fun p => h < p)).sum = v.sum := by
  induction v with
  | nil => simp
  | cons x xs ih =>
    have ih' := ih (fun p hp => hv p (by simp [hp])) (fun p hp => hlow p (by simp [hp]))
    rw [List.filter_cons]
    by_cases hx : h < x
    · simp only [hx, decide_true, if_true, List.sum_cons, ih']
    · have h0 : x = 0 := by
        have h1 : 0 ≤ x := hv x (by simp)
        have h2 : ¬ 0 < x := fun hpos => hx (hlow x (by simp) hpos)
        exact le_antisymm (not_lt.mp h2) h1
      rw [if_neg (by simpa using hx), List.sum_cons, ih', h0, zero_add]

/-! ## the statements -/

/-- where some action's probability exceeds `h`: exactly those actions survive, rescaled
proportionally (divided by the total of the survivors); every other action gets `0` -/
theorem truncateOne_spec (h : α) (v : List α) (hv : IsDist v) (hex : ∃ p ∈ v, h < p) :
    truncateOne h v = v.map (fun p => if h < p then p / (v.filter (fun p => h < p)).sum else 0) := by
  have hpos := filter_sum_pos h v hv hex
  unfold truncateOne
  simp only [lsum_eq_sum]
  rw [if_pos hpos]

/-- an infoset in which no action exceeds `h` is left as it is -/
theorem truncateOne_none_exceeds (h : α) (v : List α) (hv : IsDist v) (hno : ∀ p ∈ v, ¬ h < p) :
    truncateOne h v = v := by
  have _ := hv
  have hnil : v.filter (fun p => h < p) = [] := by
    rw [List.filter_eq_nil_iff]
    intro p hp
    simpa using hno p hp
  unfold truncateOne
  simp only [lsum_eq_sum, hnil, List.sum_nil, lt_irrefl, if_false]

/-- the result is a probability vector, whatever the threshold -/
theorem truncateOne_valid (h : α) (v : List α) (hv : IsDist v) : IsDist (truncateOne h v) := by
  by_cases hex : ∃ p ∈ v, h < p
  · have hpos := filter_sum_pos h v hv hex
    rw [truncateOne_spec h v hv hex]
    refine ⟨?_, ?_⟩
    · intro q hq
      obtain ⟨p, hp, rfl⟩ := List.mem_map.mp hq
      split_ifs
      · exact div_nonneg (hv.1 p hp) hpos.le
      · exact le_refl 0
    · rw [map_trunc_sum]
      exact div_self hpos.ne'
  · have hno : ∀ p ∈ v, ¬ h < p := fun p hp hlt => hex ⟨p, hp, hlt⟩
    rw [truncateOne_none_exceeds h v hv hno]
    exact hv

/-- the length (number of actions) never changes -/
theorem truncateOne_length (h : α) (v : List α) : (truncateOne h v).length = v.length := by
  unfold truncateOne
  dsimp only
  split_ifs
  · exact List.length_map _
  · rfl

/-- a threshold below every positive probability changes nothing -/
theorem truncateOne_below_support (h : α) (v : List α) (hv : IsDist v)
    (hlow : ∀ p ∈ v, 0 < p → h < p) : truncateOne h v = v := by
  by_cases hex : ∃ p ∈ v, h < p
  · rw [truncateOne_spec h v hv hex, filter_sum_eq_of_low h v hv.1 hlow, hv.2]
    conv_rhs => rw [← List.map_id v]
    apply List.map_congr_left
    intro p hp
    by_cases hx : h < p
    · simp only [hx, if_true, div_one, id]
    · have h1 : 0 ≤ p := hv.1 p hp
      have h2 : ¬ 0 < p := fun hpos => hx (hlow p hp hpos)
      simp only [hx, if_false, id]
      exact le_antisymm h1 (not_lt.mp h2)
  · exact truncateOne_none_exceeds h v hv (fun p hp hlt => hex ⟨p, hp, hlt⟩)

/-- truncating twice equals truncating once -/
theorem truncateOne_idempotent (h : α) (v : List α) (hv : IsDist v) :
    truncateOne h (truncateOne h v) = truncateOne h v := by
  by_cases hex : ∃ p ∈ v, h < p
  · apply truncateOne_below_support h _ (truncateOne_valid h v hv)
    have hpos := filter_sum_pos h v hv hex
    have hle : (v.filter (fun p => h < p)).sum ≤ 1 := by
      rw [← hv.2]; exact filter_sum_le _ v hv.1
    rw [truncateOne_spec h v hv hex]
    intro q hq hq0
    obtain ⟨p, hp, rfl⟩ := List.mem_map.mp hq
    by_cases hx : h < p
    · simp only [hx, if_true]
      have hp0 : 0 ≤ p := hv.1 p hp
      have : p ≤ p / (v.filter (fun p => h < p)).sum := by
        rw [le_div_iff₀ hpos]
        nlinarith
      exact lt_of_lt_of_le hx this
    · simp only [hx, if_false] at hq0
      exact absurd hq0 (lt_irrefl 0)
  · have hno : ∀ p ∈ v, ¬ h < p := fun p hp hlt => hex ⟨p, hp, hlt⟩
    rw [truncateOne_none_exceeds h v hv hno, truncateOne_none_exceeds h v hv hno]

/-- whole profiles: always a valid strategy -/
theorem truncate_valid (h : α) (σ : Strat α) (hσ : IsStrat σ) : IsStrat (truncate h σ) := by
  intro w hw
  obtain ⟨v, hv, rfl⟩ := List.mem_map.mp hw
  exact truncateOne_valid h v (hσ v hv)

/-- whole profiles: idempotent -/
theorem truncate_idempotent (h : α) (σ : Strat α) (hσ : IsStrat σ) :
    truncate h (truncate h σ) = truncate h σ := by
  unfold truncate
  rw [List.map_map]
  apply List.map_congr_left
  intro v hv
  exact truncateOne_idempotent h v (hσ v hv)

/-- whole profiles: a threshold below every positive probability changes nothing -/
theorem truncate_below_support (h : α) (σ : Strat α) (hσ : IsStrat σ)
    (hlow : ∀ v ∈ σ, ∀ p ∈ v, 0 < p → h < p) : truncate h σ = σ := by
  unfold truncate
  conv_rhs => rw [← List.map_id σ]
  apply List.map_congr_left
  intro v hv
  exact truncateOne_below_support h v (hσ v hv) (hlow v hv)

/-- the shape of the profile (number of infosets, actions per infoset) never changes -/
theorem truncate_shape (h : α) (σ : Strat α) :
    (truncate h σ).map List.length = σ.map List.length := by
  unfold truncate
  rw [List.map_map]
  apply List.map_congr_left
  intro v _
  exact truncateOne_length h v

/-! ## "only removes small actions", action by action -/

/-- a surviving action never loses probability: the survivors are divided by a total that is at
most one -/
theorem truncateOne_survivor_ge (h : α) (v : List α) (hv : IsDist v) (i : Nat) (hi : i < v.length)
    (hk : h < v[i]) :
    v[i] ≤ (truncateOne h v)[i]'(by rw [truncateOne_length]; exact hi) := by
  have hex : ∃ p ∈ v, h < p := ⟨v[i], List.getElem_mem hi, hk⟩
  have hpos := filter_sum_pos h v hv hex
  have hle : (v.filter (fun p => h < p)).sum ≤ 1 := by
    have := filter_sum_le (fun p => decide (h < p)) v hv.1
    rw [hv.2] at this
    exact this
  have h0 : 0 ≤ v[i] := hv.1 _ (List.getElem_mem hi)
  simp only [truncateOne_spec h v hv hex, List.getElem_map, if_pos hk]
  rw [le_div_iff₀ hpos]
  nlinarith

/-- an action at or below the threshold is removed whenever some action exceeds it -/
theorem truncateOne_small_removed (h : α) (v : List α) (hv : IsDist v) (hex : ∃ p ∈ v, h < p)
    (i : Nat) (hi : i < v.length) (hs : ¬ h < v[i]) :
    (truncateOne h v)[i]'(by rw [truncateOne_length]; exact hi) = 0 := by
  simp only [truncateOne_spec h v hv hex, List.getElem_map, if_neg hs]

/-- truncation never gives probability to an action that had none -/
theorem truncateOne_no_new_support (h : α) (v : List α) (hv : IsDist v) (i : Nat)
    (hi : i < v.length) (hz : v[i] = 0) :
    (truncateOne h v)[i]'(by rw [truncateOne_length]; exact hi) = 0 := by
  by_cases hex : ∃ p ∈ v, h < p
  · simp only [truncateOne_spec h v hv hex, List.getElem_map, hz]
    split_ifs
    · exact zero_div _
    · rfl
  · have hno : ∀ p ∈ v, ¬ h < p := fun p hp hlt => hex ⟨p, hp, hlt⟩
    simp only [truncateOne_none_exceeds h v hv hno, hz]

/-! ## non-vacuity (over `ℚ`) -/

example : IsDist ([1/2, 1/3, 1/6] : List ℚ) := by
  constructor
  · intro p hp; simp at hp; rcases hp with rfl | rfl | rfl <;> norm_num
  · norm_num

/-- survivors rescaled, the small action removed -/
example : truncateOne (1/5 : ℚ) [1/2, 1/3, 1/6] = [3/5, 2/5, 0] := by
  norm_num [truncateOne, lsum, List.filter]

/-- no action exceeds the threshold: unchanged (the defect repaired by the `fix:` commit) -/
example : truncateOne (1/2 : ℚ) [1/3, 1/3, 1/3] = [1/3, 1/3, 1/3] := by
  norm_num [truncateOne, lsum, List.filter]

/-- a survivor that really grows (1/2 → 3/5), premises of `truncateOne_survivor_ge` met -/
example : (1/5 : ℚ) < ([1/2, 1/3, 1/6] : List ℚ)[0] ∧
    ([1/2, 1/3, 1/6] : List ℚ)[0] < (truncateOne (1/5 : ℚ) [1/2, 1/3, 1/6])[0]'(by
      rw [truncateOne_length]; decide) := by
  norm_num [truncateOne, lsum, List.filter]

end Cfr
