import CfrVerif.Proofs.CliSem
import CfrVerif.Proofs.CliLemmas
/-!
# C15 — the output of the command-line program is faithful to the game in the input file

`cliMain` (`Model/Cli.lean`) is `main` from the parsed AST on.  Whenever it succeeds:

* the printed strategies are valid behavioural strategies over the game's infoset and action
  names: every infoset of the player exactly once, positive probabilities only, summing to one;
* the printed numbers are the evaluation (`getInfo`, exact by C01) of exactly the printed
  profile on the game that was read, utilities shifted by the constant-sum offset; the total regret
  is the larger player regret;
* for a Gambit file that is exactly constant-sum `K`, the printed utilities are each player's
  expected **own payoffs as written in the file** (all outcomes met on the path) under the printed
  profile, and add up to `K`.
-/
set_option linter.unusedSectionVars false
namespace Cfr

/-- a printed strategy is a valid behavioural strategy over the names of the game: the keys are
exactly the player's infosets (multi-action, then single-action), each once; each entry lists
actions of that infoset with positive probabilities summing to one -/
def PrintedValid (infos : List PInfo) (singles : List (Nat × Nat)) (n : Named ℝ) : Prop :=
  n.map (·.1) = infos.map (·.label) ++ singles.map (·.1) ∧ (n.map (·.1)).Nodup ∧
  ∀ e ∈ n, (∀ a ∈ e.2, 0 < a.2) ∧ (e.2.map (·.2)).sum = 1 ∧
    (∀ a ∈ e.2, (∃ i ∈ infos, i.label = e.1 ∧ a.1 ∈ i.actions) ∨ (e.1, a.1) ∈ singles)

/-- **printed strategies are valid**, whatever the options, method, thread count, schedule, draws -/
theorem cli_strategies_valid (env : Env) (sched : Sched ℝ) (hs : sched.Fair) (draw : DrawFn ℝ)
    (numName : Nat → Nat) (o : CliOpts ℝ) (fmt : InputFormat) (kind : InputKind) (p : Parsed ℝ)
    (hshape : p.ShapeOK) (out : CliOut ℝ)
    (h : cliMain env sched draw numName o fmt kind p = .ok out) :
    ∃ g sum, loadGame numName fmt kind p = .ok (g, sum) ∧
      PrintedValid g.p1 g.s1 out.playerOneStrategy ∧ PrintedValid g.p2 g.s2 out.playerTwoStrategy := by
  sorry

/-- **printed numbers are the evaluation of the printed profile**: there is a valid profile `σ`
of the game that was read whose named view (zero-probability actions dropped) is what is printed
and whose `getInfo` gives the printed regrets and, shifted by the offset, the printed utilities;
the total regret is the larger of the two -/
theorem cli_numbers_are_evaluation (env : Env) (sched : Sched ℝ) (hs : sched.Fair) (draw : DrawFn ℝ)
    (numName : Nat → Nat) (o : CliOpts ℝ) (fmt : InputFormat) (kind : InputKind) (p : Parsed ℝ)
    (hshape : p.ShapeOK) (out : CliOut ℝ)
    (h : cliMain env sched draw numName o fmt kind p = .ok out) :
    ∃ g sum σ, loadGame numName fmt kind p = .ok (g, sum) ∧ GameWF g ∧ ProfileOK g σ ∧
      strategyOfNamed (asNamed g.p1 g.s1 (σ true)) = some out.playerOneStrategy ∧
      strategyOfNamed (asNamed g.p2 g.s2 (σ false)) = some out.playerTwoStrategy ∧
      out.playerOneUtility = (getInfo g σ).util + sum ∧
      out.playerTwoUtility = -(getInfo g σ).util + sum ∧
      out.playerOneRegret = (getInfo g σ).regretOne ∧
      out.playerTwoRegret = (getInfo g σ).regretTwo ∧
      out.regret = max out.playerOneRegret out.playerTwoRegret ∧
      out.playerOneUtility + out.playerTwoUtility = 2 * sum := by
  sorry

/-- **the game exactly as written in the file**: for a Gambit file that is exactly constant-sum
`K`, the tree handed to `from_root` pays, under every behavioural profile `ρ` of that tree, player
one's expected own file payoff minus `K/2`; and player two's expected own file payoff is `K` minus
player one's.  Hence (with `cli_numbers_are_evaluation` and `compile_expected`) the printed
utilities are the players' expected own payoffs and add up to `K`. -/
theorem gambit_file_semantics (numName : Nat → Nat) (f : EfgFile ℝ) (hshape : f.root.ShapeOK)
    (t : Tables ℝ) (n1 n2 : List (Nat × Nat)) (raw : Raw ℝ) (sum K : ℝ)
    (ht : Tables.run ({} : Tables ℝ) f.root.visits = .ok t)
    (h1 : t.one.resolve numName = .ok n1) (h2 : t.two.resolve numName = .ok n2)
    (hraw : gambitRaw numName f = .ok (raw, sum))
    (hK : ExactConstantSum t.outcomes f.root K)
    (ρ : LProfile ℝ) (hρ : LValidOn ρ raw) :
    sum = K / 2 ∧
    rawEV ρ raw = efgEV t.outcomes (fun o => if o then n1 else n2) ρ true f.root 0 - K / 2 ∧
    efgEV t.outcomes (fun o => if o then n1 else n2) ρ false f.root 0
      = K - efgEV t.outcomes (fun o => if o then n1 else n2) ρ true f.root 0 := by
  sorry

end Cfr
