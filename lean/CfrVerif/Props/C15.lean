import CfrVerif.Proofs.CliSem
import CfrVerif.Proofs.CliLemmas
import CfrVerif.Proofs.CliGambit
import CfrVerif.Proofs.CliDemo
/-!
# C15 — the output of the command-line program is faithful to the game in the input file

`cliMain` (`Model/Cli.lean`) is `main` from the parsed AST on.  Whenever it succeeds:

* the printed strategies are valid behavioural strategies over the game's infoset and action
  names: every infoset of the player exactly once, positive probabilities only, summing to one;
* the printed numbers are the evaluation (`getInfo`, exact by C01) of exactly the printed
  profile on the game that was read, utilities shifted by the constant-sum offset; the total regret
  is the larger player regret;
* for a Gambit file that is exactly constant-sum `K`, the printed utilities are each player's
  expected **own payoffs as written in the file** (all outcomes met on the path) under the printed
  profile, and add up to `K`.
-/
set_option linter.unusedSectionVars false
namespace Cfr

/-- a printed strategy is a valid behavioural strategy over the names of the game: the keys are
exactly the player's infosets (multi-action, then single-action), each once; each entry lists
actions of that infoset with positive probabilities summing to one -/
def PrintedValid (infos : List PInfo) (singles : List (Nat × Nat)) (n : Named ℝ) : Prop :=
  n.map (·.1) = infos.map (·.label) ++ singles.map (·.1) ∧ (n.map (·.1)).Nodup ∧
  ∀ e ∈ n, (∀ a ∈ e.2, 0 < a.2) ∧ (e.2.map (·.2)).sum = 1 ∧
    (∀ a ∈ e.2, (∃ i ∈ infos, i.label = e.1 ∧ a.1 ∈ i.actions) ∨ (e.1, a.1) ∈ singles)

/-- **printed strategies are valid**, whatever the options, method, thread count, schedule, draws -/
theorem cli_strategies_valid (env : Env) (sched : Sched ℝ) (hs : sched.Fair) (draw : DrawFn ℝ)
    (numName : Nat → Nat) (o : CliOpts ℝ) (fmt : InputFormat) (kind : InputKind) (p : Parsed ℝ)
    (hshape : p.ShapeOK) (out : CliOut ℝ)
    (h : cliMain env sched draw numName o fmt kind p = .ok out) :
    ∃ g sum, loadGame numName fmt kind p = .ok (g, sum) ∧
      PrintedValid g.p1 g.s1 out.playerOneStrategy ∧ PrintedValid g.p2 g.s2 out.playerTwoStrategy := by
  have _ := hshape
  obtain ⟨g, sum, one, two, hl, hg, ⟨hs1, hf1⟩, ⟨hs2, hf2⟩, ha⟩ := CliP.cliMain_printed hs h
  obtain ⟨s1, s2, e1, e2, rfl⟩ := CliP.assemble_ok ha
  have v1 := CliP.asNamed_valid g.p1 g.s1 one hg.tables1 hf1 hs1
  have v2 := CliP.asNamed_valid g.p2 g.s2 two hg.tables2 hf2 hs2
  rw [CliP.strategyOfNamed_asNamed _ _ _ v1.2.1] at e1
  rw [CliP.strategyOfNamed_asNamed _ _ _ v2.2.1] at e2
  cases e1
  cases e2
  exact ⟨g, sum, hl, v1, v2⟩

/-- **printed numbers are the evaluation of the printed profile**: there is a valid profile `σ`
of the game that was read whose named view (zero-probability actions dropped) is what is printed
and whose `getInfo` gives the printed regrets and, shifted by the offset, the printed utilities;
the total regret is the larger of the two -/
theorem cli_numbers_are_evaluation (env : Env) (sched : Sched ℝ) (hs : sched.Fair) (draw : DrawFn ℝ)
    (numName : Nat → Nat) (o : CliOpts ℝ) (fmt : InputFormat) (kind : InputKind) (p : Parsed ℝ)
    (hshape : p.ShapeOK) (out : CliOut ℝ)
    (h : cliMain env sched draw numName o fmt kind p = .ok out) :
    ∃ g sum σ, loadGame numName fmt kind p = .ok (g, sum) ∧ GameWF g ∧ ProfileOK g σ ∧
      strategyOfNamed (asNamed g.p1 g.s1 (σ true)) = some out.playerOneStrategy ∧
      strategyOfNamed (asNamed g.p2 g.s2 (σ false)) = some out.playerTwoStrategy ∧
      out.playerOneUtility = (getInfo g σ).util + sum ∧
      out.playerTwoUtility = -(getInfo g σ).util + sum ∧
      out.playerOneRegret = (getInfo g σ).regretOne ∧
      out.playerTwoRegret = (getInfo g σ).regretTwo ∧
      out.regret = max out.playerOneRegret out.playerTwoRegret ∧
      out.playerOneUtility + out.playerTwoUtility = 2 * sum := by
  have _ := hshape
  obtain ⟨g, sum, one, two, hl, hg, ⟨hs1, hf1⟩, ⟨hs2, hf2⟩, ha⟩ := CliP.cliMain_printed hs h
  obtain ⟨s1, s2, e1, e2, rfl⟩ := CliP.assemble_ok ha
  refine ⟨g, sum, fun p => if p then one else two, hl, hg, ?_, e1, e2, ?_, ?_, ?_, ?_, ?_, ?_⟩
  · intro me
    cases me
    · exact ⟨hs2, hf2⟩
    · exact ⟨hs1, hf1⟩
  · simp [StrategiesInfo.playerUtility]
  · simp [StrategiesInfo.playerUtility]
  · simp [StrategiesInfo.playerRegret]
  · simp [StrategiesInfo.playerRegret]
  · simp [StrategiesInfo.regret, StrategiesInfo.playerRegret, fmax_eq_max]
  · simp only [StrategiesInfo.playerUtility, if_true, Bool.false_eq_true, if_false]
    ring

/-- **the game exactly as written in the file**: for a Gambit file that is exactly constant-sum
`K`, the tree handed to `from_root` pays, under every behavioural profile `ρ` of that tree, player
one's expected own file payoff minus `K/2`; and player two's expected own file payoff is `K` minus
player one's.  Hence (with `cli_numbers_are_evaluation` and `compile_expected`) the printed
utilities are the players' expected own payoffs and add up to `K`.

**Added hypothesis `hfile : f.root.FileOK`** (`Proofs/CliLemmas.lean`): no terminal carries the null
outcome `0`, and the probabilities of no chance node add up to zero.  Both are guaranteed by
`gambit_parser`'s `validate` (`NullOutcomePayoffs`; `ChanceNotDistribution`: they add up to one) but
are not visible in the AST, and without either the statement is false:
* `⟨2, .chance 1 [] [] [] 0 none⟩` (a chance node without children; `probs.sum = 0`) converts with
  `sum = 0` and no terminal, so it is exactly constant-sum `K` for every `K`, e.g. `K = 2 ≠ 2 * sum`;
  likewise `.chance 1 [0, 1] [1, -1] [.term 1 [1, 1], .term 1 [1, 1]] 0 none` (total weight `0`,
  every expectation is `0`, `K = 2`);
* `⟨2, .term 0 [1, 1]⟩` : the conversion reads the payoffs `(1, 1)` stored under the outcome
  number `0` (`sum = 1`, converted payoff `0`), whereas `efgEV` gives the null outcome no payoff
  (`efgEV … true = 0 ≠ 0 + K / 2`). -/
theorem gambit_file_semantics (numName : Nat → Nat) (f : EfgFile ℝ) (hshape : f.root.ShapeOK)
    (hfile : f.root.FileOK)
    (t : Tables ℝ) (n1 n2 : List (Nat × Nat)) (raw : Raw ℝ) (sum K : ℝ)
    (ht : Tables.run ({} : Tables ℝ) f.root.visits = .ok t)
    (h1 : t.one.resolve numName = .ok n1) (h2 : t.two.resolve numName = .ok n2)
    (hraw : gambitRaw numName f = .ok (raw, sum))
    (hK : ExactConstantSum t.outcomes f.root K)
    (ρ : LProfile ℝ) (hρ : LValidOn ρ raw) :
    sum = K / 2 ∧
    rawEV ρ raw = efgEV t.outcomes (fun o => if o then n1 else n2) ρ true f.root 0 - K / 2 ∧
    efgEV t.outcomes (fun o => if o then n1 else n2) ρ false f.root 0
      = K - efgEV t.outcomes (fun o => if o then n1 else n2) ρ true f.root 0 :=
  CliP.gambit_semantics numName f hshape hfile t n1 n2 raw sum K ht h1 h2 hraw hK ρ hρ

/-! ## non-vacuity -/

/-- the one-node JSON game `{"terminal": x}` loads -/
theorem C15.load_json_terminal (numName : Nat → Nat) (x : ℝ) :
    loadGame numName .json .stdin ⟨some (.terminal x), none⟩
      = .ok (⟨[], [], [], [], [], .term x⟩, 0) := by
  simp [loadGame, jsonFromReader, jsonFromState, JState.toRaw, fromRootCli, fromRoot, compile]

/-- the crate's own test file `EFG 2 R "" { "" "" } t "" 2 { 1 1 }` loads through the `.efg` route
with offset `1` -/
theorem C15.load_gambit_terminal :
    loadGame id .auto .dotEfg ⟨none, some ⟨2, .term 2 [1, 1]⟩⟩
      = .ok (⟨[], [], [], [], [], .term (0 : ℝ)⟩, 1) := by
  simp [loadGame, gambitFromReader, gambitFromAst, gambitRaw, getGlobalInfo, Efg.visits, Tables.run,
    Tables.step, Tables.insertOutcome, toPair, PNames.resolve, hasDupName, Efg.leaves, assocFind,
    addPays, pairSum, notConstantSum, constantSum, minOf, maxOf, Efg.toRaw, fromRootCli, fromRoot,
    compile]

/-- the hypothesis `cliMain … = .ok out` of the first two theorems is satisfiable: with one thread
the program prints a result on these inputs for every method, preset, budget, threshold, clip
threshold and draw oracle (`one_thread_never_errors`; the output assertion never fires,
`CliP.cliMain_succeeds`) -/
example (env : Env) (sched : Sched ℝ) (hs : sched.Fair) (draw : DrawFn ℝ) (clip : ℝ)
    (thr : Option (Ext ℝ)) (T : Nat) (m : Method) (d : Discount) (x : ℝ) :
    (∃ out, cliMain env sched draw id ⟨clip, thr, T, 1, m, d⟩ .json .stdin
      ⟨some (.terminal x), none⟩ = .ok out) ∧
    (∃ out, cliMain env sched draw id ⟨clip, thr, T, 1, m, d⟩ .auto .dotEfg
      ⟨none, some ⟨2, .term 2 [1, 1]⟩⟩ = .ok out) := by
  constructor
  · obtain ⟨sol, hsol⟩ := one_thread_never_errors env sched ⟨[], [], [], [], [], .term x⟩ m
      (CliOpts.iters ⟨clip, thr, T, 1, m, d⟩) thr (some d.intoParams) draw
    exact CliP.cliMain_succeeds hs (C15.load_json_terminal id x) hsol
  · obtain ⟨sol, hsol⟩ := one_thread_never_errors env sched ⟨[], [], [], [], [], .term 0⟩ m
      (CliOpts.iters ⟨clip, thr, T, 1, m, d⟩) thr (some d.intoParams) draw
    exact CliP.cliMain_succeeds hs C15.load_gambit_terminal hsol

example : Parsed.ShapeOK (⟨some (.terminal 1), some ⟨2, .term 2 [1, 1]⟩⟩ : Parsed ℝ) := by
  constructor
  · intro s hs
    cases hs
    simp [JState.ShapeOK]
  · intro f hf
    cases hf
    simp [Efg.ShapeOK]

/-- the hypotheses of `gambit_file_semantics` hold (over `ℝ`) for the crate's test file, constant
sum `K = 2`; for a file with an interior outcome, unsorted actions and three infosets see
`Proofs/CliDemo.lean` (over `ℚ`, by evaluation, through `CliP.gambit_semantics`, the same theorem at
every ordered field), where the two facts of `Efg.FileOK` are also shown to be needed -/
example (ρ : LProfile ℝ) :
    (1 : ℝ) = 2 / 2 ∧
    rawEV ρ (.term (0 : ℝ))
      = efgEV [(2, ((1 : ℝ), (1 : ℝ)))] (fun o => if o then [] else []) ρ true (.term 2 [1, 1]) 0
        - 2 / 2 ∧
    efgEV [(2, ((1 : ℝ), (1 : ℝ)))] (fun o => if o then [] else []) ρ false (.term 2 [1, 1]) 0
      = 2 - efgEV [(2, ((1 : ℝ), (1 : ℝ)))] (fun o => if o then [] else []) ρ true
          (.term 2 [1, 1]) 0 := by
  refine gambit_file_semantics id ⟨2, .term 2 [1, 1]⟩ (by simp [Efg.ShapeOK]) (by simp [Efg.FileOK])
    ⟨{}, {}, [(2, (1, 1))]⟩ [] [] (.term 0) 1 2 rfl rfl rfl ?_ ?_ ρ (by simp [LValidOn])
  · simp [gambitRaw, getGlobalInfo, Efg.visits, Tables.run,
      Tables.step, Tables.insertOutcome, toPair, PNames.resolve, hasDupName, Efg.leaves, assocFind,
      addPays, pairSum, notConstantSum, constantSum, minOf, maxOf, Efg.toRaw]
  · intro ls hls
    simp only [Efg.leaves, assocFind, List.find?_cons, beq_self_eq_true, Option.map_some,
      isFinite_exact, if_true, Except.ok.injEq] at hls
    subst hls
    simp [addPays]
    norm_num

end Cfr
