import CfrVerif.Proofs.RealInst
import CfrVerif.Proofs.GameWF
import CfrVerif.Proofs.Frontier
/-!
# C05 — every solve returns a well-formed strategy profile and never panics

Over exact arithmetic (`ℝ`, so that `exp`, `ln`, `powf` are the real functions; rounding,
overflow and NaN are outside the theorem and are sampled by the correspondence run):

* `gameSolve` (`Game::solve`) returns the thread-count error exactly in the two documented
  situations, and never with one thread; otherwise it returns a result.  The model is a total
  function: it terminates on every input (Lean checks the termination of the frontier loop and of
  every traversal), which is the "never hangs" of the model.
* every returned result is well formed: one probability vector per decision infoset, of the
  infoset's length, with non-negative entries summing to one; each per-player bound is a
  non-negative number, infinite exactly when no iteration ran — for every game `from_root`
  accepts (`GameWF`), every method, every parameter tuple `RegretParams::new` accepts, every
  budget (zero included), every threshold, every draw oracle (out-of-range draws included), every
  task target and every fair schedule.
* the two places where the crate would panic on a *logic* error are excluded by perfect recall:
  no infoset occurs twice on a root-to-leaf path (the `RefCell::borrow_mut` held across the
  recursion in `recurse_single`), and one external-sampling pass visits an infoset of the updating
  player at most once (`try_lock().unwrap()`; theorem `active_infoset_visited_once` of C07).
-/
set_option linter.unusedSectionVars false
namespace Cfr

/-- what `RegretParams::new` accepts over exact arithmetic: a non-negative averaging exponent
(the other three fields may be any finite number or `±∞`) -/
def RegretParams.OK (p : RegretParams ℝ) : Prop := 0 ≤ p.strat

/-- the constructor accepts exactly those tuples, and stores them unchanged -/
theorem params_new_iff (pos neg noPos : Ext ℝ) (strat : ℝ) :
    (RegretParams.new? pos neg strat noPos = some ⟨pos, neg, strat, noPos⟩ ↔ 0 ≤ strat) ∧
    (RegretParams.new? pos neg strat noPos = none ↔ strat < 0) := by
  sorry

/-- the five presets and the default are accepted tuples -/
theorem presets_ok :
    (RegretParams.vanilla : RegretParams ℝ).OK ∧ (RegretParams.lcfr : RegretParams ℝ).OK ∧
    (RegretParams.cfrPlus : RegretParams ℝ).OK ∧ (RegretParams.dcfr : RegretParams ℝ).OK ∧
    (RegretParams.dcfrPrune : RegretParams ℝ).OK ∧ (RegretParams.default : RegretParams ℝ).OK := by
  sorry

/-- a per-player bound after `iters` iterations: `+∞` exactly when no iteration ran, otherwise a
non-negative number -/
def BoundOK : Ext ℝ → Nat → Prop
  | .posInf, iters => iters = 0
  | .fin x, iters => 0 ≤ x ∧ 0 < iters
  | .negInf, _ => False

/-- a well-formed result of a solve with budget `T` -/
structure SolveOut.WellFormed (g : Game ℝ) (T : Nat) (o : SolveOut ℝ) : Prop where
  stratOne : IsStrat o.stratOne ∧ FitsGame g true o.stratOne
  stratTwo : IsStrat o.stratTwo ∧ FitsGame g false o.stratTwo
  boundOne : BoundOK o.regOne o.iters
  boundTwo : BoundOK o.regTwo o.iters
  budget : o.iters ≤ T
  /-- no iteration ran only if the budget was zero -/
  ran : o.iters = 0 → T = 0

/-! ## single-threaded solvers -/

theorem vanilla_single_wellformed (g : Game ℝ) (hg : GameWF g) (sampled : Bool)
    (p : RegretParams ℝ) (hp : p.OK) (draw : DrawFn ℝ) (T : Nat) (thr : Option (Ext ℝ)) :
    (solveVanillaSingle g sampled p draw T thr).WellFormed g T := by
  sorry

theorem external_single_wellformed (g : Game ℝ) (hg : GameWF g)
    (p : RegretParams ℝ) (hp : p.OK) (draw : DrawFn ℝ) (T : Nat) (thr : Option (Ext ℝ)) :
    (solveExternalSingle g p draw T thr).WellFormed g T := by
  sorry

/-- well-formedness only looks at what `SolveOut.Same` preserves -/
theorem wellformed_of_same (g : Game ℝ) (T : Nat) (a b : SolveOut ℝ) (h : a.Same b)
    (hb : b.WellFormed g T) : a.WellFormed g T := by
  sorry

/-! ## `Game::solve` -/

/-- **the documented thread-count errors, and only those**: the result is an error exactly when
more than one thread is asked for and either the task target `3 * threads` does not fit a `usize`
(`ThreadOverflow`) or the pool cannot be built (`ThreadSpawnError`) -/
theorem solve_error_iff (env : Env) (sched : Sched ℝ) (g : Game ℝ) (m : Method) (T : Nat)
    (thr : Option (Ext ℝ)) (n : Nat) (params : Option (RegretParams ℝ)) (draw : DrawFn ℝ)
    (e : SolveError) :
    gameSolve env sched g m T thr n params draw = .error e ↔
      env.threads n ≠ 1 ∧
      ((e = .threadOverflow ∧ env.usizeMax < 3 * env.threads n) ∨
       (e = .threadSpawn ∧ 3 * env.threads n ≤ env.usizeMax ∧ env.spawnOk (env.threads n) = false)) := by
  sorry

/-- one thread never errors -/
theorem one_thread_never_errors (env : Env) (sched : Sched ℝ) (g : Game ℝ) (m : Method) (T : Nat)
    (thr : Option (Ext ℝ)) (params : Option (RegretParams ℝ)) (draw : DrawFn ℝ) :
    ∃ out, gameSolve env sched g m T thr 1 params draw = .ok out := by
  sorry

/-! ## no infoset twice on a path -/

mutual
/-- no decision infoset of either player occurs twice on a root-to-leaf path -/
def NoRepeat : List (Bool × Nat) → Node ℝ → Prop
  | _, .term _ => True
  | seen, .chance _ ks => NoRepeatL seen ks
  | seen, .player one i ks => (one, i) ∉ seen ∧ NoRepeatL ((one, i) :: seen) ks
def NoRepeatL : List (Bool × Nat) → List (Node ℝ) → Prop
  | _, [] => True
  | seen, k :: ks => NoRepeat seen k ∧ NoRepeatL seen ks
end

/-- perfect recall excludes a repeated infoset on a path, so the mutable borrow of an infoset
held across the recursion of `recurse_single` is never taken twice -/
theorem wf_no_infoset_twice_on_path (g : Game ℝ) (hg : GameWF g) : NoRepeat [] g.root := by
  sorry

end Cfr
