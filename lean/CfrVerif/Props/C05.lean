import CfrVerif.Proofs.RealInst
import CfrVerif.Proofs.GameWF
import CfrVerif.Proofs.Frontier
import CfrVerif.Props.C06
import CfrVerif.Props.C07
import CfrVerif.Proofs.Fuel
import CfrVerif.Proofs.NoPanic
import CfrVerif.Proofs.WellFormed
import CfrVerif.Proofs.LocksWide
import CfrVerif.Proofs.LocksPerm
import CfrVerif.Proofs.LocksVanilla
import CfrVerif.Proofs.LocksVanillaPerm
import CfrVerif.Proofs.LocksVanillaRun
--! audit CfrVerif/Proofs/Locks.lean
--! audit CfrVerif/Proofs/LocksCheck.lean
--! audit CfrVerif/Proofs/LocksWide.lean
--! audit CfrVerif/Proofs/LocksPerm.lean
--! audit CfrVerif/Proofs/LocksVanilla.lean
--! audit CfrVerif/Proofs/LocksVanillaPerm.lean
--! audit CfrVerif/Proofs/LocksVanillaRun.lean
/-!
# C05 — every solve returns a well-formed strategy profile and never panics

Over exact arithmetic (`ℝ`, so that `exp`, `ln`, `powf` are the real functions; rounding,
overflow and NaN are outside the theorem and are sampled by the correspondence run):

* `gameSolve` (`Game::solve`) returns the thread-count error exactly in the two documented
  situations, and never with one thread; otherwise it returns a result.  The model is a total
  function: it terminates on every input (Lean checks the termination of the frontier loop and of
  every traversal), which is the "never hangs" of the model.
* every returned result is well formed: one probability vector per decision infoset, of the
  infoset's length, with non-negative entries summing to one; each per-player bound is a
  non-negative number, infinite exactly when no iteration ran — for every game `from_root`
  accepts (`GameWF`), every method, every parameter tuple `RegretParams::new` accepts, every
  budget (zero included), every threshold, every draw oracle (out-of-range draws included), every
  task target and every fair schedule.
* the two places where the crate would panic on a *logic* error are excluded by perfect recall:
  no infoset occurs twice on a root-to-leaf path (the `RefCell::borrow_mut` held across the
  recursion in `recurse_single`), and one external-sampling pass visits an infoset of the updating
  player at most once (`try_lock().unwrap()`; theorem `active_infoset_visited_once` of C07).
* "never … deadlocks": `Proofs/Locks.lean` (audited with this property) has the mutexes of the
  multi-threaded external-sampling solver as an interleaving model (`Model/Locks.lean`: blocking
  `lock()` for the draws, `try_lock().unwrap()` held across the recursion); on every accepted game,
  in every configuration any thread schedule can reach, some worker can move unless all are done,
  no `try_lock` finds its mutex held, every schedule has exactly as many steps as there are events,
  and at the end every mutex is free (`external_pool_never_deadlocks`,
  `external_workers_never_meet`).  The full / chance-sampled solvers use atomics for the regrets and one
  blocking `lock()` per average-strategy update and per chance draw with nothing acquired inside
  it: `Model/LocksVanilla.lean` has their traces (`vtrace`), `vanilla_pool_never_deadlocks` the same
  four statements for every split of the tree into tasks, `vtrace_draws_eq_vrec` that the trace is
  that of the traversal `vrec`, `vtrace_acqCount` that an infoset's mutex is taken once per visited
  node of the infoset, and `vanilla_multi_locks_eq_visits` (for accepted games and reachable states: `…_run`) that the frontier's tasks and the closing
  recursion together take it exactly that often, for every task target (this count is compared
  with the crate's lock log on every short multi-threaded run).
-/
set_option linter.unusedSectionVars false
namespace Cfr

/-- what `RegretParams::new` accepts over exact arithmetic: a non-negative averaging exponent
(the other three fields may be any finite number or `±∞`) -/
def RegretParams.OK (p : RegretParams ℝ) : Prop := 0 ≤ p.strat

/-- the constructor accepts exactly those tuples, and stores them unchanged -/
theorem params_new_iff (pos neg noPos : Ext ℝ) (strat : ℝ) :
    (RegretParams.new? pos neg strat noPos = some ⟨pos, neg, strat, noPos⟩ ↔ 0 ≤ strat) ∧
    (RegretParams.new? pos neg strat noPos = none ↔ strat < 0) := by
  rcases lt_trichotomy 0 strat with h | h | h
  · have h1 := h.le
    have h2 := not_lt.mpr h.le
    cases pos <;> cases neg <;> cases noPos <;> simp [RegretParams.new?, h, h1, h2]
  · subst h
    cases pos <;> cases neg <;> cases noPos <;> simp [RegretParams.new?]
  · have h1 := not_lt.mpr h.le
    have h2 := not_le.mpr h
    have h3 := h.ne
    cases pos <;> cases neg <;> cases noPos <;> simp [RegretParams.new?, h, h1, h2, h3]

/-- the five presets and the default are accepted tuples -/
theorem presets_ok :
    (RegretParams.vanilla : RegretParams ℝ).OK ∧ (RegretParams.lcfr : RegretParams ℝ).OK ∧
    (RegretParams.cfrPlus : RegretParams ℝ).OK ∧ (RegretParams.dcfr : RegretParams ℝ).OK ∧
    (RegretParams.dcfrPrune : RegretParams ℝ).OK ∧ (RegretParams.default : RegretParams ℝ).OK := by
  simp only [RegretParams.OK, RegretParams.vanilla, RegretParams.lcfr, RegretParams.cfrPlus,
    RegretParams.dcfr, RegretParams.dcfrPrune, RegretParams.default, two]
  norm_num

/-- a per-player bound after `iters` iterations: `+∞` exactly when no iteration ran, otherwise a
non-negative number -/
def BoundOK : Ext ℝ → Nat → Prop
  | .posInf, iters => iters = 0
  | .fin x, iters => 0 ≤ x ∧ 0 < iters
  | .negInf, _ => False

/-- a well-formed result of a solve with budget `T` -/
structure SolveOut.WellFormed (g : Game ℝ) (T : Nat) (o : SolveOut ℝ) : Prop where
  stratOne : IsStrat o.stratOne ∧ FitsGame g true o.stratOne
  stratTwo : IsStrat o.stratTwo ∧ FitsGame g false o.stratTwo
  boundOne : BoundOK o.regOne o.iters
  boundTwo : BoundOK o.regTwo o.iters
  budget : o.iters ≤ T
  /-- no iteration ran only if the budget was zero -/
  ran : o.iters = 0 → T = 0

/-! ## single-threaded solvers -/

theorem BoundOK.fin (x : ℝ) (k : ℕ) (hx : 0 ≤ x) (hk : 0 < k) : BoundOK (.fin x) k := ⟨hx, hk⟩

/-- a solve from the initial state with a step that preserves the state invariant and reports
non-negative bounds returns a well-formed result -/
theorem wellFormed_of_loop (g : Game ℝ) (T : ℕ) (step : IterFn ℝ) (thr : Option (Ext ℝ))
    (hstep : ∀ it s log, StOK g s →
      StOK g (step it s log).1 ∧ 0 ≤ (step it s log).2.1 ∧ 0 ≤ (step it s log).2.2.1)
    (h0 : StOK g (SolveSt.init g)) :
    (solveLoop step thr T 1 (SolveSt.init g) .posInf .posInf []).WellFormed g T := by
  obtain ⟨⟨s', hs', e1, e2⟩, b1, b2, -, hle, hran⟩ :=
    solveLoop_inv step thr (StOK g) BoundOK BoundOK.fin hstep T 1 (SolveSt.init g) .posInf .posInf []
      le_rfl h0 rfl rfl
  refine ⟨?_, ?_, b1, b2, by simpa using hle, by simpa using hran⟩
  · rw [e1]; exact stOK_avg g s' hs' true
  · rw [e2]; exact stOK_avg g s' hs' false

theorem vanilla_single_wellformed (g : Game ℝ) (hg : GameWF g) (sampled : Bool)
    (p : RegretParams ℝ) (hp : p.OK) (draw : DrawFn ℝ) (T : Nat) (thr : Option (Ext ℝ)) :
    (solveVanillaSingle g sampled p draw T thr).WellFormed g T := by
  unfold solveVanillaSingle solveWith
  exact wellFormed_of_loop g T _ thr (fun it s log hs => vanillaIter_ok g sampled p hp draw it s log hs)
    (stOK_init g hg)

theorem external_single_wellformed (g : Game ℝ) (hg : GameWF g)
    (p : RegretParams ℝ) (hp : p.OK) (draw : DrawFn ℝ) (T : Nat) (thr : Option (Ext ℝ)) :
    (solveExternalSingle g p draw T thr).WellFormed g T := by
  unfold solveExternalSingle solveWith
  exact wellFormed_of_loop g T _ thr (fun it s log hs => externalIter_ok g p hp draw it s log hs)
    (stOK_init g hg)

/-- well-formedness only looks at what `SolveOut.Same` preserves -/
theorem wellformed_of_same (g : Game ℝ) (T : Nat) (a b : SolveOut ℝ) (h : a.Same b)
    (hb : b.WellFormed g T) : a.WellFormed g T := by
  obtain ⟨h1, h2, h3, h4, h5, -⟩ := h
  exact ⟨h3 ▸ hb.stratOne, h4 ▸ hb.stratTwo, by rw [h1, h5]; exact hb.boundOne,
    by rw [h2, h5]; exact hb.boundTwo, h5 ▸ hb.budget, fun h0 => hb.ran (h5 ▸ h0)⟩

/-! ## `Game::solve` -/

/-- **the documented thread-count errors, and only those**: the result is an error exactly when
more than one thread is asked for and either the task target `3 * threads` does not fit a `usize`
(`ThreadOverflow`) or the pool cannot be built (`ThreadSpawnError`) -/
theorem solve_error_iff (env : Env) (sched : Sched ℝ) (g : Game ℝ) (m : Method) (T : Nat)
    (thr : Option (Ext ℝ)) (n : Nat) (params : Option (RegretParams ℝ)) (draw : DrawFn ℝ)
    (e : SolveError) :
    gameSolve env sched g m T thr n params draw = .error e ↔
      env.threads n ≠ 1 ∧
      ((e = .threadOverflow ∧ env.usizeMax < 3 * env.threads n) ∨
       (e = .threadSpawn ∧ 3 * env.threads n ≤ env.usizeMax ∧ env.spawnOk (env.threads n) = false)) := by
  simp only [gameSolve]
  by_cases h1 : env.threads n = 1
  · rw [if_pos h1]
    cases m <;> simp [h1]
  · rw [if_neg h1]
    by_cases h2 : env.usizeMax < 3 * env.threads n
    · rw [if_pos h2]
      have h2' : ¬ 3 * env.threads n ≤ env.usizeMax := by omega
      constructor
      · intro h
        have : e = .threadOverflow := by cases h; rfl
        exact ⟨h1, Or.inl ⟨this, h2⟩⟩
      · rintro ⟨-, ⟨rfl, -⟩ | ⟨-, h3, -⟩⟩
        · rfl
        · exact absurd h3 h2'
    · rw [if_neg h2]
      have h2' : 3 * env.threads n ≤ env.usizeMax := by omega
      cases h3 : env.spawnOk (env.threads n)
      · simp only [Bool.not_false, if_true]
        constructor
        · intro h
          have : e = .threadSpawn := by cases h; rfl
          exact ⟨h1, Or.inr ⟨this, h2', trivial⟩⟩
        · rintro ⟨-, ⟨-, h4⟩ | ⟨rfl, -, -⟩⟩
          · exact absurd h4 h2
          · rfl
      · simp only [Bool.not_true, Bool.false_eq_true, if_false]
        constructor
        · intro h; cases m <;> cases h
        · rintro ⟨-, ⟨-, h4⟩ | ⟨-, -, h5⟩⟩
          · exact absurd h4 h2
          · cases h5

/-- one thread never errors -/
theorem one_thread_never_errors (env : Env) (sched : Sched ℝ) (g : Game ℝ) (m : Method) (T : Nat)
    (thr : Option (Ext ℝ)) (params : Option (RegretParams ℝ)) (draw : DrawFn ℝ) :
    ∃ out, gameSolve env sched g m T thr 1 params draw = .ok out := by
  have h1 : env.threads 1 = 1 := by simp [Env.threads]
  simp only [gameSolve, h1, if_true]
  cases m <;> exact ⟨_, rfl⟩

/-- **every solve that returns, returns a well-formed result**: through `Game::solve`, for every
accepted game, every method, every accepted parameter tuple (`none` = the default), every budget,
threshold, thread count, environment, draw oracle and fair schedule -/
theorem solve_wellformed (env : Env) (sched : Sched ℝ) (hs : sched.Fair) (g : Game ℝ)
    (hg : GameWF g) (m : Method) (T : Nat) (thr : Option (Ext ℝ)) (n : Nat)
    (params : Option (RegretParams ℝ)) (hp : ∀ p, params = some p → p.OK) (draw : DrawFn ℝ)
    (out : SolveOut ℝ) (h : gameSolve env sched g m T thr n params draw = .ok out) :
    out.WellFormed g T := by
  have hpo : (params.getD RegretParams.default).OK := by
    cases params with
    | none => exact presets_ok.2.2.2.2.2
    | some p => exact hp p rfl
  cases m with
  | full =>
    have := full_thread_count_invariant env sched hs g T thr n params draw out h
    rw [this]
    exact vanilla_single_wellformed g hg false _ hpo draw T thr
  | sampled =>
    have := sampled_thread_count_invariant env sched hs g hg .sampled (by decide) T thr n params draw out h
    exact wellformed_of_same g T _ _ this (vanilla_single_wellformed g hg true _ hpo draw T thr)
  | external =>
    have := sampled_thread_count_invariant env sched hs g hg .external (by decide) T thr n params draw out h
    exact wellformed_of_same g T _ _ this (external_single_wellformed g hg _ hpo draw T thr)

/-! ## the frontier loops terminate by their own exit condition

The model runs the `while` loops of `thread_threshold` (and `next_nodes`) on a fuel argument.  With
the fuel the solvers pass, additional fuel changes nothing: the loops have already left through
their exit condition, for every tree, target, strategy table and draw oracle — so the totality
of the model does not hide a loop that never ends (`Proofs/Fuel.lean`). -/

theorem frontier_loop_terminates_vanilla (g : Game ℝ) (c : VCtx ℝ) (target extra : Nat) (d : DrawSt ℝ) :
    vThreshold c target (2 * g.root.size + 2 + extra) [⟨[], g.root, 1, 1, 1⟩] [] d
      = vThreshold c target (2 * g.root.size + 2) [⟨[], g.root, 1, 1, 1⟩] [] d :=
  vThreshold_fuel_enough g c target extra d

theorem frontier_loop_terminates_external (g : Game ℝ) (c : ECtx ℝ) (target extra : Nat) (d : DrawSt ℝ) :
    eThreshold c target g.root.size (2 * g.root.size + 2 + extra) [⟨[], g.root⟩] [] d
      = eThreshold c target g.root.size (2 * g.root.size + 2) [⟨[], g.root⟩] [] d :=
  eThreshold_fuel_enough g c target extra d

theorem next_nodes_terminates (c : ECtx ℝ) (n : Node ℝ) (path : Path) (extra : Nat) (d : DrawSt ℝ) :
    eNextNodes c (n.size + extra) n path d = eNextNodes c n.size n path d :=
  eNextNodes_fuel_enough c n path extra d

/-! ## no infoset twice on a path -/

/-! `NoRepeat` and `wf_no_infoset_twice_on_path` live in `Proofs/NoRepeat.lean`; the traversals
with their panics as values (`Model/Checked.lean`) never take the panic branch on an accepted
game (`Proofs/NoPanic.lean`): -/

/-- **`recurse_single` never panics**: no chance or player index is out of bounds and no infoset's
`RefCell` is borrowed twice, for every strategy table, reach, draw oracle and sample cache -/
theorem vanilla_traversal_never_panics (g : Game ℝ) (hg : GameWF g) (c : VCtx ℝ) (pc p1 p2 : ℝ)
    (d : DrawSt ℝ) : vrecK g.sizes c [] g.root pc p1 p2 d = some (vrec c g.root pc p1 p2 d) :=
  vrec_never_panics g hg c pc p1 p2 d

/-- **`recurse_regret` never panics** (single-threaded external sampling; for the multi-threaded
one `try_lock` cannot fail by C07's `active_infoset_visited_once`) -/
theorem external_traversal_never_panics (g : Game ℝ) (hg : GameWF g) (c : ECtx ℝ) (d : DrawSt ℝ) :
    erecK g.sizes c [] g.root d = some (erec c g.root d) :=
  erec_never_panics g hg c d


/-! ## non-vacuity: the hypotheses are satisfiable, the conclusions are not trivially true -/

example : BoundOK (.fin 0) 1 ∧ BoundOK (.fin (1 / 2)) 3 ∧ BoundOK .posInf 0 ∧
    ¬ BoundOK .posInf 1 ∧ ¬ BoundOK (.fin 0) 0 ∧ ¬ BoundOK (.fin (-1)) 1 ∧ ¬ BoundOK .negInf 0 := by
  simp [BoundOK]

example : (⟨.fin 1, .negInf, 3 / 2, .fin (-1)⟩ : RegretParams ℝ).OK ∧
    ¬ (⟨.fin 1, .negInf, -1, .fin (-1)⟩ : RegretParams ℝ).OK := by
  simp only [RegretParams.OK]; norm_num

/-- a coin flip, then matching pennies (player two does not see player one's move) or a draw -/
noncomputable def C05.tinyGame : Game ℝ :=
  ⟨[[1 / 2, 1 / 2]], [⟨0, [0, 1], none⟩], [⟨0, [0, 1], none⟩], [], [],
    .chance 0 [.player true 0 [.player false 0 [.term 1, .term (-1)],
                               .player false 0 [.term (-1), .term 1]], .term 0]⟩

theorem C05.tinyGame_wf : GameWF C05.tinyGame where
  chancePos := by
    intro ps hps
    simp only [C05.tinyGame, List.mem_singleton] at hps
    subst hps
    constructor
    · intro p hp
      simp only [List.mem_cons, List.not_mem_nil, or_false, or_self] at hp
      subst hp; norm_num
    · norm_num
  nodes := by simp [C05.tinyGame, NodeOK, NodeOKL, Game.infos]
  recall := by
    intro me
    refine ⟨fun _ => [], ?_, by simp⟩
    cases me <;> simp [C05.tinyGame, PR, PRL, PRD]
  tables1 := ⟨by simp [C05.tinyGame], by simp [C05.tinyGame], by simp [C05.tinyGame],
    by simp [C05.tinyGame]⟩
  tables2 := ⟨by simp [C05.tinyGame], by simp [C05.tinyGame], by simp [C05.tinyGame],
    by simp [C05.tinyGame]⟩
  actsTwo := by
    intro me e he
    cases me <;> simp only [C05.tinyGame, Game.infos, if_true, Bool.false_eq_true, if_false,
      List.mem_singleton] at he <;> subst he <;> simp

/-- the theorems apply to a concrete game, every preset, any oracle, budget and threshold -/
example (draw : DrawFn ℝ) (T : ℕ) (thr : Option (Ext ℝ)) :
    (solveVanillaSingle C05.tinyGame true RegretParams.dcfr draw T thr).WellFormed C05.tinyGame T ∧
    (solveExternalSingle C05.tinyGame RegretParams.cfrPlus draw T thr).WellFormed C05.tinyGame T ∧
    NoRepeat [] C05.tinyGame.root :=
  ⟨vanilla_single_wellformed _ C05.tinyGame_wf _ _ presets_ok.2.2.2.1 _ _ _,
    external_single_wellformed _ C05.tinyGame_wf _ presets_ok.2.2.1 _ _ _,
    wf_no_infoset_twice_on_path _ C05.tinyGame_wf⟩

/-- `NoRepeat` is not trivially true: a path through the same infoset twice violates it -/
example : ¬ NoRepeat [] (.player true 0 [.player true 0 [.term 0, .term 0], .term (0 : ℝ)]) := by
  simp [NoRepeat, NoRepeatL]

end Cfr
