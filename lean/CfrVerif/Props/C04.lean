import CfrVerif.Proofs.RateSolve
import CfrVerif.Proofs.Unbiased
import CfrVerif.Proofs.UnbiasedExt
import CfrVerif.Props.C05
/-!
# C04 — convergence of the sampled solvers: what is a theorem, and what is not

A theorem (this file), **for every sequence of draws** (the draw oracle is arbitrary), vanilla
parameters, every budget and threshold:

* `sampled_bound_pathwise`, `external_bound_pathwise` : the returned per-player bounds obey the
  CFR rate `2·D·n_p·√A/√T` *pathwise* — regret matching drives the sampled cumulative regrets
  whatever the draws are, because every sampled regret increment is orthogonal to the current
  strategy and bounded by the payoff range.

**Added hypothesis `hdraw`** (both theorems are false without it, see `C04.sampled_needs_hdraw` and
`C04.external_needs_hdraw` below): the draw oracle returns an index *into the weight list it is
given*.  The model lets an oracle answer anything; for an index past the last outcome `vrecNth` /
`erecNth` return the value `0` with no effect (in the crate `chance.outcomes[ind]` would panic), and
`0` need not lie in the payoff range `[lo, hi]`, so a single sampled regret increment can exceed
`hi − lo`.  Every oracle that models a sampler (`WeightedIndex`, the harness's replayed draws)
satisfies `hdraw`.

Not a theorem: that the *true* regret of the returned profile is below `D·N·√A/√T` "with
overwhelming probability" (a martingale concentration statement over the adaptive draw process,
with a sampling-variance factor the property's constant does not carry), and the statement about
the typical regret over a collection of games.  Those two sentences are explored by seeded,
replayable runs of the correspondence check; the claim for C04 is therefore *partial*.
-/
set_option linter.unusedSectionVars false
namespace Cfr

/-- chance-sampled CFR: the bounds obey the CFR rate for every draw sequence -/
theorem sampled_bound_pathwise (g : Game ℝ) (hg : GameWF g) (lo hi : ℝ) (hpay : PayIn lo hi g.root)
    (A : Nat) (hA : ActsLe g A) (draw : DrawFn ℝ)
    (hdraw : ∀ k i pass (ws : List ℝ), ws ≠ [] → draw k i pass ws < ws.length)
    (T : Nat) (thr : Option (Ext ℝ)) :
    RateOK (hi - lo) g.p1.length A (solveVanillaSingle g true RegretParams.vanilla draw T thr).iters
      (solveVanillaSingle g true RegretParams.vanilla draw T thr).regOne ∧
    RateOK (hi - lo) g.p2.length A (solveVanillaSingle g true RegretParams.vanilla draw T thr).iters
      (solveVanillaSingle g true RegretParams.vanilla draw T thr).regTwo :=
  vanilla_rate g hg lo hi hpay A hA true draw (fun _ => hdraw) T thr

/-- external-sampled CFR: the bounds obey the CFR rate for every draw sequence -/
theorem external_bound_pathwise (g : Game ℝ) (hg : GameWF g) (lo hi : ℝ) (hpay : PayIn lo hi g.root)
    (A : Nat) (hA : ActsLe g A) (draw : DrawFn ℝ)
    (hdraw : ∀ k i pass (ws : List ℝ), ws ≠ [] → draw k i pass ws < ws.length)
    (T : Nat) (thr : Option (Ext ℝ)) :
    RateOK (hi - lo) g.p1.length A (solveExternalSingle g RegretParams.vanilla draw T thr).iters
      (solveExternalSingle g RegretParams.vanilla draw T thr).regOne ∧
    RateOK (hi - lo) g.p2.length A (solveExternalSingle g RegretParams.vanilla draw T thr).iters
      (solveExternalSingle g RegretParams.vanilla draw T thr).regTwo :=
  external_rate g hg lo hi hpay A hA draw hdraw T thr

/-! ## `hdraw` is necessary -/

/-- payoffs in `[5, 6]`: player one chooses between a coin flip over `5` / `6` and a sure `5` -/
noncomputable def C04.cexGame : Game ℝ :=
  ⟨[[1 / 2, 1 / 2]], [⟨0, [0, 1], none⟩], [], [], [],
    .player true 0 [.chance 0 [.term 5, .term 6], .term 5]⟩

theorem C04.cexGame_wf : GameWF C04.cexGame where
  chancePos := by
    intro ps hps
    simp only [C04.cexGame, List.mem_singleton] at hps
    subst hps
    constructor
    · intro p hp
      simp only [List.mem_cons, List.not_mem_nil, or_false, or_self] at hp
      subst hp; norm_num
    · norm_num
  nodes := by simp [C04.cexGame, NodeOK, NodeOKL, Game.infos]
  recall := by
    intro me
    refine ⟨fun _ => [], ?_, by simp⟩
    cases me <;> simp [C04.cexGame, PR, PRL, PRD]
  tables1 := ⟨by simp [C04.cexGame], by simp [C04.cexGame], by simp [C04.cexGame],
    by simp [C04.cexGame]⟩
  tables2 := ⟨by simp [C04.cexGame], by simp [C04.cexGame], by simp [C04.cexGame],
    by simp [C04.cexGame]⟩
  actsTwo := by
    intro me e he
    cases me
    · simp [C04.cexGame, Game.infos] at he
    · simp only [C04.cexGame, Game.infos, if_true, List.mem_singleton] at he
      subst he; simp

theorem C04.cexGame_payIn : PayIn 5 6 C04.cexGame.root := by
  simp only [C04.cexGame, PayIn, PayInL]
  norm_num

theorem C04.cexGame_actsLe : ActsLe C04.cexGame 2 := by
  intro me e he
  cases me
  · simp [C04.cexGame, Game.infos] at he
  · simp only [C04.cexGame, Game.infos, if_true, List.mem_singleton] at he
    subst he; simp

theorem C04.five_above_rate : ¬ RateOK (6 - 5) C04.cexGame.p1.length 2 1 (.fin 5) := by
  simp only [RateOK, not_le, C04.cexGame, List.length_singleton, Nat.cast_one, Real.sqrt_one]
  have h2 : Real.sqrt (2 : ℝ) < 2 := by
    rw [Real.sqrt_lt' (by norm_num)]; norm_num
  norm_num
  linarith

/-- with the oracle that always answers `7` the coin flip is sampled out of range, its value
reads `0 ∉ [5, 6]`, and after one iteration player one's bound is `5 > 2·1·1·√2` -/
theorem C04.sampled_needs_hdraw :
    ¬ RateOK (6 - 5) C04.cexGame.p1.length 2
      (solveVanillaSingle C04.cexGame true RegretParams.vanilla (fun _ _ _ _ => 7) 1 none).iters
      (solveVanillaSingle C04.cexGame true RegretParams.vanilla (fun _ _ _ _ => 7) 1 none).regOne := by
  have e1 : (solveVanillaSingle C04.cexGame true RegretParams.vanilla (fun _ _ _ _ => 7) 1
      none).regOne = .fin 5 := by
    simp [solveVanillaSingle, solveWith, solveLoop, vanillaIter, vrec, vrecNth, vrecActs,
      sampleChance, assocGet, SolveSt.init, InfoSt.new, SolveSt.strat, SolveSt.get, stratEffs,
      subEffs, SolveSt.applyEffs, SolveSt.applyEff, SolveSt.set, InfoSt.apply, addAt, advanceAll,
      InfoSt.advance, discountCumRegret, genDiscount, RegretParams.vanilla, cumRegretBound, maxD,
      fmax, two, belowThreshold, C04.cexGame, regretMatch, discountAverageStrat, List.range_succ]
    norm_num
  have e2 : (solveVanillaSingle C04.cexGame true RegretParams.vanilla (fun _ _ _ _ => 7) 1
      none).iters = 1 := by
    simp [solveVanillaSingle, solveWith, solveLoop, belowThreshold]
  rw [e1, e2]
  exact C04.five_above_rate

/-- the same for external sampling -/
theorem C04.external_needs_hdraw :
    ¬ RateOK (6 - 5) C04.cexGame.p1.length 2
      (solveExternalSingle C04.cexGame RegretParams.vanilla (fun _ _ _ _ => 7) 1 none).iters
      (solveExternalSingle C04.cexGame RegretParams.vanilla (fun _ _ _ _ => 7) 1 none).regOne := by
  have e1 : (solveExternalSingle C04.cexGame RegretParams.vanilla (fun _ _ _ _ => 7) 1
      none).regOne = .fin 5 := by
    simp [solveExternalSingle, solveWith, solveLoop, externalIter, externalPass, erec, erecNth,
      erecActs, sampleChance, samplePlayer, assocGet, SolveSt.init, InfoSt.new, SolveSt.strat,
      SolveSt.get, subEffsE, SolveSt.applyEffs, SolveSt.applyEff, SolveSt.set,
      InfoSt.apply, addAt, advanceAll, InfoSt.advance, discountCumRegret, genDiscount,
      RegretParams.vanilla, cumRegretBound, maxD, fmax, two, belowThreshold, C04.cexGame,
      regretMatch, discountAverageStrat, List.range_succ]
    norm_num
  have e2 : (solveExternalSingle C04.cexGame RegretParams.vanilla (fun _ _ _ _ => 7) 1
      none).iters = 1 := by
    simp [solveExternalSingle, solveWith, solveLoop, belowThreshold]
  rw [e1, e2]
  exact C04.five_above_rate

/-! ## the hypotheses are satisfiable (non-vacuity) -/

/-- both theorems apply to a concrete game and a concrete in-range oracle (always the first
outcome), for every budget and threshold -/
example (T : ℕ) (thr : Option (Ext ℝ)) :
    (RateOK (1 - -1) 1 2
      (solveVanillaSingle C05.tinyGame true RegretParams.vanilla (fun _ _ _ _ => 0) T thr).iters
      (solveVanillaSingle C05.tinyGame true RegretParams.vanilla (fun _ _ _ _ => 0) T thr).regOne) ∧
    (RateOK (1 - -1) 1 2
      (solveExternalSingle C05.tinyGame RegretParams.vanilla (fun _ _ _ _ => 0) T thr).iters
      (solveExternalSingle C05.tinyGame RegretParams.vanilla (fun _ _ _ _ => 0) T thr).regTwo) := by
  have hp : PayIn (-1) 1 C05.tinyGame.root := by
    simp only [C05.tinyGame, PayIn, PayInL]; norm_num
  have hA : ActsLe C05.tinyGame 2 := by
    intro me e he
    cases me <;> simp only [C05.tinyGame, Game.infos, if_true, Bool.false_eq_true, if_false,
      List.mem_singleton] at he <;> subst he <;> simp
  have hd : ∀ k i pass (ws : List ℝ), ws ≠ [] → (fun _ _ _ _ => 0 : DrawFn ℝ) k i pass ws
      < ws.length := fun _ _ _ ws h => List.length_pos_of_ne_nil h
  exact ⟨(sampled_bound_pathwise C05.tinyGame C05.tinyGame_wf (-1) 1 hp 2 hA _ hd T thr).1,
    (external_bound_pathwise C05.tinyGame C05.tinyGame_wf (-1) 1 hp 2 hA _ hd T thr).2⟩

/-! ## unbiasedness (proved in `Proofs/Unbiased.lean`) -/

/-- **chance sampling is unbiased for the regrets**: the expectation over the draws of one pass
(explicit finite sum over the product of the declared chance distributions) of what the sampled
traversal adds to any regret accumulator equals what the unsampled traversal adds — the exact
instantaneous counterfactual regret — provided no chance infoset repeats on a path (known
finding F16 otherwise; counterexample in `Proofs/Unbiased.lean`) -/
theorem chance_sampling_unbiased (g : Game ℝ) (hg : GameWF g) (hnr : NoChanceRepeat [] g.root)
    (strat : Bool → Nat → List ℝ) (pass : Nat) (me : Bool) (I a : Nat) :
    expectDraws g.chance 0 (fun _ => 0)
        (fun k => effSum (vrec (sampledCtx g strat pass k) g.root 1 1 1 {}).2.1 me I Slot.regret a)
      = effSum (vrec (fullCtx g strat pass) g.root 1 1 1 {}).2.1 me I Slot.regret a :=
  sampled_pass_unbiased g hg hnr strat pass me I a

/-- **external sampling is unbiased for the updating player's regrets**: the expectation, over the
chance draws (declared probabilities) and the draws at the other player's infosets (that player's
current strategy) of one pass, of what the pass adds to a regret accumulator of the updating
player equals what the unsampled traversal adds -/
theorem external_sampling_unbiased (g : Game ℝ) (hg : GameWF g) (hnr : NoChanceRepeat [] g.root)
    (first : Bool) (strat : Bool → Nat → List ℝ)
    (hs : ∀ j e, (g.infos (!first))[j]? = some e →
      (strat (!first) j).length = e.actions.length ∧ (strat (!first) j).sum = 1)
    (I a : Nat) :
    expectDraws g.chance 0 (fun _ => 0) (fun kc =>
      expectDraws (oppTable g first strat) 0 (fun _ => 0) (fun kp =>
        effSum (erec (extCtx g first strat kc kp) g.root {}).2.1 first I Slot.regret a))
      = effSum (vrec (fullCtx g strat 0) g.root 1 1 1 {}).2.1 first I Slot.regret a :=
  external_pass_unbiased g hg hnr first strat hs I a

end Cfr
