import CfrVerif.Proofs.Rate
import CfrVerif.Proofs.GameWF
/-!
# C04 — convergence of the sampled solvers: what is a theorem, and what is not

A theorem (this file), **for every sequence of draws** (the draw oracle is arbitrary), vanilla
parameters, every budget and threshold:

* `sampled_bound_pathwise`, `external_bound_pathwise` : the returned per-player bounds obey the
  CFR rate `2·D·n_p·√A/√T` *pathwise* — regret matching drives the sampled cumulative regrets
  whatever the draws are, because every sampled regret increment is orthogonal to the current
  strategy and bounded by the payoff range.

Not a theorem: that the *true* regret of the returned profile is below `D·N·√A/√T` "with
overwhelming probability" (a martingale concentration statement over the adaptive draw process,
with a sampling-variance factor the property's constant does not carry), and the statement about
the typical regret over a collection of games.  Those two sentences are explored by seeded,
replayable runs of the correspondence check; the claim for C04 is therefore *partial*.
-/
set_option linter.unusedSectionVars false
namespace Cfr

/-- chance-sampled CFR: the bounds obey the CFR rate for every draw sequence -/
theorem sampled_bound_pathwise (g : Game ℝ) (hg : GameWF g) (lo hi : ℝ) (hpay : PayIn lo hi g.root)
    (A : Nat) (hA : ActsLe g A) (draw : DrawFn ℝ) (T : Nat) (thr : Option (Ext ℝ)) :
    RateOK (hi - lo) g.p1.length A (solveVanillaSingle g true RegretParams.vanilla draw T thr).iters
      (solveVanillaSingle g true RegretParams.vanilla draw T thr).regOne ∧
    RateOK (hi - lo) g.p2.length A (solveVanillaSingle g true RegretParams.vanilla draw T thr).iters
      (solveVanillaSingle g true RegretParams.vanilla draw T thr).regTwo := by
  sorry

/-- external-sampled CFR: the bounds obey the CFR rate for every draw sequence -/
theorem external_bound_pathwise (g : Game ℝ) (hg : GameWF g) (lo hi : ℝ) (hpay : PayIn lo hi g.root)
    (A : Nat) (hA : ActsLe g A) (draw : DrawFn ℝ) (T : Nat) (thr : Option (Ext ℝ)) :
    RateOK (hi - lo) g.p1.length A (solveExternalSingle g RegretParams.vanilla draw T thr).iters
      (solveExternalSingle g RegretParams.vanilla draw T thr).regOne ∧
    RateOK (hi - lo) g.p2.length A (solveExternalSingle g RegretParams.vanilla draw T thr).iters
      (solveExternalSingle g RegretParams.vanilla draw T thr).regTwo := by
  sorry

end Cfr
