import CfrVerif.Model.Solve
import CfrVerif.Model.Vanilla
import CfrVerif.Model.External
import CfrVerif.Model.Parallel
/-!
# C09 — early termination stops exactly at the first iteration below the threshold

All five solver loops of the crate (three single-threaded, two multi-threaded;
external sampling tests after *both* passes) are instances of `solveLoop` with
a different iteration function, and the `break` test never influences the
iteration function.  The theorem is therefore proved once, for every
iteration function, every threshold (NaN = `none`, `±∞`, finite), every
budget, and every scalar type (no arithmetic is involved).
-/
namespace Cfr

variable {α : Type} [Zero α] [One α] [Add α] [Sub α] [Mul α] [Div α] [Neg α]
  [LT α] [DecidableLT α] [BEq α] [NatCast α] [FloatLike α] [Transc α]

/-- does the loop stop right after an iteration that reported `(r1, r2)` -/
def stopsAfter (step : IterFn α) (thr : Option (Ext α)) (it : Nat) (s : SolveSt α)
    (log : List (DrawRec α)) : Bool :=
  belowThreshold (step it s log).2.1 (step it s log).2.2.1 thr

/-- number of iterations the loop actually runs when `n` remain: the first one after which the
total bound is strictly below the threshold, or all `n` -/
def runLength (step : IterFn α) (thr : Option (Ext α)) :
    Nat → Nat → SolveSt α → List (DrawRec α) → Nat
  | 0, _, _, _ => 0
  | n + 1, it, s, log =>
    if stopsAfter step thr it s log then 1
    else 1 + runLength step thr n (it + 1) (step it s log).1 (step it s log).2.2.2

theorem solveLoop_succ (step : IterFn α) (thr : Option (Ext α)) (n it : Nat) (s : SolveSt α)
    (r1 r2 : Ext α) (log : List (DrawRec α)) :
    solveLoop step thr (n + 1) it s r1 r2 log =
      if belowThreshold (step it s log).2.1 (step it s log).2.2.1 thr = true then
        ⟨.fin (step it s log).2.1, .fin (step it s log).2.2.1, (step it s log).1.avg true,
          (step it s log).1.avg false, it, (step it s log).2.2.2⟩
      else solveLoop step thr n (it + 1) (step it s log).1 (.fin (step it s log).2.1)
        (.fin (step it s log).2.2.1) (step it s log).2.2.2 := by
  rw [solveLoop]

/-- **threshold = prefix** : a run with threshold `thr` and `n` remaining iterations returns
exactly what the run without threshold returns with `runLength` remaining iterations. -/
theorem solveLoop_threshold_eq_prefix (step : IterFn α) (thr : Option (Ext α)) :
    ∀ (n it : Nat) (s : SolveSt α) (r1 r2 : Ext α) (log : List (DrawRec α)),
      solveLoop step thr n it s r1 r2 log
        = solveLoop step none (runLength step thr n it s log) it s r1 r2 log := by
  intro n
  induction n with
  | zero => intro it s r1 r2 log; simp [runLength, solveLoop]
  | succ n ih =>
    intro it s r1 r2 log
    have hn : ∀ a b, belowThreshold a b (none : Option (Ext α)) = false := fun _ _ => rfl
    by_cases hb : stopsAfter step thr it s log = true
    · have hr : runLength step thr (n + 1) it s log = 1 := by simp [runLength, hb]
      have hb2 : belowThreshold (step it s log).2.1 (step it s log).2.2.1 thr = true := hb
      rw [hr, solveLoop_succ, solveLoop_succ, if_pos hb2, hn]
      simp [solveLoop]
    · have hb' : stopsAfter step thr it s log = false := by simpa using hb
      have hr : runLength step thr (n + 1) it s log
          = runLength step thr n (it + 1) (step it s log).1 (step it s log).2.2.2 + 1 := by
        simp [runLength, hb', Nat.add_comm]
      rw [hr, solveLoop_succ, solveLoop_succ, hn]
      simp only [stopsAfter] at hb'
      simp only [hb', Bool.false_eq_true, if_false]
      exact ih _ _ _ _ _

/-- the budget is never exceeded -/
theorem runLength_le (step : IterFn α) (thr : Option (Ext α)) :
    ∀ (n it : Nat) (s : SolveSt α) (log : List (DrawRec α)), runLength step thr n it s log ≤ n := by
  intro n
  induction n with
  | zero => intro it s log; simp [runLength]
  | succ n ih =>
    intro it s log
    rw [runLength]
    split
    · omega
    · have := ih (it + 1) (step it s log).1 (step it s log).2.2.2
      omega

/-- the un-thresholded loop runs its whole budget and reports its length -/
theorem solveLoop_none_iters (step : IterFn α) :
    ∀ (n it : Nat) (s : SolveSt α) (r1 r2 : Ext α) (log : List (DrawRec α)),
      (solveLoop step none n it s r1 r2 log).iters = it + n - 1 := by
  intro n
  induction n with
  | zero => intro it s r1 r2 log; simp [solveLoop]
  | succ n ih =>
    intro it s r1 r2 log
    have hn : ∀ a b, belowThreshold a b (none : Option (Ext α)) = false := fun _ _ => rfl
    rw [solveLoop_succ, hn]
    simp only [Bool.false_eq_true, if_false]
    rw [ih]; omega

/-- a NaN threshold never shortens a run -/
theorem nan_threshold_never_stops (step : IterFn α) (n it : Nat) (s : SolveSt α)
    (log : List (DrawRec α)) : runLength step none n it s log = n := by
  induction n generalizing it s log with
  | zero => simp [runLength]
  | succ n ih => simp [runLength, stopsAfter, belowThreshold, ih]; omega

/-- a threshold of `-∞` never shortens a run -/
theorem neg_inf_threshold_never_stops (step : IterFn α) (n it : Nat) (s : SolveSt α)
    (log : List (DrawRec α)) : runLength step (some .negInf) n it s log = n := by
  induction n generalizing it s log with
  | zero => simp [runLength]
  | succ n ih => simp [runLength, stopsAfter, belowThreshold, Ext.lt, ih]; omega

/-- if the loop ran fewer iterations than its budget, the bounds it returns are below the
threshold (they are the bounds of the iteration it stopped after) -/
theorem stopped_early_below_threshold (step : IterFn α) (thr : Option (Ext α)) :
    ∀ (n it : Nat) (s : SolveSt α) (r1 r2 : Ext α) (log : List (DrawRec α)),
      runLength step thr n it s log < n →
      ∃ b1 b2, (solveLoop step thr n it s r1 r2 log).regOne = .fin b1 ∧
        (solveLoop step thr n it s r1 r2 log).regTwo = .fin b2 ∧ belowThreshold b1 b2 thr = true := by
  intro n
  induction n with
  | zero => intro it s r1 r2 log h; simp [runLength] at h
  | succ n ih =>
    intro it s r1 r2 log h
    by_cases hb : stopsAfter step thr it s log = true
    · have hb2 : belowThreshold (step it s log).2.1 (step it s log).2.2.1 thr = true := hb
      rw [solveLoop_succ, if_pos hb2]
      exact ⟨_, _, rfl, rfl, hb2⟩
    · have hb' : stopsAfter step thr it s log = false := by simpa using hb
      have hr : runLength step thr (n + 1) it s log
          = runLength step thr n (it + 1) (step it s log).1 (step it s log).2.2.2 + 1 := by
        simp [runLength, hb', Nat.add_comm]
      simp only [stopsAfter] at hb'
      rw [solveLoop_succ]
      simp only [hb', Bool.false_eq_true, if_false]
      exact ih _ _ _ _ _ (by omega)

/-! ## the five solvers -/

/-- budget `t*` of the equivalent un-thresholded run -/
def tstar (g : Game α) (step : IterFn α) (maxIter : Nat) (thr : Option (Ext α)) : Nat :=
  runLength step thr maxIter 1 (SolveSt.init g) []

theorem solveWith_threshold_eq_prefix (g : Game α) (step : IterFn α) (N : Nat) (thr : Option (Ext α)) :
    solveWith g step N thr = solveWith g step (tstar g step N thr) none :=
  solveLoop_threshold_eq_prefix step thr N 1 _ _ _ _

theorem tstar_le (g : Game α) (step : IterFn α) (N : Nat) (thr : Option (Ext α)) :
    tstar g step N thr ≤ N := runLength_le step thr N 1 _ _

/-- Full / chance-sampled, one thread -/
theorem vanilla_single_threshold_eq_prefix (g : Game α) (sampled : Bool) (p : RegretParams α)
    (draw : DrawFn α) (N : Nat) (thr : Option (Ext α)) :
    solveVanillaSingle g sampled p draw N thr
      = solveVanillaSingle g sampled p draw (tstar g (vanillaIter g sampled p draw) N thr) none :=
  solveWith_threshold_eq_prefix g _ N thr

/-- external sampling, one thread -/
theorem external_single_threshold_eq_prefix (g : Game α) (p : RegretParams α)
    (draw : DrawFn α) (N : Nat) (thr : Option (Ext α)) :
    solveExternalSingle g p draw N thr
      = solveExternalSingle g p draw (tstar g (externalIter g p draw) N thr) none :=
  solveWith_threshold_eq_prefix g _ N thr

/-- Full / chance-sampled, frontier + tasks + cached traversal -/
theorem vanilla_multi_threshold_eq_prefix (g : Game α) (sampled : Bool) (p : RegretParams α)
    (draw : DrawFn α) (N : Nat) (thr : Option (Ext α)) (target : Nat) :
    solveVanillaMulti g sampled p draw N thr target
      = solveVanillaMulti g sampled p draw
          (tstar g (vanillaMultiIter g sampled p draw target) N thr) none target :=
  solveWith_threshold_eq_prefix g _ N thr

/-- external sampling, frontier + tasks + cached traversal -/
theorem external_multi_threshold_eq_prefix (g : Game α) (p : RegretParams α)
    (draw : DrawFn α) (N : Nat) (thr : Option (Ext α)) (target : Nat) :
    solveExternalMulti g p draw N thr target
      = solveExternalMulti g p draw (tstar g (externalMultiIter g p draw target) N thr) none target :=
  solveWith_threshold_eq_prefix g _ N thr

/-! ## non-vacuity: a concrete iteration function whose "bounds" fall below the threshold after
the third iteration — `runLength` is neither `0` nor the budget, and the two runs coincide -/

section Example
local instance : FloatLike Int := ⟨fun _ => true, fun _ => false⟩
local instance : Transc Int := ⟨id, id, id, fun x _ => x, 0⟩

def exStep : IterFn Int := fun it s log => (s, 10 - 3 * (it : Int), 0, log)

example : runLength exStep (some (.fin 2)) 7 1 ⟨[], []⟩ [] = 3 := by decide
example : (solveLoop exStep (some (.fin 2)) 7 1 ⟨[], []⟩ .posInf .posInf []).iters = 3 := by decide
example : (solveLoop exStep none 3 1 ⟨[], []⟩ .posInf .posInf []).iters = 3 := by decide
end Example

end Cfr
