import CfrVerif.Proofs.Frontier
import CfrVerif.Proofs.FrontierExt
import CfrVerif.Proofs.GameWF
import CfrVerif.Proofs.LocksWide
import CfrVerif.Proofs.LocksPerm
import CfrVerif.Proofs.LocksVanillaPerm
import CfrVerif.Proofs.LocksVanillaRun
--! audit CfrVerif/Proofs/LocksVanilla.lean
--! audit CfrVerif/Proofs/LocksVanillaPerm.lean
--! audit CfrVerif/Proofs/LocksVanillaRun.lean
--! audit CfrVerif/Proofs/Locks.lean
--! audit CfrVerif/Proofs/LocksCheck.lean
--! audit CfrVerif/Proofs/LocksWide.lean
--! audit CfrVerif/Proofs/LocksPerm.lean
/-!
# C07 — the sampled solvers are thread-count invariant once the random choices are fixed

The draw oracle `draw : (kind, infoset, pass, weights) ↦ index` *is* "the outcome drawn at each
chance infoset and the action drawn at each opponent infoset in each pass, held fixed".  With it
the chance-sampled and the external-sampled multi-threaded solvers return, for every task target
and every fair schedule, the strategies, bounds and iteration count of the single-threaded
solvers, and make the same draws (as a multiset: the order in which workers reach an infoset
first is up to the schedule).

"Never fails because two workers meet at one infoset" is proved twice: as a count of visits
(`active_infoset_visited_once` below) and, in `Proofs/Locks.lean` (audited with this property),
over the interleaving model of the pool's mutexes (`Model/Locks.lean`): in every configuration
any thread schedule can reach, no `try_lock().unwrap()` finds its mutex held
(`external_workers_never_meet`, `external_closing_never_panics`), no configuration is a deadlock
and every schedule ends (`external_pool_never_deadlocks`).

For the chance-sampled method "visits exactly the sampled part of the tree once per pass" is also
a count: the frontier's tasks and the closing recursion together update the average strategy of
every infoset (take its mutex) exactly once per node of the infoset on the sampled part of the tree,
for every task target (`vanilla_multi_locks_eq_visits_run` for every accepted game and well-formed solver state, from `vanilla_multi_locks_eq_visits`, `vtrace_acqCount` in
`Proofs/LocksVanilla*.lean`, audited with this property), and no schedule of those mutex operations
panics or deadlocks (`vanilla_pool_never_deadlocks`).
-/
set_option linter.unusedSectionVars false
namespace Cfr
variable {α : Type} [Field α] [LinearOrder α] [IsStrictOrderedRing α] [Transc α]

/-- chance-sampled: multi = single for every target and every fair schedule -/
theorem sampled_multi_eq_single (sched : Sched α) (hs : sched.Fair) (g : Game α)
    (p : RegretParams α) (draw : DrawFn α) (T : Nat) (thr : Option (Ext α)) (target : Nat) :
    (solveVanillaMultiS sched g true p draw T thr target).Same
      (solveVanillaSingle g true p draw T thr) := by
  unfold solveVanillaMultiS solveVanillaSingle solveWith
  refine Van.solveLoop_same _ _ thr ?_ T 1 _ _ _ [] [] (List.Perm.refl _)
  intro it s log log' hl
  obtain ⟨h1, h2, h3, h4, -⟩ := Van.vanillaMultiIterS_rel sched hs g true p draw target it s log log'
  exact ⟨h1, h2, h3, h4 hl⟩

/-- external-sampled: multi = single for every target and every fair schedule.

**Hypothesis `hg : GameWF g` added** (only `hg.nodes`, the arity part, is used): `next_nodes`
hands *all* children of a node of the updating player to the frontier, while the traversal visits
one child per entry of the infoset's strategy vector; in a game where a node has more children
than its infoset has actions (never produced by `Game::from_root`) the surplus children become
tasks whose traversals the single-threaded pass never makes — see the counterexample below. -/
theorem external_multi_eq_single (sched : Sched α) (hs : sched.Fair) (g : Game α) (hg : GameWF g)
    (p : RegretParams α) (draw : DrawFn α) (T : Nat) (thr : Option (Ext α)) (target : Nat) :
    (solveExternalMultiS sched g p draw T thr target).Same
      (solveExternalSingle g p draw T thr) :=
  solveExternalMultiS_same sched hs g hg.nodes p draw T thr target

section Counterexample
/-! Why `GameWF` is needed in `external_multi_eq_single`: infoset `0` of player one has two
actions but the root (of that infoset) has three children.  With task target `6` (two threads)
the third child's subtree is expanded by `thread_threshold`, the node `y0` ends up in the drained
queue and its task accumulates regrets at infoset `0` that the single-threaded pass never sees. -/

local instance : Transc ℚ := ⟨id, id, id, fun x _ => x, 0⟩

private def cexY0 : Node ℚ := .player true 0 [.term 5, .term 0]
private def cexY1 : Node ℚ := .player true 2 [.term 0, .term 0, .term 0, .term 0, .term 0]
private def cexRoot : Node ℚ :=
  .player true 0 [.term 1, .term 1, .player true 1 [cexY0, cexY1]]
private def cexGame : Game ℚ :=
  ⟨[], [⟨0, [0, 1], none⟩, ⟨1, [0, 1], none⟩, ⟨2, [0, 1, 2, 3, 4], none⟩], [], [], [], cexRoot⟩

example :
    (solveExternalMultiS Sched.seq cexGame RegretParams.vanilla (fun _ _ _ _ => 0) 1 none 6).regOne
      = .fin 5 ∧
    (solveExternalSingle cexGame RegretParams.vanilla (fun _ _ _ _ => 0) 1 none).regOne = .fin 0 ∧
    (solveExternalMultiS Sched.seq cexGame RegretParams.vanilla (fun _ _ _ _ => 0) 1 none 6).stratOne
      ≠ (solveExternalSingle cexGame RegretParams.vanilla (fun _ _ _ _ => 0) 1 none).stratOne := by
  decide +kernel

end Counterexample

theorem SolveOut.Same.refl (o : SolveOut α) : o.Same o :=
  ⟨rfl, rfl, rfl, rfl, rfl, List.Perm.refl _⟩

/-- through `Game::solve`, both sampled methods (well-formedness is needed for the external
method only, see the counterexample above) -/
theorem sampled_thread_count_invariant (env : Env) (sched : Sched α) (hs : sched.Fair) (g : Game α)
    (hg : GameWF g)
    (m : Method) (hm : m ≠ .full) (T : Nat) (thr : Option (Ext α)) (threads : Nat)
    (params : Option (RegretParams α)) (draw : DrawFn α) (out : SolveOut α)
    (h : gameSolve env sched g m T thr threads params draw = .ok out) :
    out.Same (match m with
      | .external => solveExternalSingle g (params.getD RegretParams.default) draw T thr
      | _ => solveVanillaSingle g true (params.getD RegretParams.default) draw T thr) := by
  unfold gameSolve at h
  by_cases h1 : env.threads threads = 1
  · simp only [h1, if_true] at h
    cases m with
    | full => exact absurd rfl hm
    | sampled => simp only [Except.ok.injEq] at h; subst h; exact SolveOut.Same.refl _
    | external => simp only [Except.ok.injEq] at h; subst h; exact SolveOut.Same.refl _
  · simp only [h1, if_false] at h
    by_cases h2 : env.usizeMax < 3 * env.threads threads
    · simp [h2] at h
    · simp only [h2, if_false] at h
      by_cases h3 : (!env.spawnOk (env.threads threads)) = true
      · simp [h3] at h
      · simp only [h3] at h
        cases m with
        | full => exact absurd rfl hm
        | sampled =>
          simp only [Bool.false_eq_true, if_false, Except.ok.injEq] at h; subst h
          exact sampled_multi_eq_single sched hs g _ draw T thr _
        | external =>
          simp only [Bool.false_eq_true, if_false, Except.ok.injEq] at h; subst h
          exact external_multi_eq_single sched hs g hg _ draw T thr _

/-- **two workers never meet at one infoset** (`try_lock().unwrap()` in `external.rs`): in a
well-formed game (perfect recall) one external-sampling pass visits every infoset of the updating
player at most once — a visit to infoset `i` performs exactly two accumulations on regret slot `0`
of `i` (the action's utility, then minus the expectation) -/
theorem active_infoset_visited_once (g : Game α) (hg : GameWF g) (c : ECtx α) (d : DrawSt α)
    (i : Nat) :
    (((erec c g.root d).2.1).filter
      (fun e => e.one == c.first && e.info == i && e.slot == Slot.regret && e.act == 0)).length ≤ 2 := by
  obtain ⟨hist, hpr, -⟩ := hg.recall c.first
  rw [← List.countP_eq_length_filter]
  exact erec_hit_le_two c hist i g.root d hpr

end Cfr
