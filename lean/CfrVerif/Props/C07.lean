import CfrVerif.Proofs.Frontier
import CfrVerif.Proofs.FrontierExt
import CfrVerif.Proofs.GameWF
/-!
# C07 — the sampled solvers are thread-count invariant once the random choices are fixed

The draw oracle `draw : (kind, infoset, pass, weights) ↦ index` *is* "the outcome drawn at each
chance infoset and the action drawn at each opponent infoset in each pass, held fixed".  With it
the chance-sampled and the external-sampled multi-threaded solvers return, for every task target
and every fair schedule, the strategies, bounds and iteration count of the single-threaded
solvers, and make the same draws (as a multiset: the order in which workers reach an infoset
first is up to the schedule).
-/
set_option linter.unusedSectionVars false
namespace Cfr
variable {α : Type} [Field α] [LinearOrder α] [IsStrictOrderedRing α] [Transc α]

/-- chance-sampled: multi = single for every target and every fair schedule -/
theorem sampled_multi_eq_single (sched : Sched α) (hs : sched.Fair) (g : Game α)
    (p : RegretParams α) (draw : DrawFn α) (T : Nat) (thr : Option (Ext α)) (target : Nat) :
    (solveVanillaMultiS sched g true p draw T thr target).Same
      (solveVanillaSingle g true p draw T thr) := by
  unfold solveVanillaMultiS solveVanillaSingle solveWith
  refine Van.solveLoop_same _ _ thr ?_ T 1 _ _ _ [] [] (List.Perm.refl _)
  intro it s log log' hl
  obtain ⟨h1, h2, h3, h4, -⟩ := Van.vanillaMultiIterS_rel sched hs g true p draw target it s log log'
  exact ⟨h1, h2, h3, h4 hl⟩

/-- external-sampled: multi = single for every target and every fair schedule -/
theorem external_multi_eq_single (sched : Sched α) (hs : sched.Fair) (g : Game α)
    (p : RegretParams α) (draw : DrawFn α) (T : Nat) (thr : Option (Ext α)) (target : Nat) :
    (solveExternalMultiS sched g p draw T thr target).Same
      (solveExternalSingle g p draw T thr) := by
  sorry

/-- through `Game::solve`, both sampled methods -/
theorem sampled_thread_count_invariant (env : Env) (sched : Sched α) (hs : sched.Fair) (g : Game α)
    (m : Method) (hm : m ≠ .full) (T : Nat) (thr : Option (Ext α)) (threads : Nat)
    (params : Option (RegretParams α)) (draw : DrawFn α) (out : SolveOut α)
    (h : gameSolve env sched g m T thr threads params draw = .ok out) :
    out.Same (match m with
      | .external => solveExternalSingle g (params.getD RegretParams.default) draw T thr
      | _ => solveVanillaSingle g true (params.getD RegretParams.default) draw T thr) := by
  sorry

/-- **two workers never meet at one infoset** (`try_lock().unwrap()` in `external.rs`): in a
well-formed game (perfect recall) one external-sampling pass visits every infoset of the updating
player at most once — a visit to infoset `i` performs exactly two accumulations on regret slot `0`
of `i` (the action's utility, then minus the expectation) -/
theorem active_infoset_visited_once (g : Game α) (hg : GameWF g) (c : ECtx α) (d : DrawSt α)
    (i : Nat) :
    (((erec c g.root d).2.1).filter
      (fun e => e.one == c.first && e.info == i && e.slot == Slot.regret && e.act == 0)).length ≤ 2 := by
  sorry

end Cfr
