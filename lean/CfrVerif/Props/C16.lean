import CfrVerif.Proofs.CliLemmas
import CfrVerif.Props.C06
import CfrVerif.Proofs.CliTwin
/-!
# C16 — the options and input formats of the command-line program mean what the help text says

* the method, preset, budget (`0` = unlimited), threshold and parallelism options are passed to
  the library's `solve` as documented, and nothing else influences the solve;
* with the deterministic method the result does not depend on the thread count;
* the input route (stdin / file, explicit / auto-detected format, file extension) only selects
  the parser: every route that reads a given valid file with the right parser loads the same game;
* the clip step prints the pruned profile exactly when its regret is strictly lower.
* a JSON and a Gambit encoding of the same game (`Twin`: one tree is the other renamed, with
  rescaled chance weights and payoffs shifted by the constant-sum offset) give the same strategies
  up to the renaming, the same regrets, the same player-one utility; player two's printed utility
  differs by the constant `2·sum` the JSON format cannot express (`cli_json_gambit_twins`).
(The output destination is not in the model: the same `Output` record is serialised to stdout or
to the file.)
-/
set_option linter.unusedSectionVars false
namespace Cfr

/-- **the program is the library solve with the mapped options, then the clip step** -/
theorem cli_is_library_solve (env : Env) (sched : Sched ℝ) (draw : DrawFn ℝ) (numName : Nat → Nat)
    (o : CliOpts ℝ) (fmt : InputFormat) (kind : InputKind) (p : Parsed ℝ) (out : CliOut ℝ) :
    cliMain env sched draw numName o fmt kind p = .ok out ↔
      ∃ g sum sol, loadGame numName fmt kind p = .ok (g, sum) ∧
        gameSolve env sched g o.method (if o.maxIters = 0 then u64Max else o.maxIters) o.maxRegret
          o.parallel (some o.discount.intoParams) draw = .ok sol ∧
        report g sum o.clipThreshold sol.stratOne sol.stratTwo = .ok out := by
  constructor
  · intro h
    exact CliP.cliMain_ok h
  · rintro ⟨g, sum, sol, hl, hsol, hr⟩
    unfold cliMain
    rw [hl]
    simp only
    unfold runGame CliOpts.iters
    rw [hsol]
    exact hr

/-- the presets the `--discount` values denote -/
theorem cli_discount_table :
    (Discount.vanilla.intoParams : RegretParams ℝ) = RegretParams.vanilla ∧
    (Discount.lcfr.intoParams : RegretParams ℝ) = RegretParams.lcfr ∧
    (Discount.cfrPlus.intoParams : RegretParams ℝ) = RegretParams.cfrPlus ∧
    (Discount.dcfr.intoParams : RegretParams ℝ) = RegretParams.dcfr ∧
    (Discount.dcfrPrune.intoParams : RegretParams ℝ) = RegretParams.dcfrPrune :=
  ⟨rfl, rfl, rfl, rfl, rfl⟩

/-- **with the deterministic method the thread count is only a performance setting**: two runs
that differ only in `--parallel` (and in the schedule of the worker threads) and both succeed
print the same object -/
theorem cli_full_thread_invariant (env : Env) (sched sched' : Sched ℝ) (hs : sched.Fair)
    (hs' : sched'.Fair) (draw : DrawFn ℝ) (numName : Nat → Nat) (o : CliOpts ℝ)
    (hm : o.method = .full) (par' : Nat) (fmt : InputFormat) (kind : InputKind) (p : Parsed ℝ)
    (out out' : CliOut ℝ)
    (h : cliMain env sched draw numName o fmt kind p = .ok out)
    (h' : cliMain env sched' draw numName { o with parallel := par' } fmt kind p = .ok out') :
    out = out' := by
  obtain ⟨g, sum, sol, hl, hsol, hr⟩ := CliP.cliMain_ok h
  obtain ⟨g', sum', sol', hl', hsol', hr'⟩ := CliP.cliMain_ok h'
  rw [hl] at hl'
  cases hl'
  have hsol1 : gameSolve env sched g .full o.iters o.maxRegret o.parallel
      (some o.discount.intoParams) draw = .ok sol := by rw [← hm]; exact hsol
  have hsol2 : gameSolve env sched' g .full o.iters o.maxRegret par'
      (some o.discount.intoParams) draw = .ok sol' := by rw [← hm]; exact hsol'
  have hr2 : report g sum o.clipThreshold sol'.stratOne sol'.stratTwo = .ok out' := hr'
  have e1 := full_thread_count_invariant env sched hs g _ _ _ _ draw sol hsol1
  have e2 := full_thread_count_invariant env sched' hs' g _ _ _ _ draw sol' hsol2
  rw [← e2] at e1
  subst e1
  rw [hr] at hr2
  cases hr2
  rfl

/-- **input routes**: a file only the JSON parser accepts loads the same game through every
route that is not forced to Gambit; a file only the Gambit parser accepts loads the same game
through every route that is not forced to JSON and does not carry a `.json` name -/
theorem cli_route_independent (numName : Nat → Nat) (p : Parsed ℝ) :
    (∀ s, p.json = some s →
      ∀ fmt kind, fmt ≠ .gambit → ¬ (kind = .dotEfg ∧ fmt = .auto) →
        loadGame numName fmt kind p = jsonFromState s) ∧
    (∀ f, p.json = none → p.gambit = some f →
      ∀ fmt kind, fmt ≠ .json → ¬ (kind = .dotJson ∧ fmt = .auto) →
        loadGame numName fmt kind p = gambitFromAst numName f) := by
  constructor
  · intro s hs fmt kind hf hk
    cases fmt <;> cases kind <;>
      simp_all [loadGame, jsonFromReader, autoFromReader]
  · intro f hj hg fmt kind hf hk
    cases fmt <;> cases kind <;>
      simp_all [loadGame, gambitFromReader, autoFromReader]

/-- **the clip step**: the pruned profile is printed exactly when its total regret is strictly
lower than that of the unpruned one -/
theorem cli_clip_rule (g : Game ℝ) (sum clip : ℝ) (one two : Strat ℝ) :
    report g sum clip one two =
      if (getInfo g (fun p => if p then truncate clip one else truncate clip two)).regret
          < (getInfo g (fun p => if p then one else two)).regret
      then assemble g sum (getInfo g (fun p => if p then truncate clip one else truncate clip two))
        (truncate clip one) (truncate clip two)
      else assemble g sum (getInfo g (fun p => if p then one else two)) one two := rfl

/-! ## non-vacuity -/

/-- the hypotheses of `cli_full_thread_invariant` are satisfiable: on a machine that can spawn
threads the deterministic method prints a result with one thread and with two, under any two fair
schedules -/
example (sched sched' : Sched ℝ) (hs : sched.Fair) (hs' : sched'.Fair) (draw : DrawFn ℝ) (x : ℝ) :
    let env : Env := ⟨1000, none, fun _ => true⟩
    let o : CliOpts ℝ := ⟨0, none, 3, 1, .full, .dcfr⟩
    let p : Parsed ℝ := ⟨some (.terminal x), none⟩
    ∃ out out', cliMain env sched draw id o .json .stdin p = .ok out ∧
      cliMain env sched' draw id { o with parallel := 2 } .json .stdin p = .ok out' ∧ out = out' := by
  intro env o p
  have hl : loadGame id .json .stdin p = .ok (⟨[], [], [], [], [], .term x⟩, 0) := by
    simp [p, loadGame, jsonFromReader, jsonFromState, JState.toRaw, fromRootCli, fromRoot, compile]
  obtain ⟨out, h⟩ := CliP.cliMain_succeeds (o := o) (env := env) hs (draw := draw) hl
    (by simp [gameSolve, Env.threads, o]; exact rfl)
  obtain ⟨out', h'⟩ := CliP.cliMain_succeeds (o := { o with parallel := 2 }) (env := env) hs'
    (draw := draw) hl (by simp [gameSolve, Env.threads, env, o]; exact rfl)
  exact ⟨out, out', h, h', cli_full_thread_invariant env sched sched' hs hs' draw id o rfl 2
    .json .stdin p out out' h h'⟩

/-- both halves of `cli_route_independent` have instances -/
example : ∃ p : Parsed ℝ, ∃ s, p.json = some s := ⟨⟨some (.terminal 0), none⟩, _, rfl⟩
example : ∃ p : Parsed ℝ, ∃ f, p.json = none ∧ p.gambit = some f :=
  ⟨⟨none, some ⟨2, .term 2 [1, 1]⟩⟩, _, rfl, rfl⟩

/-- **a JSON and a Gambit encoding of the same game give the same solution** -/
theorem cli_json_gambit_twins (ρ : Renaming) (sum : ℝ) (rj rg : Raw ℝ) (ht : Twin ρ sum rj rg)
    (hs : Raw.Shape rj) (gj : Game ℝ) (hj : fromRoot rj = .ok gj) (p : RegretParams ℝ)
    (draw : DrawFn ℝ) (T : Nat) (thr : Option (Ext ℝ)) :
    ∃ gg, fromRoot rg = .ok gg ∧
      gg.p1 = gj.p1.map (PInfo.rename ρ true) ∧ gg.p2 = gj.p2.map (PInfo.rename ρ false) ∧
      solveVanillaSingle gg false p draw T thr = solveVanillaSingle gj false p draw T thr ∧
      ∀ σ : Profile ℝ, ProfileOK gj σ →
        (getInfo gg σ).util + sum = (getInfo gj σ).util ∧
        (getInfo gg σ).regretOne = (getInfo gj σ).regretOne ∧
        (getInfo gg σ).regretTwo = (getInfo gj σ).regretTwo :=
  json_gambit_same_solution ρ sum rj rg ht hs gj hj p draw T thr

end Cfr
