import CfrVerif.Proofs.Dist
import CfrVerif.Model.Named
import CfrVerif.Model.Vanilla
import CfrVerif.Model.External
/-!
# C10 — sampling follows the declared distributions and is shared per chance infoset

* the categorical sampler as a function of its uniform variate (all weight vectors, all variates);
* the draw discipline of the three solvers, read off the draw log the model keeps
  (`DrawSt.log`, newest first): which sites draw, with which weights, how often.
-/
set_option linter.unusedSectionVars false
namespace Cfr

/-! ## the categorical sampler -/
section Sampler
variable {α : Type} [Field α] [LinearOrder α] [IsStrictOrderedRing α]

/-- partial sums `c_k = w_0 + … + w_{k-1}` -/
def cum (l : List α) (k : Nat) : α := (l.take k).sum

/-- `Multinomial::sample` returns index `k` exactly when the variate lies in the `k`-th
cumulative interval of all but the last weight: `c_k < u ≤ c_{k+1}` (for `k = 0` the lower
end is open to the left: every `u ≤ c_1` gives `0`; for the last index there is no upper end).
Holds for every list of non-negative weights (their sum is irrelevant) and every `u`. -/
theorem multinomial_interval (probs : List α) (u : α) (hp : ∀ x ∈ probs, 0 ≤ x) (k : Nat) :
    multinomialSample probs u = k ↔
      k ≤ probs.dropLast.length ∧ (0 < k → cum probs.dropLast k < u) ∧
        (k < probs.dropLast.length → u ≤ cum probs.dropLast (k + 1)) := by
  sorry

/-- the result is always a valid index (for a non-empty weight vector) -/
theorem multinomial_lt_length (probs : List α) (u : α) (hne : probs ≠ []) :
    multinomialSample probs u < probs.length := by
  sorry

/-- non-vacuity: weights `[1/4, 1/2, 1/4]`, variate `1/2` lies in `(1/4, 3/4]` -/
example : multinomialSample ([1/4, 1/2, 1/4] : List ℚ) (1/2) = 1 := by
  norm_num [multinomialSample, multinomialSample.go, List.dropLast]

end Sampler

/-! ## draw discipline -/
section Draws
variable {α : Type} [Zero α] [One α] [Add α] [Sub α] [Mul α] [Div α] [Neg α]
  [LT α] [DecidableLT α] [BEq α] [NatCast α] [FloatLike α] [Transc α]

/-- a cached sample is reused: a second request for the same chance infoset in the same pass
makes no draw and returns the cached outcome -/
theorem sampleChance_cached (draw : DrawFn α) (pass : Nat) (probs : List α) (i k : Nat)
    (d : DrawSt α) (h : assocGet d.chance i = some k) :
    sampleChance draw pass probs i d = (k, d) := by
  sorry

/-- after a request the outcome is cached, so every later chance node of that infoset follows it -/
theorem sampleChance_caches (draw : DrawFn α) (pass : Nat) (probs : List α) (i : Nat) (d : DrawSt α) :
    assocGet (sampleChance draw pass probs i d).2.chance i = some (sampleChance draw pass probs i d).1 := by
  sorry

/-- a fresh draw asks the oracle with the declared weights and logs exactly that -/
theorem sampleChance_fresh (draw : DrawFn α) (pass : Nat) (probs : List α) (i : Nat)
    (d : DrawSt α) (h : assocGet d.chance i = none) :
    (sampleChance draw pass probs i d).1 = draw 0 i pass probs ∧
    (sampleChance draw pass probs i d).2.log = ⟨0, i, pass, probs, draw 0 i pass probs⟩ :: d.log := by
  sorry

/-- what a well-formed log entry of a vanilla traversal looks like: a chance draw (kind `0`)
of this pass, with the infoset's declared (normalised) probabilities, answered by the oracle -/
def VDrawOk (c : VCtx α) (r : DrawRec α) : Prop :=
  r.kind = 0 ∧ r.pass = c.pass ∧ r.weights = c.ch.getD r.id [] ∧
    r.result = c.draw 0 r.id c.pass r.weights

/-- the log only grows, and every entry a vanilla traversal adds is a chance draw with the
declared weights; the unsampled method adds nothing at all -/
theorem vrec_log (c : VCtx α) (n : Node α) (pc p1 p2 : α) (d : DrawSt α) :
    ∃ new, (vrec c n pc p1 p2 d).2.2.log = new ++ d.log ∧ (∀ r ∈ new, VDrawOk c r) ∧
      (c.sampled = false → new = []) := by
  sorry

/-- **one draw per chance infoset and pass**: the infosets drawn by a traversal are pairwise
distinct and none of them had a cached sample before; cached samples are never changed -/
theorem vrec_one_draw_per_infoset (c : VCtx α) (n : Node α) (pc p1 p2 : α) (d : DrawSt α) :
    ∃ new, (vrec c n pc p1 p2 d).2.2.log = new ++ d.log ∧ (new.map (·.id)).Nodup ∧
      (∀ r ∈ new, assocGet d.chance r.id = none) ∧
      (∀ i k, assocGet d.chance i = some k → assocGet (vrec c n pc p1 p2 d).2.2.chance i = some k) := by
  sorry

/-- **the unsampled method makes no random draws** -/
theorem full_draws_nothing (g : Game α) (p : RegretParams α) (draw : DrawFn α) (T : Nat)
    (thr : Option (Ext α)) : (solveVanillaSingle g false p draw T thr).log = [] := by
  sorry

/-- **the chance-sampled method never samples player actions**: every logged draw is of kind `0` -/
theorem sampled_draws_only_chance (g : Game α) (p : RegretParams α) (draw : DrawFn α) (T : Nat)
    (thr : Option (Ext α)) : ∀ r ∈ (solveVanillaSingle g true p draw T thr).log, r.kind = 0 := by
  sorry

/-- a well-formed log entry of an external-sampling pass: a chance draw with the declared
probabilities, or a draw at an infoset of the *non-updating* player from that player's current
strategy -/
def EDrawOk (c : ECtx α) (r : DrawRec α) : Prop :=
  (r.kind = 0 ∧ r.pass = c.chancePass ∧ r.weights = c.ch.getD r.id [] ∧
      r.result = c.draw 0 r.id c.chancePass r.weights) ∨
  (r.kind = (if c.first then 2 else 1) ∧ r.pass = c.playerPass ∧
      r.weights = c.strat (!c.first) r.id ∧ r.result = c.draw r.kind r.id c.playerPass r.weights)

/-- every entry an external-sampling pass adds to the log is well formed -/
theorem erec_log (c : ECtx α) (n : Node α) (d : DrawSt α) :
    ∃ new, (erec c n d).2.2.log = new ++ d.log ∧ ∀ r ∈ new, EDrawOk c r := by
  sorry

end Draws
end Cfr
