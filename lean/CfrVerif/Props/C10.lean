import CfrVerif.Proofs.Dist
import CfrVerif.Model.Named
import CfrVerif.Model.Vanilla
import CfrVerif.Model.External
import CfrVerif.Props.C09
/-!
# C10 — sampling follows the declared distributions and is shared per chance infoset

* the categorical sampler as a function of its uniform variate (all weight vectors, all variates);
* the draw discipline of the three solvers, read off the draw log the model keeps
  (`DrawSt.log`, newest first): which sites draw, with which weights, how often.
-/
set_option linter.unusedSectionVars false
namespace Cfr

/-! ## the categorical sampler -/
section Sampler
variable {α : Type} [Field α] [LinearOrder α] [IsStrictOrderedRing α]

/-- partial sums `c_k = w_0 + … + w_{k-1}` -/
def cum (l : List α) (k : Nat) : α := (l.take k).sum

theorem cum_zero (l : List α) : cum l 0 = 0 := by simp [cum]

theorem cum_cons_succ (v : α) (vs : List α) (k : Nat) : cum (v :: vs) (k + 1) = v + cum vs k := by
  simp [cum]

theorem cum_nonneg (l : List α) (hp : ∀ x ∈ l, 0 ≤ x) (k : Nat) : 0 ≤ cum l k :=
  List.sum_nonneg (fun x hx => hp x (List.mem_of_mem_take hx))

/-- the result counter of the sampler loop is only ever incremented -/
theorem go_shift (l : List α) (rem : α) (res : Nat) :
    multinomialSample.go l rem res = res + multinomialSample.go l rem 0 := by
  induction l generalizing rem res with
  | nil => simp [multinomialSample.go]
  | cons v vs ih =>
    simp only [multinomialSample.go]
    split_ifs with h
    · rw [ih (rem - v) (res + 1), ih (rem - v) (0 + 1)]; omega
    · rfl

theorem go_le (l : List α) (rem : α) (res : Nat) :
    multinomialSample.go l rem res ≤ res + l.length := by
  induction l generalizing rem res with
  | nil => simp [multinomialSample.go]
  | cons v vs ih =>
    simp only [multinomialSample.go, List.length_cons]
    split_ifs with h
    · have := ih (rem - v) (res + 1); omega
    · omega

/-- the sampler loop on an arbitrary list of non-negative weights -/
theorem go_zero_iff (l : List α) (hp : ∀ x ∈ l, 0 ≤ x) : ∀ (u : α) (k : Nat),
    multinomialSample.go l u 0 = k ↔
      k ≤ l.length ∧ (0 < k → cum l k < u) ∧ (k < l.length → u ≤ cum l (k + 1)) := by
  induction l with
  | nil =>
    intro u k
    simp only [multinomialSample.go, List.length_nil]
    constructor
    · intro h; subst h; exact ⟨le_refl _, fun h => absurd h (lt_irrefl _), fun h => absurd h (lt_irrefl _)⟩
    · rintro ⟨h, -, -⟩; omega
  | cons v vs ih =>
    intro u k
    have hvs : ∀ x ∈ vs, 0 ≤ x := fun x hx => hp x (List.mem_cons_of_mem _ hx)
    simp only [multinomialSample.go, List.length_cons]
    split_ifs with h
    · rw [go_shift]
      cases k with
      | zero =>
        constructor
        · intro h'; omega
        · rintro ⟨-, -, h3⟩
          have := h3 (by omega)
          rw [cum_cons_succ, cum_zero] at this
          linarith
      | succ j =>
        rw [show (0 + 1 + multinomialSample.go vs (u - v) 0 = j + 1) ↔
          multinomialSample.go vs (u - v) 0 = j from by omega, ih hvs (u - v) j]
        simp only [cum_cons_succ]
        constructor
        · rintro ⟨h1, h2, h3⟩
          refine ⟨by omega, fun _ => ?_, fun hj => ?_⟩
          · rcases Nat.eq_zero_or_pos j with rfl | hj
            · rw [cum_zero]; linarith
            · have := h2 hj; linarith
          · have := h3 (by omega); linarith
        · rintro ⟨h1, h2, h3⟩
          refine ⟨by omega, fun hj => ?_, fun hj => ?_⟩
          · have := h2 (by omega); linarith
          · have := h3 (by omega); linarith
    · have hle : u ≤ v := not_lt.mp h
      cases k with
      | zero =>
        constructor
        · intro _
          refine ⟨by omega, fun h0 => absurd h0 (lt_irrefl _), fun _ => ?_⟩
          rw [cum_cons_succ, cum_zero]; linarith
        · intro _; rfl
      | succ j =>
        constructor
        · intro h'; omega
        · rintro ⟨-, h2, -⟩
          have h4 := h2 (by omega)
          rw [cum_cons_succ] at h4
          have := cum_nonneg vs hvs j
          linarith

/-- `Multinomial::sample` returns index `k` exactly when the variate lies in the `k`-th
cumulative interval of all but the last weight: `c_k < u ≤ c_{k+1}` (for `k = 0` the lower
end is open to the left: every `u ≤ c_1` gives `0`; for the last index there is no upper end).
Holds for every list of non-negative weights (their sum is irrelevant) and every `u`. -/
theorem multinomial_interval (probs : List α) (u : α) (hp : ∀ x ∈ probs, 0 ≤ x) (k : Nat) :
    multinomialSample probs u = k ↔
      k ≤ probs.dropLast.length ∧ (0 < k → cum probs.dropLast k < u) ∧
        (k < probs.dropLast.length → u ≤ cum probs.dropLast (k + 1)) := by
  unfold multinomialSample
  exact go_zero_iff probs.dropLast (fun x hx => hp x (List.mem_of_mem_dropLast hx)) u k

/-- the result is always a valid index (for a non-empty weight vector) -/
theorem multinomial_lt_length (probs : List α) (u : α) (hne : probs ≠ []) :
    multinomialSample probs u < probs.length := by
  unfold multinomialSample
  have h1 := go_le probs.dropLast u 0
  have h2 : 0 < probs.length := List.length_pos_iff.mpr hne
  rw [List.length_dropLast] at h1
  omega

theorem cum_succ_sub (l : List α) (k : Nat) (hk : k < l.length) :
    cum l (k + 1) - cum l k = l[k] := by
  unfold cum
  rw [List.take_succ_eq_append_getElem hk, List.sum_append]
  simp

/-- **the `k`-th interval has length `p_k`**: so a uniform variate selects index `k` with
probability `p_k` (all but the last index) -/
theorem multinomial_interval_length (probs : List α) (k : Nat) (hk : k < probs.dropLast.length) :
    cum probs.dropLast (k + 1) - cum probs.dropLast k = probs.getD k 0 := by
  rw [cum_succ_sub _ _ hk]
  have hk' : k < probs.length := by
    rw [List.length_dropLast] at hk; omega
  rw [List.getElem_dropLast]
  simp [List.getD_eq_getElem?_getD, hk']

/-- the last index gets the rest of `[0, 1)`, which has length `p_last` when the weights sum to
one -/
theorem multinomial_last_length (probs : List α) (hne : probs ≠ []) (hsum : probs.sum = 1) :
    1 - cum probs.dropLast probs.dropLast.length = probs.getLast hne := by
  unfold cum
  rw [List.take_length]
  have := List.dropLast_append_getLast hne
  have h2 : probs.sum = probs.dropLast.sum + probs.getLast hne := by
    conv_lhs => rw [← this]
    simp
  linarith

/-- non-vacuity: weights `[1/4, 1/2, 1/4]`, variate `1/2` lies in `(1/4, 3/4]` -/
example : multinomialSample ([1/4, 1/2, 1/4] : List ℚ) (1/2) = 1 := by
  norm_num [multinomialSample, multinomialSample.go, List.dropLast]

end Sampler

/-! ## draw discipline -/
section Draws
variable {α : Type} [Zero α] [One α] [Add α] [Sub α] [Mul α] [Div α] [Neg α]
  [LT α] [DecidableLT α] [BEq α] [NatCast α] [FloatLike α] [Transc α]

/-- a cached sample is reused: a second request for the same chance infoset in the same pass
makes no draw and returns the cached outcome -/
theorem sampleChance_cached (draw : DrawFn α) (pass : Nat) (probs : List α) (i k : Nat)
    (d : DrawSt α) (h : assocGet d.chance i = some k) :
    sampleChance draw pass probs i d = (k, d) := by
  simp only [sampleChance, h]

/-- after a request the outcome is cached, so every later chance node of that infoset follows it -/
theorem sampleChance_caches (draw : DrawFn α) (pass : Nat) (probs : List α) (i : Nat) (d : DrawSt α) :
    assocGet (sampleChance draw pass probs i d).2.chance i = some (sampleChance draw pass probs i d).1 := by
  cases h : assocGet d.chance i with
  | some k => rw [sampleChance_cached draw pass probs i k d h]; exact h
  | none =>
    simp only [sampleChance, h]
    simp [assocGet]

/-- a fresh draw asks the oracle with the declared weights and logs exactly that -/
theorem sampleChance_fresh (draw : DrawFn α) (pass : Nat) (probs : List α) (i : Nat)
    (d : DrawSt α) (h : assocGet d.chance i = none) :
    (sampleChance draw pass probs i d).1 = draw 0 i pass probs ∧
    (sampleChance draw pass probs i d).2.log = ⟨0, i, pass, probs, draw 0 i pass probs⟩ :: d.log := by
  simp only [sampleChance, h, and_self]

/-- the cache after a fresh draw -/
theorem sampleChance_fresh_chance (draw : DrawFn α) (pass : Nat) (probs : List α) (i : Nat)
    (d : DrawSt α) (h : assocGet d.chance i = none) :
    (sampleChance draw pass probs i d).2.chance = (i, draw 0 i pass probs) :: d.chance := by
  simp only [sampleChance, h]

theorem assocGet_cons (a b : Nat) (l : List (Nat × Nat)) (j : Nat) :
    assocGet ((a, b) :: l) j = if a = j then some b else assocGet l j := by
  unfold assocGet
  by_cases hj : a = j
  · simp [hj]
  · simp [hj]

theorem samplePlayer_cached (draw : DrawFn α) (kind pass : Nat) (strat : List α) (i k : Nat)
    (d : DrawSt α) (h : assocGet d.player i = some k) :
    samplePlayer draw kind pass strat i d = (k, d) := by
  simp only [samplePlayer, h]

theorem samplePlayer_fresh (draw : DrawFn α) (kind pass : Nat) (strat : List α) (i : Nat)
    (d : DrawSt α) (h : assocGet d.player i = none) :
    (samplePlayer draw kind pass strat i d).2.log
      = ⟨kind, i, pass, strat, draw kind i pass strat⟩ :: d.log := by
  simp only [samplePlayer, h]

/-! ### a traversal composes sampler steps

Every relation between draw states that is reflexive, transitive and holds across one
`sampleChance` request holds across a whole vanilla traversal (and across each of its loops). -/

mutual
theorem vrec_rel (c : VCtx α) (R : DrawSt α → DrawSt α → Prop) (hr : ∀ d, R d d)
    (ht : ∀ a b e, R a b → R b e → R a e)
    (hs : c.sampled = true → ∀ i d, R d (sampleChance c.draw c.pass (c.ch.getD i []) i d).2) :
    ∀ (n : Node α) (pc p1 p2 : α) (d : DrawSt α), R d (vrec c n pc p1 p2 d).2.2
  | .term p, pc, p1, p2, d => by simp only [vrec]; exact hr d
  | .chance i ks, pc, p1, p2, d => by
    simp only [vrec]
    split_ifs with h
    · exact ht _ _ _ (hs h i d) (vrecNth_rel c R hr ht hs ks _ pc p1 p2 _)
    · exact vrecChance_rel c R hr ht hs _ ks pc p1 p2 d 0
  | .player one i ks, pc, p1, p2, d => by
    simp only [vrec]
    exact vrecActs_rel c R hr ht hs one i _ _ ks pc p1 p2 d 0 0 0
theorem vrecNth_rel (c : VCtx α) (R : DrawSt α → DrawSt α → Prop) (hr : ∀ d, R d d)
    (ht : ∀ a b e, R a b → R b e → R a e)
    (hs : c.sampled = true → ∀ i d, R d (sampleChance c.draw c.pass (c.ch.getD i []) i d).2) :
    ∀ (ks : List (Node α)) (k : Nat) (pc p1 p2 : α) (d : DrawSt α),
      R d (vrecNth c ks k pc p1 p2 d).2.2
  | [], _, _, _, _, d => by simp only [vrecNth]; exact hr d
  | k :: _, 0, pc, p1, p2, d => by simp only [vrecNth]; exact vrec_rel c R hr ht hs k pc p1 p2 d
  | _ :: ks, n + 1, pc, p1, p2, d => by
    simp only [vrecNth]; exact vrecNth_rel c R hr ht hs ks n pc p1 p2 d
theorem vrecChance_rel (c : VCtx α) (R : DrawSt α → DrawSt α → Prop) (hr : ∀ d, R d d)
    (ht : ∀ a b e, R a b → R b e → R a e)
    (hs : c.sampled = true → ∀ i d, R d (sampleChance c.draw c.pass (c.ch.getD i []) i d).2) :
    ∀ (ps : List α) (ks : List (Node α)) (pc p1 p2 : α) (d : DrawSt α) (acc : α),
      R d (vrecChance c ps ks pc p1 p2 d acc).2.2
  | p :: ps, k :: ks, pc, p1, p2, d, acc => by
    simp only [vrecChance]
    exact ht _ _ _ (vrec_rel c R hr ht hs k (pc * p) p1 p2 d)
      (vrecChance_rel c R hr ht hs ps ks pc p1 p2 _ _)
  | [], _, _, _, _, d, _ => by simp only [vrecChance]; exact hr d
  | _ :: _, [], _, _, _, d, _ => by simp only [vrecChance]; exact hr d
theorem vrecActs_rel (c : VCtx α) (R : DrawSt α → DrawSt α → Prop) (hr : ∀ d, R d d)
    (ht : ∀ a b e, R a b → R b e → R a e)
    (hs : c.sampled = true → ∀ i d, R d (sampleChance c.draw c.pass (c.ch.getD i []) i d).2)
    (one : Bool) (i : Nat) (mult : α) :
    ∀ (σ : List α) (ks : List (Node α)) (pc p1 p2 : α) (d : DrawSt α) (a : Nat) (eo ex : α),
      R d (vrecActs c one i mult σ ks pc p1 p2 d a eo ex).2.2.2
  | s :: σ, k :: ks, pc, p1, p2, d, a, eo, ex => by
    simp only [vrecActs]
    cases one with
    | true =>
      exact ht _ _ _ (vrec_rel c R hr ht hs k pc (p1 * s) p2 d)
        (vrecActs_rel c R hr ht hs true i mult σ ks pc p1 p2 _ _ _ _)
    | false =>
      exact ht _ _ _ (vrec_rel c R hr ht hs k pc p1 (p2 * s) d)
        (vrecActs_rel c R hr ht hs false i mult σ ks pc p1 p2 _ _ _ _)
  | [], _, _, _, _, d, _, _, _ => by simp only [vrecActs]; exact hr d
  | _ :: _, [], _, _, _, d, _, _, _ => by simp only [vrecActs]; exact hr d
end

/-- what a well-formed log entry of a vanilla traversal looks like: a chance draw (kind `0`)
of this pass, with the infoset's declared (normalised) probabilities, answered by the oracle -/
def VDrawOk (c : VCtx α) (r : DrawRec α) : Prop :=
  r.kind = 0 ∧ r.pass = c.pass ∧ r.weights = c.ch.getD r.id [] ∧
    r.result = c.draw 0 r.id c.pass r.weights

/-- the relation behind `vrec_log` -/
def VLogRel (c : VCtx α) (d d' : DrawSt α) : Prop :=
  ∃ new, d'.log = new ++ d.log ∧ (∀ r ∈ new, VDrawOk c r) ∧ (c.sampled = false → new = [])

theorem VLogRel.refl (c : VCtx α) (d : DrawSt α) : VLogRel c d d :=
  ⟨[], rfl, fun _ h => absurd h List.not_mem_nil, fun _ => rfl⟩

theorem VLogRel.trans (c : VCtx α) (a b e : DrawSt α) (h1 : VLogRel c a b) (h2 : VLogRel c b e) :
    VLogRel c a e := by
  obtain ⟨n1, l1, o1, f1⟩ := h1
  obtain ⟨n2, l2, o2, f2⟩ := h2
  refine ⟨n2 ++ n1, ?_, ?_, ?_⟩
  · rw [l2, l1, List.append_assoc]
  · intro r hr
    rcases List.mem_append.mp hr with h | h
    · exact o2 r h
    · exact o1 r h
  · intro h; rw [f1 h, f2 h]; rfl

theorem VLogRel.step (c : VCtx α) (hs : c.sampled = true) (i : Nat) (d : DrawSt α) :
    VLogRel c d (sampleChance c.draw c.pass (c.ch.getD i []) i d).2 := by
  cases h : assocGet d.chance i with
  | some k => rw [sampleChance_cached _ _ _ _ k d h]; exact VLogRel.refl c d
  | none =>
    refine ⟨[⟨0, i, c.pass, c.ch.getD i [], c.draw 0 i c.pass (c.ch.getD i [])⟩], ?_, ?_, ?_⟩
    · rw [(sampleChance_fresh _ _ _ _ d h).2]; rfl
    · intro r hr
      rw [List.mem_singleton] at hr
      subst hr
      exact ⟨rfl, rfl, rfl, rfl⟩
    · intro hf; rw [hs] at hf; exact absurd hf (by decide)

/-- the log only grows, and every entry a vanilla traversal adds is a chance draw with the
declared weights; the unsampled method adds nothing at all -/
theorem vrec_log (c : VCtx α) (n : Node α) (pc p1 p2 : α) (d : DrawSt α) :
    ∃ new, (vrec c n pc p1 p2 d).2.2.log = new ++ d.log ∧ (∀ r ∈ new, VDrawOk c r) ∧
      (c.sampled = false → new = []) :=
  vrec_rel c (VLogRel c) (VLogRel.refl c) (VLogRel.trans c) (VLogRel.step c) n pc p1 p2 d

/-- the relation behind `vrec_one_draw_per_infoset` (with the extra clause that makes it
transitive: everything drawn is cached afterwards) -/
def VOneRel (d d' : DrawSt α) : Prop :=
  ∃ new, d'.log = new ++ d.log ∧ (new.map (·.id)).Nodup ∧
    (∀ r ∈ new, assocGet d.chance r.id = none) ∧
    (∀ r ∈ new, ∃ k, assocGet d'.chance r.id = some k) ∧
    (∀ i k, assocGet d.chance i = some k → assocGet d'.chance i = some k)

theorem VOneRel.refl (d : DrawSt α) : VOneRel d d :=
  ⟨[], rfl, List.nodup_nil, fun _ h => absurd h List.not_mem_nil,
    fun _ h => absurd h List.not_mem_nil, fun _ _ h => h⟩

theorem VOneRel.trans (a b e : DrawSt α) (h1 : VOneRel a b) (h2 : VOneRel b e) : VOneRel a e := by
  obtain ⟨n1, l1, nd1, fr1, ca1, pr1⟩ := h1
  obtain ⟨n2, l2, nd2, fr2, ca2, pr2⟩ := h2
  refine ⟨n2 ++ n1, ?_, ?_, ?_, ?_, ?_⟩
  · rw [l2, l1, List.append_assoc]
  · rw [List.map_append, List.nodup_append]
    refine ⟨nd2, nd1, ?_⟩
    intro x hx y hy hxy
    obtain ⟨r2, hr2, rfl⟩ := List.mem_map.mp hx
    obtain ⟨r1, hr1, rfl⟩ := List.mem_map.mp hy
    obtain ⟨k, hk⟩ := ca1 r1 hr1
    have hnone := fr2 r2 hr2
    have hxy' : r2.id = r1.id := hxy
    rw [hxy', hk] at hnone
    exact absurd hnone (by simp)
  · intro r hr
    rcases List.mem_append.mp hr with h | h
    · cases hc : assocGet a.chance r.id with
      | none => rfl
      | some k =>
        have := pr1 _ _ hc
        rw [fr2 r h] at this
        exact absurd this (by simp)
    · exact fr1 r h
  · intro r hr
    rcases List.mem_append.mp hr with h | h
    · exact ca2 r h
    · obtain ⟨k, hk⟩ := ca1 r h
      exact ⟨k, pr2 _ _ hk⟩
  · intro i k h; exact pr2 _ _ (pr1 _ _ h)

theorem VOneRel.step (draw : DrawFn α) (pass : Nat) (probs : List α) (i : Nat) (d : DrawSt α) :
    VOneRel d (sampleChance draw pass probs i d).2 := by
  cases h : assocGet d.chance i with
  | some k => rw [sampleChance_cached _ _ _ _ k d h]; exact VOneRel.refl d
  | none =>
    refine ⟨[⟨0, i, pass, probs, draw 0 i pass probs⟩], ?_, ?_, ?_, ?_, ?_⟩
    · rw [(sampleChance_fresh _ _ _ _ d h).2]; rfl
    · simp
    · intro r hr
      rw [List.mem_singleton] at hr
      subst hr
      exact h
    · intro r hr
      rw [List.mem_singleton] at hr
      subst hr
      rw [sampleChance_fresh_chance _ _ _ _ d h, assocGet_cons]
      exact ⟨_, if_pos rfl⟩
    · intro j k hj
      rw [sampleChance_fresh_chance _ _ _ _ d h, assocGet_cons]
      by_cases hij : i = j
      · subst hij; rw [h] at hj; exact absurd hj (by simp)
      · rw [if_neg hij]; exact hj

/-- **one draw per chance infoset and pass**: the infosets drawn by a traversal are pairwise
distinct and none of them had a cached sample before; cached samples are never changed -/
theorem vrec_one_draw_per_infoset (c : VCtx α) (n : Node α) (pc p1 p2 : α) (d : DrawSt α) :
    ∃ new, (vrec c n pc p1 p2 d).2.2.log = new ++ d.log ∧ (new.map (·.id)).Nodup ∧
      (∀ r ∈ new, assocGet d.chance r.id = none) ∧
      (∀ i k, assocGet d.chance i = some k → assocGet (vrec c n pc p1 p2 d).2.2.chance i = some k) := by
  obtain ⟨new, h1, h2, h3, -, h5⟩ := vrec_rel c VOneRel VOneRel.refl VOneRel.trans
    (fun _ i d => VOneRel.step c.draw c.pass (c.ch.getD i []) i d) n pc p1 p2 d
  exact ⟨new, h1, h2, h3, h5⟩

/-- a property of the draw log that every iteration preserves holds for the log a solve returns -/
theorem solveLoop_log_inv (step : IterFn α) (thr : Option (Ext α)) (P : List (DrawRec α) → Prop)
    (hstep : ∀ it s log, P log → P (step it s log).2.2.2) :
    ∀ (n it : Nat) (s : SolveSt α) (r1 r2 : Ext α) (log : List (DrawRec α)), P log →
      P (solveLoop step thr n it s r1 r2 log).log := by
  intro n
  induction n with
  | zero => intro it s r1 r2 log h; simpa only [solveLoop] using h
  | succ n ih =>
    intro it s r1 r2 log h
    rw [solveLoop_succ]
    split_ifs with hb
    · exact hstep it s log h
    · exact ih _ _ _ _ _ (hstep it s log h)

/-- the log one vanilla iteration returns is the log of its traversal -/
theorem vanillaIter_log (g : Game α) (sampled : Bool) (p : RegretParams α) (draw : DrawFn α)
    (it : Nat) (s : SolveSt α) (log : List (DrawRec α)) :
    (vanillaIter g sampled p draw it s log).2.2.2
      = (vrec ⟨g.chance, sampled, s.strat, draw, it - 1⟩ g.root 1 1 1 { log := log }).2.2.log := by
  simp only [vanillaIter]

/-- **the unsampled method makes no random draws** -/
theorem full_draws_nothing (g : Game α) (p : RegretParams α) (draw : DrawFn α) (T : Nat)
    (thr : Option (Ext α)) : (solveVanillaSingle g false p draw T thr).log = [] := by
  unfold solveVanillaSingle solveWith
  refine solveLoop_log_inv _ thr (fun log => log = []) ?_ T 1 _ _ _ [] rfl
  intro it s log hlog
  rw [vanillaIter_log]
  obtain ⟨new, h1, -, h3⟩ :=
    vrec_log ⟨g.chance, false, s.strat, draw, it - 1⟩ g.root 1 1 1 { log := log }
  rw [h1, h3 rfl, hlog]; rfl

/-- **the chance-sampled method never samples player actions**: every logged draw is of kind `0` -/
theorem sampled_draws_only_chance (g : Game α) (p : RegretParams α) (draw : DrawFn α) (T : Nat)
    (thr : Option (Ext α)) : ∀ r ∈ (solveVanillaSingle g true p draw T thr).log, r.kind = 0 := by
  unfold solveVanillaSingle solveWith
  refine solveLoop_log_inv _ thr (fun log => ∀ r ∈ log, r.kind = 0) ?_ T 1 _ _ _ []
    (fun _ h => absurd h List.not_mem_nil)
  intro it s log hlog
  rw [vanillaIter_log]
  obtain ⟨new, h1, h2, -⟩ :=
    vrec_log ⟨g.chance, true, s.strat, draw, it - 1⟩ g.root 1 1 1 { log := log }
  rw [h1]
  intro r hr
  rcases List.mem_append.mp hr with h | h
  · exact (h2 r h).1
  · exact hlog r h

/-- a well-formed log entry of an external-sampling pass: a chance draw with the declared
probabilities, or a draw at an infoset of the *non-updating* player from that player's current
strategy -/
def EDrawOk (c : ECtx α) (r : DrawRec α) : Prop :=
  (r.kind = 0 ∧ r.pass = c.chancePass ∧ r.weights = c.ch.getD r.id [] ∧
      r.result = c.draw 0 r.id c.chancePass r.weights) ∨
  (r.kind = (if c.first then 2 else 1) ∧ r.pass = c.playerPass ∧
      r.weights = c.strat (!c.first) r.id ∧ r.result = c.draw r.kind r.id c.playerPass r.weights)

mutual
theorem erec_rel (c : ECtx α) (R : DrawSt α → DrawSt α → Prop) (hr : ∀ d, R d d)
    (ht : ∀ a b e, R a b → R b e → R a e)
    (hs : ∀ i d, R d (sampleChance c.draw c.chancePass (c.ch.getD i []) i d).2)
    (hp : ∀ one, ¬ (one == c.first) = true → ∀ i d,
      R d (samplePlayer c.draw (if one then 1 else 2) c.playerPass (c.strat one i) i d).2) :
    ∀ (n : Node α) (d : DrawSt α), R d (erec c n d).2.2
  | .term p, d => by simp only [erec]; exact hr d
  | .chance i ks, d => by
    simp only [erec]
    exact ht _ _ _ (hs i d) (erecNth_rel c R hr ht hs hp ks _ _)
  | .player one i ks, d => by
    simp only [erec]
    by_cases h : (one == c.first) = true
    · rw [if_pos h]
      exact erecActs_rel c R hr ht hs hp one i _ ks d 0 0
    · rw [if_neg h]
      exact ht _ _ _ (hp one h i d) (erecNth_rel c R hr ht hs hp ks _ _)
theorem erecNth_rel (c : ECtx α) (R : DrawSt α → DrawSt α → Prop) (hr : ∀ d, R d d)
    (ht : ∀ a b e, R a b → R b e → R a e)
    (hs : ∀ i d, R d (sampleChance c.draw c.chancePass (c.ch.getD i []) i d).2)
    (hp : ∀ one, ¬ (one == c.first) = true → ∀ i d,
      R d (samplePlayer c.draw (if one then 1 else 2) c.playerPass (c.strat one i) i d).2) :
    ∀ (ks : List (Node α)) (k : Nat) (d : DrawSt α), R d (erecNth c ks k d).2.2
  | [], _, d => by simp only [erecNth]; exact hr d
  | k :: _, 0, d => by simp only [erecNth]; exact erec_rel c R hr ht hs hp k d
  | _ :: ks, n + 1, d => by simp only [erecNth]; exact erecNth_rel c R hr ht hs hp ks n d
theorem erecActs_rel (c : ECtx α) (R : DrawSt α → DrawSt α → Prop) (hr : ∀ d, R d d)
    (ht : ∀ a b e, R a b → R b e → R a e)
    (hs : ∀ i d, R d (sampleChance c.draw c.chancePass (c.ch.getD i []) i d).2)
    (hp : ∀ one, ¬ (one == c.first) = true → ∀ i d,
      R d (samplePlayer c.draw (if one then 1 else 2) c.playerPass (c.strat one i) i d).2)
    (one : Bool) (i : Nat) :
    ∀ (σ : List α) (ks : List (Node α)) (d : DrawSt α) (a : Nat) (ex : α),
      R d (erecActs c one i σ ks d a ex).2.2
  | s :: σ, k :: ks, d, a, ex => by
    simp only [erecActs]
    exact ht _ _ _ (erec_rel c R hr ht hs hp k d) (erecActs_rel c R hr ht hs hp one i σ ks _ _ _)
  | [], _, d, _, _ => by simp only [erecActs]; exact hr d
  | _ :: _, [], d, _, _ => by simp only [erecActs]; exact hr d
end

/-- the relation behind `erec_log` -/
def ELogRel (c : ECtx α) (d d' : DrawSt α) : Prop :=
  ∃ new, d'.log = new ++ d.log ∧ ∀ r ∈ new, EDrawOk c r

theorem ELogRel.refl (c : ECtx α) (d : DrawSt α) : ELogRel c d d :=
  ⟨[], rfl, fun _ h => absurd h List.not_mem_nil⟩

theorem ELogRel.trans (c : ECtx α) (a b e : DrawSt α) (h1 : ELogRel c a b) (h2 : ELogRel c b e) :
    ELogRel c a e := by
  obtain ⟨n1, l1, o1⟩ := h1
  obtain ⟨n2, l2, o2⟩ := h2
  refine ⟨n2 ++ n1, ?_, ?_⟩
  · rw [l2, l1, List.append_assoc]
  · intro r hr
    rcases List.mem_append.mp hr with h | h
    · exact o2 r h
    · exact o1 r h

theorem ELogRel.stepChance (c : ECtx α) (i : Nat) (d : DrawSt α) :
    ELogRel c d (sampleChance c.draw c.chancePass (c.ch.getD i []) i d).2 := by
  cases h : assocGet d.chance i with
  | some k => rw [sampleChance_cached _ _ _ _ k d h]; exact ELogRel.refl c d
  | none =>
    refine ⟨[⟨0, i, c.chancePass, c.ch.getD i [], c.draw 0 i c.chancePass (c.ch.getD i [])⟩],
      ?_, ?_⟩
    · rw [(sampleChance_fresh _ _ _ _ d h).2]; rfl
    · intro r hr
      rw [List.mem_singleton] at hr
      subst hr
      exact Or.inl ⟨rfl, rfl, rfl, rfl⟩

theorem ELogRel.stepPlayer (c : ECtx α) (one : Bool) (hne : ¬ (one == c.first) = true) (i : Nat)
    (d : DrawSt α) :
    ELogRel c d (samplePlayer c.draw (if one then 1 else 2) c.playerPass (c.strat one i) i d).2 := by
  cases h : assocGet d.player i with
  | some k => rw [samplePlayer_cached _ _ _ _ _ k d h]; exact ELogRel.refl c d
  | none =>
    refine ⟨[⟨if one then 1 else 2, i, c.playerPass, c.strat one i,
      c.draw (if one then 1 else 2) i c.playerPass (c.strat one i)⟩], ?_, ?_⟩
    · rw [samplePlayer_fresh _ _ _ _ _ d h]; rfl
    · intro r hr
      rw [List.mem_singleton] at hr
      subst hr
      refine Or.inr ⟨?_, rfl, ?_, rfl⟩
      · cases one <;> cases hf : c.first <;> simp_all
      · cases one <;> cases hf : c.first <;> simp_all

/-- every entry an external-sampling pass adds to the log is well formed -/
theorem erec_log (c : ECtx α) (n : Node α) (d : DrawSt α) :
    ∃ new, (erec c n d).2.2.log = new ++ d.log ∧ ∀ r ∈ new, EDrawOk c r :=
  erec_rel c (ELogRel c) (ELogRel.refl c) (ELogRel.trans c) (ELogRel.stepChance c)
    (ELogRel.stepPlayer c) n d

end Draws
end Cfr
