import CfrVerif.Proofs.CompileWF
import CfrVerif.Proofs.CompileValid
/-!
# C11 — game construction accepts exactly the documented class of games

`fromRoot` is `Game::from_root` (`init_recurse`).  It is a total function into
`Except GameError (Game α)`: it cannot panic.

* `Valid r` spells the documented contract declaratively: there is *one* assignment of
  outcome probabilities to chance infosets, of action lists to player infosets and of own
  decision histories to multi-action infosets such that **every node conforms to it**.
* `fromRoot_ok_iff_valid` : construction succeeds exactly on the documented class.
* `fromRoot_error_sound` : a returned error names a rule that some node violates.
* `fromRoot_ok_wf` : whatever is accepted satisfies `GameWF` — everything evaluation and the
  solvers rely on (indices in range, arities, positive normalised chance probabilities,
  perfect recall in history form, well-formed label tables).
-/
set_option linter.unusedSectionVars false
namespace Cfr
variable {α : Type} [Field α] [LinearOrder α] [IsStrictOrderedRing α]

/-! ## the documented contract

The definitions `LHist`, `Assignment`, `normalise`, `Conforms` / `ConformsL` / `ConformsA`,
`Valid`, `Violates`, `AnyNode` / `AnyNodeL` live in `Proofs/CompileValid.lean` (the helper
lemmas are about them). -/

/-! ## theorems -/

/-- **construction succeeds if and only if the tree is in the documented class**
(`Raw.Shape`: the crate iterates *pairs* `(weight, child)` / `(action, child)`, the model keeps
the two components in two lists, which therefore have equal lengths) -/
theorem fromRoot_ok_iff_valid (r : Raw α) (hs : Raw.Shape r) :
    (∃ g, fromRoot r = .ok g) ↔ Valid r :=
  ⟨fun ⟨g, h⟩ => CompileValid.fromRoot_ok_valid r hs g h, CompileValid.valid_fromRoot_ok r⟩

/-- **everything that is accepted is well formed** (proved in `Proofs/CompileWF.lean`) -/
theorem fromRoot_ok_wf (r : Raw α) (hs : Raw.Shape r) (g : Game α) (h : fromRoot r = .ok g) :
    GameWF g :=
  compile_ok_wf r hs g h

/-- **an error names a rule that the tree violates**: the four *local* rules are violated at
some node; the three *relational* rules (`ProbabilitiesNotEqual`, `ActionsNotEqual`,
`ImperfectRecall`) and any error at all imply that the tree is outside the documented class -/
theorem fromRoot_error_sound (r : Raw α) (hs : Raw.Shape r) (e : GameError)
    (h : fromRoot r = .error e) :
    ¬ Valid r ∧
    (e = .emptyChance ∨ e = .nonPositiveChance ∨ e = .emptyPlayer ∨ e = .actionsNotUnique →
      AnyNode (Violates e) r) ∧
    e ≠ .nonFinitePayoff := by
  obtain ⟨h1, h2⟩ := CompileValid.fromRoot_err r hs e h
  refine ⟨fun hv => ?_, h2, h1⟩
  obtain ⟨g, hg⟩ := CompileValid.valid_fromRoot_ok r hv
  rw [h] at hg
  cases hg

/-! ## non-vacuity -/

/-- a valid tree: chance over two player-one nodes sharing an infoset, then player two -/
def exRaw : Raw ℚ :=
  .chance none [1, 3]
    [.player true 5 [0, 1] [.term 1, .player false 2 [7, 8] [.term 0, .term 2]],
     .player true 5 [0, 1] [.term (-1), .term 3]]

example : (fromRoot exRaw).toBool = true := by decide +kernel

/-- a forgotten own action (the defect repaired by the first `fix:` commit): rejected -/
def exForget : Raw ℚ :=
  .player true 0 [0, 1]
    [.player true 1 [0, 1] [.term 1, .term 0], .player true 1 [0, 1] [.term 0, .term 1]]

example : (match fromRoot exForget with | .error e => e == .imperfectRecall | .ok _ => false) = true := by
  decide +kernel

end Cfr
