import CfrVerif.Proofs.CompileWF
/-!
# C11 — game construction accepts exactly the documented class of games

`fromRoot` is `Game::from_root` (`init_recurse`).  It is a total function into
`Except GameError (Game α)`: it cannot panic.

* `Valid r` spells the documented contract declaratively: there is *one* assignment of
  outcome probabilities to chance infosets, of action lists to player infosets and of own
  decision histories to multi-action infosets such that **every node conforms to it**.
* `fromRoot_ok_iff_valid` : construction succeeds exactly on the documented class.
* `fromRoot_error_sound` : a returned error names a rule that some node violates.
* `fromRoot_ok_wf` : whatever is accepted satisfies `GameWF` — everything evaluation and the
  solvers rely on (indices in range, arities, positive normalised chance probabilities,
  perfect recall in history form, well-formed label tables).
-/
set_option linter.unusedSectionVars false
namespace Cfr
variable {α : Type} [Field α] [LinearOrder α] [IsStrictOrderedRing α]

/-! ## the documented contract -/

/-- an own history on labels: `(infoset label, action label)` of the player's earlier
multi-action decisions, oldest first (single-action nodes are exempt) -/
abbrev LHist := List (Nat × Nat)

/-- the per-infoset data every node has to agree with -/
structure Assignment (α : Type) where
  /-- outcome probabilities of a named chance infoset -/
  cprob : Nat → List α
  /-- action list of a player infoset -/
  acts : Bool → Nat → List Nat
  /-- own history of a multi-action player infoset -/
  hist : Bool → Nat → LHist

def normalise (ws : List α) : List α := ws.map (· / ws.sum)

mutual
/-- node `r`, reached with own label histories `h1` (player one) and `h2` (player two),
conforms to the assignment and so does everything below it -/
def Conforms (A : Assignment α) : Raw α → LHist → LHist → Prop
  | .term _, _, _ => True   -- payoffs are finite: automatic in exact arithmetic
  | .chance info ws kids, h1, h2 =>
    ws.length = kids.length ∧ ws ≠ [] ∧ (∀ w ∈ ws, 0 < w) ∧
    (∀ l, info = some l → A.cprob l = normalise ws) ∧
    ConformsL A kids h1 h2
  | .player one info acts kids, h1, h2 =>
    acts.length = kids.length ∧ acts ≠ [] ∧ A.acts one info = acts ∧ acts.Nodup ∧
    (2 ≤ acts.length → A.hist one info = (if one then h1 else h2)) ∧
    ConformsA A one info (2 ≤ acts.length) acts kids h1 h2
/-- children of a chance node: histories unchanged -/
def ConformsL (A : Assignment α) : List (Raw α) → LHist → LHist → Prop
  | [], _, _ => True
  | k :: ks, h1, h2 => Conforms A k h1 h2 ∧ ConformsL A ks h1 h2
/-- children of a player node: a multi-action decision is appended to that player's history -/
def ConformsA (A : Assignment α) (one : Bool) (info : Nat) (multi : Prop) [Decidable multi] :
    List Nat → List (Raw α) → LHist → LHist → Prop
  | a :: as, k :: ks, h1, h2 =>
    Conforms A k (if multi ∧ one then h1 ++ [(info, a)] else h1)
      (if multi ∧ ¬ one then h2 ++ [(info, a)] else h2) ∧
    ConformsA A one info multi as ks h1 h2
  | _, _, _, _ => True
end

/-- **the documented class of games**: every chance node has at least one outcome and only
positive weights; chance nodes sharing an infoset have the same outcome probabilities in the
same order; every decision node has at least one action; nodes sharing a player infoset list the
same distinct actions in the same order; each player has perfect recall (nodes of a multi-action
infoset are reached after the same own decisions; single-action nodes exempt) -/
def Valid (r : Raw α) : Prop := ∃ A : Assignment α, Conforms A r [] []

/-! ## theorems -/

/-- **construction succeeds if and only if the tree is in the documented class**
(`Raw.Shape`: the crate iterates *pairs* `(weight, child)` / `(action, child)`, the model keeps
the two components in two lists, which therefore have equal lengths) -/
theorem fromRoot_ok_iff_valid (r : Raw α) (hs : Raw.Shape r) :
    (∃ g, fromRoot r = .ok g) ↔ Valid r := by
  sorry

/-- **everything that is accepted is well formed** (proved in `Proofs/CompileWF.lean`) -/
theorem fromRoot_ok_wf (r : Raw α) (hs : Raw.Shape r) (g : Game α) (h : fromRoot r = .ok g) :
    GameWF g :=
  compile_ok_wf r hs g h

/-- a rule named by an error, as a property of one node -/
def Violates : GameError → Raw α → Prop
  | .emptyChance, .chance _ ws _ => ws = []
  | .nonPositiveChance, .chance _ ws _ => ∃ w ∈ ws, ¬ 0 < w
  | .emptyPlayer, .player _ _ acts _ => acts = []
  | .actionsNotUnique, .player _ _ acts _ => ¬ acts.Nodup
  | _, _ => False

mutual
/-- some node of the tree satisfies `P` -/
def AnyNode (P : Raw α → Prop) : Raw α → Prop
  | .term p => P (.term p)
  | .chance i ws ks => P (.chance i ws ks) ∨ AnyNodeL P ks
  | .player o i as ks => P (.player o i as ks) ∨ AnyNodeL P ks
def AnyNodeL (P : Raw α → Prop) : List (Raw α) → Prop
  | [] => False
  | k :: ks => AnyNode P k ∨ AnyNodeL P ks
end

/-- **an error names a rule that the tree violates**: the four *local* rules are violated at
some node; the three *relational* rules (`ProbabilitiesNotEqual`, `ActionsNotEqual`,
`ImperfectRecall`) and any error at all imply that the tree is outside the documented class -/
theorem fromRoot_error_sound (r : Raw α) (hs : Raw.Shape r) (e : GameError)
    (h : fromRoot r = .error e) :
    ¬ Valid r ∧
    (e = .emptyChance ∨ e = .nonPositiveChance ∨ e = .emptyPlayer ∨ e = .actionsNotUnique →
      AnyNode (Violates e) r) ∧
    e ≠ .nonFinitePayoff := by
  sorry

/-! ## non-vacuity -/

/-- a valid tree: chance over two player-one nodes sharing an infoset, then player two -/
def exRaw : Raw ℚ :=
  .chance none [1, 3]
    [.player true 5 [0, 1] [.term 1, .player false 2 [7, 8] [.term 0, .term 2]],
     .player true 5 [0, 1] [.term (-1), .term 3]]

example : (fromRoot exRaw).toBool = true := by decide +kernel

/-- a forgotten own action (the defect repaired by the first `fix:` commit): rejected -/
def exForget : Raw ℚ :=
  .player true 0 [0, 1]
    [.player true 1 [0, 1] [.term 1, .term 0], .player true 1 [0, 1] [.term 0, .term 1]]

example : (match fromRoot exForget with | .error e => e == .imperfectRecall | .ok _ => false) = true := by
  decide +kernel

end Cfr
