import CfrVerif.Proofs.Frontier
/-!
# C06 — the unsampled solve gives the same answer for every thread count

`solveVanillaMultiS sched g false …` is `solve_full_multi`: in every iteration a breadth-first
frontier of at least `target` nodes is grown (`vThreshold`), one task per drained frontier node
runs the plain traversal, the main thread traverses from the root again stopping at the nodes
whose value a task recorded; the atomic accumulations of all of them reach memory in the order
the schedule `sched` chooses (any rearrangement, a different one in every iteration).

The theorems hold for **every** game tree (no well-formedness needed), parameter set, budget,
threshold, task target (`0` included), and every fair schedule; the scalar type is any ordered
field, i.e. "up to floating-point summation order" for doubles.
-/
set_option linter.unusedSectionVars false
namespace Cfr
variable {α : Type} [Field α] [LinearOrder α] [IsStrictOrderedRing α] [Transc α]

/-- one multi-threaded iteration leaves exactly the state, bounds and log of the single-threaded
iteration -/
theorem full_multi_iter_eq_single (sched : Sched α) (hs : sched.Fair) (g : Game α)
    (p : RegretParams α) (draw : DrawFn α) (target it : Nat) (s : SolveSt α)
    (log : List (DrawRec α)) :
    vanillaMultiIterS sched g false p draw target it s log = vanillaIter g false p draw it s log := by
  obtain ⟨h1, h2, h3, -, h5⟩ := Van.vanillaMultiIterS_rel sched hs g false p draw target it s log log
  exact Prod.ext h1 (Prod.ext h2 (Prod.ext h3 (h5 rfl rfl)))

/-- **thread-count invariance of the unsampled solver**: for every task target and every fair
schedule the multi-threaded solve returns exactly what the single-threaded solve returns -/
theorem full_multi_eq_single (sched : Sched α) (hs : sched.Fair) (g : Game α)
    (p : RegretParams α) (draw : DrawFn α) (T : Nat) (thr : Option (Ext α)) (target : Nat) :
    solveVanillaMultiS sched g false p draw T thr target = solveVanillaSingle g false p draw T thr := by
  have hstep : vanillaMultiIterS sched g false p draw target = vanillaIter g false p draw := by
    funext it s log
    exact full_multi_iter_eq_single sched hs g p draw target it s log
  unfold solveVanillaMultiS solveVanillaSingle
  rw [hstep]

/-- through `Game::solve`: whatever thread count is requested (`0` = ask the operating system),
a solve that does not return the thread-count error returns the single-threaded result -/
theorem full_thread_count_invariant (env : Env) (sched : Sched α) (hs : sched.Fair) (g : Game α)
    (T : Nat) (thr : Option (Ext α)) (threads : Nat) (params : Option (RegretParams α))
    (draw : DrawFn α) (out : SolveOut α)
    (h : gameSolve env sched g .full T thr threads params draw = .ok out) :
    out = solveVanillaSingle g false (params.getD RegretParams.default) draw T thr := by
  unfold gameSolve at h
  simp only at h
  split_ifs at h with h1 h2 h3
  · simp only [Except.ok.injEq] at h
    exact h.symm
  · simp only [Except.ok.injEq] at h
    rw [← h]
    exact full_multi_eq_single sched hs g _ draw T thr _

end Cfr
