import CfrVerif.Proofs.Tables
/-!
# C13 — the named view is complete, consistent and round-trips

The two iterators of `as_named` are state machines (`InfoIter`, `ActIter`) with
`next` and `len` (`ExactSizeIterator`); `asNamed` is the fully drained view.
-/
set_option linter.unusedSectionVars false
namespace Cfr
variable {α : Type} [Field α] [LinearOrder α] [IsStrictOrderedRing α]

/-! ## advertised lengths are exact, at every point of the iteration -/

/-- items an action iterator still yields -/
def ActIter.drain : ActIter α → List (Nat × α) := ActIter.toList

/-- `next` yields the head of what is still to come, and leaves the rest -/
theorem ActIter.next_spec (it : ActIter α) :
    (it.next = none ∧ it.toList = []) ∨
    (∃ x it', it.next = some (x, it') ∧ it.toList = x :: it'.toList) := by
  sorry

/-- **the advertised length of an action iterator is the number of items still to come** -/
theorem ActIter.len_exact (it : ActIter α) : it.len = it.toList.length := by
  sorry

/-- after a `next` the advertised length has dropped by exactly one; `none` only at length zero -/
theorem ActIter.len_next (it : ActIter α) :
    (it.next = none ∧ it.len = 0) ∨ (∃ x it', it.next = some (x, it') ∧ it.len = it'.len + 1) := by
  sorry

/-- the infoset iterator, fully drained (labels only) -/
def InfoIter.labels (it : InfoIter α) : List Nat :=
  it.infos.map (·.label) ++ it.singles.map (·.1)

/-- **the advertised length of the infoset iterator is the number of infosets still to come** -/
theorem InfoIter.len_exact (it : InfoIter α) : it.len = it.labels.length := by
  sorry

/-- after a `next` the advertised length has dropped by exactly one, and the yielded label is
the head of the labels still to come -/
theorem InfoIter.len_next (it : InfoIter α) :
    (it.next = none ∧ it.len = 0) ∨
    (∃ l ai it', it.next = some ((l, ai), it') ∧ it.len = it'.len + 1 ∧ it.labels = l :: it'.labels) := by
  sorry

/-! ## the drained view -/

/-- **every infoset is listed exactly once**: the keys of the view are the multi-action labels
followed by the single-action labels, without repetition -/
theorem asNamed_keys (infos : List PInfo) (singles : List (Nat × Nat)) (σ : Strat α)
    (hf : Fits infos σ) :
    (asNamed infos singles σ).map (·.1) = infos.map (·.label) ++ singles.map (·.1) := by
  sorry

theorem asNamed_keys_nodup (infos : List PInfo) (singles : List (Nat × Nat)) (σ : Strat α)
    (hw : TablesWF infos singles) (hf : Fits infos σ) :
    ((asNamed infos singles σ).map (·.1)).Nodup := by
  sorry

/-- **a multi-action infoset is listed with exactly its positive-probability actions, in order,
and their probabilities sum to one** -/
theorem asNamed_multi (infos : List PInfo) (singles : List (Nat × Nat)) (σ : Strat α)
    (hf : Fits infos σ) (hσ : IsStrat σ) (k : Nat) (i : PInfo) (v : List α)
    (hi : infos[k]? = some i) (hv : σ[k]? = some v) :
    (asNamed infos singles σ)[k]? = some (i.label, (i.actions.zip v).filter (fun e => 0 < e.2)) ∧
    (((i.actions.zip v).filter (fun e => 0 < e.2)).map (·.2)).sum = 1 := by
  sorry

/-- **a single-action infoset is listed with its only action at probability one** -/
theorem asNamed_single (infos : List PInfo) (singles : List (Nat × Nat)) (σ : Strat α)
    (hf : Fits infos σ) (k : Nat) (l a : Nat) (hs : singles[k]? = some (l, a)) :
    (asNamed infos singles σ)[infos.length + k]? = some (l, [(a, 1)]) := by
  sorry

/-! ## round trip -/

/-- **importing the named view yields the original profile** (exact arithmetic: exactly) -/
theorem stratIntoBox_asNamed (infos : List PInfo) (singles : List (Nat × Nat)) (σ : Strat α)
    (hw : TablesWF infos singles) (hf : Fits infos σ) (hσ : IsStrat σ) :
    stratIntoBox infos singles (asNamed infos singles σ) = .ok σ := by
  sorry

/-- the same through the scan-based importer -/
theorem stratIntoBoxSlow_asNamed (infos : List PInfo) (singles : List (Nat × Nat)) (σ : Strat α)
    (hw : TablesWF infos singles) (hf : Fits infos σ) (hσ : IsStrat σ) :
    stratIntoBoxSlow infos singles (asNamed infos singles σ) = .ok σ := by
  sorry

/-! ## non-vacuity -/

def exInfos : List PInfo := [⟨7, [0, 1, 2], none⟩, ⟨9, [4, 5], some (0, 1)⟩]
def exSingles : List (Nat × Nat) := [(3, 8)]
def exSigma : Strat ℚ := [[1/2, 0, 1/2], [1, 0]]

example : TablesWF exInfos exSingles := by
  constructor <;> simp [exInfos, exSingles]
example : Fits exInfos exSigma := by simp [Fits, exInfos, exSigma]
example : asNamed exInfos exSingles exSigma =
    [(7, [(0, 1/2), (2, 1/2)]), (9, [(4, 1)]), (3, [(8, 1)])] := by
  norm_num [asNamed, exInfos, exSingles, exSigma, ActIter.toList, List.zip, List.filter]

end Cfr
