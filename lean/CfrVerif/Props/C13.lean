import CfrVerif.Proofs.Tables
/-!
# C13 — the named view is complete, consistent and round-trips

The two iterators of `as_named` are state machines (`InfoIter`, `ActIter`) with
`next` and `len` (`ExactSizeIterator`); `asNamed` is the fully drained view.
-/
set_option linter.unusedSectionVars false
namespace Cfr
variable {α : Type} [Field α] [LinearOrder α] [IsStrictOrderedRing α]

/-! ## advertised lengths are exact, at every point of the iteration -/

/-- items an action iterator still yields -/
def ActIter.drain : ActIter α → List (Nat × α) := ActIter.toList

/-- `next` yields the head of what is still to come, and leaves the rest -/
theorem ActIter.next_spec (it : ActIter α) :
    (it.next = none ∧ it.toList = []) ∨
    (∃ x it', it.next = some (x, it') ∧ it.toList = x :: it'.toList) := by
  induction it using ActIter.next.induct with
  | case1 a as p ps h =>
    right
    refine ⟨(a, p), .data as ps, ?_, ?_⟩
    · rw [ActIter.next]; simp only [h, if_true]
    · simp only [ActIter.toList, List.zip_cons_cons, List.filter_cons, h, decide_true, if_true]
  | case2 a as p ps h ih =>
    have h1 : (ActIter.data (a :: as) (p :: ps)).next = (ActIter.data as ps).next := by
      rw [ActIter.next]; simp only [h, if_false]
    have h2 : (ActIter.data (a :: as) (p :: ps)).toList = (ActIter.data as ps).toList := by
      simp only [ActIter.toList, List.zip_cons_cons, List.filter_cons, h, decide_false,
        Bool.false_eq_true, if_false]
    rw [h1, h2]; exact ih
  | case3 acts probs h =>
    left
    constructor
    · rw [ActIter.next]
      · exact h
    · cases acts with
      | nil => simp [ActIter.toList]
      | cons a as =>
        cases probs with
        | nil => simp [ActIter.toList]
        | cons p ps => exact (h a as p ps rfl rfl).elim
  | case4 a =>
    right
    exact ⟨(a, 1), .single none, by rw [ActIter.next], rfl⟩
  | case5 =>
    left
    exact ⟨by rw [ActIter.next], rfl⟩

/-- **the advertised length of an action iterator is the number of items still to come** -/
theorem ActIter.len_exact (it : ActIter α) : it.len = it.toList.length := by
  cases it with
  | data as ps => rfl
  | single o => cases o <;> rfl

/-- after a `next` the advertised length has dropped by exactly one; `none` only at length zero -/
theorem ActIter.len_next (it : ActIter α) :
    (it.next = none ∧ it.len = 0) ∨ (∃ x it', it.next = some (x, it') ∧ it.len = it'.len + 1) := by
  rcases ActIter.next_spec it with ⟨h1, h2⟩ | ⟨x, it', h1, h2⟩
  · left; exact ⟨h1, by rw [ActIter.len_exact, h2]; rfl⟩
  · right; exact ⟨x, it', h1, by rw [ActIter.len_exact, ActIter.len_exact it', h2]; rfl⟩

/-- the infoset iterator, fully drained (labels only) -/
def InfoIter.labels (it : InfoIter α) : List Nat :=
  it.infos.map (·.label) ++ it.singles.map (·.1)

/-- **the advertised length of the infoset iterator is the number of infosets still to come** -/
theorem InfoIter.len_exact (it : InfoIter α) : it.len = it.labels.length := by
  simp [InfoIter.len, InfoIter.labels]

/-- after a `next` the advertised length has dropped by exactly one, and the yielded label is
the head of the labels still to come -/
theorem InfoIter.len_next (it : InfoIter α) :
    (it.next = none ∧ it.len = 0) ∨
    (∃ l ai it', it.next = some ((l, ai), it') ∧ it.len = it'.len + 1 ∧ it.labels = l :: it'.labels) := by
  obtain ⟨infos, probs, singles⟩ := it
  cases infos with
  | nil =>
    cases singles with
    | nil => left; exact ⟨rfl, rfl⟩
    | cons s ss =>
      obtain ⟨l, a⟩ := s
      right
      exact ⟨l, .single (some a), ⟨[], probs, ss⟩, rfl, rfl, rfl⟩
  | cons i is =>
    right
    cases probs with
    | nil =>
      refine ⟨i.label, .data i.actions [], ⟨is, [], singles⟩, rfl, ?_, rfl⟩
      simp only [InfoIter.len, List.length_cons]; omega
    | cons p ps =>
      refine ⟨i.label, .data i.actions p, ⟨is, ps, singles⟩, rfl, ?_, rfl⟩
      simp only [InfoIter.len, List.length_cons]; omega

/-! ## the drained view -/

private theorem Fits.length_eq {infos : List PInfo} {σ : Strat α} (hf : Fits infos σ) :
    σ.length = infos.length := by
  have := congrArg List.length hf
  simpa using this

private theorem Fits.getElem?_length {infos : List PInfo} {σ : Strat α} (hf : Fits infos σ)
    {k : Nat} {i : PInfo} {v : List α} (hi : infos[k]? = some i) (hv : σ[k]? = some v) :
    v.length = i.actions.length := by
  have := congrArg (fun l => l[k]?) hf
  simpa [List.getElem?_map, hi, hv] using this

/-- **every infoset is listed exactly once**: the keys of the view are the multi-action labels
followed by the single-action labels, without repetition -/
theorem asNamed_keys (infos : List PInfo) (singles : List (Nat × Nat)) (σ : Strat α)
    (hf : Fits infos σ) :
    (asNamed infos singles σ).map (·.1) = infos.map (·.label) ++ singles.map (·.1) := by
  have hl := hf.length_eq
  unfold asNamed
  rw [List.map_append, List.map_map, List.map_map]
  congr 1
  · have : ((fun x : Nat × List (Nat × α) => x.1) ∘
        fun x : PInfo × List α => (x.1.label, (ActIter.data x.1.actions x.2).toList))
        = (fun i : PInfo => i.label) ∘ Prod.fst := rfl
    rw [this, ← List.map_map, List.map_fst_zip (by omega)]

theorem asNamed_keys_nodup (infos : List PInfo) (singles : List (Nat × Nat)) (σ : Strat α)
    (hw : TablesWF infos singles) (hf : Fits infos σ) :
    ((asNamed infos singles σ).map (·.1)).Nodup := by
  rw [asNamed_keys infos singles σ hf]
  exact List.Nodup.append hw.labelsNodup hw.singlesNodup (fun l h1 h2 => hw.disjoint l h1 h2)

private theorem zip_filter_sum (as : List Nat) (v : List α) (hl : v.length = as.length)
    (hv : ∀ p ∈ v, 0 ≤ p) :
    (((as.zip v).filter (fun e => 0 < e.2)).map (·.2)).sum = v.sum := by
  induction as generalizing v with
  | nil => cases v with
    | nil => rfl
    | cons p ps => simp at hl
  | cons a as ih =>
    cases v with
    | nil => simp at hl
    | cons p ps =>
      have h0 : 0 ≤ p := hv p (by simp)
      have ih' := ih ps (by simpa using hl) (fun q hq => hv q (by simp [hq]))
      simp only [List.zip_cons_cons, List.filter_cons, List.sum_cons]
      by_cases hp : 0 < p
      · simp only [hp, decide_true, if_true, List.map_cons, List.sum_cons, ih']
      · have : p = 0 := le_antisymm (not_lt.mp hp) h0
        subst this
        simp only [lt_irrefl, decide_false, Bool.false_eq_true, if_false, ih', zero_add]

theorem asNamed_getElem?_multi (infos : List PInfo) (singles : List (Nat × Nat)) (σ : Strat α)
    (k : Nat) (i : PInfo) (v : List α)
    (hi : infos[k]? = some i) (hv : σ[k]? = some v) :
    (asNamed infos singles σ)[k]? = some (i.label, (i.actions.zip v).filter (fun e => 0 < e.2)) := by
  unfold asNamed
  have hz : (infos.zip σ)[k]? = some (i, v) := by
    rw [List.getElem?_zip_eq_some]; exact ⟨hi, hv⟩
  rw [List.getElem?_append_left]
  · rw [List.getElem?_map, hz]; rfl
  · rw [List.length_map]
    exact (List.getElem?_eq_some_iff.mp hz).1

/-- **a multi-action infoset is listed with exactly its positive-probability actions, in order,
and their probabilities sum to one** -/
theorem asNamed_multi (infos : List PInfo) (singles : List (Nat × Nat)) (σ : Strat α)
    (hf : Fits infos σ) (hσ : IsStrat σ) (k : Nat) (i : PInfo) (v : List α)
    (hi : infos[k]? = some i) (hv : σ[k]? = some v) :
    (asNamed infos singles σ)[k]? = some (i.label, (i.actions.zip v).filter (fun e => 0 < e.2)) ∧
    (((i.actions.zip v).filter (fun e => 0 < e.2)).map (·.2)).sum = 1 := by
  refine ⟨asNamed_getElem?_multi infos singles σ k i v hi hv, ?_⟩
  have hd : IsDist v := hσ v (List.mem_of_getElem? hv)
  rw [zip_filter_sum i.actions v (hf.getElem?_length hi hv) hd.1]
  exact hd.2

/-- **a single-action infoset is listed with its only action at probability one** -/
theorem asNamed_single (infos : List PInfo) (singles : List (Nat × Nat)) (σ : Strat α)
    (hf : Fits infos σ) (k : Nat) (l a : Nat) (hs : singles[k]? = some (l, a)) :
    (asNamed infos singles σ)[infos.length + k]? = some (l, [(a, 1)]) := by
  unfold asNamed
  have hl : (infos.zip σ).length = infos.length := by
    rw [List.length_zip, hf.length_eq, Nat.min_self]
  rw [List.getElem?_append_right (by rw [List.length_map]; omega), List.length_map, hl,
    Nat.add_sub_cancel_left, List.getElem?_map, hs]
  rfl

/-! ## round trip -/

/-! ### look-up functions -/

/-- a look-up function is correct on lists in which at most one element matches -/
def LookupOK {β : Type} (find : (β → Bool) → List β → Option Nat) : Prop :=
  (∀ f l, (∀ x ∈ l, f x = false) → find f l = none) ∧
  (∀ f l k x, l[k]? = some x → f x = true →
    (∀ k' x', l[k']? = some x' → f x' = true → k' = k) → find f l = some k)

private theorem findLastIdx_go_none {β : Type} (f : β → Bool) (l : List β) (i : Nat) (r : Option Nat)
    (h : ∀ x ∈ l, f x = false) : findLastIdx.go f l i r = r := by
  induction l generalizing i r with
  | nil => rfl
  | cons y ys ih =>
    rw [findLastIdx.go, h y (by simp)]
    exact ih _ _ (fun x hx => h x (by simp [hx]))

private theorem findLastIdx_go_unique {β : Type} (f : β → Bool) (l : List β) (i : Nat) (r : Option Nat)
    (k : Nat) (x : β) (hk : l[k]? = some x) (hx : f x = true)
    (hu : ∀ k' x', l[k']? = some x' → f x' = true → k' = k) :
    findLastIdx.go f l i r = some (i + k) := by
  induction l generalizing i r k with
  | nil => simp at hk
  | cons y ys ih =>
    rw [findLastIdx.go]
    cases k with
    | zero =>
      have hy : y = x := by simpa using hk
      subst hy
      rw [hx, if_pos rfl]
      apply findLastIdx_go_none
      intro z hz
      by_contra hfz
      obtain ⟨j, hj⟩ := List.getElem?_of_mem hz
      have := hu (j + 1) z (by simpa using hj) (by simpa using hfz)
      omega
    | succ k' =>
      have hy : f y = false := by
        by_contra hfy
        have := hu 0 y (by simp) (by simpa using hfy)
        omega
      rw [hy]
      have := ih (i + 1) r k' (by simpa using hk)
        (fun j z hj hz => by have := hu (j + 1) z (by simpa using hj) hz; omega)
      rw [show i + (k' + 1) = i + 1 + k' by omega]
      simpa using this

theorem lookupOK_findLastIdx {β : Type} :
    LookupOK (fun (f : β → Bool) (l : List β) => findLastIdx f l) := by
  constructor
  · intro f l h
    exact findLastIdx_go_none f l 0 none h
  · intro f l k x hk hx hu
    have := findLastIdx_go_unique f l 0 none k x hk hx hu
    simpa [findLastIdx] using this

theorem lookupOK_findIdx? {β : Type} :
    LookupOK (fun (f : β → Bool) (l : List β) => l.findIdx? f) := by
  constructor
  · intro f l h
    simpa using h
  · intro f l k x hk hx hu
    induction l generalizing k with
    | nil => simp at hk
    | cons y ys ih =>
      show List.findIdx? f (y :: ys) = some k
      rw [List.findIdx?_cons]
      cases k with
      | zero =>
        have hy : y = x := by simpa using hk
        subst hy
        rw [if_pos hx]
      | succ k' =>
        have hy : ¬ f y = true := by
          intro hfy
          have := hu 0 y (by simp) hfy
          omega
        rw [if_neg hy]
        have : List.findIdx? f ys = some k' := ih k' (by simpa using hk)
          (fun j z hj hz => by have := hu (j + 1) z (by simpa using hj) hz; omega)
        rw [this]; rfl

private theorem nodup_getElem?_inj {β : Type} {l : List β} (h : l.Nodup) {i j : Nat} {x : β}
    (hi : l[i]? = some x) (hj : l[j]? = some x) : i = j := by
  have hi' := (List.getElem?_eq_some_iff.mp hi).1
  exact (List.getElem?_inj hi' h).mp (hi.trans hj.symm)

/-! ### small list facts -/

private theorem modify_append_cons {β : Type} (pre : List β) (x : β) (post : List β) (f : β → β)
    (n : Nat) (hn : n = pre.length) :
    (pre ++ x :: post).modify n f = pre ++ f x :: post := by
  subst hn
  induction pre with
  | nil => rfl
  | cons y ys ih => simp [ih]

private theorem set_append_cons {β : Type} (pre : List β) (x y : β) (post : List β)
    (n : Nat) (hn : n = pre.length) :
    (pre ++ x :: post).set n y = pre ++ y :: post := by
  subst hn
  induction pre with
  | nil => rfl
  | cons z zs ih => simp [ih]

private theorem getElem?_append_cons {β : Type} (pre : List β) (x : β) (post : List β)
    (n : Nat) (hn : n = pre.length) :
    (pre ++ x :: post)[n]? = some x := by
  subst hn
  simp

private theorem getD_append_cons {β : Type} (pre : List β) (x d : β) (post : List β)
    (n : Nat) (hn : n = pre.length) :
    (pre ++ x :: post).getD n d = x := by
  rw [List.getD_eq_getElem?_getD, getElem?_append_cons pre x post n hn]; rfl

/-! ### the inner loop writes one probability vector -/

theorem importActions_fill (findA : (Nat → Bool) → List Nat → Option Nat) (hA : LookupOK findA)
    (acts : List Nat) (hn : acts.Nodup) (dpre dpost : Strat α) :
    ∀ (apost apre : List Nat) (vpre vpost : List α), acts = apre ++ apost →
      vpre.length = apre.length → vpost.length = apost.length → (∀ p ∈ vpost, 0 ≤ p) →
      importActions findA acts dpre.length ((apost.zip vpost).filter (fun e => 0 < e.2))
        (dpre ++ (vpre ++ List.replicate apost.length 0) :: dpost)
        = .ok (dpre ++ (vpre ++ vpost) :: dpost) := by
  intro apost
  induction apost with
  | nil =>
    intro apre vpre vpost _ _ hl _
    have : vpost = [] := List.eq_nil_of_length_eq_zero (by simpa using hl)
    subst this
    simp [importActions]
  | cons a as ih =>
    intro apre vpre vpost hacts hlpre hlpost hnn
    cases vpost with
    | nil => simp at hlpost
    | cons p ps =>
      have h0 : 0 ≤ p := hnn p (by simp)
      have hacts' : acts = (apre ++ [a]) ++ as := by rw [hacts]; simp
      have ih' := ih (apre ++ [a]) (vpre ++ [p]) ps hacts' (by simp [hlpre])
        (by simpa using hlpost) (fun q hq => hnn q (by simp [hq]))
      have hrow : vpre ++ List.replicate (a :: as).length (0 : α)
          = vpre ++ 0 :: List.replicate as.length 0 := by
        simp [List.replicate_succ]
      rw [hrow]
      simp only [List.zip_cons_cons, List.filter_cons]
      by_cases hp : 0 < p
      · simp only [hp, decide_true, if_true]
        rw [importActions]
        have hok : probOk p = true := by simp [probOk, h0]
        have hfind : findA (fun x => x == a) acts = some apre.length := by
          apply hA.2 _ _ _ a
          · rw [hacts]; exact getElem?_append_cons _ _ _ _ rfl
          · simp
          · intro k' x' hk' hx'
            have : x' = a := by simpa using hx'
            subst this
            exact nodup_getElem?_inj hn hk' (by rw [hacts]; exact getElem?_append_cons _ _ _ _ rfl)
        rw [if_pos hok, hfind]
        simp only
        have hset : setWeight (dpre ++ (vpre ++ 0 :: List.replicate as.length 0) :: dpost)
            dpre.length apre.length p
            = dpre ++ ((vpre ++ [p]) ++ List.replicate as.length 0) :: dpost := by
          unfold setWeight
          rw [modify_append_cons _ _ _ _ _ rfl, set_append_cons _ _ _ _ _ hlpre.symm]
          simp
        rw [hset, ih']
        simp
      · have hp0 : p = 0 := le_antisymm (not_lt.mp hp) h0
        subst hp0
        simp only [lt_irrefl, decide_false, Bool.false_eq_true, if_false]
        have : vpre ++ (0 : α) :: List.replicate as.length 0
            = (vpre ++ [0]) ++ List.replicate as.length 0 := by simp
        rw [this, ih']
        simp

/-! ### the outer loop over the multi-action entries -/

theorem importLoop_multi (findI : (PInfo → Bool) → List PInfo → Option Nat)
    (findA : (Nat → Bool) → List Nat → Option Nat)
    (findS : ((Nat × Nat) → Bool) → List (Nat × Nat) → Option Nat)
    (hI : LookupOK findI) (hA : LookupOK findA)
    (infos : List PInfo) (singles : List (Nat × Nat)) (hw : TablesWF infos singles)
    (rest : Named α) (seen : List Bool) :
    ∀ (post pre : List PInfo) (σpre σpost : Strat α), infos = pre ++ post →
      σpre.length = pre.length → Fits post σpost → IsStrat σpost →
      importLoop findI findA findS infos singles
        ((post.zip σpost).map (fun (i, p) => (i.label, (ActIter.data i.actions p).toList)) ++ rest)
        (σpre ++ post.map (fun i => List.replicate i.actions.length 0)) seen
      = importLoop findI findA findS infos singles rest (σpre ++ σpost) seen := by
  intro post
  induction post with
  | nil =>
    intro pre σpre σpost _ _ hf _
    have : σpost = [] := List.eq_nil_of_length_eq_zero (by simpa using hf.length_eq)
    subst this
    simp
  | cons i is ih =>
    intro pre σpre σpost hinfos hlen hf hσ
    cases σpost with
    | nil => have := hf.length_eq; simp at this
    | cons v vs =>
      have hf' : Fits is vs := by
        have : List.map List.length (v :: vs) = List.map (fun i => i.actions.length) (i :: is) := hf
        simp only [List.map_cons, List.cons.injEq] at this
        exact this.2
      have hvl : v.length = i.actions.length := by
        have : List.map List.length (v :: vs) = List.map (fun i => i.actions.length) (i :: is) := hf
        simp only [List.map_cons, List.cons.injEq] at this
        exact this.1
      have hv : IsDist v := hσ v (by simp)
      have hσ' : IsStrat vs := fun w hw => hσ w (by simp [hw])
      have hinfos' : infos = (pre ++ [i]) ++ is := by rw [hinfos]; simp
      have ih' := ih (pre ++ [i]) (σpre ++ [v]) vs hinfos' (by simp [hlen]) hf' hσ'
      have hget : infos[pre.length]? = some i := by
        rw [hinfos]; exact getElem?_append_cons _ _ _ _ rfl
      have hfind : findI (fun x => x.label == i.label) infos = some pre.length := by
        apply hI.2 _ _ _ i hget
        · simp
        · intro k' x' hk' hx'
          have hl : x'.label = i.label := by simpa using hx'
          apply nodup_getElem?_inj hw.labelsNodup (x := i.label)
          · rw [List.getElem?_map, hk', Option.map_some, hl]
          · rw [List.getElem?_map, hget, Option.map_some]
      have hgetD : infos.getD pre.length default = i := by
        rw [hinfos]; exact getD_append_cons _ _ _ _ _ rfl
      have hnd : i.actions.Nodup := hw.actionsNodup i (List.mem_of_getElem? hget)
      have hact := importActions_fill findA hA i.actions hnd σpre
        (is.map (fun i => List.replicate i.actions.length (0 : α))) i.actions [] [] v rfl rfl hvl hv.1
      simp only [List.nil_append] at hact
      simp only [List.zip_cons_cons, List.map_cons, List.cons_append]
      rw [importLoop, hfind]
      simp only
      rw [hgetD, ← hlen]
      simp only [ActIter.toList]
      rw [hact]
      simp only
      have e1 : σpre ++ v :: List.map (fun i => List.replicate i.actions.length (0 : α)) is
          = (σpre ++ [v]) ++ List.map (fun i => List.replicate i.actions.length (0 : α)) is := by
        simp
      have e2 : σpre ++ v :: vs = (σpre ++ [v]) ++ vs := by simp
      rw [e1, e2]
      exact ih'

/-! ### the outer loop over the single-action entries -/

theorem importLoop_singles (findI : (PInfo → Bool) → List PInfo → Option Nat)
    (findA : (Nat → Bool) → List Nat → Option Nat)
    (findS : ((Nat × Nat) → Bool) → List (Nat × Nat) → Option Nat)
    (hI : LookupOK findI) (hS : LookupOK findS)
    (infos : List PInfo) (singles : List (Nat × Nat)) (hw : TablesWF infos singles)
    (dense : Strat α) :
    ∀ (spost spre : List (Nat × Nat)), singles = spre ++ spost →
      importLoop findI findA findS infos singles
        (spost.map (fun (l, a) => (l, [(a, (1 : α))]))) dense
        (List.replicate spre.length true ++ List.replicate spost.length false)
      = .ok (dense, List.replicate singles.length true) := by
  intro spost
  induction spost with
  | nil =>
    intro spre hs
    subst hs
    simp [importLoop]
  | cons s ss ih =>
    intro spre hs
    obtain ⟨l, a⟩ := s
    have hs' : singles = (spre ++ [(l, a)]) ++ ss := by rw [hs]; simp
    have ih' := ih (spre ++ [(l, a)]) hs'
    have hget : singles[spre.length]? = some (l, a) := by
      rw [hs]; exact getElem?_append_cons _ _ _ _ rfl
    have hmem : l ∈ singles.map (·.1) :=
      List.mem_map.mpr ⟨(l, a), List.mem_of_getElem? hget, rfl⟩
    have hfindI : findI (fun x => x.label == l) infos = none := by
      apply hI.1
      intro x hx
      by_contra hxl
      have hxl' : x.label = l := by simpa using hxl
      exact hw.disjoint l (List.mem_map.mpr ⟨x, hx, hxl'⟩) hmem
    have hfindS : findS (fun x => x.1 == l) singles = some spre.length := by
      apply hS.2 _ _ _ (l, a) hget
      · simp
      · intro k' x' hk' hx'
        have hl : x'.1 = l := by simpa using hx'
        apply nodup_getElem?_inj hw.singlesNodup (x := l)
        · rw [List.getElem?_map, hk', Option.map_some, hl]
        · rw [List.getElem?_map, hget, Option.map_some]
    have hgetD : singles.getD spre.length default = (l, a) := by
      rw [hs]; exact getD_append_cons _ _ _ _ _ rfl
    have hseen : List.replicate spre.length true ++ List.replicate ((l, a) :: ss).length false
        = List.replicate spre.length true ++ false :: List.replicate ss.length false := by
      simp [List.replicate_succ]
    have hsingle : importSingle a [(a, (1 : α))] false = .ok true := by
      simp [importSingle, probOk]
    simp only [List.map_cons]
    rw [importLoop, hfindI]
    simp only
    rw [hfindS]
    simp only
    rw [hgetD, hseen, getD_append_cons _ _ _ _ _ (by simp)]
    simp only
    rw [hsingle]
    simp only
    rw [set_append_cons _ _ _ _ _ (by simp)]
    have e : List.replicate spre.length true ++ true :: List.replicate ss.length false
        = List.replicate (spre ++ [(l, a)]).length true ++ List.replicate ss.length false := by
      simp [List.replicate_succ']
    rw [e]
    exact ih'

/-! ### normalisation is the identity on a strategy -/

theorem importFinish_strat (σ : Strat α) (hσ : IsStrat σ) : importFinish σ = .ok σ := by
  induction σ with
  | nil => rfl
  | cons v vs ih =>
    have hv := hσ v (by simp)
    have ih' := ih (fun w hw => hσ w (by simp [hw]))
    rw [importFinish]
    simp only [lsum_eq_sum, hv.2, ih']
    simp

theorem importWith_asNamed (findI : (PInfo → Bool) → List PInfo → Option Nat)
    (findA : (Nat → Bool) → List Nat → Option Nat)
    (findS : ((Nat × Nat) → Bool) → List (Nat × Nat) → Option Nat)
    (hI : LookupOK findI) (hA : LookupOK findA) (hS : LookupOK findS)
    (infos : List PInfo) (singles : List (Nat × Nat)) (σ : Strat α)
    (hw : TablesWF infos singles) (hf : Fits infos σ) (hσ : IsStrat σ) :
    importWith findI findA findS infos singles (asNamed infos singles σ) = .ok σ := by
  have h1 := importLoop_multi findI findA findS hI hA infos singles hw
    (singles.map (fun (l, a) => (l, [(a, (1 : α))]))) (List.replicate singles.length false)
    infos [] [] σ rfl rfl hf hσ
  have h2 := importLoop_singles findI findA findS hI hS infos singles hw σ singles [] rfl
  simp only [List.nil_append, List.length_nil, List.replicate_zero] at h1 h2
  unfold importWith asNamed
  simp only
  rw [h1, h2]
  simp only [importFinish_strat σ hσ]
  simp

/-- **importing the named view yields the original profile** (exact arithmetic: exactly) -/
theorem stratIntoBox_asNamed (infos : List PInfo) (singles : List (Nat × Nat)) (σ : Strat α)
    (hw : TablesWF infos singles) (hf : Fits infos σ) (hσ : IsStrat σ) :
    stratIntoBox infos singles (asNamed infos singles σ) = .ok σ :=
  importWith_asNamed _ _ _ lookupOK_findLastIdx lookupOK_findLastIdx lookupOK_findLastIdx
    infos singles σ hw hf hσ

/-- the same through the scan-based importer -/
theorem stratIntoBoxSlow_asNamed (infos : List PInfo) (singles : List (Nat × Nat)) (σ : Strat α)
    (hw : TablesWF infos singles) (hf : Fits infos σ) (hσ : IsStrat σ) :
    stratIntoBoxSlow infos singles (asNamed infos singles σ) = .ok σ :=
  importWith_asNamed _ _ _ lookupOK_findIdx? lookupOK_findIdx? lookupOK_findIdx?
    infos singles σ hw hf hσ

/-! ## non-vacuity -/

def exInfos : List PInfo := [⟨7, [0, 1, 2], none⟩, ⟨9, [4, 5], some (0, 1)⟩]
def exSingles : List (Nat × Nat) := [(3, 8)]
def exSigma : Strat ℚ := [[1/2, 0, 1/2], [1, 0]]

example : TablesWF exInfos exSingles := by
  constructor <;> simp [exInfos, exSingles]
example : Fits exInfos exSigma := by simp [Fits, exInfos, exSigma]
example : asNamed exInfos exSingles exSigma =
    [(7, [(0, 1/2), (2, 1/2)]), (9, [(4, 1)]), (3, [(8, 1)])] := by
  norm_num [asNamed, exInfos, exSingles, exSigma, ActIter.toList, List.zip, List.filter]

example : IsStrat exSigma := by
  intro v hv
  simp only [exSigma, List.mem_cons, List.not_mem_nil, or_false] at hv
  rcases hv with rfl | rfl <;> constructor <;> norm_num

end Cfr
