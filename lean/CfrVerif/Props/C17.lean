import CfrVerif.Proofs.CliLemmas
/-!
# C17 — the command-line program rejects malformed or unsupported input instead of solving it

From the parsed AST on (the byte-level behaviour of `serde_json` and of `gambit-parser`'s `nom`
grammar is third party; it enters as `Parsed`, the two parsers' answers):

* **no solution without a representable game**: whenever the program prints a result, the input
  was accepted by the selected parser, had two players, passed the constant-sum and naming
  checks, and the tree handed to `from_root` is in the documented class of games (C11's `Valid`);
* each documented diagnostic category is returned exactly in its situation;
* an error is a value of `Except`: no result object accompanies it.
-/
set_option linter.unusedSectionVars false
namespace Cfr

/-- the tree the selected reader hands to `from_root`, with the constant-sum offset -/
noncomputable def loadRaw (numName : Nat → Nat) (fmt : InputFormat) (kind : InputKind) (p : Parsed ℝ) :
    Except CliError (Raw ℝ × ℝ) :=
  let json : Except CliError (Raw ℝ × ℝ) :=
    match p.json with | none => .error .jsonError | some s => .ok (s.toRaw, 0)
  let gambit : Except CliError (Raw ℝ × ℝ) :=
    match p.gambit with | none => .error .gambitError | some f => gambitRaw numName f
  let auto : Except CliError (Raw ℝ × ℝ) :=
    match p.json with
    | some s => .ok (s.toRaw, 0)
    | none => match p.gambit with | some f => gambitRaw numName f | none => .error .autoError
  match kind, fmt with
  | _, .json => json
  | .stdin, .gambit => gambit
  | .stdin, .auto => auto
  | .dotJson, .auto => json
  | _, .gambit => gambit
  | .dotEfg, .auto => gambit
  | _, .auto => auto

/-- loading = converting, then `from_root` -/
theorem loadGame_eq (numName : Nat → Nat) (fmt : InputFormat) (kind : InputKind) (p : Parsed ℝ) :
    loadGame numName fmt kind p =
      match loadRaw numName fmt kind p with
      | .error e => .error e
      | .ok (raw, sum) => fromRootCli raw sum := by
  sorry

/-- **it never reports a solution for a game it could not represent** -/
theorem cli_ok_implies_valid_game (env : Env) (sched : Sched ℝ) (draw : DrawFn ℝ)
    (numName : Nat → Nat) (o : CliOpts ℝ) (fmt : InputFormat) (kind : InputKind) (p : Parsed ℝ)
    (hshape : p.ShapeOK) (out : CliOut ℝ)
    (h : cliMain env sched draw numName o fmt kind p = .ok out) :
    ∃ raw sum g, loadRaw numName fmt kind p = .ok (raw, sum) ∧ fromRoot raw = .ok g ∧ Valid raw ∧
      GameWF g := by
  sorry

/-- **rejections by category** -/
theorem cli_rejects (env : Env) (sched : Sched ℝ) (draw : DrawFn ℝ) (numName : Nat → Nat)
    (o : CliOpts ℝ) (fmt : InputFormat) (kind : InputKind) (p : Parsed ℝ) :
    -- the selected parser does not accept the bytes
    (fmt = .json → p.json = none → cliMain env sched draw numName o fmt kind p = .error .jsonError) ∧
    (fmt = .gambit → p.gambit = none →
      cliMain env sched draw numName o fmt kind p = .error .gambitError) ∧
    (fmt = .auto → kind = .stdin → p.json = none → p.gambit = none →
      cliMain env sched draw numName o fmt kind p = .error .autoError) ∧
    -- a Gambit file with a player count other than two
    (∀ f, fmt = .gambit → p.gambit = some f → f.players ≠ 2 →
      cliMain env sched draw numName o fmt kind p = .error .playerCount) ∧
    -- the tree violates the library contract
    (∀ raw sum e, loadRaw numName fmt kind p = .ok (raw, sum) → fromRoot raw = .error e →
      cliMain env sched draw numName o fmt kind p = .error (.gameError e)) ∧
    -- the documented thread-count errors of the solve
    (∀ g sum e, loadGame numName fmt kind p = .ok (g, sum) →
      gameSolve env sched g o.method o.iters o.maxRegret o.parallel (some o.discount.intoParams) draw
        = .error e →
      cliMain env sched draw numName o fmt kind p = .error (.solveError e)) := by
  sorry

/-- **the Gambit-specific checks**: for a two-player file whose tables can be built, the reader
fails with exactly the documented category — a duplicate infoset name, a number/name clash,
non-finite cumulative payoffs, or payoffs that are not constant-sum within the tolerance -/
theorem gambit_rejects (numName : Nat → Nat) (f : EfgFile ℝ) (hp : f.players = 2)
    (t : Tables ℝ) (ht : Tables.run ({} : Tables ℝ) f.root.visits = .ok t) :
    (hasDupName t.one.given = true ∨ hasDupName t.two.given = true →
      ∃ e, gambitRaw numName f = .error e ∧
        (e = .duplicateInfosetName ∨ e = .numberNameClash)) ∧
    (∀ n1 n2 ls, t.one.resolve numName = .ok n1 → t.two.resolve numName = .ok n2 →
      Efg.leaves t.outcomes f.root (0, 0) = .ok ls → notConstantSum ls = true →
      gambitRaw numName f = .error .notConstantSum) ∧
    (∀ raw sum, gambitRaw numName f = .ok (raw, sum) →
      ∃ n1 n2 ls, t.one.resolve numName = .ok n1 ∧ t.two.resolve numName = .ok n2 ∧
        Efg.leaves t.outcomes f.root (0, 0) = .ok ls ∧ notConstantSum ls = false ∧
        sum = constantSum ls) := by
  sorry

end Cfr
