import CfrVerif.Proofs.CliLemmas
import CfrVerif.Proofs.CliReject
/-!
# C17 — the command-line program rejects malformed or unsupported input instead of solving it

From the parsed AST on (the byte-level behaviour of `serde_json` and of `gambit-parser`'s `nom`
grammar is third party; it enters as `Parsed`, the two parsers' answers):

* **no solution without a representable game**: whenever the program prints a result, the input
  was accepted by the selected parser, had two players, passed the constant-sum and naming
  checks, and the tree handed to `from_root` is in the documented class of games (C11's `Valid`);
* each documented diagnostic category is returned exactly in its situation;
* an error is a value of `Except`: no result object accompanies it.
-/
set_option linter.unusedSectionVars false
namespace Cfr

/-- the tree the selected reader hands to `from_root`, with the constant-sum offset -/
noncomputable def loadRaw (numName : Nat → Nat) (fmt : InputFormat) (kind : InputKind) (p : Parsed ℝ) :
    Except CliError (Raw ℝ × ℝ) :=
  let json : Except CliError (Raw ℝ × ℝ) :=
    match p.json with | none => .error .jsonError | some s => .ok (s.toRaw, 0)
  let gambit : Except CliError (Raw ℝ × ℝ) :=
    match p.gambit with | none => .error .gambitError | some f => gambitRaw numName f
  let auto : Except CliError (Raw ℝ × ℝ) :=
    match p.json with
    | some s => .ok (s.toRaw, 0)
    | none => match p.gambit with | some f => gambitRaw numName f | none => .error .autoError
  match kind, fmt with
  | _, .json => json
  | .stdin, .gambit => gambit
  | .stdin, .auto => auto
  | .dotJson, .auto => json
  | _, .gambit => gambit
  | .dotEfg, .auto => gambit
  | _, .auto => auto

/-- loading = converting, then `from_root` -/
theorem loadGame_eq (numName : Nat → Nat) (fmt : InputFormat) (kind : InputKind) (p : Parsed ℝ) :
    loadGame numName fmt kind p =
      match loadRaw numName fmt kind p with
      | .error e => .error e
      | .ok (raw, sum) => fromRootCli raw sum := by
  unfold loadGame loadRaw jsonFromReader gambitFromReader autoFromReader jsonFromState gambitFromAst
  cases kind <;> cases fmt <;> cases hj : p.json <;> cases hg : p.gambit <;> simp <;>
    (rename_i f; rcases hr : gambitRaw numName f with e | ⟨raw, sum⟩ <;> simp)

/-- the tree the selected reader hands to `from_root` has component lists of equal lengths -/
theorem loadRaw_shape (numName : Nat → Nat) (fmt : InputFormat) (kind : InputKind) (p : Parsed ℝ)
    (hshape : p.ShapeOK) (raw : Raw ℝ) (sum : ℝ)
    (h : loadRaw numName fmt kind p = .ok (raw, sum)) : Raw.Shape raw := by
  obtain ⟨hJ, hG⟩ := hshape
  unfold loadRaw at h
  cases kind <;> cases fmt <;> cases hj : p.json <;> cases hg : p.gambit <;>
    simp only [hj, hg] at h <;>
    first
    | (cases h; done)
    | (cases h; exact Rej.jshape _ (hJ _ hj))
    | exact Rej.gambitRaw_shape numName _ (hG _ hg) raw sum h

/-- **it never reports a solution for a game it could not represent** -/
theorem cli_ok_implies_valid_game (env : Env) (sched : Sched ℝ) (draw : DrawFn ℝ)
    (numName : Nat → Nat) (o : CliOpts ℝ) (fmt : InputFormat) (kind : InputKind) (p : Parsed ℝ)
    (hshape : p.ShapeOK) (out : CliOut ℝ)
    (h : cliMain env sched draw numName o fmt kind p = .ok out) :
    ∃ raw sum g, loadRaw numName fmt kind p = .ok (raw, sum) ∧ fromRoot raw = .ok g ∧ Valid raw ∧
      GameWF g := by
  unfold cliMain at h
  rcases hl : loadGame numName fmt kind p with e | ⟨g, sum⟩
  · rw [hl] at h; cases h
  · rw [loadGame_eq] at hl
    rcases hr : loadRaw numName fmt kind p with e | ⟨raw, sum'⟩
    · rw [hr] at hl; cases hl
    · rw [hr] at hl
      simp only [fromRootCli] at hl
      rcases hf : fromRoot raw with e | g'
      · rw [hf] at hl; cases hl
      · rw [hf] at hl
        cases hl
        have hs : Raw.Shape raw := loadRaw_shape numName fmt kind p hshape raw sum hr
        exact ⟨raw, sum, g, rfl, hf, (fromRoot_ok_iff_valid raw hs).1 ⟨g, hf⟩,
          fromRoot_ok_wf raw hs g hf⟩

/-- **rejections by category** -/
theorem cli_rejects (env : Env) (sched : Sched ℝ) (draw : DrawFn ℝ) (numName : Nat → Nat)
    (o : CliOpts ℝ) (fmt : InputFormat) (kind : InputKind) (p : Parsed ℝ) :
    -- the selected parser does not accept the bytes
    (fmt = .json → p.json = none → cliMain env sched draw numName o fmt kind p = .error .jsonError) ∧
    (fmt = .gambit → p.gambit = none →
      cliMain env sched draw numName o fmt kind p = .error .gambitError) ∧
    (fmt = .auto → kind = .stdin → p.json = none → p.gambit = none →
      cliMain env sched draw numName o fmt kind p = .error .autoError) ∧
    -- a Gambit file with a player count other than two
    (∀ f, fmt = .gambit → p.gambit = some f → f.players ≠ 2 →
      cliMain env sched draw numName o fmt kind p = .error .playerCount) ∧
    -- the tree violates the library contract
    (∀ raw sum e, loadRaw numName fmt kind p = .ok (raw, sum) → fromRoot raw = .error e →
      cliMain env sched draw numName o fmt kind p = .error (.gameError e)) ∧
    -- the documented thread-count errors of the solve
    (∀ g sum e, loadGame numName fmt kind p = .ok (g, sum) →
      gameSolve env sched g o.method o.iters o.maxRegret o.parallel (some o.discount.intoParams) draw
        = .error e →
      cliMain env sched draw numName o fmt kind p = .error (.solveError e)) := by
  refine ⟨?_, ?_, ?_, ?_, ?_, ?_⟩
  · intro hf hj
    subst hf
    unfold cliMain loadGame jsonFromReader
    cases kind <;> simp [hj]
  · intro hf hg
    subst hf
    unfold cliMain loadGame gambitFromReader
    cases kind <;> simp [hg]
  · intro hf hk hj hg
    subst hf; subst hk
    unfold cliMain loadGame autoFromReader
    simp [hj, hg]
  · intro f hf hg hp
    subst hf
    unfold cliMain loadGame gambitFromReader gambitFromAst gambitRaw
    cases kind <;> simp [hg, hp]
  · intro raw sum e h1 h2
    unfold cliMain
    rw [loadGame_eq, h1]
    simp [fromRootCli, h2]
  · intro g sum e h1 h2
    unfold cliMain
    rw [h1]
    simp [runGame, h2]

/-- **the Gambit-specific checks**: for a two-player file whose tables can be built, the reader
fails with exactly the documented category — a duplicate infoset name, a number/name clash,
non-finite cumulative payoffs, or payoffs that are not constant-sum within the tolerance -/
theorem gambit_rejects (numName : Nat → Nat) (f : EfgFile ℝ) (hp : f.players = 2)
    (t : Tables ℝ) (ht : Tables.run ({} : Tables ℝ) f.root.visits = .ok t) :
    (hasDupName t.one.given = true ∨ hasDupName t.two.given = true →
      ∃ e, gambitRaw numName f = .error e ∧
        (e = .duplicateInfosetName ∨ e = .numberNameClash)) ∧
    (∀ n1 n2 ls, t.one.resolve numName = .ok n1 → t.two.resolve numName = .ok n2 →
      Efg.leaves t.outcomes f.root (0, 0) = .ok ls → notConstantSum ls = true →
      gambitRaw numName f = .error .notConstantSum) ∧
    (∀ raw sum, gambitRaw numName f = .ok (raw, sum) →
      ∃ n1 n2 ls, t.one.resolve numName = .ok n1 ∧ t.two.resolve numName = .ok n2 ∧
        Efg.leaves t.outcomes f.root (0, 0) = .ok ls ∧ notConstantSum ls = false ∧
        sum = constantSum ls) := by
  have heq := Rej.gambitRaw_eq numName f hp t ht
  refine ⟨?_, ?_, ?_⟩
  · intro h
    rcases h1 : t.one.resolve numName with e | n1
    · exact ⟨e, by rw [heq, h1], Rej.resolve_error numName _ e h1⟩
    · rcases h with h | h
      · rw [Rej.resolve_dup numName _ h] at h1; cases h1
      · refine ⟨.duplicateInfosetName, ?_, Or.inl rfl⟩
        rw [heq, h1, Rej.resolve_dup numName _ h]
  · intro n1 n2 ls h1 h2 h3 h4
    rw [heq, h1, h2, h3]
    simp [h4]
  · intro raw sum h
    rw [heq] at h
    rcases h1 : t.one.resolve numName with e | n1
    · rw [h1] at h; cases h
    · rcases h2 : t.two.resolve numName with e | n2
      · rw [h1, h2] at h; cases h
      · rcases h3 : Efg.leaves t.outcomes f.root (0, 0) with e | ls
        · rw [h1, h2, h3] at h; cases h
        · rw [h1, h2, h3] at h
          simp only at h
          by_cases h4 : notConstantSum ls = true
          · rw [if_pos h4] at h; cases h
          · rw [if_neg h4] at h
            split at h
            · cases h
            · cases h
              exact ⟨n1, n2, ls, rfl, rfl, rfl, by simpa using h4, rfl⟩

/-! ## non-vacuity: the hypotheses are satisfiable and each rejection occurs -/
namespace C17

/-- `c "" 1 "" { "0" 1/2 "1" 1/2 } 0` over `t "" 1 "" { 0 0 }` and `t "" 2 "" { 1 1 }` : pair sums
`0` and `2` over a payoff range of `1` for player one -/
noncomputable def ncsFile : EfgFile ℝ :=
  ⟨2, .chance 1 [0, 1] [1/2, 1/2] [.term 1 [0, 0], .term 2 [1, 1]] 0 none⟩

/-- the hypotheses of the second conjunct of `gambit_rejects` hold for it, so it is rejected as not
constant-sum -/
example : gambitRaw id ncsFile = .error .notConstantSum := by
  have ht : Tables.run ({} : Tables ℝ) ncsFile.root.visits =
      .ok ⟨{}, {}, [(1, (0, 0)), (2, (1, 1))]⟩ := by
    simp [ncsFile, Efg.visits, Efg.visitsL, Tables.run, Tables.step, Tables.insertOutcome,
      Tables.insertOptOutcome, toPair]
  refine (gambit_rejects id ncsFile rfl _ ht).2.1 [] [] [((1:ℝ), (1:ℝ)), (0, 0)] ?_ ?_ ?_ ?_
  · simp [PNames.resolve, hasDupName]
  · simp [PNames.resolve, hasDupName]
  · simp [ncsFile, Efg.leaves, Efg.leavesL, stepCum, assocFind, addPays]
  · simp [notConstantSum, pairSum, maxOf, minOf, fmax_eq_max, fmin_eq_min]

/-- two infosets of player one (numbers `1` and `2`) both named `6` -/
noncomputable def dupFile : EfgFile ℝ :=
  ⟨2, .player 1 1 (some 6) [4, 5]
      [.player 1 2 (some 6) [4, 5] [.term 1 [0, 0], .term 1 [0, 0]] 0 none, .term 1 [0, 0]] 0 none⟩

/-- the hypothesis of the first conjunct of `gambit_rejects` holds for it -/
example : ∃ e, gambitRaw id dupFile = .error e ∧
    (e = .duplicateInfosetName ∨ e = .numberNameClash) := by
  have ht : Tables.run ({} : Tables ℝ) dupFile.root.visits =
      .ok ⟨⟨[(2, 6), (1, 6)], [2, 1]⟩, {}, [(1, (0, 0)), (1, (0, 0)), (1, (0, 0))]⟩ := by
    simp [dupFile, Efg.visits, Efg.visitsL, Tables.run, Tables.step, Tables.insertOutcome,
      Tables.insertOptOutcome, toPair, PNames.note]
  exact (gambit_rejects id dupFile rfl _ ht).1 (Or.inl (by simp [hasDupName]))

/-- a three-player file: fourth conjunct of `cli_rejects` -/
example (env : Env) (sched : Sched ℝ) (draw : DrawFn ℝ) (o : CliOpts ℝ) (kind : InputKind) :
    cliMain env sched draw id o .gambit kind ⟨none, some ⟨3, .term 1 [0, 0, 0]⟩⟩
      = .error .playerCount :=
  (cli_rejects env sched draw id o .gambit kind ⟨none, some ⟨3, .term 1 [0, 0, 0]⟩⟩).2.2.2.1
    _ rfl rfl (by decide)

/-- a JSON tree with a player node without actions: fifth conjunct of `cli_rejects` -/
example (env : Env) (sched : Sched ℝ) (draw : DrawFn ℝ) (o : CliOpts ℝ) (kind : InputKind) :
    cliMain env sched draw id o .json kind ⟨some (.player true 1 [] []), none⟩
      = .error (.gameError .emptyPlayer) := by
  refine (cli_rejects env sched draw id o .json kind ⟨some (.player true 1 [] []), none⟩).2.2.2.2.1
    (.player true 1 [] []) 0 _ ?_ ?_
  · cases kind <;> simp [loadRaw, JState.toRaw, JState.toRawL, sortBy]
  · simp [fromRoot, compile]

/-- one decision of player one (unnamed infoset `1`, actions listed as `1`, `0`) over two
terminals with payoffs `(1, -1)` and `(-1, 1)` : constant sum `0` -/
noncomputable def okFile : EfgFile ℝ :=
  ⟨2, .player 1 1 none [1, 0] [.term 1 [1, -1], .term 2 [-1, 1]] 0 none⟩

noncomputable def okParsed : Parsed ℝ := ⟨none, some okFile⟩

theorem okParsed_shape : okParsed.ShapeOK := by
  constructor
  · intro s h; cases h
  · intro f h; cases h; simp [okFile, Efg.ShapeOK, Efg.ShapeOKL]

theorem okTables : Tables.run ({} : Tables ℝ) okFile.root.visits =
    .ok ⟨⟨[], [1]⟩, {}, [(1, (1, -1)), (2, (-1, 1))]⟩ := by
  simp [okFile, Efg.visits, Efg.visitsL, Tables.run, Tables.step, Tables.insertOutcome,
    Tables.insertOptOutcome, toPair, PNames.note]

/-- the reader sorts the actions and subtracts the offset -/
theorem okLoad : loadRaw id .gambit .stdin okParsed =
    .ok (.player true 1 [0, 1] [.term (-1), .term 1], 0) := by
  simp only [loadRaw, okParsed]
  rw [Rej.gambitRaw_eq id okFile rfl _ okTables]
  simp [PNames.resolve, hasDupName]
  have hl : Efg.leaves [(1, ((1:ℝ), (-1:ℝ))), (2, (-1, 1))] okFile.root (0, 0) =
      .ok [((-1:ℝ), (1:ℝ)), (1, -1)] := by
    simp [okFile, Efg.leaves, Efg.leavesL, stepCum, assocFind, addPays]
  rw [hl]
  have hn : notConstantSum [((-1:ℝ), (1:ℝ)), (1, -1)] = false := by
    simp [notConstantSum, pairSum, maxOf, minOf, fmax_eq_max, fmin_eq_min]
    norm_num
  have hc : constantSum [((-1:ℝ), (1:ℝ)), (1, -1)] = 0 := by
    simp [constantSum, pairSum, maxOf, minOf, fmax_eq_max, fmin_eq_min]
    norm_num
  simp only [hn, hc]
  simp [okFile, Efg.toRaw, Efg.toRawL, nodePayoff, assocFind, sortBy, insertBy, actionLt]

/-- the third conjunct of `gambit_rejects` applies to it -/
example : ∃ n1 n2 ls, PNames.resolve id ⟨[], [1]⟩ = .ok n1 ∧ PNames.resolve id {} = .ok n2 ∧
    Efg.leaves [(1, ((1:ℝ), (-1:ℝ))), (2, (-1, 1))] okFile.root (0, 0) = .ok ls ∧
    notConstantSum ls = false ∧ (0 : ℝ) = constantSum ls := by
  have h : gambitRaw id okFile = .ok (.player true 1 [0, 1] [.term (-1), .term 1], 0) := by
    have := okLoad
    simpa [loadRaw, okParsed] using this
  exact (gambit_rejects id okFile rfl _ okTables).2.2 _ _ h

noncomputable def okGame : Game ℝ :=
  ⟨[], [⟨1, [0, 1], none⟩], [], [], [], .player true 0 [.term (-1), .term 1]⟩

theorem okFromRoot : fromRoot (.player true 1 [0, 1] [.term (-1 : ℝ), .term 1]) = .ok okGame := by
  have hd : (List.eraseDupsBy (fun x1 x2 : Nat => x1 == x2) [0, 1]).length = 2 := by decide
  simp [fromRoot, compile, compileActions, registerPlayer, BState.infos, BState.singles,
    BState.setInfos, Prev.get, okGame, List.eraseDups, hd]

theorem okLoadGame : loadGame id .gambit .stdin okParsed = .ok (okGame, 0) := by
  rw [loadGame_eq, okLoad]
  simp [fromRootCli, okFromRoot]

theorem okAssemble (info : StrategiesInfo ℝ) (one two : Strat ℝ) :
    ∃ out, assemble okGame 0 info one two = .ok out := by
  have h1 : strategyOfNamed (asNamed okGame.p1 okGame.s1 one) ≠ none := by
    cases one <;> simp [strategyOfNamed, asNamed, okGame, hasDupNat]
  have h2 : strategyOfNamed (asNamed okGame.p2 okGame.s2 two) ≠ none := by
    simp [strategyOfNamed, asNamed, okGame, hasDupNat]
  unfold assemble
  rcases h3 : strategyOfNamed (asNamed okGame.p1 okGame.s1 one) with _ | s1
  · exact absurd h3 h1
  · rcases h4 : strategyOfNamed (asNamed okGame.p2 okGame.s2 two) with _ | s2
    · exact absurd h4 h2
    · exact ⟨_, rfl⟩

/-- the hypothesis of `cli_ok_implies_valid_game` is satisfiable: with one thread the program
prints a result for this file, whatever the solver, the oracle and the remaining options -/
theorem okMain (env : Env) (sched : Sched ℝ) (draw : DrawFn ℝ) (o : CliOpts ℝ)
    (ho : o.parallel = 1) :
    ∃ out, cliMain env sched draw id o .gambit .stdin okParsed = .ok out := by
  unfold cliMain
  rw [okLoadGame]
  simp only [runGame, gameSolve, Env.threads, ho]
  simp only [ne_eq, one_ne_zero, not_false_eq_true, if_true]
  cases o.method <;> simp only [report] <;> split_ifs <;> exact okAssemble _ _ _

/-- … and its conclusion is about the tree and the game computed above -/
example (env : Env) (sched : Sched ℝ) (draw : DrawFn ℝ) (o : CliOpts ℝ) (ho : o.parallel = 1) :
    Valid (.player true 1 [0, 1] [.term (-1 : ℝ), .term 1]) ∧ GameWF okGame := by
  obtain ⟨out, h⟩ := okMain env sched draw o ho
  obtain ⟨raw, sum, g, h1, h2, h3, h4⟩ :=
    cli_ok_implies_valid_game env sched draw id o .gambit .stdin okParsed okParsed_shape out h
  rw [okLoad] at h1
  cases h1
  rw [okFromRoot] at h2
  cases h2
  exact ⟨h3, h4⟩

end C17
end Cfr
