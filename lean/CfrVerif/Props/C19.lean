import CfrVerif.Proofs.RealInst
import CfrVerif.Model.Named
/-!
# C19 — strategy distance is a well-defined, bounded, symmetric dissimilarity

`distanceOne p a b` is `Strategies::distance` for one player (`none` = the documented panic
`p` not positive; the other documented panic, profiles of different games, is the pointer
comparison `self.game == other.game` and has no counterpart in a model of one game).
Stated at `ℝ` with `powf` = real power.  Profiles of one game have the same shape (`SameShape`).
-/
set_option linter.unusedSectionVars false
namespace Cfr

/-- two strategies of the same player of the same game -/
def SameShape (a b : Strat ℝ) : Prop := a.map List.length = b.map List.length

/-! ## helper lemmas -/

theorem absS_eq_abs (x : ℝ) : absS x = |x| := by
  unfold absS
  split_ifs with h
  · exact (abs_of_neg h).symm
  · exact (abs_of_nonneg (not_lt.mp h)).symm

/-- the summand `|x - y|^p` -/
noncomputable def dterm (p x y : ℝ) : ℝ := |x - y| ^ p

theorem dterm_nonneg (p x y : ℝ) : 0 ≤ dterm p x y :=
  Real.rpow_nonneg (abs_nonneg _) _

theorem dterm_comm (p x y : ℝ) : dterm p x y = dterm p y x := by
  unfold dterm; rw [abs_sub_comm]

theorem dterm_self (p : ℝ) (hp : 0 < p) (x : ℝ) : dterm p x x = 0 := by
  unfold dterm; rw [sub_self, abs_zero, Real.zero_rpow hp.ne']

theorem dterm_pos (p x y : ℝ) (h : x ≠ y) : 0 < dterm p x y :=
  Real.rpow_pos_of_pos (abs_pos.mpr (sub_ne_zero.mpr h)) _

/-- the flattened zip sum -/
noncomputable def zsum (p : ℝ) (l r : List ℝ) : ℝ := (List.zipWith (dterm p) l r).sum

@[simp] theorem zsum_nil_left (p : ℝ) (r : List ℝ) : zsum p [] r = 0 := by simp [zsum]
@[simp] theorem zsum_nil_right (p : ℝ) (l : List ℝ) : zsum p l [] = 0 := by simp [zsum]
@[simp] theorem zsum_cons (p x y : ℝ) (l r : List ℝ) :
    zsum p (x :: l) (y :: r) = dterm p x y + zsum p l r := by simp [zsum]

theorem zsum_append (p : ℝ) (l₁ l₂ r₁ r₂ : List ℝ) (h : l₁.length = r₁.length) :
    zsum p (l₁ ++ l₂) (r₁ ++ r₂) = zsum p l₁ r₁ + zsum p l₂ r₂ := by
  unfold zsum
  rw [List.zipWith_append h, List.sum_append]

theorem distSum_eq (p : ℝ) : ∀ (l r : List ℝ) (acc : ℝ), distSum p l r acc = acc + zsum p l r
  | [], _, acc => by simp [distSum]
  | _ :: _, [], acc => by simp [distSum]
  | x :: l, y :: r, acc => by
    rw [distSum, distSum_eq p l r, zsum_cons, transc_pow, absS_eq_abs, add_assoc]
    rfl

theorem zsum_nonneg (p : ℝ) : ∀ (l r : List ℝ), 0 ≤ zsum p l r
  | [], _ => by simp
  | _ :: _, [] => by simp
  | x :: l, y :: r => by
    rw [zsum_cons]
    exact add_nonneg (dterm_nonneg p x y) (zsum_nonneg p l r)

theorem zsum_comm (p : ℝ) : ∀ (l r : List ℝ), zsum p l r = zsum p r l
  | [], _ => by simp
  | _ :: _, [] => by simp
  | x :: l, y :: r => by
    rw [zsum_cons, zsum_cons, dterm_comm, zsum_comm p l r]

theorem zsum_self (p : ℝ) (hp : 0 < p) : ∀ (l : List ℝ), zsum p l l = 0
  | [] => by simp
  | x :: l => by rw [zsum_cons, dterm_self p hp, zsum_self p hp l, add_zero]

theorem zsum_pos (p : ℝ) : ∀ (l r : List ℝ), l.length = r.length → l ≠ r → 0 < zsum p l r
  | [], [], _, hne => absurd rfl hne
  | [], _ :: _, hl, _ => by simp at hl
  | _ :: _, [], hl, _ => by simp at hl
  | x :: l, y :: r, hl, hne => by
    rw [zsum_cons]
    by_cases hxy : x = y
    · subst hxy
      have hne' : l ≠ r := fun h => hne (by rw [h])
      have := zsum_pos p l r (by simpa using hl) hne'
      have := dterm_nonneg p x x
      linarith
    · have := dterm_pos p x y hxy
      have := zsum_nonneg p l r
      linarith

theorem list_sum_nonneg : ∀ (l : List ℝ), (∀ x ∈ l, 0 ≤ x) → 0 ≤ l.sum
  | [], _ => by simp
  | x :: l, h => by
    rw [List.sum_cons]
    exact add_nonneg (h x (by simp)) (list_sum_nonneg l (fun y hy => h y (by simp [hy])))

theorem list_le_sum : ∀ (l : List ℝ), (∀ x ∈ l, 0 ≤ x) → ∀ x ∈ l, x ≤ l.sum
  | [], _, x, hx => by simp at hx
  | y :: l, h, x, hx => by
    rw [List.sum_cons]
    have hy : 0 ≤ y := h y (by simp)
    have hl : ∀ z ∈ l, 0 ≤ z := fun z hz => h z (by simp [hz])
    rcases List.mem_cons.mp hx with rfl | hx'
    · have := list_sum_nonneg l hl
      linarith
    · have := list_le_sum l hl x hx'
      linarith

/-- one summand: for entries in `[0,1]` and `1 ≤ p`, `|x - y|^p ≤ x + y` -/
theorem dterm_le (p : ℝ) (hp : 1 ≤ p) (x y : ℝ) (hx0 : 0 ≤ x) (hx1 : x ≤ 1) (hy0 : 0 ≤ y)
    (hy1 : y ≤ 1) : dterm p x y ≤ x + y := by
  unfold dterm
  have h1 : |x - y| ≤ 1 := abs_le.mpr ⟨by linarith, by linarith⟩
  have h2 : |x - y| ≤ x + y := abs_le.mpr ⟨by linarith, by linarith⟩
  exact (Real.rpow_le_self_of_le_one (abs_nonneg _) h1 hp).trans h2

theorem zsum_le (p : ℝ) (hp : 1 ≤ p) : ∀ (l r : List ℝ), (∀ x ∈ l, 0 ≤ x ∧ x ≤ 1) →
    (∀ y ∈ r, 0 ≤ y ∧ y ≤ 1) → zsum p l r ≤ l.sum + r.sum
  | [], r, _, hr => by
    simp only [zsum_nil_left, List.sum_nil, zero_add]
    exact list_sum_nonneg r (fun y hy => (hr y hy).1)
  | x :: l, [], hl, _ => by
    simp only [zsum_nil_right, List.sum_nil, add_zero]
    exact list_sum_nonneg _ (fun y hy => (hl y hy).1)
  | x :: l, y :: r, hl, hr => by
    rw [zsum_cons, List.sum_cons, List.sum_cons]
    have hx := hl x (by simp)
    have hy := hr y (by simp)
    have h1 := dterm_le p hp x y hx.1 hx.2 hy.1 hy.2
    have h2 := zsum_le p hp l r (fun z hz => hl z (by simp [hz])) (fun z hz => hr z (by simp [hz]))
    linarith

theorem isDist_bounds (v : List ℝ) (hv : IsDist v) : ∀ x ∈ v, 0 ≤ x ∧ x ≤ 1 := fun x hx =>
  ⟨hv.1 x hx, hv.2 ▸ list_le_sum v hv.1 x hx⟩

/-- per infoset: `Σ |l - r|^p ≤ 2` -/
theorem zsum_dist_le (p : ℝ) (hp : 1 ≤ p) (v w : List ℝ) (hv : IsDist v) (hw : IsDist w) :
    zsum p v w ≤ 2 := by
  have := zsum_le p hp v w (isDist_bounds v hv) (isDist_bounds w hw)
  rw [hv.2, hw.2] at this
  linarith

/-- summing over the infosets -/
theorem zsum_flatten_le (p : ℝ) (hp : 1 ≤ p) : ∀ (a b : Strat ℝ), IsStrat a → IsStrat b →
    SameShape a b → zsum p a.flatten b.flatten ≤ 2 * (a.length : ℝ)
  | [], _, _, _, _ => by simp
  | _ :: _, [], _, _, hs => by simp [SameShape] at hs
  | v :: a, w :: b, ha, hb, hs => by
    have hs' : v.length = w.length ∧ SameShape a b := by
      simpa [SameShape] using hs
    rw [List.flatten_cons, List.flatten_cons, zsum_append p _ _ _ _ hs'.1]
    have h1 := zsum_dist_le p hp v w (ha v (by simp)) (hb w (by simp))
    have h2 := zsum_flatten_le p hp a b (fun z hz => ha z (by simp [hz]))
      (fun z hz => hb z (by simp [hz])) hs'.2
    rw [List.length_cons, Nat.cast_succ]
    linarith

theorem sameShape_length (a b : Strat ℝ) (hs : SameShape a b) : a.length = b.length := by
  have := congrArg List.length hs
  simpa using this

theorem sameShape_flatten_length (a b : Strat ℝ) (hs : SameShape a b) :
    a.flatten.length = b.flatten.length := by
  rw [List.length_flatten, List.length_flatten]
  unfold SameShape at hs
  rw [hs]

theorem sameShape_flatten_inj : ∀ (a b : Strat ℝ), SameShape a b → a.flatten = b.flatten → a = b
  | [], [], _, _ => rfl
  | [], _ :: _, hs, _ => by simp [SameShape] at hs
  | _ :: _, [], hs, _ => by simp [SameShape] at hs
  | v :: a, w :: b, hs, hf => by
    have hs' : v.length = w.length ∧ SameShape a b := by
      simpa [SameShape] using hs
    rw [List.flatten_cons, List.flatten_cons] at hf
    obtain ⟨h1, h2⟩ := List.append_inj hf hs'.1
    rw [h1, sameShape_flatten_inj a b hs'.2 h2]

/-- the value of `distanceOne` for positive `p` and at least one infoset -/
theorem distanceOne_eq (p : ℝ) (hp : 0 < p) (a b : Strat ℝ) (hne : a ≠ []) :
    distanceOne p a b = some (zsum p a.flatten b.flatten / 2 / (a.length : ℝ)) := by
  unfold distanceOne
  rw [if_pos hp]
  have hl : (a.length == 0) = false := by
    cases a with
    | nil => exact absurd rfl hne
    | cons _ _ => rfl
  rw [hl, distSum_eq, zero_add]
  norm_num

theorem distanceOne_nil (p : ℝ) (hp : 0 < p) (b : Strat ℝ) : distanceOne p [] b = some 0 := by
  unfold distanceOne
  rw [if_pos hp]
  rfl

theorem length_cast_pos (a : Strat ℝ) (hne : a ≠ []) : (0 : ℝ) < (a.length : ℝ) := by
  have : 0 < a.length := List.length_pos_iff.mpr hne
  exact_mod_cast this

/-! ## the theorems -/

/-- **it panics exactly when `p` is not positive** -/
theorem distance_panics_iff (p : ℝ) (a b : Strat ℝ) : distanceOne p a b = none ↔ ¬ 0 < p := by
  unfold distanceOne
  by_cases hp : 0 < p
  · rw [if_pos hp]
    split_ifs <;> simp [hp]
  · rw [if_neg hp]
    simp [hp]

/-- a player without decisions: distance `0` (never `0/0`) -/
theorem distance_no_infosets (p : ℝ) (hp : 0 < p) : distanceOne p ([] : Strat ℝ) [] = some 0 :=
  distanceOne_nil p hp []

/-- non-negative for every positive `p` -/
theorem distance_nonneg (p : ℝ) (hp : 0 < p) (a b : Strat ℝ) :
    ∃ d, distanceOne p a b = some d ∧ 0 ≤ d := by
  by_cases hne : a = []
  · subst hne
    exact ⟨0, distanceOne_nil p hp b, le_refl _⟩
  · refine ⟨_, distanceOne_eq p hp a b hne, ?_⟩
    have h1 := zsum_nonneg p a.flatten b.flatten
    have h2 := length_cast_pos a hne
    positivity

/-- **range**: for `1 ≤ p` the distance of two valid profiles lies in `[0, 1]` -/
theorem distance_range (p : ℝ) (hp : 1 ≤ p) (a b : Strat ℝ) (ha : IsStrat a) (hb : IsStrat b)
    (hs : SameShape a b) : ∃ d, distanceOne p a b = some d ∧ 0 ≤ d ∧ d ≤ 1 := by
  have hp0 : 0 < p := by linarith
  by_cases hne : a = []
  · subst hne
    exact ⟨0, distanceOne_nil p hp0 b, le_refl _, zero_le_one⟩
  · refine ⟨_, distanceOne_eq p hp0 a b hne, ?_, ?_⟩
    · have h1 := zsum_nonneg p a.flatten b.flatten
      have h2 := length_cast_pos a hne
      positivity
    · have h1 := zsum_flatten_le p hp a b ha hb hs
      have h2 := length_cast_pos a hne
      rw [div_div, div_le_one (by positivity)]
      linarith

/-- **zero when the two profiles coincide** -/
theorem distance_self (p : ℝ) (hp : 0 < p) (a : Strat ℝ) : distanceOne p a a = some 0 := by
  by_cases hne : a = []
  · subst hne
    exact distanceOne_nil p hp []
  · rw [distanceOne_eq p hp a a hne, zsum_self p hp]
    simp

/-- **positive when they differ in some infoset** -/
theorem distance_pos (p : ℝ) (hp : 0 < p) (a b : Strat ℝ) (hs : SameShape a b) (hne : a ≠ b) :
    ∃ d, distanceOne p a b = some d ∧ 0 < d := by
  have hane : a ≠ [] := by
    rintro rfl
    apply hne
    have := sameShape_length _ _ hs
    exact (List.length_eq_zero_iff.mp this.symm).symm
  refine ⟨_, distanceOne_eq p hp a b hane, ?_⟩
  have h1 := zsum_pos p a.flatten b.flatten (sameShape_flatten_length a b hs)
    (fun h => hne (sameShape_flatten_inj a b hs h))
  have h2 := length_cast_pos a hane
  positivity

/-- **symmetric** -/
theorem distance_symm (p : ℝ) (a b : Strat ℝ) (hs : SameShape a b) :
    distanceOne p a b = distanceOne p b a := by
  have hl := sameShape_length a b hs
  by_cases hp : 0 < p
  · by_cases hne : a = []
    · subst hne
      have hb : b = [] := List.length_eq_zero_iff.mp hl.symm
      rw [hb]
    · have hbne : b ≠ [] := by
        rintro rfl
        exact hne (List.length_eq_zero_iff.mp hl)
      rw [distanceOne_eq p hp a b hne, distanceOne_eq p hp b a hbne, zsum_comm, hl]
  · unfold distanceOne
    rw [if_neg hp, if_neg hp]

/-- the upper bound `1` is attained: disjoint pure strategies -/
theorem distance_disjoint_pure (p : ℝ) (hp : 0 < p) :
    distanceOne p ([[1, 0]] : Strat ℝ) [[0, 1]] = some 1 := by
  rw [distanceOne_eq p hp _ _ (by simp)]
  norm_num [dterm]

end Cfr
