import CfrVerif.Proofs.RealInst
import CfrVerif.Model.Named
/-!
# C19 — strategy distance is a well-defined, bounded, symmetric dissimilarity

`distanceOne p a b` is `Strategies::distance` for one player (`none` = the documented panic
`p` not positive; the other documented panic, profiles of different games, is the pointer
comparison `self.game == other.game` and has no counterpart in a model of one game).
Stated at `ℝ` with `powf` = real power.  Profiles of one game have the same shape (`SameShape`).
-/
set_option linter.unusedSectionVars false
namespace Cfr

/-- two strategies of the same player of the same game -/
def SameShape (a b : Strat ℝ) : Prop := a.map List.length = b.map List.length

/-- **it panics exactly when `p` is not positive** -/
theorem distance_panics_iff (p : ℝ) (a b : Strat ℝ) : distanceOne p a b = none ↔ ¬ 0 < p := by
  sorry

/-- a player without decisions: distance `0` (never `0/0`) -/
theorem distance_no_infosets (p : ℝ) (hp : 0 < p) : distanceOne p ([] : Strat ℝ) [] = some 0 := by
  sorry

/-- **range**: for `1 ≤ p` the distance of two valid profiles lies in `[0, 1]` -/
theorem distance_range (p : ℝ) (hp : 1 ≤ p) (a b : Strat ℝ) (ha : IsStrat a) (hb : IsStrat b)
    (hs : SameShape a b) : ∃ d, distanceOne p a b = some d ∧ 0 ≤ d ∧ d ≤ 1 := by
  sorry

/-- non-negative for every positive `p` -/
theorem distance_nonneg (p : ℝ) (hp : 0 < p) (a b : Strat ℝ) :
    ∃ d, distanceOne p a b = some d ∧ 0 ≤ d := by
  sorry

/-- **zero when the two profiles coincide** -/
theorem distance_self (p : ℝ) (hp : 0 < p) (a : Strat ℝ) : distanceOne p a a = some 0 := by
  sorry

/-- **positive when they differ in some infoset** -/
theorem distance_pos (p : ℝ) (hp : 0 < p) (a b : Strat ℝ) (hs : SameShape a b) (hne : a ≠ b) :
    ∃ d, distanceOne p a b = some d ∧ 0 < d := by
  sorry

/-- **symmetric** -/
theorem distance_symm (p : ℝ) (a b : Strat ℝ) (hs : SameShape a b) :
    distanceOne p a b = distanceOne p b a := by
  sorry

/-- the upper bound `1` is attained: disjoint pure strategies -/
theorem distance_disjoint_pure (p : ℝ) (hp : 0 < p) :
    distanceOne p ([[1, 0]] : Strat ℝ) [[0, 1]] = some 1 := by
  sorry

end Cfr
