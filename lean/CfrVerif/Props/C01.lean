import CfrVerif.Proofs.ViewBridge
import CfrVerif.Proofs.CompileWF
import CfrVerif.Proofs.WorklistEq
/-!
# C01 — reported utility and regret of any strategy profile are exact

`getInfo g σ` is `Strategies::get_info` (`regret::regret`).  For every well-formed game
(`GameWF`, what `Game::from_root` guarantees) and every valid profile:

* the reported utility is the expected terminal payoff, player two's is its negation;
* each player's reported regret is `max(BR − u, 0)` where `BR` **is the greatest** expected
  utility the player can obtain with *any* behavioural strategy against the opponent's fixed
  strategy (it is an upper bound for all of them and it is attained);
* the total regret is the larger of the two.
-/
set_option linter.unusedSectionVars false
namespace Cfr
variable {α : Type} [Field α] [LinearOrder α] [IsStrictOrderedRing α]

/-- a profile: strategy of player one (`true`) and of player two (`false`) -/
abbrev Profile (α : Type) := Bool → Strat α

/-- both strategies are valid and fit the game -/
def ProfileOK (g : Game α) (σ : Profile α) : Prop :=
  ∀ me : Bool, IsStrat (σ me) ∧ FitsGame g me (σ me)

/-- replace player `me`'s strategy by `τ` -/
def Profile.deviate (σ : Profile α) (me : Bool) (τ : Strat α) : Profile α :=
  fun p => if p = me then τ else σ p

/-- player `me`'s expected utility under a profile (player two's payoff is the negation) -/
def utility (g : Game α) (σ : Profile α) (me : Bool) : α :=
  if me then expected g.chance σ g.root else -expected g.chance σ g.root

/-- the utility is what the player's view of the game evaluates to: the sum over terminals of
reach probability times own payoff (`evV`), zero-probability actions contributing nothing -/
theorem utility_eq_evV (g : Game α) (hg : GameWF g) (σ : Profile α) (hσ : ProfileOK g σ) (me : Bool) :
    utility g σ me = evV (σ me) (view g.chance (σ (!me)) me g.root) := by
  have _ := hg
  have hnn : ∀ one i, ∀ p ∈ (σ one).at i, 0 ≤ p :=
    fun one i => isStrat_at_nonneg _ (hσ one).1 i
  rw [evV_view g.chance σ me hnn g.root]
  rfl

/-- **reported utilities**: player one's is the expected payoff, player two's its negation -/
theorem eval_util (g : Game α) (σ : Profile α) :
    (getInfo g σ).playerUtility true = utility g σ true ∧
    (getInfo g σ).playerUtility false = utility g σ false ∧
    (getInfo g σ).playerUtility false = -(getInfo g σ).playerUtility true := by
  refine ⟨?_, ?_, ?_⟩ <;> simp [getInfo, StrategiesInfo.playerUtility, utility]

theorem Profile.deviate_self (σ : Profile α) (me : Bool) (τ : Strat α) :
    (σ.deviate me τ) me = τ := by simp [Profile.deviate]

theorem Profile.deviate_other (σ : Profile α) (me : Bool) (τ : Strat α) :
    (σ.deviate me τ) (!me) = σ (!me) := by
  cases me <;> simp [Profile.deviate]

theorem Profile.deviate_same (σ : Profile α) (me : Bool) : σ.deviate me (σ me) = σ := by
  funext p
  by_cases h : p = me
  · subst h; simp [Profile.deviate]
  · simp [Profile.deviate, h]

theorem profileOK_deviate {g : Game α} {σ : Profile α} (hσ : ProfileOK g σ) (me : Bool)
    (τ : Strat α) (h1 : IsStrat τ) (h2 : FitsGame g me τ) : ProfileOK g (σ.deviate me τ) := by
  intro p
  by_cases h : p = me
  · subst h; simp [Profile.deviate, h1, h2]
  · simp [Profile.deviate, h, hσ p]

/-- the utility of a unilateral deviation is the value of the deviating strategy on the
player's view of the game against the opponent's fixed strategy -/
theorem utility_deviate (g : Game α) (hg : GameWF g) (σ : Profile α) (hσ : ProfileOK g σ)
    (me : Bool) (τ : Strat α) (h1 : IsStrat τ) (h2 : FitsGame g me τ) :
    utility g (σ.deviate me τ) me = evV τ (view g.chance (σ (!me)) me g.root) := by
  rw [utility_eq_evV g hg _ (profileOK_deviate hσ me τ h1 h2) me, Profile.deviate_self,
    Profile.deviate_other]

/-- **the reported best-response value is the greatest utility over all unilateral deviations**:
every valid behavioural strategy `τ` of the player yields at most `optimalDeviations`, and some
valid strategy attains it -/
theorem eval_best_response (g : Game α) (hg : GameWF g) (σ : Profile α) (hσ : ProfileOK g σ)
    (me : Bool) :
    IsGreatest { u | ∃ τ, IsStrat τ ∧ FitsGame g me τ ∧ u = utility g (σ.deviate me τ) me }
      (optimalDeviations g me (σ (!me))) := by
  obtain ⟨hist, hpr, hord⟩ := hg.recall me
  have hch : ∀ ps ∈ g.chance, ∀ p ∈ ps, 0 ≤ p :=
    fun ps hps p hp => ((hg.chancePos ps hps).1 p hp).le
  have hok := view_VOK g hch me (σ (!me)) (hσ (!me)).1 (hσ (!me)).2 g.root hg.nodes
  have hprv := view_PRV g.chance (σ (!me)) me hist g.root [] hpr
  have hpos : ∀ i, i < (g.infos me).length → 1 ≤ nActsOf g me i := by
    intro i hi
    have := hg.actsTwo me ((g.infos me)[i]) (List.getElem_mem hi)
    simp only [nActsOf, List.getD_eq_getElem?_getD, List.getElem?_eq_getElem hi, Option.getD_some]
    omega
  obtain ⟨hub, τs, hτs, heq⟩ := bestResponse_optimal _ _ _ hist hok hprv hord hpos
  have hod : optimalDeviations g me (σ (!me))
      = bestResponse (g.infos me).length (nActsOf g me) (view g.chance (σ (!me)) me g.root) := rfl
  rw [hod]
  constructor
  · obtain ⟨a, b⟩ := (stratOK_iff g me τs).mp hτs
    exact ⟨τs, a, b, by rw [utility_deviate g hg σ hσ me τs a b]; exact heq.symm⟩
  · rintro u ⟨τ, h1, h2, rfl⟩
    rw [utility_deviate g hg σ hσ me τ h1 h2]
    exact hub τ ((stratOK_iff g me τ).mpr ⟨h1, h2⟩)

/-- **reported regrets**: the largest gain from a unilateral switch, zero if there is none -/
theorem eval_regret (g : Game α) (σ : Profile α) (me : Bool) :
    (getInfo g σ).playerRegret me
      = max (optimalDeviations g me (σ (!me)) - utility g σ me) 0 := by
  cases me <;> simp [getInfo, StrategiesInfo.playerRegret, utility, fmax_eq_max]

/-- the gain is never negative for a valid profile (staying put is one of the deviations), so
the clamp at zero only removes rounding noise -/
theorem best_response_ge_utility (g : Game α) (hg : GameWF g) (σ : Profile α) (hσ : ProfileOK g σ)
    (me : Bool) : utility g σ me ≤ optimalDeviations g me (σ (!me)) := by
  refine (eval_best_response g hg σ hσ me).2 ⟨σ me, (hσ me).1, (hσ me).2, ?_⟩
  rw [Profile.deviate_same]

/-- **total regret**: the larger of the two -/
theorem eval_total_regret (g : Game α) (σ : Profile α) :
    (getInfo g σ).regret = max ((getInfo g σ).playerRegret true) ((getInfo g σ).playerRegret false) := by
  simp [StrategiesInfo.regret, StrategiesInfo.playerRegret, fmax_eq_max]

/-- **for every game the library accepts**: whatever `Game::from_root` returns `Ok` for is well
formed (`compile_ok_wf`), so on it the reported best-response value is the greatest utility over
all unilateral deviations, for every valid profile -/
theorem accepted_game_best_response (r : Raw α) (hs : Raw.Shape r) (g : Game α)
    (hacc : fromRoot r = .ok g) (σ : Profile α) (hσ : ProfileOK g σ) (me : Bool) :
    IsGreatest { u | ∃ τ, IsStrat τ ∧ FitsGame g me τ ∧ u = utility g (σ.deviate me τ) me }
      (optimalDeviations g me (σ (!me))) :=
  eval_best_response g (compile_ok_wf r hs g hacc) σ hσ me

/-- **the crate's own schedule**: `getInfoWL` evaluates the best responses with the work-list of
`optimal_deviations` as the crate runs it (per-infoset `future_nodes` counters, a LIFO queue of
infosets whose later infosets are all resolved).  On every game `from_root` accepts and every
valid profile it reports the same utility and regrets as `getInfo`, so every statement of this
file holds for it verbatim -/
theorem eval_worklist_schedule (r : Raw α) (hs : Raw.Shape r) (g : Game α)
    (hacc : fromRoot r = .ok g) (σ : Profile α) (hσ : ProfileOK g σ) :
    (getInfoWL g σ).util = (getInfo g σ).util ∧
    (getInfoWL g σ).regretOne = (getInfo g σ).regretOne ∧
    (getInfoWL g σ).regretTwo = (getInfo g σ).regretTwo :=
  getInfoWL_eq g (compile_ok_wf r hs g hacc) (compile_ok_prevwf r hs g hacc) σ hσ

/-- a profile has regret zero exactly when it is a Nash equilibrium: no player can gain by any
unilateral deviation -/
theorem regret_zero_iff_nash (g : Game α) (hg : GameWF g) (σ : Profile α) (hσ : ProfileOK g σ) :
    (getInfo g σ).regret = 0 ↔
      ∀ me τ, IsStrat τ → FitsGame g me τ → utility g (σ.deviate me τ) me ≤ utility g σ me := by
  rw [eval_total_regret, eval_regret, eval_regret]
  have ht := eval_best_response g hg σ hσ true
  have hf := eval_best_response g hg σ hσ false
  constructor
  · intro h me τ h1 h2
    have a : max (optimalDeviations g true (σ (!true)) - utility g σ true) 0 ≤ 0 :=
      le_of_le_of_eq (le_max_left _ _) h
    have b : max (optimalDeviations g false (σ (!false)) - utility g σ false) 0 ≤ 0 :=
      le_of_le_of_eq (le_max_right _ _) h
    have a' := le_trans (le_max_left _ _) a
    have b' := le_trans (le_max_left _ _) b
    cases me
    · have := hf.2 ⟨τ, h1, h2, rfl⟩
      linarith
    · have := ht.2 ⟨τ, h1, h2, rfl⟩
      linarith
  · intro h
    obtain ⟨τ1, a1, b1, e1⟩ := ht.1
    obtain ⟨τ2, a2, b2, e2⟩ := hf.1
    have c1 := h true τ1 a1 b1
    have c2 := h false τ2 a2 b2
    rw [← e1] at c1
    rw [← e2] at c2
    have m1 : max (optimalDeviations g true (σ (!true)) - utility g σ true) 0 = 0 :=
      max_eq_right (by linarith)
    have m2 : max (optimalDeviations g false (σ (!false)) - utility g σ false) 0 = 0 :=
      max_eq_right (by linarith)
    rw [m1, m2, max_self]

/-! ## non-vacuity

A concrete game with a chance node, a shared infoset of player two (matching pennies on the
left), a three-action infoset and a player-one decision below a player-two decision; a profile
that is not an equilibrium (utility and both regrets non-zero) and one that is. -/

def exRaw01 : Raw ℚ :=
  .chance none [1, 3]
    [.player true 0 [0, 1]
       [.player false 0 [0, 1] [.term 1, .term (-1)],
        .player false 0 [0, 1] [.term (-1), .term 1]],
     .player false 1 [0, 1, 2] [.term 2, .term 0, .player true 1 [0, 1] [.term 4, .term (-4)]]]

/-- what `fromRoot exRaw01` returns (checked below) -/
def exGame01 : Game ℚ where
  chance := [[1/4, 3/4]]
  p1 := [⟨0, [0, 1], none⟩, ⟨1, [0, 1], none⟩]
  p2 := [⟨0, [0, 1], none⟩, ⟨1, [0, 1, 2], none⟩]
  s1 := []
  s2 := []
  root := .chance 0
    [.player true 0
       [.player false 0 [.term 1, .term (-1)],
        .player false 0 [.term (-1), .term 1]],
     .player false 1 [.term 2, .term 0, .player true 1 [.term 4, .term (-4)]]]

mutual
def exNodeBeq : Node ℚ → Node ℚ → Bool
  | .term p, .term q => p == q
  | .chance i ks, .chance j ls => i == j && exNodeBeqL ks ls
  | .player o i ks, .player o' j ls => o == o' && i == j && exNodeBeqL ks ls
  | _, _ => false
def exNodeBeqL : List (Node ℚ) → List (Node ℚ) → Bool
  | [], [] => true
  | k :: ks, l :: ls => exNodeBeq k l && exNodeBeqL ks ls
  | _, _ => false
end

/-- `exGame01` is the compiled `exRaw01`, field by field -/
example : (match fromRoot exRaw01 with
    | .ok g => g.chance == exGame01.chance && g.p1 == exGame01.p1 && g.p2 == exGame01.p2 &&
        g.s1 == exGame01.s1 && g.s2 == exGame01.s2 && exNodeBeq g.root exGame01.root
    | .error _ => false) = true := by
  decide +kernel

/-- player one: heads for sure, then a coin; player two: `(1/4, 3/4)`, then `(1/2, 0, 1/2)` -/
def exProfile01 : Profile ℚ :=
  fun p => if p then [[1, 0], [1/2, 1/2]] else [[1/4, 3/4], [1/2, 0, 1/2]]
/-- an equilibrium: both mix evenly at pennies, one would take the `4`, so two takes the `0` -/
def exNash01 : Profile ℚ :=
  fun p => if p then [[1/2, 1/2], [1, 0]] else [[1/2, 1/2], [0, 1, 0]]

theorem exGame01_wf : GameWF exGame01 where
  chancePos := by decide +kernel
  nodes := by simp [NodeOK, NodeOKL, exGame01, Game.infos]
  recall := fun me => ⟨fun _ => [], by cases me <;> simp [PR, PRL, PRD, exGame01], by simp⟩
  tables1 := ⟨by decide, by decide, by decide, by decide⟩
  tables2 := ⟨by decide, by decide, by decide, by decide⟩
  actsTwo := by intro me; cases me <;> decide

theorem exProfile01_ok : ProfileOK exGame01 exProfile01 := by
  intro me
  cases me <;> simp only [IsStrat, IsDist, FitsGame] <;> decide +kernel
theorem exNash01_ok : ProfileOK exGame01 exNash01 := by
  intro me
  cases me <;> simp only [IsStrat, IsDist, FitsGame] <;> decide +kernel

/-- `1/4 · (-1/2) + 3/4 · (1/2 · 2 + 1/2 · 0) = 5/8` -/
example : (getInfo exGame01 exProfile01).util = 5/8 := by decide +kernel
example : utility exGame01 exProfile01 true = 5/8 ∧ utility exGame01 exProfile01 false = -5/8 := by
  decide +kernel
/-- player one's best response: tails at pennies, the `4` below: `1/4 · 1/2 + 3/4 · 3 = 19/8` -/
example : optimalDeviations exGame01 true (exProfile01 false) = 19/8 := by decide +kernel
/-- player two's best response: tails at pennies (`+1` for two), the `0`: `1/4 · 1 + 3/4 · 0` -/
example : optimalDeviations exGame01 false (exProfile01 true) = 1/4 := by decide +kernel
example : (getInfo exGame01 exProfile01).playerRegret true = 7/4 := by decide +kernel
example : (getInfo exGame01 exProfile01).playerRegret false = 7/8 := by decide +kernel
example : (getInfo exGame01 exProfile01).regret = 7/4 := by decide +kernel
/-- a profitable deviation of player one, as `eval_best_response` promises -/
example : utility exGame01 (exProfile01.deviate true [[0, 1], [1, 0]]) true = 19/8 := by
  decide +kernel
example : (getInfo exGame01 exNash01).util = 0 ∧ (getInfo exGame01 exNash01).regret = 0 := by
  decide +kernel
/-- the hypotheses of the theorems hold on this state: `exNash01` is an equilibrium -/
example : ∀ me τ, IsStrat τ → FitsGame exGame01 me τ →
    utility exGame01 (exNash01.deviate me τ) me ≤ utility exGame01 exNash01 me :=
  (regret_zero_iff_nash exGame01 exGame01_wf exNash01 exNash01_ok).mp (by decide +kernel)

end Cfr
