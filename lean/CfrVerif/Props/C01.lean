import CfrVerif.Proofs.BestResponse
/-!
# C01 — reported utility and regret of any strategy profile are exact

`getInfo g σ` is `Strategies::get_info` (`regret::regret`).  For every well-formed game
(`GameWF`, what `Game::from_root` guarantees) and every valid profile:

* the reported utility is the expected terminal payoff, player two's is its negation;
* each player's reported regret is `max(BR − u, 0)` where `BR` **is the greatest** expected
  utility the player can obtain with *any* behavioural strategy against the opponent's fixed
  strategy (it is an upper bound for all of them and it is attained);
* the total regret is the larger of the two.
-/
set_option linter.unusedSectionVars false
namespace Cfr
variable {α : Type} [Field α] [LinearOrder α] [IsStrictOrderedRing α]

/-- a profile: strategy of player one (`true`) and of player two (`false`) -/
abbrev Profile (α : Type) := Bool → Strat α

/-- both strategies are valid and fit the game -/
def ProfileOK (g : Game α) (σ : Profile α) : Prop :=
  ∀ me : Bool, IsStrat (σ me) ∧ FitsGame g me (σ me)

/-- replace player `me`'s strategy by `τ` -/
def Profile.deviate (σ : Profile α) (me : Bool) (τ : Strat α) : Profile α :=
  fun p => if p = me then τ else σ p

/-- player `me`'s expected utility under a profile (player two's payoff is the negation) -/
def utility (g : Game α) (σ : Profile α) (me : Bool) : α :=
  if me then expected g.chance σ g.root else -expected g.chance σ g.root

/-- the utility is what the player's view of the game evaluates to: the sum over terminals of
reach probability times own payoff (`evV`), zero-probability actions contributing nothing -/
theorem utility_eq_evV (g : Game α) (hg : GameWF g) (σ : Profile α) (hσ : ProfileOK g σ) (me : Bool) :
    utility g σ me = evV (σ me) (view g.chance (σ (!me)) me g.root) := by
  sorry

/-- **reported utilities**: player one's is the expected payoff, player two's its negation -/
theorem eval_util (g : Game α) (σ : Profile α) :
    (getInfo g σ).playerUtility true = utility g σ true ∧
    (getInfo g σ).playerUtility false = utility g σ false ∧
    (getInfo g σ).playerUtility false = -(getInfo g σ).playerUtility true := by
  sorry

/-- **the reported best-response value is the greatest utility over all unilateral deviations**:
every valid behavioural strategy `τ` of the player yields at most `optimalDeviations`, and some
valid strategy attains it -/
theorem eval_best_response (g : Game α) (hg : GameWF g) (σ : Profile α) (hσ : ProfileOK g σ)
    (me : Bool) :
    IsGreatest { u | ∃ τ, IsStrat τ ∧ FitsGame g me τ ∧ u = utility g (σ.deviate me τ) me }
      (optimalDeviations g me (σ (!me))) := by
  sorry

/-- **reported regrets**: the largest gain from a unilateral switch, zero if there is none -/
theorem eval_regret (g : Game α) (σ : Profile α) (me : Bool) :
    (getInfo g σ).playerRegret me
      = max (optimalDeviations g me (σ (!me)) - utility g σ me) 0 := by
  sorry

/-- the gain is never negative for a valid profile (staying put is one of the deviations), so
the clamp at zero only removes rounding noise -/
theorem best_response_ge_utility (g : Game α) (hg : GameWF g) (σ : Profile α) (hσ : ProfileOK g σ)
    (me : Bool) : utility g σ me ≤ optimalDeviations g me (σ (!me)) := by
  sorry

/-- **total regret**: the larger of the two -/
theorem eval_total_regret (g : Game α) (σ : Profile α) :
    (getInfo g σ).regret = max ((getInfo g σ).playerRegret true) ((getInfo g σ).playerRegret false) := by
  sorry

/-- a profile has regret zero exactly when it is a Nash equilibrium: no player can gain by any
unilateral deviation -/
theorem regret_zero_iff_nash (g : Game α) (hg : GameWF g) (σ : Profile α) (hσ : ProfileOK g σ) :
    (getInfo g σ).regret = 0 ↔
      ∀ me τ, IsStrat τ → FitsGame g me τ → utility g (σ.deviate me τ) me ≤ utility g σ me := by
  sorry

end Cfr
