import CfrVerif.Proofs.ParamSemantics
import CfrVerif.Proofs.PresetGameInv
import CfrVerif.Proofs.ExternalAvg
import CfrVerif.Proofs.SampledIter
--! audit CfrVerif/Proofs/ParamSemantics.lean
/-!
# C08 — the solvers compute the documented discounted-CFR iterates

Two layers.

* **Parameter semantics** (`Proofs/ParamSemantics.lean`, audited with this property): the discount
  factors in closed form (`t^a/(t^a+1)`; `0, 1/2, 1` at `−∞, 0, +∞`), the average-strategy weights
  (`t^γ`), every branch of the next-strategy rule (proportional to positive cumulative regret;
  uniform / best / worst / soft-max fall-backs), the preset tuples, the default, the order inside
  `advance` (match on the *pre-discount* regrets, then discount).
* **The iterates themselves** (this file, for the unsampled method; from `Proofs/Trajectory`,
  `Proofs/PresetGameInv`): one iteration of the solver maps every infoset's state exactly as the
  textbook says —
  `Q_t = disc_t (Q_{t−1} + r_t)`, `S_t = (t/(t+1))^γ · (S_{t−1} + s_t)`, `σ_{t+1} = RM(Q_{t−1} + r_t)`,
  where `r_t(I, a) = Σ_{h∈I} π_{−i}(h)·(v(h·a) − v(h))` is the instantaneous counterfactual regret
  under the current profile (`regAdd`, player two's in player two's own utility) and
  `s_t(I, a) = Σ_{h∈I} π_i(h)·σ_t(I, a)` the own-reach-weighted strategy (`stratAdd`); the returned
  profile is the normalised `S_T`, in which iteration `k` carries weight `k^γ`.
  For the sampled methods the same update holds with the increments the sampled traversal makes
  (`sampled_iterate_textbook`, `external_pass_textbook`), `external_average_weights` shows that
  both players of external sampling weigh iteration `t` by `t^γ`; C10 pins the draw discipline and
  C04 proves the sampled increments unbiased.
-/
set_option linter.unusedSectionVars false
namespace Cfr
open PG

/-- the state of the unsampled solver after `t` iterations (no early termination) -/
noncomputable abbrev fullRun (g : Game ℝ) (p : RegretParams ℝ) (draw : DrawFn ℝ) (t : Nat) : SolveSt ℝ :=
  (PG.run g p draw t).1

/-- the run starts from zero accumulators and uniform strategies, and what `solve` returns after
`T` iterations is the normalised average-strategy accumulator of that state -/
theorem full_run_returns (g : Game ℝ) (p : RegretParams ℝ) (draw : DrawFn ℝ) (T : Nat) :
    fullRun g p draw 0 = SolveSt.init g ∧
    (solveVanillaSingle g false p draw T none).profile = (fullRun g p draw T).avg :=
  ⟨rfl, PG.solve_profile g p draw T⟩

/-- **one iteration = the textbook DCFR update**, at every infoset of either player -/
theorem full_iterate_textbook (g : Game ℝ) (hg : GameWF g) (p : RegretParams ℝ) (hp : 0 ≤ p.strat)
    (draw : DrawFn ℝ) (t : Nat) (me : Bool) (I : Nat) (x x' : InfoSt ℝ)
    (hx : ((fullRun g p draw t).get me)[I]? = some x)
    (hx' : ((fullRun g p draw (t + 1)).get me)[I]? = some x') :
    x'.cumRegret = discountCumRegret p (t + 1)
        (vadd x.cumRegret (PG.rvec g (fullRun g p draw t).profile me I)) ∧
    x'.cumStrat = discountAverageStrat p (t + 1)
        (vadd x.cumStrat (PG.svec g (fullRun g p draw t).profile me I)) ∧
    x'.strat = regretMatch p.noPositive
        (vadd x.cumRegret (PG.rvec g (fullRun g p draw t).profile me I)) :=
  PG.run_cell_step g hg p hp draw t me I x x' hx hx'

/-- **average-strategy weights**: after `t` iterations the accumulator holds, up to the common
factor `(t+1)^γ`, the `k^γ`-weighted sum of the own-reach-weighted strategies of the iterations -/
theorem full_average_weights (g : Game ℝ) (hg : GameWF g) (p : RegretParams ℝ) (hp : 0 ≤ p.strat)
    (draw : DrawFn ℝ) (t : Nat) (me : Bool) (I : Nat) (x : InfoSt ℝ)
    (hx : ((fullRun g p draw t).get me)[I]? = some x) (a : Nat) (ha : a < nActsOf g me I) :
    x.cumStrat.getD a 0 * ((t + 1 : Nat) : ℝ) ^ p.strat
      = ((List.range t).map (fun k => ((k + 1 : Nat) : ℝ) ^ p.strat *
          stratAdd ((fullRun g p draw k).profile me) I a
            (viewOf g (fullRun g p draw k).profile me) 1)).sum :=
  PG.cumStrat_closed g hg p hp draw t me I x hx a ha

/-- **external sampling weighs iteration `t` by `t^γ` for BOTH players**: the first player is
advanced with the average index `t − 1`, which exactly compensates that its additions of iteration
`t` arrive (during the second player's pass) after its advance of iteration `t` -/
theorem external_average_weights (g : Game ℝ) (hg : GameWF g) (p : RegretParams ℝ) (hp : 0 ≤ p.strat)
    (draw : DrawFn ℝ) (t : Nat) (I : Nat) :
    (∀ x, ((extRun g p draw t).1.get false)[I]? = some x → ∀ a, a < x.cumStrat.length →
      x.cumStrat.getD a 0 * ((t + 1 : Nat) : ℝ) ^ p.strat
        = ((List.range t).map (fun k => ((k + 1 : Nat) : ℝ) ^ p.strat *
            extStratInc g p draw k false I a)).sum) ∧
    (∀ x, ((extRun g p draw t).1.get true)[I]? = some x → ∀ a, a < x.cumStrat.length →
      x.cumStrat.getD a 0 * ((t : Nat) : ℝ) ^ p.strat
        = ((List.range t).map (fun k => ((k + 1 : Nat) : ℝ) ^ p.strat *
            extStratInc g p draw k true I a)).sum) ∧
    (solveExternalSingle g p draw t none).stratOne = (extRun g p draw t).1.avg true ∧
    (solveExternalSingle g p draw t none).stratTwo = (extRun g p draw t).1.avg false :=
  ⟨fun x hx a ha => external_avg_weights_two g hg p hp draw t I x hx a ha,
   fun x hx a ha => external_avg_weights_one g hg p hp draw t I x hx a ha,
   (extRun_returns g p draw t).1, (extRun_returns g p draw t).2⟩

/-- **chance-sampled CFR, one iteration**: the same DCFR update, with the increments the sampled
traversal makes (every draw oracle); C04 proves these increments unbiased -/
theorem sampled_iterate_textbook (g : Game ℝ) (hg : GameWF g) (p : RegretParams ℝ) (draw : DrawFn ℝ)
    (it : Nat) (s : SolveSt ℝ) (log : List (DrawRec ℝ)) (hs : StOK g s) (me : Bool) (I : Nat)
    (x : InfoSt ℝ) (hx : (s.get me)[I]? = some x) :
    let es := (vrec ⟨g.chance, true, s.strat, draw, it - 1⟩ g.root 1 1 1 { log := log }).2.1
    ∃ x', ((vanillaIter g true p draw it s log).1.get me)[I]? = some x' ∧
      x'.cumRegret = discountCumRegret p it
        (vadd x.cumRegret (incVec es me I Slot.regret x.cumRegret.length)) ∧
      x'.cumStrat = discountAverageStrat p it
        (vadd x.cumStrat (incVec es me I Slot.strat x.cumStrat.length)) ∧
      x'.strat = regretMatch p.noPositive
        (vadd x.cumRegret (incVec es me I Slot.regret x.cumRegret.length)) :=
  sampled_iterate_update g hg p draw it s log hs me I x hx

/-- **external sampling, one pass**: the updating player's infosets get the DCFR regret update with
the sampled increments (their average accumulator is only discounted, with the average index of
`external_average_weights`); the other player's infosets only receive the sampled strategy mass -/
theorem external_pass_textbook (g : Game ℝ) (hg : GameWF g) (first : Bool) (p : RegretParams ℝ)
    (draw : DrawFn ℝ) (it : Nat) (s : SolveSt ℝ) (log : List (DrawRec ℝ)) (hs : StOK g s)
    (me : Bool) (I : Nat) (x : InfoSt ℝ) (hx : (s.get me)[I]? = some x) :
    let c : ECtx ℝ := ⟨g.chance, first, s.strat, draw, 2 * (it - 1) + (if first then 0 else 1),
      if first then it - 1 else it⟩
    let es := (erec c g.root { log := log }).2.1
    ∃ x', ((externalPass g first p draw it s log).1.get me)[I]? = some x' ∧
      (me = first →
        x'.cumRegret = discountCumRegret p it
          (vadd x.cumRegret (incVec es me I Slot.regret x.cumRegret.length)) ∧
        x'.cumStrat = discountAverageStrat p (if first then it - 1 else it) x.cumStrat ∧
        x'.strat = regretMatch p.noPositive
          (vadd x.cumRegret (incVec es me I Slot.regret x.cumRegret.length))) ∧
      (me ≠ first →
        x'.cumRegret = x.cumRegret ∧ x'.strat = x.strat ∧
        x'.cumStrat = vadd x.cumStrat (incVec es me I Slot.strat x.cumStrat.length)) :=
  external_pass_update g hg first p draw it s log hs me I x hx

end Cfr
