import CfrVerif.Proofs.VanillaBound
/-!
# C02 — the regret bound of the unsampled vanilla solve dominates the true regret

`solveVanillaSingle g false RegretParams.vanilla …` is `solve_full_single` with vanilla
(undiscounted) parameters; `getInfo g σ̄` is `Strategies::get_info` of the returned profile, whose
`regret` is — by C01 — the true total regret (largest gain of a unilateral deviation).

For every well-formed game (`GameWF`: what `from_root` guarantees), every positive budget, every
threshold (NaN = `none` included), and — through C06 — every task target and fair schedule:

* both per-player bounds are non-negative numbers;
* the true total regret of the returned profile is at most the larger of the two bounds;
* hence a solve that stopped early because the total bound fell below the threshold `r` returns a
  profile whose true regret is below `r`.

Stated over `ℝ` (exact arithmetic), like C05 whose state invariants it uses.
-/
set_option linter.unusedSectionVars false
namespace Cfr

/-- the profile a solve returns -/
def SolveOut.profile (o : SolveOut ℝ) : Bool → Strat ℝ := fun one => if one then o.stratOne else o.stratTwo

/-- **the bound dominates the true regret** (single thread) -/
theorem full_vanilla_bound_dominates (g : Game ℝ) (hg : GameWF g) (draw : DrawFn ℝ) (T : Nat)
    (hT : 0 < T) (thr : Option (Ext ℝ)) :
    ∃ b1 b2 : ℝ,
      (solveVanillaSingle g false RegretParams.vanilla draw T thr).regOne = .fin b1 ∧
      (solveVanillaSingle g false RegretParams.vanilla draw T thr).regTwo = .fin b2 ∧
      0 ≤ b1 ∧ 0 ≤ b2 ∧
      (getInfo g (solveVanillaSingle g false RegretParams.vanilla draw T thr).profile).regret
        ≤ max b1 b2 := by
  sorry

/-- **every thread count**: the same for the multi-threaded solver, every task target, every
fair schedule -/
theorem full_vanilla_bound_dominates_multi (sched : Sched ℝ) (hs : sched.Fair) (g : Game ℝ)
    (hg : GameWF g) (draw : DrawFn ℝ) (T : Nat) (hT : 0 < T) (thr : Option (Ext ℝ)) (target : Nat) :
    ∃ b1 b2 : ℝ,
      (solveVanillaMultiS sched g false RegretParams.vanilla draw T thr target).regOne = .fin b1 ∧
      (solveVanillaMultiS sched g false RegretParams.vanilla draw T thr target).regTwo = .fin b2 ∧
      0 ≤ b1 ∧ 0 ≤ b2 ∧
      (getInfo g (solveVanillaMultiS sched g false RegretParams.vanilla draw T thr target).profile).regret
        ≤ max b1 b2 := by
  sorry

/-- **early termination is sound**: if the run used fewer iterations than its budget, the true
regret of what it returns is strictly below the requested threshold -/
theorem full_vanilla_early_stop_sound (g : Game ℝ) (hg : GameWF g) (draw : DrawFn ℝ) (T : Nat)
    (r : Ext ℝ)
    (hstop : (solveVanillaSingle g false RegretParams.vanilla draw T (some r)).iters < T) :
    Ext.lt (.fin (getInfo g
      (solveVanillaSingle g false RegretParams.vanilla draw T (some r)).profile).regret) r = true := by
  sorry

end Cfr
