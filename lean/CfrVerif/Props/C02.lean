import CfrVerif.Proofs.VanillaBound
import CfrVerif.Props.C05
import CfrVerif.Props.C06
import CfrVerif.Props.C09
/-!
# C02 — the regret bound of the unsampled vanilla solve dominates the true regret

`solveVanillaSingle g false RegretParams.vanilla …` is `solve_full_single` with vanilla
(undiscounted) parameters; `getInfo g σ̄` is `Strategies::get_info` of the returned profile, whose
`regret` is — by C01 — the true total regret (largest gain of a unilateral deviation).

For every well-formed game (`GameWF`: what `from_root` guarantees), every positive budget, every
threshold (NaN = `none` included), and — through C06 — every task target and fair schedule:

* both per-player bounds are non-negative numbers;
* the true total regret of the returned profile is at most the larger of the two bounds;
* hence a solve that stopped early because the total bound fell below the threshold `r` returns a
  profile whose true regret is below `r`.

Stated over `ℝ` (exact arithmetic), like C05 whose state invariants it uses.
-/
set_option linter.unusedSectionVars false
namespace Cfr

/-- the profile a solve returns -/
def SolveOut.profile (o : SolveOut ℝ) : Bool → Strat ℝ := fun one => if one then o.stratOne else o.stratTwo

/-- what `Final` (the invariant of the run, `Proofs/VanillaBound.lean`) gives for the returned
record -/
theorem final_dominates (g : Game ℝ) (hg : GameWF g) (o : SolveOut ℝ) (h : Final g o) :
    ∃ b1 b2 : ℝ, o.regOne = .fin b1 ∧ o.regTwo = .fin b2 ∧ 0 ≤ b1 ∧ 0 ≤ b2 ∧
      (getInfo g o.profile).regret ≤ max b1 b2 := by
  obtain ⟨σs, s, hne, hinv, e1, e2, e3, e4⟩ := h
  have hp : o.profile = s.avg := by
    funext one
    cases one <;> simp [SolveOut.profile, e3, e4]
  exact ⟨_, _, e1, e2, boundSum_nonneg _ _, boundSum_nonneg _ _,
    by rw [hp]; exact bound_dominates g hg σs s hne hinv⟩

/-- **the bound dominates the true regret** (single thread) -/
theorem full_vanilla_bound_dominates (g : Game ℝ) (hg : GameWF g) (draw : DrawFn ℝ) (T : Nat)
    (hT : 0 < T) (thr : Option (Ext ℝ)) :
    ∃ b1 b2 : ℝ,
      (solveVanillaSingle g false RegretParams.vanilla draw T thr).regOne = .fin b1 ∧
      (solveVanillaSingle g false RegretParams.vanilla draw T thr).regTwo = .fin b2 ∧
      0 ≤ b1 ∧ 0 ≤ b2 ∧
      (getInfo g (solveVanillaSingle g false RegretParams.vanilla draw T thr).profile).regret
        ≤ max b1 b2 :=
  final_dominates g hg _ (solve_final g hg draw T hT thr)

/-- **every thread count**: the same for the multi-threaded solver, every task target, every
fair schedule -/
theorem full_vanilla_bound_dominates_multi (sched : Sched ℝ) (hs : sched.Fair) (g : Game ℝ)
    (hg : GameWF g) (draw : DrawFn ℝ) (T : Nat) (hT : 0 < T) (thr : Option (Ext ℝ)) (target : Nat) :
    ∃ b1 b2 : ℝ,
      (solveVanillaMultiS sched g false RegretParams.vanilla draw T thr target).regOne = .fin b1 ∧
      (solveVanillaMultiS sched g false RegretParams.vanilla draw T thr target).regTwo = .fin b2 ∧
      0 ≤ b1 ∧ 0 ≤ b2 ∧
      (getInfo g (solveVanillaMultiS sched g false RegretParams.vanilla draw T thr target).profile).regret
        ≤ max b1 b2 := by
  rw [full_multi_eq_single sched hs]
  exact full_vanilla_bound_dominates g hg draw T hT thr

/-- **early termination is sound**: if the run used fewer iterations than its budget, the true
regret of what it returns is strictly below the requested threshold -/
theorem full_vanilla_early_stop_sound (g : Game ℝ) (hg : GameWF g) (draw : DrawFn ℝ) (T : Nat)
    (r : Ext ℝ)
    (hstop : (solveVanillaSingle g false RegretParams.vanilla draw T (some r)).iters < T) :
    Ext.lt (.fin (getInfo g
      (solveVanillaSingle g false RegretParams.vanilla draw T (some r)).profile).regret) r = true := by
  have hT : 0 < T := by omega
  obtain ⟨b1, b2, e1, e2, _, _, hle⟩ := full_vanilla_bound_dominates g hg draw T hT (some r)
  -- the run is the threshold-free run of budget `tstar`, whose length is `tstar`
  have hit : (solveVanillaSingle g false RegretParams.vanilla draw T (some r)).iters
      = tstar g (vanillaIter g false RegretParams.vanilla draw) T (some r) := by
    rw [vanilla_single_threshold_eq_prefix]
    unfold solveVanillaSingle solveWith
    rw [solveLoop_none_iters]
    omega
  have hrl : runLength (vanillaIter g false RegretParams.vanilla draw) (some r) T 1
      (SolveSt.init g) [] < T := by
    rw [hit] at hstop; exact hstop
  obtain ⟨c1, c2, f1, f2, hb⟩ := stopped_early_below_threshold
    (vanillaIter g false RegretParams.vanilla draw) (some r) T 1 (SolveSt.init g) .posInf .posInf []
    hrl
  have f1' : (solveVanillaSingle g false RegretParams.vanilla draw T (some r)).regOne = .fin c1 := f1
  have f2' : (solveVanillaSingle g false RegretParams.vanilla draw T (some r)).regTwo = .fin c2 := f2
  rw [e1] at f1'
  rw [e2] at f2'
  obtain rfl : b1 = c1 := by injection f1'
  obtain rfl : b2 = c2 := by injection f2'
  simp only [belowThreshold, fmax_eq_max] at hb
  cases r with
  | negInf => simp [Ext.lt] at hb
  | posInf => rfl
  | fin y =>
    simp only [Ext.lt, decide_eq_true_eq] at hb ⊢
    exact lt_of_le_of_lt hle hb

/-! ## non-vacuity: the hypotheses are satisfiable and the theorems apply to a concrete game -/

/-- on the two-player game of C05 (a chance move, matching pennies with a shared infoset of
player two): every positive budget, every threshold, every oracle -/
example (draw : DrawFn ℝ) (T : ℕ) (hT : 0 < T) (thr : Option (Ext ℝ)) :
    ∃ b1 b2 : ℝ,
      (solveVanillaSingle C05.tinyGame false RegretParams.vanilla draw T thr).regOne = .fin b1 ∧
      (solveVanillaSingle C05.tinyGame false RegretParams.vanilla draw T thr).regTwo = .fin b2 ∧
      0 ≤ b1 ∧ 0 ≤ b2 ∧
      (getInfo C05.tinyGame
        (solveVanillaSingle C05.tinyGame false RegretParams.vanilla draw T thr).profile).regret
        ≤ max b1 b2 :=
  full_vanilla_bound_dominates C05.tinyGame C05.tinyGame_wf draw T hT thr

/-- the same through the multi-threaded solver, for every task target and fair schedule -/
example (sched : Sched ℝ) (hs : sched.Fair) (draw : DrawFn ℝ) (target : ℕ) :
    ∃ b1 b2 : ℝ,
      (solveVanillaMultiS sched C05.tinyGame false RegretParams.vanilla draw 7 none target).regOne
        = .fin b1 ∧
      (solveVanillaMultiS sched C05.tinyGame false RegretParams.vanilla draw 7 none target).regTwo
        = .fin b2 ∧
      0 ≤ b1 ∧ 0 ≤ b2 ∧
      (getInfo C05.tinyGame
        (solveVanillaMultiS sched C05.tinyGame false RegretParams.vanilla draw 7 none target).profile).regret
        ≤ max b1 b2 :=
  full_vanilla_bound_dominates_multi sched hs C05.tinyGame C05.tinyGame_wf draw 7 (by norm_num) none
    target

/-- the hypothesis of `full_vanilla_early_stop_sound` is satisfiable: with the threshold `+∞`
the run stops right after its first iteration, whatever the budget `T ≥ 2` -/
example (draw : DrawFn ℝ) (T : ℕ) (hT : 2 ≤ T) :
    (solveVanillaSingle C05.tinyGame false RegretParams.vanilla draw T (some .posInf)).iters < T := by
  obtain ⟨n, rfl⟩ : ∃ n, T = n + 1 := ⟨T - 1, by omega⟩
  unfold solveVanillaSingle solveWith
  rw [solveLoop_succ]
  simp only [belowThreshold, Ext.lt, if_true]
  omega

/-- … and then the conclusion applies (here it says: the true regret is a finite number) -/
example (draw : DrawFn ℝ) (T : ℕ) (hT : 2 ≤ T) :
    Ext.lt (.fin (getInfo C05.tinyGame
      (solveVanillaSingle C05.tinyGame false RegretParams.vanilla draw T (some .posInf)).profile).regret)
      .posInf = true :=
  full_vanilla_early_stop_sound C05.tinyGame C05.tinyGame_wf draw T .posInf (by
    obtain ⟨n, rfl⟩ : ∃ n, T = n + 1 := ⟨T - 1, by omega⟩
    unfold solveVanillaSingle solveWith
    rw [solveLoop_succ]
    simp only [belowThreshold, Ext.lt, if_true]
    omega)

end Cfr
