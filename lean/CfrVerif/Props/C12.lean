import CfrVerif.Proofs.InvCompile
import CfrVerif.Proofs.InvScale
import CfrVerif.Proofs.InvShiftSwap
import CfrVerif.Proofs.InvChanceName
/-!
# C12 — results do not depend on how the game is presented

The theorems are proved in `Proofs/InvCompile.lean` (presentations that compile to the same
game), `Proofs/InvScale.lean` (payoff scale) and `Proofs/InvShiftSwap.lean` (payoff shift, player
exchange); this file states the property-level consequences.  Transformations are defined in
`Proofs/Transforms.lean`.

* rescaling chance weights: **identical** result of `from_root`, hence identical evaluation and
  identical results of every solver;
* inserting single-outcome chance nodes (without an infoset name) and single-action decision
  nodes (with labels the tree does not use): the same game up to the single-action table, which
  neither evaluation nor any solver reads;
* injective renaming: the same game with renamed labels (same indices), hence the same numbers
  and the same strategies up to the renaming;
* payoffs `× c`, `c > 0`: utilities, regrets and bounds `× c`, same strategies (for the scale-free
  fall-back rules: every preset and the default; for a finite non-zero soft-max weight the
  documented rule is *not* scale invariant — known finding F17);
* payoffs `+ k`: utilities `+ k`, everything else unchanged;
* exchanging the players and negating payoffs: mirrored strategies, negated utility, exchanged
  regrets and bounds.

Inserting a single-outcome chance node *with a fresh infoset name* shifts the numbering of later
chance infosets: the compiled games are then equal up to that renumbering
(`Game.ChanceReindexed`), which neither evaluation nor the unsampled solver can observe
(`c12_named_chance_padding`).
-/
set_option linter.unusedSectionVars false
namespace Cfr
variable {α : Type} [Field α] [LinearOrder α] [IsStrictOrderedRing α]

/-- rescaling chance weights by positive constants changes nothing at all -/
theorem c12_rescale (r r' : Raw α) (h : Rescaled r r') : fromRoot r' = fromRoot r :=
  rescale_chance_weights r r' h

/-- degenerate nodes are transparent: same errors; on success the same tree, chance table and
decision-infoset tables — so (`Game.SameShape`) the same evaluation and the same solver results -/
theorem c12_degenerate [Transc α] (fresh : Bool → Nat → Bool) (act : Bool → Nat → Nat)
    (r r' : Raw α) (hp : Padded fresh act r r') (hav : r.AvoidsFresh fresh) (g g' : Game α)
    (hg : fromRoot r = .ok g) (hg' : fromRoot r' = .ok g') (σ : Bool → Strat α)
    (p : RegretParams α) (draw : DrawFn α) (T : Nat) (thr : Option (Ext α)) :
    (getInfo g σ).util = (getInfo g' σ).util ∧ (getInfo g σ).regretOne = (getInfo g' σ).regretOne ∧
    (getInfo g σ).regretTwo = (getInfo g' σ).regretTwo ∧
    solveVanillaSingle g false p draw T thr = solveVanillaSingle g' false p draw T thr := by
  have h := degenerate_nodes_transparent fresh act r r' hp hav
  rw [hg, hg'] at h
  obtain ⟨h1, h2, h3, h4, -⟩ := h
  have hs : g.SameShape g' := ⟨h1.symm, h2.symm, by rw [h3], by rw [h4]⟩
  obtain ⟨a, b, c⟩ := getInfo_sameShape g g' hs σ
  exact ⟨a, b, c, (solve_sameShape g g' hs p draw T thr false 0 Sched.seq).1⟩

/-- the padded tree is accepted exactly when the original is, with the same error otherwise -/
theorem c12_degenerate_acceptance (fresh : Bool → Nat → Bool) (act : Bool → Nat → Nat)
    (r r' : Raw α) (hp : Padded fresh act r r') (hav : r.AvoidsFresh fresh) (e : GameError) :
    fromRoot r = .error e ↔ fromRoot r' = .error e := by
  have h := degenerate_nodes_transparent fresh act r r' hp hav
  cases h1 : fromRoot r <;> cases h2 : fromRoot r' <;> simp_all

/-- injective renaming: same construction outcome with renamed labels; same evaluation and the
same solver results (strategies are indexed, so "up to the renaming" is literal equality) -/
theorem c12_rename [Transc α] (ρ : Renaming) (hρ : ρ.Injective) (r : Raw α) :
    fromRoot (r.rename ρ) = (fromRoot r).map (Game.rename ρ) ∧
    ∀ g, fromRoot r = .ok g → ∀ (σ : Bool → Strat α) (p : RegretParams α) (draw : DrawFn α) (T : Nat)
      (thr : Option (Ext α)),
      (getInfo g σ).util = (getInfo (g.rename ρ) σ).util ∧
      (getInfo g σ).regretOne = (getInfo (g.rename ρ) σ).regretOne ∧
      (getInfo g σ).regretTwo = (getInfo (g.rename ρ) σ).regretTwo ∧
      solveVanillaSingle g false p draw T thr = solveVanillaSingle (g.rename ρ) false p draw T thr := by
  refine ⟨rename_equivariant ρ hρ r, ?_⟩
  intro g _ σ p draw T thr
  have hs := sameShape_rename ρ g
  obtain ⟨a, b, c⟩ := getInfo_sameShape g (g.rename ρ) hs σ
  exact ⟨a, b, c, (solve_sameShape g (g.rename ρ) hs p draw T thr false 0 Sched.seq).1⟩

/-- payoffs `× c` (`c > 0`): evaluation and the unsampled solver are homogeneous -/
theorem c12_scale [Transc α] (c : α) (hc : 0 < c) (g : Game α) (σ : Bool → Strat α)
    (p : RegretParams α) (hp : p.ScaleFree) (draw : DrawFn α) (T : Nat) (thr : Option (Ext α)) :
    (getInfo (g.mapPay (fun x => c * x)) σ).util = c * (getInfo g σ).util ∧
    (getInfo (g.mapPay (fun x => c * x)) σ).regretOne = c * (getInfo g σ).regretOne ∧
    (getInfo (g.mapPay (fun x => c * x)) σ).regretTwo = c * (getInfo g σ).regretTwo ∧
    solveVanillaSingle (g.mapPay (fun x => c * x)) false p draw T (thr.map (Ext.scale c))
      = (solveVanillaSingle g false p draw T thr).scale c := by
  obtain ⟨a, b, d⟩ := getInfo_scale c hc g σ
  exact ⟨a, b, d, solve_full_scale c hc g p hp draw T thr⟩

/-- every preset and the default have a scale-free fall-back rule -/
theorem c12_presets_scaleFree [Transc α] :
    (RegretParams.vanilla : RegretParams α).ScaleFree ∧ (RegretParams.lcfr : RegretParams α).ScaleFree ∧
    (RegretParams.cfrPlus : RegretParams α).ScaleFree ∧ (RegretParams.dcfr : RegretParams α).ScaleFree ∧
    (RegretParams.dcfrPrune : RegretParams α).ScaleFree ∧ (RegretParams.default : RegretParams α).ScaleFree := by
  simp [RegretParams.ScaleFree, RegretParams.vanilla, RegretParams.lcfr, RegretParams.cfrPlus,
    RegretParams.dcfr, RegretParams.dcfrPrune, RegretParams.default]

/-- exchanging the players and negating the payoffs -/
theorem c12_swap [Transc α] (g : Game α) (σ : Bool → Strat α) (p : RegretParams α) (draw : DrawFn α)
    (T : Nat) (thr : Option (Ext α)) :
    (getInfo g.swap (fun one => σ (!one))).util = -(getInfo g σ).util ∧
    (getInfo g.swap (fun one => σ (!one))).regretOne = (getInfo g σ).regretTwo ∧
    (getInfo g.swap (fun one => σ (!one))).regretTwo = (getInfo g σ).regretOne ∧
    solveVanillaSingle g.swap false p draw T thr = (solveVanillaSingle g false p draw T thr).swap := by
  obtain ⟨a, b, c⟩ := getInfo_swap g σ
  exact ⟨a, b, c, solve_full_swap g p draw T thr⟩

/-- payoffs `+ k`: the utility moves, nothing else does -/
theorem c12_shift (k : ℝ) (g : Game ℝ) (hg : GameWF g) (σ : Profile ℝ) (hσ : ProfileOK g σ)
    (p : RegretParams ℝ) (draw : DrawFn ℝ) (T : Nat) (thr : Option (Ext ℝ)) :
    (getInfo (g.mapPay (fun x => x + k)) σ).util = (getInfo g σ).util + k ∧
    (getInfo (g.mapPay (fun x => x + k)) σ).regretOne = (getInfo g σ).regretOne ∧
    (getInfo (g.mapPay (fun x => x + k)) σ).regretTwo = (getInfo g σ).regretTwo ∧
    solveVanillaSingle (g.mapPay (fun x => x + k)) false p draw T thr
      = solveVanillaSingle g false p draw T thr := by
  obtain ⟨a, b, c⟩ := getInfo_shift k g hg σ hσ
  exact ⟨a, b, c, solve_full_shift k g hg p draw T thr⟩

/-- single-outcome chance nodes inserted WITH a (fresh) infoset name: same acceptance and errors;
on success the games are equal up to a renumbering of the chance infosets, hence the same
evaluation and the same results of the unsampled solver -/
theorem c12_named_chance_padding [Transc α] (fresh : Nat → Bool) (r r' : Raw α)
    (hp : PaddedNamed fresh r r') (hav : r.AvoidsChanceName fresh) (hs : Raw.Shape r)
    (g g' : Game α) (hg : fromRoot r = .ok g) (hg' : fromRoot r' = .ok g') (σ : Bool → Strat α)
    (p : RegretParams α) (draw : DrawFn α) (T : Nat) (thr : Option (Ext α)) :
    (getInfo g σ).util = (getInfo g' σ).util ∧ (getInfo g σ).regretOne = (getInfo g' σ).regretOne ∧
    (getInfo g σ).regretTwo = (getInfo g' σ).regretTwo ∧
    solveVanillaSingle g false p draw T thr = solveVanillaSingle g' false p draw T thr := by
  have h := named_chance_padding_transparent fresh r r' hp hav hs
  rw [hg, hg'] at h
  have hn : NodeOK g g.root := (compile_ok_wf r hs g hg).nodes
  obtain ⟨a, b, c⟩ := getInfo_chanceReindexed g g' h.1 hn σ
  exact ⟨a, b, c, solve_full_chanceReindexed g g' h.1 hn p draw T thr⟩

/-- acceptance is unchanged by named padding -/
theorem c12_named_chance_padding_acceptance (fresh : Nat → Bool) (r r' : Raw α)
    (hp : PaddedNamed fresh r r') (hav : r.AvoidsChanceName fresh) (hs : Raw.Shape r)
    (e : GameError) : fromRoot r = .error e ↔ fromRoot r' = .error e := by
  have h := named_chance_padding_transparent fresh r r' hp hav hs
  cases h1 : fromRoot r <;> cases h2 : fromRoot r' <;> simp_all

end Cfr
