import CfrVerif.Proofs.PresetFinal
import CfrVerif.Props.C09
/-!
# C03 — the unsampled solve converges to equilibrium at the CFR rate on every game

For every well-formed game (`GameWF`: what `from_root` guarantees) with payoffs in `[lo, hi]`
(`D = hi − lo`), `N` decision infosets in total and at most `A` actions per infoset:

* **first sentence** (`Proofs/RateProps.lean`, `Proofs/Rate*.lean`): with vanilla parameters, after
  `t` iterations actually run each player's returned bound is at most `2·D·n_p·√A/√t`
  (`n_p ≤ N` the player's own infosets) — every budget, threshold, task target, fair schedule;
* **second sentence** (`Proofs/PresetFinal.lean`, `PresetGame*.lean`, `PresetScalar*.lean`): with
  every documented preset (vanilla, LCFR, CFR+, DCFR, DCFR-prune) the true regret of the profile
  returned after `T` iterations is at most `6·D·N·(√A + 1/√T)/√T` — every thread count;
* in particular the regret tends to zero as the budget grows, for every game and every preset.

The discounted presets go through a weighted version of the C02 chain (the traversal adds the
instantaneous counterfactual regrets; performance difference regrouped by infoset; the returned
average strategy is realisation-equivalent to the `t^γ`-weighted mixture of the iterates; zero-sum
sandwich) down to one regret-matching trace per infoset (`RMTrace`), and an Abel summation of the
`t^γ`-weighted regrets against the stored, discounted cumulative regrets whose positive part the
potential argument keeps below `D·√(A·t)`.
-/
set_option linter.unusedSectionVars false
namespace Cfr

/-- first sentence: the vanilla bounds obey the CFR rate (single thread; `RateOK D n A t (.fin b)`
is `b ≤ 2·D·n·√A/√t`) -/
theorem c03_vanilla_bounds (g : Game ℝ) (hg : GameWF g) (lo hi : ℝ) (hpay : PayIn lo hi g.root)
    (A : Nat) (hA : ActsLe g A) (draw : DrawFn ℝ) (T : Nat) (thr : Option (Ext ℝ)) :
    RateOK (hi - lo) g.p1.length A (solveVanillaSingle g false RegretParams.vanilla draw T thr).iters
      (solveVanillaSingle g false RegretParams.vanilla draw T thr).regOne ∧
    RateOK (hi - lo) g.p2.length A (solveVanillaSingle g false RegretParams.vanilla draw T thr).iters
      (solveVanillaSingle g false RegretParams.vanilla draw T thr).regTwo :=
  full_vanilla_rate g hg lo hi hpay A hA draw T thr

/-- first sentence, every thread count -/
theorem c03_vanilla_bounds_multi (sched : Sched ℝ) (hs : sched.Fair) (g : Game ℝ) (hg : GameWF g)
    (lo hi : ℝ) (hpay : PayIn lo hi g.root) (A : Nat) (hA : ActsLe g A) (draw : DrawFn ℝ) (T : Nat)
    (thr : Option (Ext ℝ)) (target : Nat) :
    RateOK (hi - lo) g.p1.length A
      (solveVanillaMultiS sched g false RegretParams.vanilla draw T thr target).iters
      (solveVanillaMultiS sched g false RegretParams.vanilla draw T thr target).regOne ∧
    RateOK (hi - lo) g.p2.length A
      (solveVanillaMultiS sched g false RegretParams.vanilla draw T thr target).iters
      (solveVanillaMultiS sched g false RegretParams.vanilla draw T thr target).regTwo :=
  full_vanilla_rate_multi sched hs g hg lo hi hpay A hA draw T thr target

/-- `n_p ≤ N`: the property's own constant -/
theorem c03_bound_in_total_infosets (D : ℝ) (hD : 0 ≤ D) (n N A iters : Nat) (hn : n ≤ N) (b : ℝ)
    (h : RateOK D n A iters (.fin b)) : b ≤ 2 * D * N * Real.sqrt A / Real.sqrt iters :=
  rateOK_total D hD n N A iters hn b h

/-- **second sentence: every documented preset** -/
theorem c03_preset_regret (g : Game ℝ) (hg : GameWF g) (lo hi : ℝ) (hpay : PayIn lo hi g.root)
    (A : Nat) (hA : ActsLe g A) (hA2 : 2 ≤ A) (p : RegretParams ℝ)
    (hp : p = RegretParams.vanilla ∨ IsDiscountedPreset p) (draw : DrawFn ℝ) (T : Nat) (hT : 0 < T) :
    (getInfo g (solveVanillaSingle g false p draw T none).profile).regret
      ≤ 6 * (hi - lo) * ((g.p1.length + g.p2.length : Nat) : ℝ)
          * (Real.sqrt A + 1 / Real.sqrt T) / Real.sqrt T :=
  full_preset_rate g hg lo hi hpay A hA hA2 p hp draw T hT

/-- second sentence, every thread count -/
theorem c03_preset_regret_multi (sched : Sched ℝ) (hs : sched.Fair) (g : Game ℝ) (hg : GameWF g)
    (lo hi : ℝ) (hpay : PayIn lo hi g.root) (A : Nat) (hA : ActsLe g A) (hA2 : 2 ≤ A)
    (p : RegretParams ℝ) (hp : p = RegretParams.vanilla ∨ IsDiscountedPreset p) (draw : DrawFn ℝ)
    (T : Nat) (hT : 0 < T) (target : Nat) :
    (getInfo g (solveVanillaMultiS sched g false p draw T none target).profile).regret
      ≤ 6 * (hi - lo) * ((g.p1.length + g.p2.length : Nat) : ℝ)
          * (Real.sqrt A + 1 / Real.sqrt T) / Real.sqrt T :=
  full_preset_rate_multi sched hs g hg lo hi hpay A hA hA2 p hp draw T hT target

/-- **regret tends to zero as the budget grows, on every game, with every preset** -/
theorem c03_regret_tendsto_zero (g : Game ℝ) (hg : GameWF g) (lo hi : ℝ)
    (hpay : PayIn lo hi g.root) (A : Nat) (hA : ActsLe g A) (hA2 : 2 ≤ A) (p : RegretParams ℝ)
    (hp : p = RegretParams.vanilla ∨ IsDiscountedPreset p) (draw : DrawFn ℝ) :
    ∀ ε : ℝ, 0 < ε → ∃ T0 : Nat, ∀ T : Nat, T0 ≤ T →
      (getInfo g (solveVanillaSingle g false p draw T none).profile).regret ≤ ε :=
  full_preset_regret_tendsto_zero g hg lo hi hpay A hA hA2 p hp draw

/-- the vanilla regret rate without the envelope slack: `2·D·N·√A/√T` -/
theorem c03_vanilla_regret (g : Game ℝ) (hg : GameWF g) (lo hi : ℝ) (hD : lo ≤ hi)
    (hpay : PayIn lo hi g.root) (A : Nat) (hA : ActsLe g A) (draw : DrawFn ℝ) (T : Nat) (hT : 0 < T) :
    (getInfo g (solveVanillaSingle g false RegretParams.vanilla draw T none).profile).regret
      ≤ 2 * (hi - lo) * ((g.p1.length + g.p2.length : Nat) : ℝ) * Real.sqrt A / Real.sqrt T :=
  full_vanilla_regret_rate g hg lo hi hD hpay A hA draw T hT

/-! ## the second sentence with early termination

A run with a regret threshold is the run without one whose budget is the number of iterations
actually made (C09), so the rate holds at that number — for every threshold (NaN, `±∞`, finite)
and every budget. -/

/-- **every preset, every threshold**: the true regret of the returned profile obeys the rate at
the number `t` of iterations the run actually made (`t ≥ 1`) -/
theorem c03_preset_regret_threshold (g : Game ℝ) (hg : GameWF g) (lo hi : ℝ)
    (hpay : PayIn lo hi g.root) (A : Nat) (hA : ActsLe g A) (hA2 : 2 ≤ A) (p : RegretParams ℝ)
    (hp : p = RegretParams.vanilla ∨ IsDiscountedPreset p) (draw : DrawFn ℝ) (T : Nat)
    (thr : Option (Ext ℝ)) (hrun : 0 < (solveVanillaSingle g false p draw T thr).iters) :
    (getInfo g (solveVanillaSingle g false p draw T thr).profile).regret
      ≤ 6 * (hi - lo) * ((g.p1.length + g.p2.length : Nat) : ℝ)
          * (Real.sqrt A + 1 / Real.sqrt ((solveVanillaSingle g false p draw T thr).iters : ℕ))
          / Real.sqrt ((solveVanillaSingle g false p draw T thr).iters : ℕ) := by
  rw [vanilla_single_threshold_eq_prefix g false p draw T thr] at hrun ⊢
  have hit : (solveVanillaSingle g false p draw
      (tstar g (vanillaIter g false p draw) T thr) none).iters
        = tstar g (vanillaIter g false p draw) T thr := by
    unfold solveVanillaSingle solveWith
    rw [solveLoop_none_iters]; omega
  rw [hit] at hrun ⊢
  exact c03_preset_regret g hg lo hi hpay A hA hA2 p hp draw _ hrun

/-- the same for every thread count (task target, fair schedule) -/
theorem c03_preset_regret_threshold_multi (sched : Sched ℝ) (hs : sched.Fair) (g : Game ℝ)
    (hg : GameWF g) (lo hi : ℝ) (hpay : PayIn lo hi g.root) (A : Nat) (hA : ActsLe g A)
    (hA2 : 2 ≤ A) (p : RegretParams ℝ) (hp : p = RegretParams.vanilla ∨ IsDiscountedPreset p)
    (draw : DrawFn ℝ) (T : Nat) (thr : Option (Ext ℝ)) (target : Nat)
    (hrun : 0 < (solveVanillaMultiS sched g false p draw T thr target).iters) :
    (getInfo g (solveVanillaMultiS sched g false p draw T thr target).profile).regret
      ≤ 6 * (hi - lo) * ((g.p1.length + g.p2.length : Nat) : ℝ)
          * (Real.sqrt A + 1 / Real.sqrt ((solveVanillaMultiS sched g false p draw T thr target).iters : ℕ))
          / Real.sqrt ((solveVanillaMultiS sched g false p draw T thr target).iters : ℕ) := by
  have hpre : solveVanillaMultiS sched g false p draw T thr target
      = solveVanillaMultiS sched g false p draw
          (tstar g (vanillaMultiIterS sched g false p draw target) T thr) none target :=
    solveWith_threshold_eq_prefix g _ T thr
  rw [hpre] at hrun ⊢
  have hit : (solveVanillaMultiS sched g false p draw
      (tstar g (vanillaMultiIterS sched g false p draw target) T thr) none target).iters
        = tstar g (vanillaMultiIterS sched g false p draw target) T thr := by
    unfold solveVanillaMultiS solveWith
    rw [solveLoop_none_iters]; omega
  rw [hit] at hrun ⊢
  exact c03_preset_regret_multi sched hs g hg lo hi hpay A hA hA2 p hp draw _ hrun target

end Cfr
