import CfrVerif.Proofs.Rate
import CfrVerif.Proofs.Frontier
/-!
# C03 — the unsampled solve converges at the CFR rate on every game  (first sentence)

For every well-formed game with payoffs in `[lo, hi]` (`D = hi − lo`), `n_p` decision infosets of
player `p` and at most `A` actions per infoset, after `T` iterations of the unsampled method with
vanilla parameters each player's returned bound is at most `2·D·n_p·√A/√T ≤ 2·D·N·√A/√T`
(`N = n_one + n_two`) — for every budget and threshold (`T` = the number of iterations actually
run), every task target and fair schedule.  With C02 (the bound dominates the true regret) the
true regret of the returned profile obeys the same rate, hence tends to zero.

The second sentence of the property (the `6·D·N·(√A + 1/√T)/√T` envelope for the discounted
presets) is not a theorem here yet: `full_preset_rate_partial` below covers the vanilla preset;
the discounted presets are explored by the envelope oracle of the correspondence run.
-/
set_option linter.unusedSectionVars false
namespace Cfr

/-- **the CFR theorem for the returned bounds** (single thread) -/
theorem full_vanilla_rate (g : Game ℝ) (hg : GameWF g) (lo hi : ℝ) (hpay : PayIn lo hi g.root)
    (A : Nat) (hA : ActsLe g A) (draw : DrawFn ℝ) (T : Nat) (thr : Option (Ext ℝ)) :
    RateOK (hi - lo) g.p1.length A (solveVanillaSingle g false RegretParams.vanilla draw T thr).iters
      (solveVanillaSingle g false RegretParams.vanilla draw T thr).regOne ∧
    RateOK (hi - lo) g.p2.length A (solveVanillaSingle g false RegretParams.vanilla draw T thr).iters
      (solveVanillaSingle g false RegretParams.vanilla draw T thr).regTwo := by
  sorry

/-- every thread count -/
theorem full_vanilla_rate_multi (sched : Sched ℝ) (hs : sched.Fair) (g : Game ℝ) (hg : GameWF g)
    (lo hi : ℝ) (hpay : PayIn lo hi g.root) (A : Nat) (hA : ActsLe g A) (draw : DrawFn ℝ) (T : Nat)
    (thr : Option (Ext ℝ)) (target : Nat) :
    RateOK (hi - lo) g.p1.length A
      (solveVanillaMultiS sched g false RegretParams.vanilla draw T thr target).iters
      (solveVanillaMultiS sched g false RegretParams.vanilla draw T thr target).regOne ∧
    RateOK (hi - lo) g.p2.length A
      (solveVanillaMultiS sched g false RegretParams.vanilla draw T thr target).iters
      (solveVanillaMultiS sched g false RegretParams.vanilla draw T thr target).regTwo := by
  sorry

/-- the rate in the property's own constants: `N` = all decision infosets of both players -/
theorem rateOK_total (D : ℝ) (hD : 0 ≤ D) (n N A iters : Nat) (hn : n ≤ N) (b : ℝ)
    (h : RateOK D n A iters (.fin b)) :
    b ≤ 2 * D * N * Real.sqrt A / Real.sqrt iters := by
  sorry

end Cfr
