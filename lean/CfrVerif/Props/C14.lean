import CfrVerif.Proofs.Tables
/-!
# C14 — import validates, normalises, and both routes agree

`stratIntoBox` looks infosets and actions up as a `HashMap` built by successive
`insert`s does (the *last* inserted entry with that key), `stratIntoBoxSlow` by
a linear scan (the *first* match).  `importWith` is the code the two routes
share, parameterised by the three look-up functions.
-/
set_option linter.unusedSectionVars false
namespace Cfr
variable {α : Type} [Field α] [LinearOrder α] [IsStrictOrderedRing α]

/-- characterisation of the accumulator loop when at most one element matches -/
theorem findLastIdx_go_of_unique {β : Type} (f : β → Bool) (l : List β) (i : Nat) (r : Option Nat)
    (huniq : ∀ a b (ha : a < l.length) (hb : b < l.length), f l[a] = true → f l[b] = true → a = b) :
    findLastIdx.go f l i r = match l.findIdx? f with | some k => some (k + i) | none => r := by
  induction l generalizing i r with
  | nil => simp [findLastIdx.go]
  | cons x xs ih =>
    have hu' : ∀ a b (ha : a < xs.length) (hb : b < xs.length),
        f xs[a] = true → f xs[b] = true → a = b := by
      intro a b ha hb h1 h2
      have := huniq (a + 1) (b + 1) (by simp; omega) (by simp; omega) (by simpa using h1)
        (by simpa using h2)
      omega
    rw [findLastIdx.go, ih (i + 1) _ hu', List.findIdx?_cons]
    by_cases hx : f x = true
    · have hnone : xs.findIdx? f = none := by
        rw [List.findIdx?_eq_none_iff]
        intro y hy
        obtain ⟨j, hj, rfl⟩ := List.mem_iff_getElem.mp hy
        by_contra hne
        have := huniq 0 (j + 1) (by simp) (by simp; omega) (by simpa using hx)
          (by simpa using hne)
        omega
      simp [hx, hnone]
    · simp only [hx]
      cases h : xs.findIdx? f with
      | none => simp
      | some k => simp; omega

/-- on a list in which at most one element satisfies `f`, "last match" and "first match" agree -/
theorem findLastIdx_eq_findIdx? {β : Type} (f : β → Bool) (l : List β)
    (huniq : ∀ i j (hi : i < l.length) (hj : j < l.length), f l[i] = true → f l[j] = true → i = j) :
    findLastIdx f l = l.findIdx? f := by
  unfold findLastIdx
  rw [findLastIdx_go_of_unique f l 0 none huniq]
  cases l.findIdx? f <;> simp

/-- uniqueness of the match of a key predicate on a list with distinct keys -/
theorem findLastIdx_key {β : Type} (g : β → Nat) (k : Nat) (l : List β) (hn : (l.map g).Nodup) :
    findLastIdx (fun x => g x == k) l = l.findIdx? (fun x => g x == k) := by
  apply findLastIdx_eq_findIdx?
  intro i j hi hj h1 h2
  have h1' : g l[i] = k := by simpa using h1
  have h2' : g l[j] = k := by simpa using h2
  have : (l.map g)[i]'(by simpa using hi) = (l.map g)[j]'(by simpa using hj) := by
    simp [h1', h2']
  exact (hn.getElem_inj_iff).mp this

theorem importActions_congr (f1 f2 : (Nat → Bool) → List Nat → Option Nat) (acts : List Nat) (i : Nat)
    (h : ∀ a, f1 (· == a) acts = f2 (· == a) acts) (l : List (Nat × α)) (dense : Strat α) :
    importActions f1 acts i l dense = importActions f2 acts i l dense := by
  induction l generalizing dense with
  | nil => rfl
  | cons x rest ih =>
    obtain ⟨a, p⟩ := x
    simp only [importActions, h a]
    split
    · split
      · exact ih _
      · rfl
    · rfl

theorem importLoop_congr
    (fI1 fI2 : (PInfo → Bool) → List PInfo → Option Nat)
    (fA1 fA2 : (Nat → Bool) → List Nat → Option Nat)
    (fS1 fS2 : ((Nat × Nat) → Bool) → List (Nat × Nat) → Option Nat)
    (infos : List PInfo) (singles : List (Nat × Nat))
    (hI : ∀ l, fI1 (·.label == l) infos = fI2 (·.label == l) infos)
    (hA : ∀ i a, fA1 (· == a) (infos.getD i default).actions = fA2 (· == a) (infos.getD i default).actions)
    (hS : ∀ l, fS1 (·.1 == l) singles = fS2 (·.1 == l) singles)
    (named : Named α) (dense : Strat α) (seen : List Bool) :
    importLoop fI1 fA1 fS1 infos singles named dense seen
      = importLoop fI2 fA2 fS2 infos singles named dense seen := by
  induction named generalizing dense seen with
  | nil => rfl
  | cons e rest ih =>
    obtain ⟨l, acts⟩ := e
    simp only [importLoop, hI l, hS l]
    split
    · rename_i i _
      rw [importActions_congr fA1 fA2 _ i (hA i)]
      split
      · exact ih _ _
      · rfl
    · split
      · split
        · exact ih _ _
        · rfl
      · rfl

/-- **the hashing and the non-hashing import give identical outcomes on every input**: every
candidate (any order, duplicates, foreign infosets, illegal actions, any weights), `Ok` and `Err`
alike, for every well-formed infoset table -/
theorem stratIntoBox_eq_slow (infos : List PInfo) (singles : List (Nat × Nat)) (named : Named α)
    (hw : TablesWF infos singles) :
    stratIntoBox infos singles named = stratIntoBoxSlow infos singles named := by
  have key : ∀ dense seen,
      importLoop (α := α) (fun f l => findLastIdx f l) (fun f l => findLastIdx f l)
        (fun f l => findLastIdx f l) infos singles named dense seen
      = importLoop (fun f l => l.findIdx? f) (fun f l => l.findIdx? f) (fun f l => l.findIdx? f)
        infos singles named dense seen := by
    intro dense seen
    apply importLoop_congr
    · intro l
      exact findLastIdx_key (·.label) l infos hw.labelsNodup
    · intro i a
      by_cases hi : i < infos.length
      · have : infos.getD i default = infos[i] := by simp [List.getD_eq_getElem?_getD, hi]
        rw [this]
        exact findLastIdx_key id a _ (by simpa using hw.actionsNodup _ (List.getElem_mem hi))
      · have : infos.getD i default = default := by
          simp [List.getD_eq_getElem?_getD, Nat.le_of_not_lt hi]
        rw [this]
        rfl
    · intro l
      exact findLastIdx_key (·.1) l singles hw.singlesNodup
  unfold stratIntoBox stratIntoBoxSlow importWith
  simp only [key]

/-- both players -/
theorem fromNamed_eq_fromNamedEq (g : Game α) (one two : Named α)
    (h1 : TablesWF g.p1 g.s1) (h2 : TablesWF g.p2 g.s2) :
    fromNamed g one two = fromNamedEq g one two := by
  unfold fromNamed fromNamedEq
  rw [stratIntoBox_eq_slow _ _ _ h1, stratIntoBox_eq_slow _ _ _ h2]

/-! ## the documented semantics (stated for the scan-based route; the other follows) -/

/-- the weight a candidate gives to action `a` of infoset label `l`: the *last* well-formed
entry wins, unspecified means `0` -/
def lastWeight (named : Named α) (l a : Nat) : α :=
  match (named.flatMap (fun e => if e.1 == l then e.2 else [])).reverse.find? (fun x => x.1 == a) with
  | some x => x.2
  | none => 0

/-- the rules a candidate must satisfy -/
structure ImportOk (infos : List PInfo) (singles : List (Nat × Nat)) (named : Named α) : Prop where
  /-- only existing infosets are mentioned -/
  knownInfosets : ∀ e ∈ named, e.1 ∈ infos.map (·.label) ∨ e.1 ∈ singles.map (·.1)
  /-- only legal actions are mentioned -/
  legalActions : ∀ e ∈ named, ∀ x ∈ e.2,
    (∀ i ∈ infos, i.label = e.1 → x.1 ∈ i.actions) ∧ (∀ s ∈ singles, s.1 = e.1 → x.1 = s.2)
  /-- all weights are non-negative (finite is automatic in exact arithmetic) -/
  nonneg : ∀ e ∈ named, ∀ x ∈ e.2, 0 ≤ x.2
  /-- every multi-action infoset receives a positive total -/
  positive : ∀ i ∈ infos, 0 < (i.actions.map (lastWeight named i.label)).sum
  /-- every single-action infoset is covered -/
  covered : ∀ s ∈ singles, ∃ e ∈ named, e.1 = s.1 ∧ e.2 ≠ []

/-- **import succeeds exactly when the rules hold** -/
theorem import_ok_iff (infos : List PInfo) (singles : List (Nat × Nat)) (named : Named α)
    (hw : TablesWF infos singles) :
    (∃ σ, stratIntoBoxSlow infos singles named = .ok σ) ↔ ImportOk infos singles named := by
  sorry

/-- **the result gives each action its weight divided by the infoset total** (unspecified
actions zero, a repeated entry overriding the earlier one) -/
theorem import_result (infos : List PInfo) (singles : List (Nat × Nat)) (named : Named α)
    (hw : TablesWF infos singles) (σ : Strat α) (h : stratIntoBoxSlow infos singles named = .ok σ) :
    σ = infos.map (fun i =>
      (i.actions.map (lastWeight named i.label)).map
        (· / (i.actions.map (lastWeight named i.label)).sum)) := by
  sorry

/-- the result of a successful import is a valid strategy that fits the table -/
theorem import_valid (infos : List PInfo) (singles : List (Nat × Nat)) (named : Named α)
    (hw : TablesWF infos singles) (σ : Strat α) (h : stratIntoBoxSlow infos singles named = .ok σ) :
    IsStrat σ ∧ Fits infos σ := by
  sorry

/-! ## non-vacuity -/

def exInfos14 : List PInfo := [⟨7, [0, 1, 2], none⟩]
def exSingles14 : List (Nat × Nat) := [(3, 8)]

/-- unnormalised weights, a repeated entry overriding the earlier one, an unspecified action -/
example : stratIntoBoxSlow exInfos14 exSingles14 ([(7, [(0, 5), (1, 1)]), (3, [(8, 1)]), (7, [(0, 1)])] : Named ℚ)
    = .ok [[1/2, 1/2, 0]] := by
  decide +kernel
example : stratIntoBox exInfos14 exSingles14 ([(7, [(0, 5), (1, 1)]), (3, [(8, 1)]), (7, [(0, 1)])] : Named ℚ)
    = .ok [[1/2, 1/2, 0]] := by
  decide +kernel
/-- a violated rule -/
example : stratIntoBoxSlow exInfos14 exSingles14 ([(7, [(0, 5), (9, 1)])] : Named ℚ)
    = .error .invalidAction := by
  decide +kernel

end Cfr
