import CfrVerif.Proofs.Tables
/-!
# C14 — import validates, normalises, and both routes agree

`stratIntoBox` looks infosets and actions up as a `HashMap` built by successive
`insert`s does (the *last* inserted entry with that key), `stratIntoBoxSlow` by
a linear scan (the *first* match).  `importWith` is the code the two routes
share, parameterised by the three look-up functions.
-/
set_option linter.unusedSectionVars false
namespace Cfr
variable {α : Type} [Field α] [LinearOrder α] [IsStrictOrderedRing α]

/-- characterisation of the accumulator loop when at most one element matches -/
theorem findLastIdx_go_of_unique {β : Type} (f : β → Bool) (l : List β) (i : Nat) (r : Option Nat)
    (huniq : ∀ a b (ha : a < l.length) (hb : b < l.length), f l[a] = true → f l[b] = true → a = b) :
    findLastIdx.go f l i r = match l.findIdx? f with | some k => some (k + i) | none => r := by
  induction l generalizing i r with
  | nil => simp [findLastIdx.go]
  | cons x xs ih =>
    have hu' : ∀ a b (ha : a < xs.length) (hb : b < xs.length),
        f xs[a] = true → f xs[b] = true → a = b := by
      intro a b ha hb h1 h2
      have := huniq (a + 1) (b + 1) (by simp; omega) (by simp; omega) (by simpa using h1)
        (by simpa using h2)
      omega
    rw [findLastIdx.go, ih (i + 1) _ hu', List.findIdx?_cons]
    by_cases hx : f x = true
    · have hnone : xs.findIdx? f = none := by
        rw [List.findIdx?_eq_none_iff]
        intro y hy
        obtain ⟨j, hj, rfl⟩ := List.mem_iff_getElem.mp hy
        by_contra hne
        have := huniq 0 (j + 1) (by simp) (by simp; omega) (by simpa using hx)
          (by simpa using hne)
        omega
      simp [hx, hnone]
    · simp only [hx]
      cases h : xs.findIdx? f with
      | none => simp
      | some k => simp; omega

/-- on a list in which at most one element satisfies `f`, "last match" and "first match" agree -/
theorem findLastIdx_eq_findIdx? {β : Type} (f : β → Bool) (l : List β)
    (huniq : ∀ i j (hi : i < l.length) (hj : j < l.length), f l[i] = true → f l[j] = true → i = j) :
    findLastIdx f l = l.findIdx? f := by
  unfold findLastIdx
  rw [findLastIdx_go_of_unique f l 0 none huniq]
  cases l.findIdx? f <;> simp

/-- uniqueness of the match of a key predicate on a list with distinct keys -/
theorem findLastIdx_key {β : Type} (g : β → Nat) (k : Nat) (l : List β) (hn : (l.map g).Nodup) :
    findLastIdx (fun x => g x == k) l = l.findIdx? (fun x => g x == k) := by
  apply findLastIdx_eq_findIdx?
  intro i j hi hj h1 h2
  have h1' : g l[i] = k := by simpa using h1
  have h2' : g l[j] = k := by simpa using h2
  have : (l.map g)[i]'(by simpa using hi) = (l.map g)[j]'(by simpa using hj) := by
    simp [h1', h2']
  exact (hn.getElem_inj_iff).mp this

theorem importActions_congr (f1 f2 : (Nat → Bool) → List Nat → Option Nat) (acts : List Nat) (i : Nat)
    (h : ∀ a, f1 (· == a) acts = f2 (· == a) acts) (l : List (Nat × α)) (dense : Strat α) :
    importActions f1 acts i l dense = importActions f2 acts i l dense := by
  induction l generalizing dense with
  | nil => rfl
  | cons x rest ih =>
    obtain ⟨a, p⟩ := x
    simp only [importActions, h a]
    split
    · split
      · exact ih _
      · rfl
    · rfl

theorem importLoop_congr
    (fI1 fI2 : (PInfo → Bool) → List PInfo → Option Nat)
    (fA1 fA2 : (Nat → Bool) → List Nat → Option Nat)
    (fS1 fS2 : ((Nat × Nat) → Bool) → List (Nat × Nat) → Option Nat)
    (infos : List PInfo) (singles : List (Nat × Nat))
    (hI : ∀ l, fI1 (·.label == l) infos = fI2 (·.label == l) infos)
    (hA : ∀ i a, fA1 (· == a) (infos.getD i default).actions = fA2 (· == a) (infos.getD i default).actions)
    (hS : ∀ l, fS1 (·.1 == l) singles = fS2 (·.1 == l) singles)
    (named : Named α) (dense : Strat α) (seen : List Bool) :
    importLoop fI1 fA1 fS1 infos singles named dense seen
      = importLoop fI2 fA2 fS2 infos singles named dense seen := by
  induction named generalizing dense seen with
  | nil => rfl
  | cons e rest ih =>
    obtain ⟨l, acts⟩ := e
    simp only [importLoop, hI l, hS l]
    split
    · rename_i i _
      rw [importActions_congr fA1 fA2 _ i (hA i)]
      split
      · exact ih _ _
      · rfl
    · split
      · split
        · exact ih _ _
        · rfl
      · rfl

/-- **the hashing and the non-hashing import give identical outcomes on every input**: every
candidate (any order, duplicates, foreign infosets, illegal actions, any weights), `Ok` and `Err`
alike, for every well-formed infoset table -/
theorem stratIntoBox_eq_slow (infos : List PInfo) (singles : List (Nat × Nat)) (named : Named α)
    (hw : TablesWF infos singles) :
    stratIntoBox infos singles named = stratIntoBoxSlow infos singles named := by
  have key : ∀ dense seen,
      importLoop (α := α) (fun f l => findLastIdx f l) (fun f l => findLastIdx f l)
        (fun f l => findLastIdx f l) infos singles named dense seen
      = importLoop (fun f l => l.findIdx? f) (fun f l => l.findIdx? f) (fun f l => l.findIdx? f)
        infos singles named dense seen := by
    intro dense seen
    apply importLoop_congr
    · intro l
      exact findLastIdx_key (·.label) l infos hw.labelsNodup
    · intro i a
      by_cases hi : i < infos.length
      · have : infos.getD i default = infos[i] := by simp [List.getD_eq_getElem?_getD, hi]
        rw [this]
        exact findLastIdx_key id a _ (by simpa using hw.actionsNodup _ (List.getElem_mem hi))
      · have : infos.getD i default = default := by
          simp [List.getD_eq_getElem?_getD, Nat.le_of_not_lt hi]
        rw [this]
        rfl
    · intro l
      exact findLastIdx_key (·.1) l singles hw.singlesNodup
  unfold stratIntoBox stratIntoBoxSlow importWith
  simp only [key]

/-- both players -/
theorem fromNamed_eq_fromNamedEq (g : Game α) (one two : Named α)
    (h1 : TablesWF g.p1 g.s1) (h2 : TablesWF g.p2 g.s2) :
    fromNamed g one two = fromNamedEq g one two := by
  unfold fromNamed fromNamedEq
  rw [stratIntoBox_eq_slow _ _ _ h1, stratIntoBox_eq_slow _ _ _ h2]

/-! ## the documented semantics (stated for the scan-based route; the other follows) -/

/-- the weight a candidate gives to action `a` of infoset label `l`: the *last* well-formed
entry wins, unspecified means `0` -/
def lastWeight (named : Named α) (l a : Nat) : α :=
  match (named.flatMap (fun e => if e.1 == l then e.2 else [])).reverse.find? (fun x => x.1 == a) with
  | some x => x.2
  | none => 0

/-- the rules a candidate must satisfy -/
structure ImportOk (infos : List PInfo) (singles : List (Nat × Nat)) (named : Named α) : Prop where
  /-- only existing infosets are mentioned -/
  knownInfosets : ∀ e ∈ named, e.1 ∈ infos.map (·.label) ∨ e.1 ∈ singles.map (·.1)
  /-- only legal actions are mentioned -/
  legalActions : ∀ e ∈ named, ∀ x ∈ e.2,
    (∀ i ∈ infos, i.label = e.1 → x.1 ∈ i.actions) ∧ (∀ s ∈ singles, s.1 = e.1 → x.1 = s.2)
  /-- all weights are non-negative (finite is automatic in exact arithmetic) -/
  nonneg : ∀ e ∈ named, ∀ x ∈ e.2, 0 ≤ x.2
  /-- every multi-action infoset receives a positive total -/
  positive : ∀ i ∈ infos, 0 < (i.actions.map (lastWeight named i.label)).sum
  /-- every single-action infoset is covered -/
  covered : ∀ s ∈ singles, ∃ e ∈ named, e.1 = s.1 ∧ e.2 ≠ []

/-! ### look-ups by key on tables with distinct keys -/

theorem findIdx?_key_some {β : Type} (g : β → Nat) (k : Nat) (xs : List β) (hn : (xs.map g).Nodup)
    (i : Nat) : xs.findIdx? (fun x => g x == k) = some i ↔ ∃ h : i < xs.length, g xs[i] = k := by
  rw [List.findIdx?_eq_some_iff_getElem]
  constructor
  · rintro ⟨h, h1, _⟩
    exact ⟨h, by simpa using h1⟩
  · rintro ⟨h, h1⟩
    refine ⟨h, by simpa using h1, ?_⟩
    intro j hji hj
    have hj' : g xs[j] = k := by simpa using hj
    have : (xs.map g)[j]'(by simp; omega) = (xs.map g)[i]'(by simpa using h) := by
      simp [h1, hj']
    have := (hn.getElem_inj_iff).mp this
    omega

theorem findIdx?_key_none {β : Type} (g : β → Nat) (k : Nat) (xs : List β) :
    xs.findIdx? (fun x => g x == k) = none ↔ k ∉ xs.map g := by
  rw [List.findIdx?_eq_none_iff]
  simp only [List.mem_map, not_exists, not_and, beq_eq_false_iff_ne, ne_eq]

/-! ### "the last entry wins" as a recursion -/

/-- run through the `(action, weight)` pairs, each overriding what was there before -/
def ovr : List (Nat × α) → Nat → α → α
  | [], _, d => d
  | (b, p) :: xs, a, d => ovr xs a (if b = a then p else d)

theorem ovr_append (xs ys : List (Nat × α)) (a : Nat) (d : α) :
    ovr (xs ++ ys) a d = ovr ys a (ovr xs a d) := by
  induction xs generalizing d with
  | nil => rfl
  | cons x xs ih => obtain ⟨b, p⟩ := x; simp only [List.cons_append, ovr, ih]

theorem ovr_eq_find (xs : List (Nat × α)) (a : Nat) (d : α) :
    ovr xs a d = match xs.reverse.find? (fun x => x.1 == a) with
      | some x => x.2
      | none => d := by
  induction xs generalizing d with
  | nil => rfl
  | cons x xs ih =>
    obtain ⟨b, p⟩ := x
    rw [ovr, ih, List.reverse_cons, List.find?_append]
    cases xs.reverse.find? (fun x => x.1 == a) with
    | some y => simp
    | none =>
      by_cases hb : b = a
      · simp [hb]
      · simp [hb]

theorem lastWeight_eq_ovr (named : Named α) (l a : Nat) :
    lastWeight named l a = ovr (named.flatMap (fun e => if e.1 == l then e.2 else [])) a 0 := by
  rw [ovr_eq_find]; rfl

theorem ovr_nonneg (xs : List (Nat × α)) (a : Nat) (d : α) (hx : ∀ x ∈ xs, 0 ≤ x.2) (hd : 0 ≤ d) :
    0 ≤ ovr xs a d := by
  induction xs generalizing d with
  | nil => exact hd
  | cons x xs ih =>
    obtain ⟨b, p⟩ := x
    rw [ovr]
    apply ih _ (fun y hy => hx y (List.mem_cons_of_mem _ hy))
    split
    · exact hx (b, p) List.mem_cons_self
    · exact hd

/-! ### the two state components in closed form -/

/-- the weight table as a function of `(infoset label, action label)` -/
def denseOf (infos : List PInfo) (W : Nat → Nat → α) : Strat α :=
  infos.map (fun i => i.actions.map (W i.label))

/-- the flags as a function of the single-action infoset label -/
def seenOf (singles : List (Nat × Nat)) (S : Nat → Bool) : List Bool := singles.map (fun s => S s.1)

theorem denseOf_congr (infos : List PInfo) (W W' : Nat → Nat → α)
    (h : ∀ i ∈ infos, ∀ a ∈ i.actions, W i.label a = W' i.label a) :
    denseOf infos W = denseOf infos W' := by
  unfold denseOf
  exact List.map_congr_left (fun i hi => List.map_congr_left (fun a ha => h i hi a ha))

theorem seenOf_congr (singles : List (Nat × Nat)) (S S' : Nat → Bool)
    (h : ∀ s ∈ singles, S s.1 = S' s.1) : seenOf singles S = seenOf singles S' := by
  unfold seenOf
  exact List.map_congr_left h

theorem setWeight_denseOf (infos : List PInfo) (singles : List (Nat × Nat)) (hw : TablesWF infos singles)
    (W : Nat → Nat → α) (i : Nat) (hi : i < infos.length) (ai : Nat) (hai : ai < infos[i].actions.length)
    (p : α) :
    setWeight (denseOf infos W) i ai p
      = denseOf infos (fun l a => if l = infos[i].label ∧ a = infos[i].actions[ai] then p else W l a) := by
  unfold setWeight denseOf
  apply List.ext_getElem
  · simp
  · intro j h1 h2
    have hj : j < infos.length := by simpa using h2
    rw [List.getElem_modify]
    simp only [List.getElem_map]
    by_cases hij : i = j
    · subst hij
      simp only [if_true]
      apply List.ext_getElem
      · simp
      · intro k h3 h4
        have hk : k < infos[i].actions.length := by simpa using h4
        rw [List.getElem_set]
        simp only [List.getElem_map, true_and]
        have hnd := hw.actionsNodup _ (List.getElem_mem hi)
        by_cases hk' : ai = k
        · subst hk'; simp
        · have : ¬ infos[i].actions[k] = infos[i].actions[ai] := by
            intro h; exact hk' ((hnd.getElem_inj_iff).mp h).symm
          simp [hk', this]
    · simp only [hij, if_false]
      have hne : ¬ infos[j].label = infos[i].label := by
        intro h
        have : (infos.map (·.label))[j]'(by simpa using hj) = (infos.map (·.label))[i]'(by simpa using hi) := by
          simpa using h
        exact hij ((hw.labelsNodup.getElem_inj_iff).mp this).symm
      simp [hne]

theorem seenOf_set (singles : List (Nat × Nat)) (hn : (singles.map (·.1)).Nodup) (S : Nat → Bool)
    (si : Nat) (hsi : si < singles.length) (b : Bool) :
    (seenOf singles S).set si b = seenOf singles (fun l => if l = singles[si].1 then b else S l) := by
  unfold seenOf
  apply List.ext_getElem
  · simp
  · intro j h1 h2
    have hj : j < singles.length := by simpa using h2
    rw [List.getElem_set]
    simp only [List.getElem_map]
    by_cases hij : si = j
    · subst hij; simp
    · have hne : ¬ singles[j].1 = singles[si].1 := by
        intro h
        have : (singles.map (·.1))[j]'(by simpa using hj) = (singles.map (·.1))[si]'(by simpa using hsi) := by
          simpa using h
        exact hij ((hn.getElem_inj_iff).mp this).symm
      simp [hij, hne]

theorem seenOf_getD (singles : List (Nat × Nat)) (S : Nat → Bool) (si : Nat) (hsi : si < singles.length) :
    (seenOf singles S).getD si false = S singles[si].1 := by
  simp [seenOf, List.getD_eq_getElem?_getD, hsi]

/-! ### the inner loops -/

theorem importActions_spec (infos : List PInfo) (singles : List (Nat × Nat)) (hw : TablesWF infos singles)
    (i : Nat) (hi : i < infos.length) (l : List (Nat × α)) (W : Nat → Nat → α) (d : Strat α) :
    importActions (fun f l => l.findIdx? f) infos[i].actions i l (denseOf infos W) = .ok d ↔
      (∀ x ∈ l, 0 ≤ x.2 ∧ x.1 ∈ infos[i].actions) ∧
      d = denseOf infos (fun lab a => if lab = infos[i].label then ovr l a (W lab a) else W lab a) := by
  induction l generalizing W with
  | nil =>
    simp only [importActions, ovr, ite_self, List.not_mem_nil, false_imp_iff, implies_true, true_and,
      Except.ok.injEq]
    exact eq_comm
  | cons x rest ih =>
    obtain ⟨a, p⟩ := x
    simp only [importActions, probOk, isFinite_exact, Bool.and_true, decide_eq_true_eq,
      List.forall_mem_cons]
    by_cases hp : 0 ≤ p
    · simp only [hp, if_true, true_and]
      cases hf : infos[i].actions.findIdx? (fun x => x == a) with
      | none =>
        have : a ∉ infos[i].actions := by
          have := (findIdx?_key_none id a infos[i].actions).mp hf
          simpa using this
        simp [this]
      | some ai =>
        obtain ⟨hai, hact⟩ := (findIdx?_key_some id a infos[i].actions
          (by simpa using hw.actionsNodup _ (List.getElem_mem hi)) ai).mp hf
        simp only [id] at hact
        have hmem : a ∈ infos[i].actions := hact ▸ List.getElem_mem hai
        simp only [hmem, true_and]
        rw [setWeight_denseOf infos singles hw W i hi ai hai p, ih]
        have : (fun lab b => if lab = infos[i].label then
              ovr rest b (if lab = infos[i].label ∧ b = infos[i].actions[ai] then p else W lab b)
            else if lab = infos[i].label ∧ b = infos[i].actions[ai] then p else W lab b)
            = (fun lab b => if lab = infos[i].label then ovr ((a, p) :: rest) b (W lab b) else W lab b) := by
          funext lab b
          by_cases hl : lab = infos[i].label
          · simp only [hl, true_and, if_true, ovr, hact]
            by_cases hb : b = a
            · simp [hb]
            · have : ¬ a = b := fun h => hb h.symm
              simp [hb, this]
          · simp [hl]
        rw [this]
    · simp [hp]

theorem importSingle_spec (act : Nat) (l : List (Nat × α)) (seen b : Bool) :
    importSingle act l seen = .ok b ↔
      (∀ x ∈ l, x.1 = act ∧ 0 ≤ x.2) ∧ b = (seen || !l.isEmpty) := by
  induction l generalizing seen with
  | nil => simp [importSingle, eq_comm]
  | cons x rest ih =>
    obtain ⟨a, p⟩ := x
    simp only [importSingle, probOk, isFinite_exact, Bool.and_true, decide_eq_true_eq,
      List.forall_mem_cons]
    by_cases ha : a = act
    · by_cases hp : 0 ≤ p
      · simp [ha, hp, ih]
      · simp [ha, hp]
    · simp [ha]


/-! ### the outer loop -/

/-- what the loop demands of one entry -/
def EntryOk (infos : List PInfo) (singles : List (Nat × Nat)) (e : Nat × List (Nat × α)) : Prop :=
  (∃ i ∈ infos, i.label = e.1 ∧ ∀ x ∈ e.2, 0 ≤ x.2 ∧ x.1 ∈ i.actions) ∨
  (e.1 ∉ infos.map (·.label) ∧ ∃ s ∈ singles, s.1 = e.1 ∧ ∀ x ∈ e.2, x.1 = s.2 ∧ 0 ≤ x.2)

theorem importLoop_spec (infos : List PInfo) (singles : List (Nat × Nat)) (hw : TablesWF infos singles)
    (named : Named α) (W : Nat → Nat → α) (S : Nat → Bool) (r : Strat α × List Bool) :
    importLoop (fun f l => l.findIdx? f) (fun f l => l.findIdx? f) (fun f l => l.findIdx? f)
        infos singles named (denseOf infos W) (seenOf singles S) = .ok r ↔
      (∀ e ∈ named, EntryOk infos singles e) ∧
      r = (denseOf infos (fun l a => ovr (named.flatMap (fun e => if e.1 == l then e.2 else [])) a (W l a)),
           seenOf singles (fun l => S l || named.any (fun e => e.1 == l && !e.2.isEmpty))) := by
  induction named generalizing W S with
  | nil =>
    simp only [importLoop, List.not_mem_nil, false_imp_iff, implies_true, true_and, List.flatMap_nil,
      ovr, List.any_nil, Bool.or_false, Except.ok.injEq]
    exact eq_comm
  | cons e rest ih =>
    obtain ⟨l, acts⟩ := e
    simp only [importLoop, List.forall_mem_cons]
    cases hfi : infos.findIdx? (fun x => x.label == l) with
    | some i =>
      obtain ⟨hi, hlab⟩ := (findIdx?_key_some (·.label) l infos hw.labelsNodup i).mp hfi
      have hgetD : infos.getD i default = infos[i] := by simp [List.getD_eq_getElem?_getD, hi]
      have hentry : EntryOk infos singles (l, acts) ↔ ∀ x ∈ acts, 0 ≤ x.2 ∧ x.1 ∈ infos[i].actions := by
        constructor
        · rintro (⟨i', hi', hl', hx⟩ | ⟨hnot, _⟩)
          · have : i' = infos[i] :=
              List.inj_on_of_nodup_map hw.labelsNodup hi' (List.getElem_mem hi) (by rw [hl', hlab])
            exact this ▸ hx
          · exact absurd (List.mem_map.mpr ⟨infos[i], List.getElem_mem hi, hlab⟩) hnot
        · intro hx
          exact Or.inl ⟨infos[i], List.getElem_mem hi, hlab, hx⟩
      simp only [hgetD, hentry]
      cases himp : importActions (fun f l => l.findIdx? f) infos[i].actions i acts (denseOf infos W) with
      | error err =>
        refine ⟨nofun, ?_⟩
        rintro ⟨⟨hx, _⟩, _⟩
        have := (importActions_spec infos singles hw i hi acts W _).mpr ⟨hx, rfl⟩
        rw [himp] at this
        cases this
      | ok d =>
        obtain ⟨hx, rfl⟩ := (importActions_spec infos singles hw i hi acts W d).mp himp
        simp only [ih]
        have h1 : denseOf infos (fun l' a => ovr (rest.flatMap (fun e => if e.1 == l' then e.2 else [])) a
              (if l' = infos[i].label then ovr acts a (W l' a) else W l' a))
            = denseOf infos (fun l' a =>
                ovr (((l, acts) :: rest).flatMap (fun e => if e.1 == l' then e.2 else [])) a (W l' a)) := by
          congr 1
          funext l' a
          rw [List.flatMap_cons, ovr_append]
          by_cases hl : l' = infos[i].label
          · simp [hl, hlab]
          · have : ¬ l = l' := fun h => hl (by rw [← h, hlab])
            simp [hl, this, ovr]
        have h2 : seenOf singles (fun l' => S l' || rest.any (fun e => e.1 == l' && !e.2.isEmpty))
            = seenOf singles (fun l' => S l' || ((l, acts) :: rest).any (fun e => e.1 == l' && !e.2.isEmpty)) := by
          apply seenOf_congr
          intro s hs
          have : (l == s.1) = false := by
            rw [beq_eq_false_iff_ne]
            intro h
            exact hw.disjoint l (List.mem_map.mpr ⟨infos[i], List.getElem_mem hi, hlab⟩)
              (List.mem_map.mpr ⟨s, hs, h.symm⟩)
          simp [this]
        rw [h1, h2, and_iff_right hx]
    | none =>
      have hnot : l ∉ infos.map (·.label) := (findIdx?_key_none (·.label) l infos).mp hfi
      cases hfs : singles.findIdx? (fun x => x.1 == l) with
      | none =>
        have hnots : l ∉ singles.map (·.1) := (findIdx?_key_none (·.1) l singles).mp hfs
        refine ⟨nofun, ?_⟩
        rintro ⟨⟨(⟨i', hi', hl', _⟩ | ⟨_, s, hs, hl', _⟩), _⟩, _⟩
        · exact absurd (List.mem_map.mpr ⟨i', hi', hl'⟩) hnot
        · exact absurd (List.mem_map.mpr ⟨s, hs, hl'⟩) hnots
      | some si =>
        obtain ⟨hsi, hlab⟩ := (findIdx?_key_some (·.1) l singles hw.singlesNodup si).mp hfs
        have hgetD : singles.getD si default = singles[si] := by simp [List.getD_eq_getElem?_getD, hsi]
        have hentry : EntryOk infos singles (l, acts) ↔ ∀ x ∈ acts, x.1 = singles[si].2 ∧ 0 ≤ x.2 := by
          constructor
          · rintro (⟨i', hi', hl', _⟩ | ⟨_, s, hs, hl', hx⟩)
            · exact absurd (List.mem_map.mpr ⟨i', hi', hl'⟩) hnot
            · have : s = singles[si] :=
                List.inj_on_of_nodup_map hw.singlesNodup hs (List.getElem_mem hsi) (by rw [hl', hlab])
              exact this ▸ hx
          · intro hx
            exact Or.inr ⟨hnot, singles[si], List.getElem_mem hsi, hlab, hx⟩
        simp only [hgetD, hentry, seenOf_getD singles S si hsi]
        cases himp : importSingle singles[si].2 acts (S singles[si].1) with
        | error err =>
          refine ⟨nofun, ?_⟩
          rintro ⟨⟨hx, _⟩, _⟩
          have := (importSingle_spec singles[si].2 acts (S singles[si].1) _).mpr ⟨hx, rfl⟩
          rw [himp] at this
          cases this
        | ok b =>
          obtain ⟨hx, rfl⟩ := (importSingle_spec singles[si].2 acts (S singles[si].1) b).mp himp
          simp only [seenOf_set singles hw.singlesNodup S si hsi, ih]
          have h1 : denseOf infos (fun l' a => ovr (rest.flatMap (fun e => if e.1 == l' then e.2 else [])) a (W l' a))
              = denseOf infos (fun l' a =>
                  ovr (((l, acts) :: rest).flatMap (fun e => if e.1 == l' then e.2 else [])) a (W l' a)) := by
            apply denseOf_congr
            intro i' hi' a _
            have : ¬ l = i'.label := fun h => hnot (List.mem_map.mpr ⟨i', hi', h.symm⟩)
            simp [List.flatMap_cons, this]
          have h2 : seenOf singles (fun l' => (if l' = singles[si].1 then (S singles[si].1 || !acts.isEmpty) else S l')
                || rest.any (fun e => e.1 == l' && !e.2.isEmpty))
              = seenOf singles (fun l' => S l' || ((l, acts) :: rest).any (fun e => e.1 == l' && !e.2.isEmpty)) := by
            congr 1
            funext l'
            by_cases hl : l' = singles[si].1
            · simp [hl, hlab, Bool.or_assoc]
            · have : (l == l') = false := by
                rw [beq_eq_false_iff_ne]
                exact fun h => hl (by rw [← h, hlab])
              simp [hl, this]
          rw [h1, h2, and_iff_right hx]

/-! ### normalisation -/

theorem importFinish_spec (dense σ : Strat α) :
    importFinish dense = .ok σ ↔
      (∀ v ∈ dense, v.sum ≠ 0) ∧ σ = dense.map (fun v => v.map (· / v.sum)) := by
  induction dense generalizing σ with
  | nil => simp [importFinish, eq_comm]
  | cons v vs ih =>
    simp only [importFinish, lsum_eq_sum, beq_iff_eq, List.forall_mem_cons, List.map_cons]
    by_cases hv : v.sum = 0
    · simp [hv]
    · simp only [hv, if_false, ne_eq, not_false_eq_true, true_and]
      cases hf : importFinish vs with
      | error err =>
        refine ⟨nofun, ?_⟩
        rintro ⟨h, _⟩
        have := (ih _).mpr ⟨h, rfl⟩
        rw [hf] at this
        cases this
      | ok r =>
        obtain ⟨h, rfl⟩ := (ih r).mp hf
        constructor
        · intro h'
          cases h'
          exact ⟨h, rfl⟩
        · rintro ⟨_, rfl⟩
          rfl

/-! ### the whole import -/

theorem entriesOk_iff (infos : List PInfo) (singles : List (Nat × Nat)) (hw : TablesWF infos singles)
    (named : Named α) :
    (∀ e ∈ named, EntryOk infos singles e) ↔
      (∀ e ∈ named, e.1 ∈ infos.map (·.label) ∨ e.1 ∈ singles.map (·.1)) ∧
      (∀ e ∈ named, ∀ x ∈ e.2,
        (∀ i ∈ infos, i.label = e.1 → x.1 ∈ i.actions) ∧ (∀ s ∈ singles, s.1 = e.1 → x.1 = s.2)) ∧
      (∀ e ∈ named, ∀ x ∈ e.2, 0 ≤ x.2) := by
  constructor
  · intro h
    refine ⟨?_, ?_, ?_⟩
    · intro e he
      rcases h e he with ⟨i, hi, hl, _⟩ | ⟨_, s, hs, hl, _⟩
      · exact Or.inl (List.mem_map.mpr ⟨i, hi, hl⟩)
      · exact Or.inr (List.mem_map.mpr ⟨s, hs, hl⟩)
    · intro e he x hx
      rcases h e he with ⟨i, hi, hl, hall⟩ | ⟨hnot, s, hs, hl, hall⟩
      · refine ⟨?_, ?_⟩
        · intro i' hi' hl'
          have : i' = i := List.inj_on_of_nodup_map hw.labelsNodup hi' hi (by rw [hl', hl])
          exact this ▸ (hall x hx).2
        · intro s hs hl'
          exact absurd (List.mem_map.mpr ⟨s, hs, hl'⟩)
            (hw.disjoint e.1 (List.mem_map.mpr ⟨i, hi, hl⟩))
      · refine ⟨?_, ?_⟩
        · intro i' hi' hl'
          exact absurd (List.mem_map.mpr ⟨i', hi', hl'⟩) hnot
        · intro s' hs' hl'
          have : s' = s := List.inj_on_of_nodup_map hw.singlesNodup hs' hs (by rw [hl', hl])
          exact this ▸ (hall x hx).1
    · intro e he x hx
      rcases h e he with ⟨i, hi, hl, hall⟩ | ⟨hnot, s, hs, hl, hall⟩
      · exact (hall x hx).1
      · exact (hall x hx).2
  · rintro ⟨hk, hl, hn⟩ e he
    rcases hk e he with h | h
    · obtain ⟨i, hi, hil⟩ := List.mem_map.mp h
      exact Or.inl ⟨i, hi, hil, fun x hx => ⟨hn e he x hx, (hl e he x hx).1 i hi hil⟩⟩
    · obtain ⟨s, hs, hsl⟩ := List.mem_map.mp h
      refine Or.inr ⟨?_, s, hs, hsl, fun x hx => ⟨(hl e he x hx).2 s hs hsl, hn e he x hx⟩⟩
      intro h'
      exact hw.disjoint e.1 h' h

/-- the scan-based import in closed form -/
theorem stratIntoBoxSlow_spec (infos : List PInfo) (singles : List (Nat × Nat)) (named : Named α)
    (hw : TablesWF infos singles) (σ : Strat α) :
    stratIntoBoxSlow infos singles named = .ok σ ↔
      (∀ e ∈ named, EntryOk infos singles e) ∧
      (∀ i ∈ infos, (i.actions.map (lastWeight named i.label)).sum ≠ 0) ∧
      (∀ s ∈ singles, ∃ e ∈ named, e.1 = s.1 ∧ e.2 ≠ []) ∧
      σ = infos.map (fun i =>
        (i.actions.map (lastWeight named i.label)).map
          (· / (i.actions.map (lastWeight named i.label)).sum)) := by
  have hd0 : infos.map (fun i => List.replicate i.actions.length (0 : α)) = denseOf infos (fun _ _ => 0) := by
    unfold denseOf
    simp only [List.map_const']
  have hs0 : List.replicate singles.length false = seenOf singles (fun _ => false) := by
    unfold seenOf
    simp only [List.map_const']
  have hlw : (fun l a => ovr (named.flatMap (fun e => if e.1 == l then e.2 else [])) a (0 : α))
      = lastWeight named := by
    funext l a
    exact (lastWeight_eq_ovr named l a).symm
  unfold stratIntoBoxSlow importWith
  simp only [hd0, hs0]
  cases hloop : importLoop (fun f l => l.findIdx? f) (fun f l => l.findIdx? f) (fun f l => l.findIdx? f)
      infos singles named (denseOf infos (fun _ _ => (0 : α))) (seenOf singles (fun _ => false)) with
  | error err =>
    refine ⟨nofun, ?_⟩
    rintro ⟨h, _⟩
    have := (importLoop_spec infos singles hw named (fun _ _ => 0) (fun _ => false) _).mpr ⟨h, rfl⟩
    rw [hloop] at this
    cases this
  | ok r =>
    obtain ⟨hent, rfl⟩ := (importLoop_spec infos singles hw named _ _ r).mp hloop
    simp only [hlw, Bool.false_or]
    have hseen : (seenOf singles (fun l => named.any (fun e => e.1 == l && !e.2.isEmpty))).all id = true ↔
        ∀ s ∈ singles, ∃ e ∈ named, e.1 = s.1 ∧ e.2 ≠ [] := by
      simp only [seenOf, List.all_eq_true, List.mem_map, id, forall_exists_index, and_imp,
        forall_apply_eq_imp_iff₂, List.any_eq_true, Bool.and_eq_true, beq_iff_eq, Bool.not_eq_true',
        List.isEmpty_eq_false_iff, ne_eq]
    have hsum : (∀ v ∈ denseOf infos (lastWeight named), v.sum ≠ 0) ↔
        ∀ i ∈ infos, (i.actions.map (lastWeight named i.label)).sum ≠ 0 := by
      simp only [denseOf, List.mem_map, forall_exists_index, and_imp, forall_apply_eq_imp_iff₂]
    have hmap : (denseOf infos (lastWeight named)).map (fun v => v.map (· / v.sum))
        = infos.map (fun i => (i.actions.map (lastWeight named i.label)).map
            (· / (i.actions.map (lastWeight named i.label)).sum)) := by
      simp only [denseOf, List.map_map, Function.comp_def]
    cases hfin : importFinish (denseOf infos (lastWeight named)) with
    | error err =>
      refine ⟨nofun, ?_⟩
      rintro ⟨_, h, _, _⟩
      have := (importFinish_spec _ _).mpr ⟨hsum.mpr h, rfl⟩
      rw [hfin] at this
      cases this
    | ok r =>
      obtain ⟨h, rfl⟩ := (importFinish_spec _ r).mp hfin
      rw [hmap]
      by_cases hall : (seenOf singles (fun l => named.any (fun e => e.1 == l && !e.2.isEmpty))).all id = true
      · simp only [hall, if_true]
        constructor
        · intro h'
          cases h'
          exact ⟨hent, hsum.mp h, hseen.mp hall, rfl⟩
        · rintro ⟨_, _, _, rfl⟩
          rfl
      · simp only [hall]
        refine ⟨nofun, ?_⟩
        rintro ⟨_, _, h', _⟩
        exact absurd (hseen.mpr h') hall

theorem lastWeight_nonneg (named : Named α) (hn : ∀ e ∈ named, ∀ x ∈ e.2, 0 ≤ x.2) (l a : Nat) :
    0 ≤ lastWeight named l a := by
  rw [lastWeight_eq_ovr]
  apply ovr_nonneg _ _ _ _ le_rfl
  intro x hx
  obtain ⟨e, he, hxe⟩ := List.mem_flatMap.mp hx
  split at hxe
  · exact hn e he x hxe
  · simp at hxe

/-- **import succeeds exactly when the rules hold** -/
theorem import_ok_iff (infos : List PInfo) (singles : List (Nat × Nat)) (named : Named α)
    (hw : TablesWF infos singles) :
    (∃ σ, stratIntoBoxSlow infos singles named = .ok σ) ↔ ImportOk infos singles named := by
  simp only [stratIntoBoxSlow_spec infos singles named hw, entriesOk_iff infos singles hw named]
  constructor
  · rintro ⟨σ, ⟨hk, hl, hn⟩, hsum, hcov, _⟩
    refine ⟨hk, hl, hn, ?_, hcov⟩
    intro i hi
    apply lt_of_le_of_ne _ (hsum i hi).symm
    apply List.sum_nonneg
    intro x hx
    obtain ⟨a, _, rfl⟩ := List.mem_map.mp hx
    exact lastWeight_nonneg named hn _ _
  · intro h
    exact ⟨_, ⟨h.knownInfosets, h.legalActions, h.nonneg⟩, fun i hi => (h.positive i hi).ne', h.covered, rfl⟩

/-- **the result gives each action its weight divided by the infoset total** (unspecified
actions zero, a repeated entry overriding the earlier one) -/
theorem import_result (infos : List PInfo) (singles : List (Nat × Nat)) (named : Named α)
    (hw : TablesWF infos singles) (σ : Strat α) (h : stratIntoBoxSlow infos singles named = .ok σ) :
    σ = infos.map (fun i =>
      (i.actions.map (lastWeight named i.label)).map
        (· / (i.actions.map (lastWeight named i.label)).sum)) :=
  ((stratIntoBoxSlow_spec infos singles named hw σ).mp h).2.2.2

theorem import_sum_map_div (v : List α) (t : α) : (v.map (· / t)).sum = v.sum / t := by
  induction v with
  | nil => simp
  | cons x xs ih => simp only [List.map_cons, List.sum_cons, ih, add_div]

/-- the result of a successful import is a valid strategy that fits the table -/
theorem import_valid (infos : List PInfo) (singles : List (Nat × Nat)) (named : Named α)
    (hw : TablesWF infos singles) (σ : Strat α) (h : stratIntoBoxSlow infos singles named = .ok σ) :
    IsStrat σ ∧ Fits infos σ := by
  have hok : ImportOk infos singles named := (import_ok_iff infos singles named hw).mp ⟨σ, h⟩
  have hσ := import_result infos singles named hw σ h
  subst hσ
  constructor
  · intro v hv
    obtain ⟨i, hi, rfl⟩ := List.mem_map.mp hv
    have hpos := hok.positive i hi
    constructor
    · intro p hp
      obtain ⟨w, hwm, rfl⟩ := List.mem_map.mp hp
      obtain ⟨a, _, rfl⟩ := List.mem_map.mp hwm
      exact div_nonneg (lastWeight_nonneg named hok.nonneg _ _) hpos.le
    · rw [import_sum_map_div, div_self hpos.ne']
  · unfold Fits
    simp only [List.map_map, Function.comp_def, List.length_map]

/-! ## non-vacuity -/

def exInfos14 : List PInfo := [⟨7, [0, 1, 2], none⟩]
def exSingles14 : List (Nat × Nat) := [(3, 8)]

/-- unnormalised weights, a repeated entry overriding the earlier one, an unspecified action -/
example : stratIntoBoxSlow exInfos14 exSingles14 ([(7, [(0, 5), (1, 1)]), (3, [(8, 1)]), (7, [(0, 1)])] : Named ℚ)
    = .ok [[1/2, 1/2, 0]] := by
  decide +kernel
example : stratIntoBox exInfos14 exSingles14 ([(7, [(0, 5), (1, 1)]), (3, [(8, 1)]), (7, [(0, 1)])] : Named ℚ)
    = .ok [[1/2, 1/2, 0]] := by
  decide +kernel
/-- a violated rule -/
example : stratIntoBoxSlow exInfos14 exSingles14 ([(7, [(0, 5), (9, 1)])] : Named ℚ)
    = .error .invalidAction := by
  decide +kernel

end Cfr
