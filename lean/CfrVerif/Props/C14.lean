import CfrVerif.Proofs.Tables
/-!
# C14 — import validates, normalises, and both routes agree

`stratIntoBox` looks infosets and actions up as a `HashMap` built by successive
`insert`s does (the *last* inserted entry with that key), `stratIntoBoxSlow` by
a linear scan (the *first* match).  `importWith` is the code the two routes
share, parameterised by the three look-up functions.
-/
set_option linter.unusedSectionVars false
namespace Cfr
variable {α : Type} [Field α] [LinearOrder α] [IsStrictOrderedRing α]

/-- on a list in which at most one element satisfies `f`, "last match" and "first match" agree -/
theorem findLastIdx_eq_findIdx? {β : Type} (f : β → Bool) (l : List β)
    (huniq : ∀ i j (hi : i < l.length) (hj : j < l.length), f l[i] = true → f l[j] = true → i = j) :
    findLastIdx f l = l.findIdx? f := by
  sorry

/-- **the hashing and the non-hashing import give identical outcomes on every input**: every
candidate (any order, duplicates, foreign infosets, illegal actions, any weights), `Ok` and `Err`
alike, for every well-formed infoset table -/
theorem stratIntoBox_eq_slow (infos : List PInfo) (singles : List (Nat × Nat)) (named : Named α)
    (hw : TablesWF infos singles) :
    stratIntoBox infos singles named = stratIntoBoxSlow infos singles named := by
  sorry

/-- both players -/
theorem fromNamed_eq_fromNamedEq (g : Game α) (one two : Named α)
    (h1 : TablesWF g.p1 g.s1) (h2 : TablesWF g.p2 g.s2) :
    fromNamed g one two = fromNamedEq g one two := by
  sorry

/-! ## the documented semantics (stated for the scan-based route; the other follows) -/

/-- the weight a candidate gives to action `a` of infoset label `l`: the *last* well-formed
entry wins, unspecified means `0` -/
def lastWeight (named : Named α) (l a : Nat) : α :=
  match (named.flatMap (fun e => if e.1 == l then e.2 else [])).reverse.find? (fun x => x.1 == a) with
  | some x => x.2
  | none => 0

/-- the rules a candidate must satisfy -/
structure ImportOk (infos : List PInfo) (singles : List (Nat × Nat)) (named : Named α) : Prop where
  /-- only existing infosets are mentioned -/
  knownInfosets : ∀ e ∈ named, e.1 ∈ infos.map (·.label) ∨ e.1 ∈ singles.map (·.1)
  /-- only legal actions are mentioned -/
  legalActions : ∀ e ∈ named, ∀ x ∈ e.2,
    (∀ i ∈ infos, i.label = e.1 → x.1 ∈ i.actions) ∧ (∀ s ∈ singles, s.1 = e.1 → x.1 = s.2)
  /-- all weights are non-negative (finite is automatic in exact arithmetic) -/
  nonneg : ∀ e ∈ named, ∀ x ∈ e.2, 0 ≤ x.2
  /-- every multi-action infoset receives a positive total -/
  positive : ∀ i ∈ infos, 0 < (i.actions.map (lastWeight named i.label)).sum
  /-- every single-action infoset is covered -/
  covered : ∀ s ∈ singles, ∃ e ∈ named, e.1 = s.1 ∧ e.2 ≠ []

/-- **import succeeds exactly when the rules hold** -/
theorem import_ok_iff (infos : List PInfo) (singles : List (Nat × Nat)) (named : Named α)
    (hw : TablesWF infos singles) :
    (∃ σ, stratIntoBoxSlow infos singles named = .ok σ) ↔ ImportOk infos singles named := by
  sorry

/-- **the result gives each action its weight divided by the infoset total** (unspecified
actions zero, a repeated entry overriding the earlier one) -/
theorem import_result (infos : List PInfo) (singles : List (Nat × Nat)) (named : Named α)
    (hw : TablesWF infos singles) (σ : Strat α) (h : stratIntoBoxSlow infos singles named = .ok σ) :
    σ = infos.map (fun i =>
      (i.actions.map (lastWeight named i.label)).map
        (· / (i.actions.map (lastWeight named i.label)).sum)) := by
  sorry

/-- the result of a successful import is a valid strategy that fits the table -/
theorem import_valid (infos : List PInfo) (singles : List (Nat × Nat)) (named : Named α)
    (hw : TablesWF infos singles) (σ : Strat α) (h : stratIntoBoxSlow infos singles named = .ok σ) :
    IsStrat σ ∧ Fits infos σ := by
  sorry

/-! ## non-vacuity -/

def exInfos14 : List PInfo := [⟨7, [0, 1, 2], none⟩]
def exSingles14 : List (Nat × Nat) := [(3, 8)]

/-- unnormalised weights, a repeated entry overriding the earlier one, an unspecified action -/
example : stratIntoBoxSlow exInfos14 exSingles14 ([(7, [(0, 5), (1, 1)]), (3, [(8, 1)]), (7, [(0, 1)])] : Named ℚ)
    = .ok [[1/2, 1/2, 0]] := by
  decide +kernel
example : stratIntoBox exInfos14 exSingles14 ([(7, [(0, 5), (1, 1)]), (3, [(8, 1)]), (7, [(0, 1)])] : Named ℚ)
    = .ok [[1/2, 1/2, 0]] := by
  decide +kernel
/-- a violated rule -/
example : stratIntoBoxSlow exInfos14 exSingles14 ([(7, [(0, 5), (9, 1)])] : Named ℚ)
    = .error .invalidAction := by
  decide +kernel

end Cfr
