import CfrVerif.Model.Parallel
/-!
# `Game::solve` (src/lib.rs): thread count, task target, dispatch

The operating system enters as an environment: the word size, what
`thread::available_parallelism()` answers and whether a pool of `n` threads can be built.
-/
namespace Cfr

/-- `SolveMethod` -/
inductive Method where
  | full | sampled | external
  deriving Repr, BEq, DecidableEq, Inhabited

/-- `SolveError` -/
inductive SolveError where
  | threadOverflow | threadSpawn
  deriving Repr, BEq, DecidableEq, Inhabited

structure Env where
  /-- `usize::MAX` -/
  usizeMax : Nat
  /-- `thread::available_parallelism().ok()` (non-zero when present) -/
  available : Option Nat
  /-- `ThreadPoolBuilder::new().num_threads(n).build()` succeeds -/
  spawnOk : Nat → Bool

section
variable {α : Type} [Zero α] [One α] [Add α] [Sub α] [Mul α] [Div α] [Neg α]
  [LT α] [DecidableLT α] [BEq α] [NatCast α] [FloatLike α] [Transc α]

/-- `NonZeroUsize::new(num_threads).or_else(available_parallelism).unwrap_or(1)` -/
def Env.threads (env : Env) (numThreads : Nat) : Nat :=
  if numThreads ≠ 0 then numThreads else
  match env.available with
  | some n => if n ≠ 0 then n else 1
  | none => 1

/-- `Game::solve` : one thread runs the single-threaded solvers; otherwise the task target is
`3 * threads` (`checked_mul`), the pool is built, and the multi-threaded solvers run under some
schedule.  `params = none` means `RegretParams::default()`. -/
def gameSolve (env : Env) (sched : Sched α) (g : Game α) (m : Method) (maxIter : Nat)
    (thr : Option (Ext α)) (numThreads : Nat) (params : Option (RegretParams α)) (draw : DrawFn α) :
    Except SolveError (SolveOut α) :=
  let threads := env.threads numThreads
  let p := params.getD RegretParams.default
  if threads = 1 then
    match m with
    | .full => .ok (solveVanillaSingle g false p draw maxIter thr)
    | .sampled => .ok (solveVanillaSingle g true p draw maxIter thr)
    | .external => .ok (solveExternalSingle g p draw maxIter thr)
  else if env.usizeMax < 3 * threads then .error .threadOverflow
  else if !env.spawnOk threads then .error .threadSpawn
  else
    let target := 3 * threads
    match m with
    | .full => .ok (solveVanillaMultiS sched g false p draw maxIter thr target)
    | .sampled => .ok (solveVanillaMultiS sched g true p draw maxIter thr target)
    | .external => .ok (solveExternalMultiS sched g p draw maxIter thr target)

end
end Cfr
