import CfrVerif.Model.Vanilla
import CfrVerif.Model.External
/-!
# The multi-threaded solvers (`thread_threshold`, tasks, cached traversal)

A node's identity (`ByAddress(&Node)` in the crate) is its path from the root.
An iteration (i) grows a breadth-first frontier until `queue.len() + work.len()`
reaches the task target, (ii) runs one full traversal per drained `queue` entry
(in parallel in the crate; any interleaving of their atomic accumulations),
recording the returned payoff per node, (iii) traverses from the root again,
stopping at recorded nodes.  Both work vectors and the payoff cache are empty
when the next iteration starts.
-/
namespace Cfr

abbrev Path := List Nat

section
variable {α : Type} [Zero α] [One α] [Add α] [Sub α] [Mul α] [Div α] [Neg α]
  [LT α] [DecidableLT α] [BEq α] [NatCast α] [FloatLike α] [Transc α]

def cacheGet (cache : List (Path × α)) (p : Path) : Option α :=
  (cache.find? (fun e => e.1 == p)).map (·.2)

/-! ## vanilla -/

/-- an entry of `queue` / `work` : `(node, p_chance, [p_one, p_two])` -/
structure VItem (α : Type) where
  path : Path
  node : Node α
  pc : α
  p1 : α
  p2 : α

def childItems (one : Bool) (path : Path) (pc p1 p2 : α) : List α → List (Node α) → Nat → List (VItem α)
  | s :: σ, k :: ks, a =>
    (if one then ⟨path ++ [a], k, pc, p1 * s, p2⟩ else ⟨path ++ [a], k, pc, p1, p2 * s⟩)
      :: childItems one path pc p1 p2 σ ks (a + 1)
  | _, _, _ => []

def chanceItems (path : Path) (pc p1 p2 : α) : List α → List (Node α) → Nat → List (VItem α)
  | p :: ps, k :: ks, a => ⟨path ++ [a], k, pc * p, p1, p2⟩ :: chanceItems path pc p1 p2 ps ks (a + 1)
  | _, _, _ => []

/-- the `while` loop of `thread_threshold` (vanilla.rs); `fuel` bounds the number of turns -/
def vThreshold (c : VCtx α) (target : Nat) :
    Nat → List (VItem α) → List (VItem α) → DrawSt α → List (VItem α) × List (VItem α) × DrawSt α
  | 0, queue, work, d => (queue, work, d)
  | fuel + 1, queue, work, d =>
    if !(queue.isEmpty && work.isEmpty) && queue.length + work.length < target then
      match queue.getLast? with
      | none => vThreshold c target fuel work queue d
      | some it =>
        let queue := queue.dropLast
        match it.node with
        | .term _ => vThreshold c target fuel queue work d
        | .chance i ks =>
          if c.sampled then
            let (k, d) := sampleChance c.draw c.pass (c.ch.getD i []) i d
            match ks[k]? with
            | some n => vThreshold c target fuel queue (work ++ [⟨it.path ++ [k], n, it.pc * 1, it.p1, it.p2⟩]) d
            | none => vThreshold c target fuel queue work d
          else
            vThreshold c target fuel queue
              (work ++ chanceItems it.path it.pc it.p1 it.p2 (c.ch.getD i []) ks 0) d
        | .player one i ks =>
          vThreshold c target fuel queue
            (work ++ childItems one it.path it.pc it.p1 it.p2 (c.strat one i) ks 0) d
    else (queue, work, d)

mutual
/-- `recurse_multi` with a payoff cache: stops at cached nodes -/
def vrecC (c : VCtx α) (cache : List (Path × α)) :
    Node α → Path → α → α → α → DrawSt α → α × List (Eff α) × DrawSt α
  | n, path, pc, p1, p2, d =>
    match cacheGet cache path with
    | some pay => (pay, [], d)
    | none =>
      match n with
      | .term p => (p, [], d)
      | .chance i ks =>
        if c.sampled then
          let (k, d) := sampleChance c.draw c.pass (c.ch.getD i []) i d
          vrecCNth c cache ks k (path ++ [k]) pc p1 p2 d
        else vrecCChance c cache (c.ch.getD i []) ks path 0 pc p1 p2 d 0
      | .player one i ks =>
        let σ := c.strat one i
        let own := if one then p1 else p2
        let mult := if one then pc * p2 else -p1 * pc
        let (eo, ex, es, d) := vrecCActs c cache one i mult σ ks path pc p1 p2 d 0 0 0
        (eo, stratEffs one i own σ 0 ++ es ++ subEffs one i ex σ.length, d)
def vrecCNth (c : VCtx α) (cache : List (Path × α)) :
    List (Node α) → Nat → Path → α → α → α → DrawSt α → α × List (Eff α) × DrawSt α
  | [], _, _, _, _, _, d => (0, [], d)
  | k :: _, 0, path, pc, p1, p2, d => vrecC c cache k path pc p1 p2 d
  | _ :: ks, n + 1, path, pc, p1, p2, d => vrecCNth c cache ks n path pc p1 p2 d
def vrecCChance (c : VCtx α) (cache : List (Path × α)) :
    List α → List (Node α) → Path → Nat → α → α → α → DrawSt α → α → α × List (Eff α) × DrawSt α
  | p :: ps, k :: ks, path, a, pc, p1, p2, d, acc =>
    let (v, e, d) := vrecC c cache k (path ++ [a]) (pc * p) p1 p2 d
    let (v', e', d') := vrecCChance c cache ps ks path (a + 1) pc p1 p2 d (acc + p * v)
    (v', e ++ e', d')
  | _, _, _, _, _, _, _, d, acc => (acc, [], d)
def vrecCActs (c : VCtx α) (cache : List (Path × α)) (one : Bool) (i : Nat) (mult : α) :
    List α → List (Node α) → Path → α → α → α → DrawSt α → Nat → α → α →
    α × α × List (Eff α) × DrawSt α
  | s :: σ, k :: ks, path, pc, p1, p2, d, a, eo, ex =>
    let (v, e, d) :=
      if one then vrecC c cache k (path ++ [a]) pc (p1 * s) p2 d
      else vrecC c cache k (path ++ [a]) pc p1 (p2 * s) d
    let util := v * mult
    let (eo', ex', e', d') :=
      vrecCActs c cache one i mult σ ks path pc p1 p2 d (a + 1) (eo + s * v) (ex + util * s)
    (eo', ex', e ++ ⟨one, i, .regret, a, util⟩ :: e', d')
  | _, _, _, _, _, _, d, _, eo, ex => (eo, ex, [], d)
end

/-- run the drained tasks one after the other (one of the possible interleavings) -/
def vRunTasks (c : VCtx α) : List (VItem α) → DrawSt α → List (Path × α) × List (Eff α) × DrawSt α
  | [], d => ([], [], d)
  | it :: rest, d =>
    let (v, e, d) := vrec c it.node it.pc it.p1 it.p2 d
    let (cache, e', d') := vRunTasks c rest d
    ((it.path, v) :: cache, e ++ e', d')

/-- the effect of one multi-threaded iteration's traversal phase -/
def vanillaMultiEffects (g : Game α) (c : VCtx α) (target : Nat) (log : List (DrawRec α)) :
    List (Eff α) × DrawSt α :=
  let fuel := 2 * g.root.size + 2
  let (queue, _, d) := vThreshold c target fuel [⟨[], g.root, 1, 1, 1⟩] [] { log := log }
  let (cache, e1, d) := vRunTasks c queue d
  let (_, e2, d) := vrecC c cache g.root [] 1 1 1 d
  (e1 ++ e2, d)

/-- A *schedule*: the order in which the atomic accumulations of one iteration (pass) reach
memory.  The workers of the crate perform exactly the accumulations of the tasks and of the cached
traversal (`fetch_add` per float, a mutex around each `cum_strat` update), interleaved in a way
the thread scheduler chooses: any rearrangement of the list, possibly a different one in every
iteration. -/
abbrev Sched (α : Type) := Nat → List (Eff α) → List (Eff α)

/-- the schedule that runs the tasks one after the other and the cached traversal last -/
def Sched.seq : Sched α := fun _ es => es

/-- one multi-threaded iteration under a schedule -/
def vanillaMultiIterS (sched : Sched α) (g : Game α) (sampled : Bool) (p : RegretParams α)
    (draw : DrawFn α) (target : Nat) (it : Nat) (s : SolveSt α) (log : List (DrawRec α)) :
    SolveSt α × α × α × List (DrawRec α) :=
  let c : VCtx α := ⟨g.chance, sampled, s.strat, draw, it - 1⟩
  let (es, d) := vanillaMultiEffects g c target log
  let s := s.applyEffs (sched it es)
  let (one, r1) := advanceAll p it it s.one 0
  let (two, r2) := advanceAll p it it s.two 0
  (⟨one, two⟩, r1, r2, d.log)

def vanillaMultiIter (g : Game α) (sampled : Bool) (p : RegretParams α) (draw : DrawFn α)
    (target : Nat) : IterFn α :=
  vanillaMultiIterS Sched.seq g sampled p draw target

/-- `solve_full_multi` / `solve_sampled_multi` with an explicit task target, under a schedule -/
def solveVanillaMultiS (sched : Sched α) (g : Game α) (sampled : Bool) (p : RegretParams α)
    (draw : DrawFn α) (maxIter : Nat) (thr : Option (Ext α)) (target : Nat) : SolveOut α :=
  solveWith g (vanillaMultiIterS sched g sampled p draw target) maxIter thr

/-- `solve_full_multi` / `solve_sampled_multi` with an explicit task target -/
def solveVanillaMulti (g : Game α) (sampled : Bool) (p : RegretParams α) (draw : DrawFn α)
    (maxIter : Nat) (thr : Option (Ext α)) (target : Nat) : SolveOut α :=
  solveWith g (vanillaMultiIter g sampled p draw target) maxIter thr

/-! ## external sampling -/

structure EItem (α : Type) where
  path : Path
  node : Node α

def eChildren (path : Path) : List (Node α) → Nat → List (EItem α)
  | [], _ => []
  | k :: ks, a => ⟨path ++ [a], k⟩ :: eChildren path ks (a + 1)

/-- `next_nodes` : follow the sampled path to the updating player's next node; `fuel` = depth -/
def eNextNodes (c : ECtx α) : Nat → Node α → Path → DrawSt α → Option (List (EItem α)) × DrawSt α
  | 0, _, _, d => (none, d)
  | fuel + 1, n, path, d =>
    match n with
    | .term _ => (none, d)
    | .chance i ks =>
      let (k, d) := sampleChance c.draw c.chancePass (c.ch.getD i []) i d
      match ks[k]? with
      | some n' => eNextNodes c fuel n' (path ++ [k]) d
      | none => (none, d)
    | .player one i ks =>
      if one == c.first then (some (eChildren path ks 0), d)
      else
        let (k, d) := samplePlayer c.draw (if one then 1 else 2) c.playerPass (c.strat one i) i d
        match ks[k]? with
        | some n' => eNextNodes c fuel n' (path ++ [k]) d
        | none => (none, d)

/-- the `while` loop of `thread_threshold` (external.rs) -/
def eThreshold (c : ECtx α) (target depth : Nat) :
    Nat → List (EItem α) → List (EItem α) → DrawSt α → List (EItem α) × List (EItem α) × DrawSt α
  | 0, queue, work, d => (queue, work, d)
  | fuel + 1, queue, work, d =>
    if !(queue.isEmpty && work.isEmpty) && queue.length + work.length < target then
      match queue.getLast? with
      | none => eThreshold c target depth fuel work queue d
      | some it =>
        let queue := queue.dropLast
        match eNextNodes c depth it.node it.path d with
        | (some nexts, d) => eThreshold c target depth fuel queue (work ++ nexts) d
        | (none, d) => eThreshold c target depth fuel queue work d
    else (queue, work, d)

mutual
/-- `recurse_regret` with a payoff cache -/
def erecC (c : ECtx α) (cache : List (Path × α)) :
    Node α → Path → DrawSt α → α × List (Eff α) × DrawSt α
  | n, path, d =>
    match cacheGet cache path with
    | some pay => (pay, [], d)
    | none =>
      match n with
      | .term p => (if c.first then p else -p, [], d)
      | .chance i ks =>
        let (k, d) := sampleChance c.draw c.chancePass (c.ch.getD i []) i d
        erecCNth c cache ks k (path ++ [k]) d
      | .player one i ks =>
        let σ := c.strat one i
        if one == c.first then
          let (ex, es, d) := erecCActs c cache one i σ ks path d 0 0
          (ex, es ++ subEffsE one i ex σ.length, d)
        else
          let (k, d) := samplePlayer c.draw (if one then 1 else 2) c.playerPass σ i d
          let (v, es, d) := erecCNth c cache ks k (path ++ [k]) d
          (v, extStratEffs one i σ 0 ++ es, d)
def erecCNth (c : ECtx α) (cache : List (Path × α)) :
    List (Node α) → Nat → Path → DrawSt α → α × List (Eff α) × DrawSt α
  | [], _, _, d => (0, [], d)
  | k :: _, 0, path, d => erecC c cache k path d
  | _ :: ks, n + 1, path, d => erecCNth c cache ks n path d
def erecCActs (c : ECtx α) (cache : List (Path × α)) (one : Bool) (i : Nat) :
    List α → List (Node α) → Path → DrawSt α → Nat → α → α × List (Eff α) × DrawSt α
  | s :: σ, k :: ks, path, d, a, ex =>
    let (util, e, d) := erecC c cache k (path ++ [a]) d
    let (ex', e', d') := erecCActs c cache one i σ ks path d (a + 1) (ex + s * util)
    (ex', e ++ ⟨one, i, .regret, a, util⟩ :: e', d')
  | _, _, _, d, _, ex => (ex, [], d)
end

def eRunTasks (c : ECtx α) : List (EItem α) → DrawSt α → List (Path × α) × List (Eff α) × DrawSt α
  | [], d => ([], [], d)
  | it :: rest, d =>
    let (v, e, d) := erec c it.node d
    let (cache, e', d') := eRunTasks c rest d
    ((it.path, v) :: cache, e ++ e', d')

def externalMultiEffects (g : Game α) (c : ECtx α) (target : Nat) (log : List (DrawRec α)) :
    List (Eff α) × DrawSt α :=
  let size := g.root.size
  let (queue, _, d) := eThreshold c target size (2 * size + 2) [⟨[], g.root⟩] [] { log := log }
  let (cache, e1, d) := eRunTasks c queue d
  let (_, e2, d) := erecC c cache g.root [] d
  (e1 ++ e2, d)

/-- `single_player_iter::<FIRST>` under a schedule (schedule index: the number of the pass) -/
def externalMultiPassS (sched : Sched α) (g : Game α) (first : Bool) (p : RegretParams α)
    (draw : DrawFn α) (target : Nat) (it : Nat) (s : SolveSt α) (log : List (DrawRec α)) :
    SolveSt α × α × List (DrawRec α) :=
  let c : ECtx α :=
    ⟨g.chance, first, s.strat, draw, 2 * (it - 1) + (if first then 0 else 1), if first then it - 1 else it⟩
  let (es, d) := externalMultiEffects g c target log
  let s := s.applyEffs (sched (2 * (it - 1) + (if first then 0 else 1)) es)
  let (xs, r) := advanceAll p it (if first then it - 1 else it) (s.get first) 0
  (s.set first xs, r, d.log)

def externalMultiIterS (sched : Sched α) (g : Game α) (p : RegretParams α) (draw : DrawFn α)
    (target : Nat) : IterFn α :=
  fun it s log =>
  match externalMultiPassS sched g true p draw target it s log with
  | (s, r1, log) =>
    match externalMultiPassS sched g false p draw target it s log with
    | (s, r2, log) => (s, r1, r2, log)

/-- `single_player_iter::<FIRST>` -/
def externalMultiPass (g : Game α) (first : Bool) (p : RegretParams α) (draw : DrawFn α)
    (target : Nat) (it : Nat) (s : SolveSt α) (log : List (DrawRec α)) :
    SolveSt α × α × List (DrawRec α) :=
  externalMultiPassS Sched.seq g first p draw target it s log

def externalMultiIter (g : Game α) (p : RegretParams α) (draw : DrawFn α) (target : Nat) : IterFn α :=
  externalMultiIterS Sched.seq g p draw target

/-- `solve_external_multi` with an explicit task target, under a schedule -/
def solveExternalMultiS (sched : Sched α) (g : Game α) (p : RegretParams α) (draw : DrawFn α)
    (maxIter : Nat) (thr : Option (Ext α)) (target : Nat) : SolveOut α :=
  solveWith g (externalMultiIterS sched g p draw target) maxIter thr

/-- `solve_external_multi` with an explicit task target -/
def solveExternalMulti (g : Game α) (p : RegretParams α) (draw : DrawFn α)
    (maxIter : Nat) (thr : Option (Ext α)) (target : Nat) : SolveOut α :=
  solveWith g (externalMultiIter g p draw target) maxIter thr

end
end Cfr
