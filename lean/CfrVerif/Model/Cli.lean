import CfrVerif.Model.Compile
import CfrVerif.Model.Named
import CfrVerif.Model.Dispatch
/-!
# The command-line program: `src/main.rs`, `src/auto.rs`, `src/json.rs`, `src/gambit.rs`

The model starts at the **AST**: what `gambit_parser::ExtensiveFormGame::try_from` (crate
`gambit-parser 0.2.0`, parse *and* `validate`) and `serde_json` + `#[derive(Deserialize)]`
return.  Parsing of bytes is third party and not modelled; it enters as `Parsed`, the two
parsers' answers on the bytes of the input.

Strings (action names, infoset names, the decimal strings of infoset numbers) are natural-number
labels; the harness interns them so that the numeric order of the labels is the lexicographic
byte order of the strings (what `String: Ord` and `BTreeMap<String, _>` use) and equal labels
are equal strings.

Everything the Rust code does with `panic!` / `expect` / `unwrap` on these paths is a value of
`CliError`.
-/
namespace Cfr

/-! ## outcomes of the program -/

/-- why the process ends with a non-zero status (one constructor per `panic!`/`expect`/`unwrap`) -/
inductive CliError where
  /-- `json::from_reader` : `expect("couldn't parse json game definition : …#json-error")` -/
  | jsonError
  /-- `gambit::from_reader` : `expect("couldn't parse gambit game definition : …#gambit-error")` -/
  | gambitError
  /-- `auto::from_reader` : `panic!("couldn't parse any known format … #auto-error")` -/
  | autoError
  /-- `gambit::from_str` : "game file has {n} players, but `cfr` only supports two player games" -/
  | playerCount
  /-- `get_global_info` : `floats.try_into().unwrap()` into `[f64; 2]` (payoff list not of length 2;
  ruled out by `validate` for a two-player file except through the `(old @ None, Some(new))` arm) -/
  | payoffArity
  /-- `infoset_names[player_num - 1]` out of bounds / "internal error: invalid player number"
  (ruled out by `validate`) -/
  | invalidPlayerNum
  /-- "two infosets of the same player had the same name : …#duplicate-infosets" -/
  | duplicateInfosetName
  /-- "some infosets had no names, but the string of their number was used as the name of another
  infoset : …#duplicate-infosets" -/
  | numberNameClash
  /-- `outcomes.get(&outcome).unwrap()` on `None` (ruled out by `validate`: `NoOutcomePayoffs`) -/
  | missingOutcome
  /-- "received non-finite payoffs in gambit format; make sure payoffs fit in a double" -/
  | nonFinitePayoffs
  /-- "gambit file wasn't constant sum : …#constant-sum" -/
  | notConstantSum
  /-- `infoset_names[..].get(&infoset).unwrap()` on `None` (unreachable after `get_global_info`) -/
  | missingInfosetName
  /-- `Game::from_root(..).expect("couldn't extract a compact game representation … #game-error")` -/
  | gameError (e : GameError)
  /-- `game.solve(..).unwrap()` -/
  | solveError (e : SolveError)
  /-- `assert!(map.insert(..).is_none(), "internal error: found duplicate infosets")` in
  `impl From<..> for Strategy` -/
  | duplicateOutputInfoset
  deriving Repr, BEq, DecidableEq, Inhabited

/-- the documented category named by the diagnostic (the README anchor where there is one) -/
def CliError.category : CliError → String
  | .jsonError => "json-error"
  | .gambitError => "gambit-error"
  | .autoError => "auto-error"
  | .playerCount => "player-count"
  | .payoffArity => "internal-payoff-arity"
  | .invalidPlayerNum => "internal-player-number"
  | .duplicateInfosetName => "duplicate-infosets-name"
  | .numberNameClash => "duplicate-infosets-number"
  | .missingOutcome => "internal-missing-outcome"
  | .nonFinitePayoffs => "non-finite"
  | .notConstantSum => "constant-sum"
  | .missingInfosetName => "internal-missing-infoset-name"
  | .gameError _ => "game-error"
  | .solveError _ => "solve-error"
  | .duplicateOutputInfoset => "internal-duplicate-output-infoset"

/-! ## the two ASTs -/

/-- `gambit_parser::Node` with the fields `gambit.rs` reads.  Node names and outcome names are
never read.  Rationals are already doubles (`BigRational::to_f64().unwrap()`; `to_f64` of a
`BigRational` is total).  `names`/`probs`/`kids` (resp. `acts`/`kids`) are the components of
`actions()`, of equal length. -/
inductive Efg (α : Type) where
  | term (outcome : Nat) (pays : List α)
  | chance (info : Nat) (names : List Nat) (probs : List α) (kids : List (Efg α))
      (outcome : Nat) (pays : Option (List α))
  | player (num : Nat) (info : Nat) (name : Option Nat) (acts : List Nat) (kids : List (Efg α))
      (outcome : Nat) (pays : Option (List α))
  deriving Inhabited

/-- `ExtensiveFormGame` : `player_names().len()` and `root()` -/
structure EfgFile (α : Type) where
  players : Nat
  root : Efg α
  deriving Inhabited

/-- `json.rs::State` after serde.  A `BTreeMap<String, _>` is the list of its entries
(`names`/`acts` with `probs`/`kids`); iteration is by increasing key, see `JState.toRaw`. -/
inductive JState (α : Type) where
  | terminal (pay : α)
  | chance (info : Option Nat) (names : List Nat) (probs : List α) (kids : List (JState α))
  | player (one : Bool) (info : Nat) (acts : List Nat) (kids : List (JState α))
  deriving Inhabited

/-- what one turn of the first `while let Some(node) = queue.pop()` loop of `get_global_info`
reads off the popped node -/
inductive Visit (α : Type) where
  | term (outcome : Nat) (pays : List α)
  | chance (outcome : Nat) (pays : Option (List α))
  | player (num info : Nat) (name : Option Nat) (outcome : Nat) (pays : Option (List α))

/-!
### Order of the stack-based traversals

Both loops of `get_global_info` are `let mut queue = vec![root]; while let Some(node) =
queue.pop() { …; queue.extend(children in file order) }`.  `pop` takes the element pushed
last, so after a node is processed its *last* child is popped next, and everything pushed
while that child's subtree is worked off lies above the remaining children: the subtree of
child `n` is exhausted before child `n-1` is popped.  By induction the nodes are popped in
the order

  `visits node = node :: visits childₙ ++ … ++ visits child₁`,

which is what `Efg.visits` / `Efg.visitsL` compute by structural recursion
(`visitsL (k :: ks) = visitsL ks ++ visits k`).  The map insertions of the first loop happen
in this order; the second loop carries `cum_pays` *by value* with each stack entry, which is
an accumulator argument of the recursion (`Efg.leaves`).
-/

mutual
/-- the nodes in the order the first loop pops them -/
def Efg.visits {α} : Efg α → List (Visit α)
  | .term oc pays => [.term oc pays]
  | .chance _ _ _ kids oc pays => .chance oc pays :: Efg.visitsL kids
  | .player num info name _ kids oc pays => .player num info name oc pays :: Efg.visitsL kids
def Efg.visitsL {α} : List (Efg α) → List (Visit α)
  | [] => []
  | k :: ks => Efg.visitsL ks ++ Efg.visits k
end

/-! ## sorting (`sort_unstable_by`, `BTreeMap` iteration) -/

/-- insert before the first element that is not smaller: with `foldr` a stable insertion sort -/
def insertBy {β : Type} (lt : β → β → Bool) (x : β) : List β → List β
  | [] => [x]
  | y :: ys => if lt y x then y :: insertBy lt x ys else x :: y :: ys

/-- sort by a strict order.  The crate uses `sort_unstable_by`; elements that compare equal have
equal names, and such nodes are rejected by `from_root` (`ActionsNotUnique`) or have equal
probabilities too, so any order of ties serves. -/
def sortBy {β : Type} (lt : β → β → Bool) (l : List β) : List β := l.foldr (insertBy lt) []

def zip3 {β γ δ : Type} : List β → List γ → List δ → List (β × γ × δ)
  | b :: bs, c :: cs, d :: ds => (b, c, d) :: zip3 bs cs ds
  | _, _, _ => []

/-- association list read as a `HashMap`: the first match (tables are kept newest first) -/
def assocFind {β : Type} (l : List (Nat × β)) (k : Nat) : Option β :=
  (l.find? (fun e => e.1 == k)).map (·.2)

/-- does some label occur twice? -/
def hasDupNat : List Nat → Bool
  | [] => false
  | x :: xs => xs.contains x || hasDupNat xs

section conversion
variable {α : Type} [Zero α] [One α] [Add α] [Sub α] [Mul α] [Div α]
  [LT α] [DecidableLT α] [BEq α] [NatCast α] [FloatLike α]

/-! ## `gambit.rs::get_global_info` -/

/-- per player: `infoset_names[p]` (number ↦ given name, `entry().or_insert_with`: the first
insertion wins; kept newest first) and `infosets[p]` (the numbers seen) -/
structure PNames where
  given : List (Nat × Nat) := []
  seen : List Nat := []
  deriving Inhabited

/-- the three tables of the first loop; `outcomes` is a `HashMap` filled by `insert` (the last
insertion wins): kept newest first and read by first match -/
structure Tables (α : Type) where
  one : PNames := {}
  two : PNames := {}
  outcomes : List (Nat × (α × α)) := []

/-- `floats.try_into().unwrap()` into `[f64; 2]` -/
def toPair : List α → Option (α × α)
  | [a, b] => some (a, b)
  | _ => none

def Tables.insertOutcome (t : Tables α) (oc : Nat) (pays : List α) : Except CliError (Tables α) :=
  match toPair pays with
  | none => .error .payoffArity
  | some p => .ok { t with outcomes := (oc, p) :: t.outcomes }

/-- `if let Some(pays) = node.outcome_payoffs() { outcomes.insert(node.outcome(), …) }` -/
def Tables.insertOptOutcome (t : Tables α) (oc : Nat) : Option (List α) → Except CliError (Tables α)
  | none => .ok t
  | some pays => t.insertOutcome oc pays

/-- the name and number bookkeeping of a player node -/
def PNames.note (p : PNames) (info : Nat) (name : Option Nat) : PNames :=
  let given := match name with
    | some n => if p.given.any (·.1 == info) then p.given else (info, n) :: p.given
    | none => p.given
  { given, seen := if p.seen.contains info then p.seen else info :: p.seen }

/-- one turn of the first loop -/
def Tables.step (t : Tables α) : Visit α → Except CliError (Tables α)
  | .term oc pays => t.insertOutcome oc pays
  | .chance oc pays => t.insertOptOutcome oc pays
  | .player num info name oc pays =>
    match t.insertOptOutcome oc pays with
    | .error e => .error e
    | .ok t =>
      if num = 1 then .ok { t with one := t.one.note info name }
      else if num = 2 then .ok { t with two := t.two.note info name }
      else .error .invalidPlayerNum

/-- the first loop over the pop order -/
def Tables.run (t : Tables α) : List (Visit α) → Except CliError (Tables α)
  | [] => .ok t
  | v :: vs =>
    match t.step v with
    | .error e => .error e
    | .ok t => Tables.run t vs

/-- two entries of `infoset_names[p]` with the same name -/
def hasDupName : List (Nat × Nat) → Bool
  | [] => false
  | (_, n) :: r => r.any (·.2 == n) || hasDupName r

/-- "for unnamed infosets convert to their number" for one player.  `numName i` is the label of
the string `i.to_string()`.  Both panics are independent of the `HashMap`/`HashSet` iteration
order: the first fires iff some name occurs twice among the given names, the second (reached
only if the first did not) iff the number string of some unnamed infoset is a given name. -/
def PNames.resolve (numName : Nat → Nat) (p : PNames) : Except CliError (List (Nat × Nat)) :=
  if hasDupName p.given then .error .duplicateInfosetName else
  let unnamed := p.seen.filter (fun i => !p.given.any (·.1 == i))
  if unnamed.any (fun i => p.given.any (·.2 == numName i)) then .error .numberNameClash
  else .ok (p.given ++ unnamed.map (fun i => (i, numName i)))

/-- `cum += out` on both components -/
def addPays (cum o : α × α) : α × α := (cum.1 + o.1, cum.2 + o.2)

/-- `one + (two - one) / 2.0` -/
def pairSum (c : α × α) : α := c.1 + (c.2 - c.1) / (1 + 1)

/-- `if node.outcome() != 0 { cum += outcomes.get(&node.outcome()).unwrap() }` -/
def stepCum (tbl : List (Nat × (α × α))) (oc : Nat) (cum : α × α) : Except CliError (α × α) :=
  if oc = 0 then .ok cum else
  match assocFind tbl oc with
  | none => .error .missingOutcome
  | some o => .ok (addPays cum o)

mutual
/-- the second loop: the cumulative payoff pairs of the terminals in pop order; a look-up that
fails or a non-finite pair sum ends it at the node where the code panics -/
def Efg.leaves (tbl : List (Nat × (α × α))) : Efg α → α × α → Except CliError (List (α × α))
  | .term oc _, cum =>
    match assocFind tbl oc with
    | none => .error .missingOutcome
    | some o =>
      let c := addPays cum o
      if FloatLike.isFinite (pairSum c) then .ok [c] else .error .nonFinitePayoffs
  | .chance _ _ _ kids oc _, cum =>
    match stepCum tbl oc cum with
    | .error e => .error e
    | .ok cum => Efg.leavesL tbl kids cum
  | .player _ _ _ _ kids oc _, cum =>
    match stepCum tbl oc cum with
    | .error e => .error e
    | .ok cum => Efg.leavesL tbl kids cum
def Efg.leavesL (tbl : List (Nat × (α × α))) : List (Efg α) → α × α → Except CliError (List (α × α))
  | [], _ => .ok []
  | k :: ks, cum =>
    match Efg.leavesL tbl ks cum with
    | .error e => .error e
    | .ok a =>
      match Efg.leaves tbl k cum with
      | .error e => .error e
      | .ok b => .ok (a ++ b)
end

/-- `reduce(f64::min)` from `+∞` over finite values -/
def minOf : List α → α
  | [] => 0
  | x :: xs => xs.foldl fmin x

/-- `reduce(f64::max)` from `-∞` over finite values -/
def maxOf : List α → α
  | [] => 0
  | x :: xs => xs.foldl fmax x

/-- `GlobalInfo` -/
structure GlobalInfo (α : Type) where
  /-- `infoset_names[0]`, `infoset_names[1]` : infoset number ↦ label of its resolved name -/
  namesOne : List (Nat × Nat)
  namesTwo : List (Nat × Nat)
  /-- outcome ↦ player one's payoff -/
  outcomes : List (Nat × α)
  sum : α

/-- the constant-sum test `(max - min) * 1000.0 > (one_max - one_min)` on the terminals'
cumulative pairs -/
def notConstantSum (ls : List (α × α)) : Bool :=
  let sums := ls.map pairSum
  let ones := ls.map (·.1)
  decide (maxOf ones - minOf ones < (maxOf sums - minOf sums) * ((1000 : Nat) : α))

/-- `sum: min + (max - min) / 2.0` -/
def constantSum (ls : List (α × α)) : α :=
  let sums := ls.map pairSum
  minOf sums + (maxOf sums - minOf sums) / (1 + 1)

/-- `get_global_info`.  A tree without terminals leaves `min = +∞`, `max = -∞` in the code
(no panic, `sum = NaN`); here `minOf [] = maxOf [] = 0` (no error, `sum = 0`).  The difference is
not observable: such a tree has an empty chance or player node and `from_root` fails. -/
def getGlobalInfo (numName : Nat → Nat) (root : Efg α) : Except CliError (GlobalInfo α) :=
  match Tables.run ({} : Tables α) root.visits with
  | .error e => .error e
  | .ok t =>
    match t.one.resolve numName with
    | .error e => .error e
    | .ok n1 =>
      match t.two.resolve numName with
      | .error e => .error e
      | .ok n2 =>
        match Efg.leaves t.outcomes root (0, 0) with
        | .error e => .error e
        | .ok ls =>
          if notConstantSum ls then .error .notConstantSum
          else .ok ⟨n1, n2, t.outcomes.map (fun e => (e.1, e.2.1)), constantSum ls⟩

/-! ## `JoinedNode::into_game_node` -/

/-- `if node.outcome() == 0 { 0.0 } else { *outcomes.get(&node.outcome()).unwrap() }` -/
def nodePayoff (gi : GlobalInfo α) (oc : Nat) : Except CliError α :=
  if oc = 0 then .ok 0 else
  match assocFind gi.outcomes oc with
  | none => .error .missingOutcome
  | some p => .ok p

/-- `(act1, prob1).partial_cmp(&(act2, prob2))` is `Less` -/
def outcomeLt {β : Type} (a b : Nat × α × β) : Bool :=
  a.1 < b.1 || (a.1 == b.1 && decide (a.2.1 < b.2.1))

/-- `act1.cmp(act2)` is `Less` -/
def actionLt {β : Type} (a b : Nat × β) : Bool := a.1 < b.1

mutual
/-- the tree `Game::from_root` sees when it unfolds `JoinedNode { node, info, cum_payoff }`.
`into_game_node` is called lazily while `from_root` descends; the look-ups that can fail there
(`missingOutcome`, `missingInfosetName`, `invalidPlayerNum`) cannot fail once `getGlobalInfo`
succeeded on the same tree, so converting the whole tree first yields the same outcome. -/
def Efg.toRaw (gi : GlobalInfo α) : Efg α → α → Except CliError (Raw α)
  | .term oc _, cum =>
    match assocFind gi.outcomes oc with
    | none => .error .missingOutcome
    | some p => .ok (.term (cum + p - gi.sum))
  | .chance info names probs kids oc _, cum =>
    match nodePayoff gi oc with
    | .error e => .error e
    | .ok np =>
      match Efg.toRawL gi kids (cum + np) with
      | .error e => .error e
      | .ok rs =>
        let es := sortBy outcomeLt (zip3 names probs rs)
        .ok (.chance (some info) (es.map (·.2.1)) (es.map (·.2.2)))
  | .player num info _ acts kids oc _, cum =>
    if num ≠ 1 ∧ num ≠ 2 then .error .invalidPlayerNum else
    match nodePayoff gi oc with
    | .error e => .error e
    | .ok np =>
      match assocFind (if num = 1 then gi.namesOne else gi.namesTwo) info with
      | none => .error .missingInfosetName
      | some label =>
        match Efg.toRawL gi kids (cum + np) with
        | .error e => .error e
        | .ok rs =>
          let es := sortBy actionLt (acts.zip rs)
          .ok (.player (num == 1) label (es.map (·.1)) (es.map (·.2)))
def Efg.toRawL (gi : GlobalInfo α) : List (Efg α) → α → Except CliError (List (Raw α))
  | [], _ => .ok []
  | k :: ks, cum =>
    match Efg.toRaw gi k cum with
    | .error e => .error e
    | .ok r =>
      match Efg.toRawL gi ks cum with
      | .error e => .error e
      | .ok rs => .ok (r :: rs)
end

/-- `gambit::from_str` after the parser, up to the argument of `from_root`, with `info.sum` -/
def gambitRaw (numName : Nat → Nat) (f : EfgFile α) : Except CliError (Raw α × α) :=
  if f.players ≠ 2 then .error .playerCount else
  match getGlobalInfo numName f.root with
  | .error e => .error e
  | .ok gi =>
    match Efg.toRaw gi f.root 0 with
    | .error e => .error e
    | .ok raw => .ok (raw, gi.sum)

/-- `Game::from_root(..).expect(..)` -/
def fromRootCli (raw : Raw α) (sum : α) : Except CliError (Game α × α) :=
  match fromRoot raw with
  | .error e => .error (.gameError e)
  | .ok g => .ok (g, sum)

/-- `gambit::from_str` after the parser -/
def gambitFromAst (numName : Nat → Nat) (f : EfgFile α) : Except CliError (Game α × α) :=
  match gambitRaw numName f with
  | .error e => .error e
  | .ok (raw, sum) => fromRootCli raw sum

/-! ## `json.rs` -/

mutual
/-- `impl IntoGameNode for State` : `BTreeMap` iteration is by increasing key -/
def JState.toRaw : JState α → Raw α
  | .terminal p => .term p
  | .chance info names probs kids =>
    let es := sortBy actionLt (zip3 names probs (JState.toRawL kids))
    .chance info (es.map (·.2.1)) (es.map (·.2.2))
  | .player one info acts kids =>
    let es := sortBy actionLt (acts.zip (JState.toRawL kids))
    .player one info (es.map (·.1)) (es.map (·.2))
def JState.toRawL : List (JState α) → List (Raw α)
  | [] => []
  | k :: ks => JState.toRaw k :: JState.toRawL ks
end

/-- `json::from_state` -/
def jsonFromState (s : JState α) : Except CliError (Game α × α) := fromRootCli s.toRaw 0

/-! ## format selection (`main.rs`, `auto.rs`) -/

/-- `--input-format` -/
inductive InputFormat where
  | auto | gambit | json
  deriving Repr, BEq, DecidableEq, Inhabited

/-- what `--input` is: `"-"`, a path ending in `.json`, a path ending in `.efg`, another path -/
inductive InputKind where
  | stdin | dotJson | dotEfg | other
  deriving Repr, BEq, DecidableEq, Inhabited

/-- the answers of the two third-party parsers on the bytes of the input: `serde_json::from_str`
/ `from_reader` at `State` and `ExtensiveFormGame::try_from` (`none` = `Err`) -/
structure Parsed (α : Type) where
  json : Option (JState α)
  gambit : Option (EfgFile α)

/-- `json::from_reader` -/
def jsonFromReader (p : Parsed α) : Except CliError (Game α × α) :=
  match p.json with
  | none => .error .jsonError
  | some s => jsonFromState s

/-- `gambit::from_reader` -/
def gambitFromReader (numName : Nat → Nat) (p : Parsed α) : Except CliError (Game α × α) :=
  match p.gambit with
  | none => .error .gambitError
  | some f => gambitFromAst numName f

/-- `auto::from_reader` : JSON first; a panic *inside* `json::from_str` / `gambit::from_str`
(every error after parsing) ends the process, only a parse error moves on -/
def autoFromReader (numName : Nat → Nat) (p : Parsed α) : Except CliError (Game α × α) :=
  match p.json with
  | some s => jsonFromState s
  | none =>
    match p.gambit with
    | some f => gambitFromAst numName f
    | none => .error .autoError

/-- the two `match args.input_format` of `main` -/
def loadGame (numName : Nat → Nat) (fmt : InputFormat) (kind : InputKind) (p : Parsed α) :
    Except CliError (Game α × α) :=
  match kind, fmt with
  | _, .json => jsonFromReader p
  | .stdin, .gambit => gambitFromReader numName p
  | .stdin, .auto => autoFromReader numName p
  | .dotJson, .auto => jsonFromReader p
  | _, .gambit => gambitFromReader numName p
  | .dotEfg, .auto => gambitFromReader numName p
  | _, .auto => autoFromReader numName p

end conversion

/-! ## `main` after the game is read -/

/-- `--discount` -/
inductive Discount where
  | vanilla | lcfr | cfrPlus | dcfr | dcfrPrune
  deriving Repr, BEq, DecidableEq, Inhabited

/-- `u64::MAX` -/
def u64Max : Nat := 18446744073709551615

/-- `Args` without the input/output selection.  `maxRegret` is the `f64` of `--max-regret` in the
representation `gameSolve` takes (`none` = NaN). -/
structure CliOpts (α : Type) where
  clipThreshold : α
  maxRegret : Option (Ext α)
  maxIters : Nat
  parallel : Nat
  method : Method
  discount : Discount

/-- `Output` ; the strategies are `HashMap`s in the code, association lists here -/
structure CliOut (α : Type) where
  regret : α
  playerOneUtility : α
  playerTwoUtility : α
  playerOneRegret : α
  playerTwoRegret : α
  playerOneStrategy : Named α
  playerTwoStrategy : Named α

section run
variable {α : Type} [Zero α] [One α] [Add α] [Sub α] [Mul α] [Div α] [Neg α]
  [LT α] [DecidableLT α] [LE α] [DecidableLE α] [BEq α] [NatCast α] [FloatLike α] [Transc α]

/-- `Discount::into_params` -/
def Discount.intoParams : Discount → RegretParams α
  | .vanilla => RegretParams.vanilla
  | .lcfr => RegretParams.lcfr
  | .cfrPlus => RegretParams.cfrPlus
  | .dcfr => RegretParams.dcfr
  | .dcfrPrune => RegretParams.dcfrPrune

/-- `if args.max_iters == 0 { u64::MAX } else { args.max_iters }` -/
def CliOpts.iters (o : CliOpts α) : Nat := if o.maxIters = 0 then u64Max else o.maxIters

/-- `impl From<..> for Strategy` : zero-probability actions dropped; `none` = the assertion
"internal error: found duplicate infosets" fires -/
def strategyOfNamed (n : Named α) : Option (Named α) :=
  if hasDupNat (n.map (·.1)) then none
  else some (n.map (fun e => (e.1, e.2.filter (fun a => 0 < a.2))))

/-- the `Output` record of `main` for the profile that is printed -/
def assemble (g : Game α) (sum : α) (info : StrategiesInfo α) (one two : Strat α) :
    Except CliError (CliOut α) :=
  match strategyOfNamed (asNamed g.p1 g.s1 one), strategyOfNamed (asNamed g.p2 g.s2 two) with
  | some s1, some s2 =>
    .ok ⟨info.regret, info.playerUtility true + sum, info.playerUtility false + sum,
      info.playerRegret true, info.playerRegret false, s1, s2⟩
  | _, _ => .error .duplicateOutputInfoset

/-- `main` from `get_info` on: the clip step (the pruned profile is printed iff its regret is
strictly lower) and the output record -/
def report (g : Game α) (sum : α) (clip : α) (one two : Strat α) : Except CliError (CliOut α) :=
  let info := getInfo g (fun p => if p then one else two)
  let pOne := truncate clip one
  let pTwo := truncate clip two
  let pInfo := getInfo g (fun p => if p then pOne else pTwo)
  if pInfo.regret < info.regret then assemble g sum pInfo pOne pTwo
  else assemble g sum info one two

/-- `main` after the game is read: solve, clip, assemble.  The operating system (`env`), the
interleaving of the worker threads (`sched`) and the random draws (`draw`) are parameters. -/
def runGame (env : Env) (sched : Sched α) (draw : DrawFn α) (o : CliOpts α) (g : Game α) (sum : α) :
    Except CliError (CliOut α) :=
  match gameSolve env sched g o.method o.iters o.maxRegret o.parallel
      (some o.discount.intoParams) draw with
  | .error e => .error (.solveError e)
  | .ok out => report g sum o.clipThreshold out.stratOne out.stratTwo

/-- the program: exit status and printed object as a value -/
def cliMain (env : Env) (sched : Sched α) (draw : DrawFn α) (numName : Nat → Nat) (o : CliOpts α)
    (fmt : InputFormat) (kind : InputKind) (p : Parsed α) : Except CliError (CliOut α) :=
  match loadGame numName fmt kind p with
  | .error e => .error e
  | .ok (g, sum) => runGame env sched draw o g sum

end run
end Cfr
