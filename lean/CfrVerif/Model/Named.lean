import CfrVerif.Model.Tree
import CfrVerif.Model.Eval
/-!
# Named views, import, truncate, distance (`src/lib.rs`) and the categorical sampler
(`src/solve/multinomial.rs`)
-/
namespace Cfr

inductive StratError where
  | invalidInfoset | invalidAction | invalidProbability | uninitializedInfoset
  deriving Repr, BEq, DecidableEq, Inhabited

section
variable {α : Type} [Zero α] [One α] [Add α] [Sub α] [Mul α] [Div α] [Neg α]
  [LT α] [DecidableLT α] [LE α] [DecidableLE α] [BEq α] [NatCast α] [FloatLike α] [Transc α]

/-! ## categorical sampler -/

/-- `Multinomial::sample` as a function of the uniform variate `u` -/
def multinomialSample (probs : List α) (u : α) : Nat :=
  let rec go : List α → α → Nat → Nat
    | [], _, res => res
    | v :: vs, rem, res => if v < rem then go vs (rem - v) (res + 1) else res
  go probs.dropLast u 0

/-! ## `as_named` and its two iterators as state machines -/

/-- a named strategy of one player: `(infoset label, [(action label, weight)])` -/
abbrev Named (α : Type) := List (Nat × List (Nat × α))

/-- `NamedStrategyActionIter` -/
inductive ActIter (α : Type) where
  | data (acts : List Nat) (probs : List α)
  | single (act : Option Nat)

/-- `NamedStrategyActionIter::next` : skips zero probabilities -/
def ActIter.next : ActIter α → Option ((Nat × α) × ActIter α)
  | .data (a :: as) (p :: ps) =>
    if 0 < p then some ((a, p), .data as ps) else ActIter.next (.data as ps)
  | .data _ _ => none
  | .single (some a) => some ((a, 1), .single none)
  | .single none => none
termination_by it => match it with | .data as _ => as.length | .single _ => 0

/-- `NamedStrategyActionIter::len` (`ExactSizeIterator`) -/
def ActIter.len : ActIter α → Nat
  | .data as ps => ((as.zip ps).filter (fun e => 0 < e.2)).length
  | .single (some _) => 1
  | .single none => 0

/-- `NamedStrategyIter` : remaining infosets, remaining per-infoset probabilities, remaining singles -/
structure InfoIter (α : Type) where
  infos : List PInfo
  probs : Strat α
  singles : List (Nat × Nat)

def InfoIter.next (it : InfoIter α) : Option ((Nat × ActIter α) × InfoIter α) :=
  match it.infos, it.probs with
  | i :: is, p :: ps => some ((i.label, .data i.actions p), ⟨is, ps, it.singles⟩)
  | i :: is, [] => some ((i.label, .data i.actions []), ⟨is, [], it.singles⟩)
  | [], _ =>
    match it.singles with
    | (l, a) :: ss => some ((l, .single (some a)), ⟨[], it.probs, ss⟩)
    | [] => none

/-- `NamedStrategyIter::len` -/
def InfoIter.len (it : InfoIter α) : Nat := it.infos.length + it.singles.length

/-- drain an action iterator -/
def ActIter.toList (it : ActIter α) : List (Nat × α) :=
  match it with
  | .data as ps => ((as.zip ps).filter (fun e => 0 < e.2))
  | .single (some a) => [(a, 1)]
  | .single none => []

/-- `Strategies::as_named` for one player, fully drained -/
def asNamed (infos : List PInfo) (singles : List (Nat × Nat)) (σ : Strat α) : Named α :=
  (infos.zip σ).map (fun (i, p) => (i.label, (ActIter.data i.actions p).toList))
    ++ singles.map (fun (l, a) => (l, [(a, (1 : α))]))

/-! ## `from_named` (hash based) and `from_named_eq` (scan based) -/

def probOk (p : α) : Bool := decide (0 ≤ p) && FloatLike.isFinite p

/-- last match: what a `HashMap` built by successive `insert`s returns -/
def findLastIdx {β : Type} (f : β → Bool) (l : List β) : Option Nat :=
  let rec go : List β → Nat → Option Nat → Option Nat
    | [], _, r => r
    | x :: xs, i, r => go xs (i + 1) (if f x then some i else r)
  go l 0 none

/-- set one weight: `dense[ind] = prob` -/
def setWeight (dense : Strat α) (i a : Nat) (p : α) : Strat α := dense.modify i (fun v => v.set a p)

/-- the inner `for (action, prob) in actions` loop for a multi-action infoset -/
def importActions (find : (Nat → Bool) → List Nat → Option Nat) (acts : List Nat) (i : Nat) :
    List (Nat × α) → Strat α → Except StratError (Strat α)
  | [], dense => .ok dense
  | (a, p) :: rest, dense =>
    if probOk p then
      match find (· == a) acts with
      | some ai => importActions find acts i rest (setWeight dense i ai p)
      | none => .error .invalidAction
    else .error .invalidProbability

/-- the inner loop for a single-action infoset: returns whether it was seen -/
def importSingle (act : Nat) : List (Nat × α) → Bool → Except StratError Bool
  | [], seen => .ok seen
  | (a, p) :: rest, _ =>
    if a != act then .error .invalidAction
    else if probOk p then importSingle act rest true
    else .error .invalidProbability

/-- the outer loop over the named strategy; `seen` is the per-single flag vector -/
def importLoop (findI : (PInfo → Bool) → List PInfo → Option Nat)
    (findA : (Nat → Bool) → List Nat → Option Nat)
    (findS : ((Nat × Nat) → Bool) → List (Nat × Nat) → Option Nat)
    (infos : List PInfo) (singles : List (Nat × Nat)) :
    Named α → Strat α → List Bool → Except StratError (Strat α × List Bool)
  | [], dense, seen => .ok (dense, seen)
  | (l, acts) :: rest, dense, seen =>
    match findI (·.label == l) infos with
    | some i =>
      match importActions findA ((infos.getD i default).actions) i acts dense with
      | .ok dense => importLoop findI findA findS infos singles rest dense seen
      | .error e => .error e
    | none =>
      match findS (·.1 == l) singles with
      | some si =>
        match importSingle ((singles.getD si default).2) acts (seen.getD si false) with
        | .ok b => importLoop findI findA findS infos singles rest dense (seen.set si b)
        | .error e => .error e
      | none => .error .invalidInfoset

/-- normalisation and the "wrote to all locations" checks -/
def importFinish : Strat α → Except StratError (Strat α)
  | [] => .ok []
  | v :: vs =>
    let total := lsum v
    if total == 0 then .error .uninitializedInfoset
    else match importFinish vs with
      | .ok r => .ok (v.map (· / total) :: r)
      | .error e => .error e

def importWith (findI : (PInfo → Bool) → List PInfo → Option Nat)
    (findA : (Nat → Bool) → List Nat → Option Nat)
    (findS : ((Nat × Nat) → Bool) → List (Nat × Nat) → Option Nat)
    (infos : List PInfo) (singles : List (Nat × Nat)) (named : Named α) :
    Except StratError (Strat α) :=
  let dense0 : Strat α := infos.map (fun i => List.replicate i.actions.length 0)
  match importLoop findI findA findS infos singles named dense0 (List.replicate singles.length false) with
  | .error e => .error e
  | .ok (dense, seen) =>
    match importFinish dense with
    | .error e => .error e
    | .ok r => if seen.all id then .ok r else .error .uninitializedInfoset

/-- `strat_into_box` : look-ups through `HashMap`s built by insertion (last insert wins) -/
def stratIntoBox (infos : List PInfo) (singles : List (Nat × Nat)) (named : Named α) :
    Except StratError (Strat α) :=
  importWith (fun f l => findLastIdx f l) (fun f l => findLastIdx f l) (fun f l => findLastIdx f l)
    infos singles named

/-- `strat_into_box_slow` : look-ups by linear scan (first match) -/
def stratIntoBoxSlow (infos : List PInfo) (singles : List (Nat × Nat)) (named : Named α) :
    Except StratError (Strat α) :=
  importWith (fun f l => l.findIdx? f) (fun f l => l.findIdx? f) (fun f l => l.findIdx? f)
    infos singles named

/-- `Game::from_named` -/
def fromNamed (g : Game α) (one two : Named α) : Except StratError (Strat α × Strat α) :=
  match stratIntoBox g.p1 g.s1 one with
  | .error e => .error e
  | .ok a => match stratIntoBox g.p2 g.s2 two with
    | .error e => .error e
    | .ok b => .ok (a, b)

/-- `Game::from_named_eq` -/
def fromNamedEq (g : Game α) (one two : Named α) : Except StratError (Strat α × Strat α) :=
  match stratIntoBoxSlow g.p1 g.s1 one with
  | .error e => .error e
  | .ok a => match stratIntoBoxSlow g.p2 g.s2 two with
    | .error e => .error e
    | .ok b => .ok (a, b)

/-! ## truncate, distance -/

/-- `Strategies::truncate` on one infoset -/
def truncateOne (h : α) (v : List α) : List α :=
  let total := lsum (v.filter (fun p => h < p))
  if 0 < total then v.map (fun p => if h < p then p / total else 0) else v

def truncate (h : α) (σ : Strat α) : Strat α := σ.map (truncateOne h)

def absS (x : α) : α := if x < 0 then -x else x

/-- the per-player accumulation `dist += |l - r|^p` over the flattened profile -/
def distSum (p : α) : List α → List α → α → α
  | l :: ls, r :: rs, acc => distSum p ls rs (acc + Transc.pow (absS (l - r)) p)
  | _, _, acc => acc

/-- `Strategies::distance` for one player; `none` = the `assert!(p > 0)` fires -/
def distanceOne (p : α) (a b : Strat α) : Option α :=
  if 0 < p then
    if a.length == 0 then some 0
    else some (distSum p a.flatten b.flatten 0 / (1 + 1) / (a.length : α))
  else none

end
end Cfr
