import CfrVerif.Model.Solve
/-!
# `src/solve/external.rs` : external-sampling MCCFR, single-threaded
-/
namespace Cfr

section
variable {α : Type} [Zero α] [One α] [Add α] [Sub α] [Mul α] [Div α] [Neg α]
  [LT α] [DecidableLT α] [BEq α] [NatCast α] [FloatLike α] [Transc α]

/-- read-only context of one pass; `first = true` when player one is the updating player -/
structure ECtx (α : Type) where
  ch : List (List α)
  first : Bool
  strat : Bool → Nat → List α
  draw : DrawFn α
  chancePass : Nat
  playerPass : Nat

/-- `ExternalInfo::update_cum_strat` : `cum_strat[a] += strat[a]` -/
def extStratEffs (one : Bool) (i : Nat) : List α → Nat → List (Eff α)
  | [], _ => []
  | s :: σ, a => ⟨one, i, .strat, a, s⟩ :: extStratEffs one i σ (a + 1)

def subEffsE (one : Bool) (i : Nat) (sub : α) (n : Nat) : List (Eff α) :=
  (List.range n).map (fun a => ⟨one, i, .regret, a, -sub⟩)

mutual
/-- `recurse_regret::<FIRST>` : value to the updating player, effect, sample caches -/
def erec (c : ECtx α) : Node α → DrawSt α → α × List (Eff α) × DrawSt α
  | .term p, d => (if c.first then p else -p, [], d)
  | .chance i ks, d =>
    let (k, d) := sampleChance c.draw c.chancePass (c.ch.getD i []) i d
    erecNth c ks k d
  | .player one i ks, d =>
    let σ := c.strat one i
    if one == c.first then
      let (ex, es, d) := erecActs c one i σ ks d 0 0
      (ex, es ++ subEffsE one i ex σ.length, d)
    else
      let (k, d) := samplePlayer c.draw (if one then 1 else 2) c.playerPass σ i d
      let (v, es, d) := erecNth c ks k d
      (v, extStratEffs one i σ 0 ++ es, d)
def erecNth (c : ECtx α) : List (Node α) → Nat → DrawSt α → α × List (Eff α) × DrawSt α
  | [], _, d => (0, [], d)
  | k :: _, 0, d => erec c k d
  | _ :: ks, n + 1, d => erecNth c ks n d
/-- `ActiveInfo::recurse` : all actions of the updating player -/
def erecActs (c : ECtx α) (one : Bool) (i : Nat) : List α → List (Node α) → DrawSt α → Nat → α →
    α × List (Eff α) × DrawSt α
  | s :: σ, k :: ks, d, a, ex =>
    let (util, e, d) := erec c k d
    let (ex', e', d') := erecActs c one i σ ks d (a + 1) (ex + s * util)
    (ex', e ++ ⟨one, i, .regret, a, util⟩ :: e', d')
  | _, _, d, _, ex => (ex, [], d)
end

/-- one pass (`first` = which player updates) followed by the resets and that player's `advance` -/
def externalPass (g : Game α) (first : Bool) (p : RegretParams α) (draw : DrawFn α)
    (it : Nat) (s : SolveSt α) (log : List (DrawRec α)) : SolveSt α × α × List (DrawRec α) :=
  let c : ECtx α :=
    ⟨g.chance, first, s.strat, draw, 2 * (it - 1) + (if first then 0 else 1), if first then it - 1 else it⟩
  let (_, es, d) := erec c g.root { log := log }
  let s := s.applyEffs es
  let (xs, r) := advanceAll p it (if first then it - 1 else it) (s.get first) 0
  (s.set first xs, r, d.log)

/-- one iteration: player one's pass, then player two's -/
def externalIter (g : Game α) (p : RegretParams α) (draw : DrawFn α) : IterFn α := fun it s log =>
  match externalPass g true p draw it s log with
  | (s, r1, log) =>
    match externalPass g false p draw it s log with
    | (s, r2, log) => (s, r1, r2, log)

/-- `solve_external_single` -/
def solveExternalSingle (g : Game α) (p : RegretParams α) (draw : DrawFn α)
    (maxIter : Nat) (thr : Option (Ext α)) : SolveOut α :=
  solveWith g (externalIter g p draw) maxIter thr

end
end Cfr
