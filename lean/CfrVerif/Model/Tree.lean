import CfrVerif.Model.Scalar
/-!
# Trees: the `IntoGameNode` input (`Raw`), the compact tree (`Node`) and `Game`

Labels (player infosets, chance infosets, actions) are natural numbers; the
harness maps the crate's `&str`/`String` labels to numbers and back.
`one = true` is `PlayerNum::One`.
-/
namespace Cfr

/-- `GameNode<T>` unfolded: what `Game::from_root` consumes.  The crate iterates
pairs `(weight, child)` / `(action, child)`; here the two components are kept in
two lists of equal length (`Raw.Shape`). -/
inductive Raw (α : Type) where
  | term (pay : α)
  | chance (info : Option Nat) (ws : List α) (kids : List (Raw α))
  | player (one : Bool) (info : Nat) (acts : List Nat) (kids : List (Raw α))
  deriving Inhabited

/-- The crate's private `Node`. -/
inductive Node (α : Type) where
  | term (pay : α)
  | chance (info : Nat) (kids : List (Node α))
  | player (one : Bool) (info : Nat) (kids : List (Node α))
  deriving Inhabited

/-- `PlayerInfosetData` (label, action labels, previous own decision). -/
structure PInfo where
  label : Nat
  actions : List Nat
  /-- previous multi-action infoset of the same player and the action index taken there -/
  prev : Option (Nat × Nat)
  deriving Repr, BEq, DecidableEq, Inhabited

/-- `Game<I, A>`. -/
structure Game (α : Type) where
  chance : List (List α)
  p1 : List PInfo
  p2 : List PInfo
  /-- single-action infosets `(label, action)`; a `HashMap` in the crate, insertion order here -/
  s1 : List (Nat × Nat)
  s2 : List (Nat × Nat)
  root : Node α

def Game.infos {α} (g : Game α) (one : Bool) : List PInfo := if one then g.p1 else g.p2
def Game.singles {α} (g : Game α) (one : Bool) : List (Nat × Nat) := if one then g.s1 else g.s2

inductive GameError where
  | emptyChance | nonPositiveChance | probabilitiesNotEqual | imperfectRecall
  | emptyPlayer | actionsNotEqual | actionsNotUnique | nonFinitePayoff
  deriving Repr, BEq, DecidableEq, Inhabited

mutual
def Raw.size {α} : Raw α → Nat
  | .term _ => 1
  | .chance _ _ ks => 1 + Raw.sizeL ks
  | .player _ _ _ ks => 1 + Raw.sizeL ks
def Raw.sizeL {α} : List (Raw α) → Nat
  | [] => 0
  | k :: ks => Raw.size k + Raw.sizeL ks
end

mutual
def Node.size {α} : Node α → Nat
  | .term _ => 1
  | .chance _ ks => 1 + Node.sizeL ks
  | .player _ _ ks => 1 + Node.sizeL ks
def Node.sizeL {α} : List (Node α) → Nat
  | [] => 0
  | k :: ks => Node.size k + Node.sizeL ks
end

end Cfr
