import CfrVerif.Model.Tree
/-!
# `Game::from_root` / `init_recurse`  (src/lib.rs, src/compact.rs)

State-passing transcription.  `Builder`/`OptBuilder` (insertion-ordered
`IndexMap`s) are association lists; an index is the position in the list.
Order of events mirrors the code: a chance node checks each weight, then
recurses into that child, *then* (post-order) normalises and registers its
infoset; a player node collects its actions, registers its infoset
(pre-order), then recurses into the children.
-/
namespace Cfr

structure BState (α : Type) where
  chance : List (Option Nat × List α) := []
  p1 : List PInfo := []
  p2 : List PInfo := []
  s1 : List (Nat × Nat) := []
  s2 : List (Nat × Nat) := []

def BState.infos {α} (s : BState α) (one : Bool) : List PInfo := if one then s.p1 else s.p2
def BState.singles {α} (s : BState α) (one : Bool) : List (Nat × Nat) := if one then s.s1 else s.s2
def BState.setInfos {α} (s : BState α) (one : Bool) (l : List PInfo) : BState α :=
  if one then { s with p1 := l } else { s with p2 := l }
def BState.setSingles {α} (s : BState α) (one : Bool) (l : List (Nat × Nat)) : BState α :=
  if one then { s with s1 := l } else { s with s2 := l }

/-- previous own decision per player, threaded down the DFS -/
structure Prev where
  one : Option (Nat × Nat) := none
  two : Option (Nat × Nat) := none
  deriving Repr, BEq, DecidableEq

def Prev.get (p : Prev) (one : Bool) : Option (Nat × Nat) := if one then p.one else p.two
def Prev.set (p : Prev) (one : Bool) (v : Option (Nat × Nat)) : Prev :=
  if one then { p with one := v } else { p with two := v }

section
variable {α : Type} [Zero α] [One α] [Add α] [Div α] [LT α] [DecidableLT α] [BEq α] [FloatLike α]

/-- the chance-infoset step of `init_recurse` after the children are built -/
def registerChance (info : Option Nat) (probs : List α) (kids : List (Node α)) (s : BState α) :
    Except GameError (Node α × BState α) :=
  match kids with
  | [] => .error .emptyChance
  | [k] =>
    match info with
    | none => .ok (k, s)
    | some l =>
      -- a named infoset is registered (with the degenerate distribution) although the node is collapsed
      match s.chance.find? (fun e => e.1 == some l) with
      | some e => if e.2 == [1] then .ok (k, s) else .error .probabilitiesNotEqual
      | none => .ok (k, { s with chance := s.chance ++ [(some l, [1])] })
  | _ =>
    let total := lsum probs
    let probs := probs.map (· / total)
    match info with
    | none => .ok (.chance s.chance.length kids, { s with chance := s.chance ++ [(none, probs)] })
    | some l =>
      match s.chance.findIdx? (fun e => e.1 == some l) with
      | some i =>
        if (s.chance[i]?.map (·.2)) == some probs then .ok (.chance i kids, s)
        else .error .probabilitiesNotEqual
      | none => .ok (.chance s.chance.length kids, { s with chance := s.chance ++ [(some l, probs)] })

/-- registration of a multi-action player infoset (before the children are visited) -/
def registerPlayer (one : Bool) (info : Nat) (acts : List Nat) (prev : Prev) (s : BState α) :
    Except GameError (Nat × BState α) :=
  match (s.infos one).findIdx? (fun e => e.label == info) with
  | some i =>
    match (s.infos one)[i]? with
    | some e =>
      if e.actions != acts then .error .actionsNotEqual
      else if e.prev != prev.get one then .error .imperfectRecall
      else .ok (i, s)
    | none => .error .actionsNotEqual -- unreachable
  | none =>
    if (s.singles one).any (fun e => e.1 == info) then .error .actionsNotEqual
    else if acts.eraseDups.length == acts.length then
      .ok ((s.infos one).length, s.setInfos one (s.infos one ++ [⟨info, acts, prev.get one⟩]))
    else .error .actionsNotUnique

/-- registration of a single-action infoset -/
def registerSingle (one : Bool) (info act : Nat) (s : BState α) : Except GameError (BState α) :=
  if (s.infos one).any (fun e => e.label == info) then .error .actionsNotEqual else
  match (s.singles one).find? (fun e => e.1 == info) with
  | some e => if e.2 != act then .error .actionsNotEqual else .ok s
  | none => .ok (s.setSingles one (s.singles one ++ [(info, act)]))

mutual
def compile : Raw α → Prev → BState α → Except GameError (Node α × BState α)
  | .term pay, _, s => if FloatLike.isFinite pay then .ok (.term pay, s) else .error .nonFinitePayoff
  | .chance info ws kids, prev, s =>
    match compileOutcomes ws kids prev s with
    | .error e => .error e
    | .ok (probs, nodes, s') => registerChance info probs nodes s'
  | .player one info acts kids, prev, s =>
    match acts, kids with
    | [], _ => .error .emptyPlayer
    | _, [] => .error .emptyPlayer
    | [a], k :: _ =>
      match registerSingle one info a s with
      | .error e => .error e
      | .ok s' => compile k prev s'
    | _ :: _ :: _, kids =>
      match registerPlayer one info acts prev s with
      | .error e => .error e
      | .ok (i, s') =>
        match compileActions kids one i 0 prev s' with
        | .error e => .error e
        | .ok (nodes, s'') => .ok (.player one i nodes, s'')
/-- the `for (prob, next) in raw_outcomes` loop -/
def compileOutcomes : List α → List (Raw α) → Prev → BState α →
    Except GameError (List α × List (Node α) × BState α)
  | w :: ws, k :: ks, prev, s =>
    if 0 < w && FloatLike.isFinite w then
      match compile k prev s with
      | .error e => .error e
      | .ok (n, s') =>
        match compileOutcomes ws ks prev s' with
        | .error e => .error e
        | .ok (ps, ns, s'') => .ok (w :: ps, n :: ns, s'')
    else .error .nonPositiveChance
  | _, _, _, s => .ok ([], [], s)
/-- the children of a multi-action player node; child `a` sees `prev[player] = (i, a)` -/
def compileActions : List (Raw α) → Bool → Nat → Nat → Prev → BState α →
    Except GameError (List (Node α) × BState α)
  | [], _, _, _, _, s => .ok ([], s)
  | k :: ks, one, i, a, prev, s =>
    match compile k (prev.set one (some (i, a))) s with
    | .error e => .error e
    | .ok (n, s') =>
      match compileActions ks one i (a + 1) prev s' with
      | .error e => .error e
      | .ok (ns, s'') => .ok (n :: ns, s'')
end

/-- `Game::from_root` -/
def fromRoot (r : Raw α) : Except GameError (Game α) :=
  match compile r {} {} with
  | .error e => .error e
  | .ok (root, s) =>
    .ok { chance := s.chance.map (·.2), p1 := s.p1, p2 := s.p2, s1 := s.s1, s2 := s.s2, root }

end
end Cfr
