import CfrVerif.Model.Vanilla
import CfrVerif.Model.External
/-!
# The traversals with their panics as values

`recurse_single` (vanilla.rs) and `recurse_regret` (external.rs) can panic in three ways that
depend on the *game and state*, not on arithmetic:

* `chance_infosets[chance.infoset]` — index out of bounds;
* `player_infosets[player.infoset]` — index out of bounds;
* `RefCell::borrow_mut` on an infoset whose mutable borrow is still held by a caller further up
  the recursion (vanilla: every decision node holds its infoset across the recursion into its
  children; external sampling: the updating player's nodes do) — "already borrowed".

`Model/Vanilla.lean` and `Model/External.lean` read tables with defaults (`getD`, `[i]?`) and have
no borrow bookkeeping.  This file states the same traversals with explicit checks: the result is
`none` exactly where the crate panics; `Props/C05.lean` proves that on every accepted game the
checked traversals return `some` of what the unchecked ones compute.
-/
namespace Cfr

section
variable {α : Type} [Zero α] [One α] [Add α] [Sub α] [Mul α] [Div α] [Neg α]
  [LT α] [DecidableLT α] [BEq α] [NatCast α] [FloatLike α] [Transc α]

/-- table sizes of the running solve: number of chance infosets, of player one's and of player
two's decision infosets -/
structure Sizes where
  chance : Nat
  one : Nat
  two : Nat

def Sizes.player (z : Sizes) (one : Bool) : Nat := if one then z.one else z.two

mutual
/-- `recurse_single` with its panics: `held` lists the infosets whose `RefCell` is mutably
borrowed by the callers up the recursion -/
def vrecK (z : Sizes) (c : VCtx α) (held : List (Bool × Nat)) :
    Node α → α → α → α → DrawSt α → Option (α × List (Eff α) × DrawSt α)
  | .term p, _, _, _, d => some (p, [], d)
  | .chance i ks, pc, p1, p2, d =>
    if i < z.chance then
      if c.sampled then
        let (k, d) := sampleChance c.draw c.pass (c.ch.getD i []) i d
        vrecNthK z c held ks k pc p1 p2 d
      else vrecChanceK z c held (c.ch.getD i []) ks pc p1 p2 d 0
    else none
  | .player one i ks, pc, p1, p2, d =>
    if i < z.player one ∧ (one, i) ∉ held then
      let σ := c.strat one i
      let own := if one then p1 else p2
      let mult := if one then pc * p2 else -p1 * pc
      match vrecActsK z c ((one, i) :: held) one i mult σ ks pc p1 p2 d 0 0 0 with
      | none => none
      | some (eo, ex, es, d) => some (eo, stratEffs one i own σ 0 ++ es ++ subEffs one i ex σ.length, d)
    else none
def vrecNthK (z : Sizes) (c : VCtx α) (held : List (Bool × Nat)) :
    List (Node α) → Nat → α → α → α → DrawSt α → Option (α × List (Eff α) × DrawSt α)
  | [], _, _, _, _, d => some (0, [], d)
  | k :: _, 0, pc, p1, p2, d => vrecK z c held k pc p1 p2 d
  | _ :: ks, n + 1, pc, p1, p2, d => vrecNthK z c held ks n pc p1 p2 d
def vrecChanceK (z : Sizes) (c : VCtx α) (held : List (Bool × Nat)) :
    List α → List (Node α) → α → α → α → DrawSt α → α → Option (α × List (Eff α) × DrawSt α)
  | p :: ps, k :: ks, pc, p1, p2, d, acc =>
    match vrecK z c held k (pc * p) p1 p2 d with
    | none => none
    | some (v, e, d) =>
      match vrecChanceK z c held ps ks pc p1 p2 d (acc + p * v) with
      | none => none
      | some (v', e', d') => some (v', e ++ e', d')
  | _, _, _, _, _, d, acc => some (acc, [], d)
def vrecActsK (z : Sizes) (c : VCtx α) (held : List (Bool × Nat)) (one : Bool) (i : Nat) (mult : α) :
    List α → List (Node α) → α → α → α → DrawSt α → Nat → α → α →
    Option (α × α × List (Eff α) × DrawSt α)
  | s :: σ, k :: ks, pc, p1, p2, d, a, eo, ex =>
    match (if one then vrecK z c held k pc (p1 * s) p2 d else vrecK z c held k pc p1 (p2 * s) d) with
    | none => none
    | some (v, e, d) =>
      let util := v * mult
      match vrecActsK z c held one i mult σ ks pc p1 p2 d (a + 1) (eo + s * v) (ex + util * s) with
      | none => none
      | some (eo', ex', e', d') => some (eo', ex', e ++ ⟨one, i, .regret, a, util⟩ :: e', d')
  | _, _, _, _, _, d, _, eo, ex => some (eo, ex, [], d)
end

mutual
/-- `recurse_regret` (single-threaded: `RefCell`) with its panics: only the updating player's
infosets are held across the recursion -/
def erecK (z : Sizes) (c : ECtx α) (held : List Nat) :
    Node α → DrawSt α → Option (α × List (Eff α) × DrawSt α)
  | .term p, d => some (if c.first then p else -p, [], d)
  | .chance i ks, d =>
    if i < z.chance then
      let (k, d) := sampleChance c.draw c.chancePass (c.ch.getD i []) i d
      erecNthK z c held ks k d
    else none
  | .player one i ks, d =>
    if i < z.player one then
      let σ := c.strat one i
      if one == c.first then
        if i ∈ held then none else
        match erecActsK z c (i :: held) one i σ ks d 0 0 with
        | none => none
        | some (ex, es, d) => some (ex, es ++ subEffsE one i ex σ.length, d)
      else
        let (k, d) := samplePlayer c.draw (if one then 1 else 2) c.playerPass σ i d
        match erecNthK z c held ks k d with
        | none => none
        | some (v, es, d) => some (v, extStratEffs one i σ 0 ++ es, d)
    else none
def erecNthK (z : Sizes) (c : ECtx α) (held : List Nat) :
    List (Node α) → Nat → DrawSt α → Option (α × List (Eff α) × DrawSt α)
  | [], _, d => some (0, [], d)
  | k :: _, 0, d => erecK z c held k d
  | _ :: ks, n + 1, d => erecNthK z c held ks n d
def erecActsK (z : Sizes) (c : ECtx α) (held : List Nat) (one : Bool) (i : Nat) :
    List α → List (Node α) → DrawSt α → Nat → α → Option (α × List (Eff α) × DrawSt α)
  | s :: σ, k :: ks, d, a, ex =>
    match erecK z c held k d with
    | none => none
    | some (util, e, d) =>
      match erecActsK z c held one i σ ks d (a + 1) (ex + s * util) with
      | none => none
      | some (ex', e', d') => some (ex', e ++ ⟨one, i, .regret, a, util⟩ :: e', d')
  | _, _, d, _, ex => some (ex, [], d)
end

/-- the table sizes of a game -/
def Game.sizes (g : Game α) : Sizes := ⟨g.chance.length, g.p1.length, g.p2.length⟩

end
end Cfr
