import CfrVerif.Model.Parallel
/-!
# The mutexes of `solve_external_multi` (src/solve/external.rs) as an interleaving model

In the multi-threaded external-sampling solver every infoset sits in a `std::sync::Mutex`:

* `ChanceRecurse for Mutex<_>`   : `self.lock().unwrap().next(chance)` — a blocking lock held for
  the draw only (the guard is dropped before the recursion continues);
* `ExternalRecurse for Mutex<_>` : `self.lock().unwrap().next_update(player)` — the same for the
  sampled player's infoset;
* `ActiveRecurse for Mutex<_>`   : `self.try_lock().unwrap().recurse(player, rec)` — the updating
  player's infoset is locked **without waiting** and the guard lives across the recursion into
  all children; if the mutex is held (by another worker, or further up the same recursion) the
  `unwrap` panics.

`Model/Parallel.lean` has the *effects* of the pool's tasks; this file has what the tasks do to
the mutexes, and a small-step semantics of the pool in which any worker may move next.  The
theorems (`Proofs/Locks.lean`, quoted by C05 and C07) are over every such interleaving.
-/
namespace Cfr

/-- the mutexes: chance infosets, and both players' infosets -/
inductive LockId where
  | chance (i : Nat)
  | player (one : Bool) (i : Nat)
  deriving DecidableEq, Repr, Inhabited

/-- what a worker does to a mutex -/
inductive LEv where
  /-- `try_lock().unwrap()` : acquires, or panics when the mutex is held -/
  | tryAcq (l : LockId)
  /-- `lock().unwrap()` : acquires, waiting while the mutex is held -/
  | acq (l : LockId)
  /-- the guard is dropped -/
  | rel (l : LockId)
  deriving DecidableEq, Repr, Inhabited

section
variable {α : Type} [Zero α] [One α] [Add α] [Sub α] [Mul α] [Div α] [Neg α]
  [LT α] [DecidableLT α] [BEq α] [NatCast α] [FloatLike α] [Transc α]

mutual
/-- the mutex events of `recurse_regret::<FIRST>` without a payoff cache (`&()`), in program
order; the draws are the ones `erec` makes -/
def etrace (c : ECtx α) : Node α → DrawSt α → List LEv × DrawSt α
  | .term _, d => ([], d)
  | .chance i ks, d =>
    let (k, d) := sampleChance c.draw c.chancePass (c.ch.getD i []) i d
    let (t, d) := etraceNth c ks k d
    (.acq (.chance i) :: .rel (.chance i) :: t, d)
  | .player one i ks, d =>
    let σ := c.strat one i
    if one == c.first then
      let (t, d) := etraceActs c σ ks d
      (.tryAcq (.player one i) :: t ++ [.rel (.player one i)], d)
    else
      let (k, d) := samplePlayer c.draw (if one then 1 else 2) c.playerPass σ i d
      let (t, d) := etraceNth c ks k d
      (.acq (.player one i) :: .rel (.player one i) :: t, d)
def etraceNth (c : ECtx α) : List (Node α) → Nat → DrawSt α → List LEv × DrawSt α
  | [], _, d => ([], d)
  | k :: _, 0, d => etrace c k d
  | _ :: ks, n + 1, d => etraceNth c ks n d
/-- the children visited by `ActiveInfo::recurse` (zipped with the strategy vector) -/
def etraceActs (c : ECtx α) : List α → List (Node α) → DrawSt α → List LEv × DrawSt α
  | _ :: σ, k :: ks, d =>
    let (t, d) := etrace c k d
    let (t', d') := etraceActs c σ ks d
    (t ++ t', d')
  | _, _, d => ([], d)
end

mutual
/-- the mutex events of the closing `recurse_regret::<FIRST>` from the root on the calling thread,
which stops at the nodes whose payoff the pool has cached -/
def etraceC (c : ECtx α) (cache : List (Path × α)) : Node α → Path → DrawSt α → List LEv × DrawSt α
  | n, path, d =>
    match cacheGet cache path with
    | some _ => ([], d)
    | none =>
      match n with
      | .term _ => ([], d)
      | .chance i ks =>
        let (k, d) := sampleChance c.draw c.chancePass (c.ch.getD i []) i d
        let (t, d) := etraceCNth c cache ks k (path ++ [k]) d
        (.acq (.chance i) :: .rel (.chance i) :: t, d)
      | .player one i ks =>
        let σ := c.strat one i
        if one == c.first then
          let (t, d) := etraceCActs c cache σ ks path d 0
          (.tryAcq (.player one i) :: t ++ [.rel (.player one i)], d)
        else
          let (k, d) := samplePlayer c.draw (if one then 1 else 2) c.playerPass σ i d
          let (t, d) := etraceCNth c cache ks k (path ++ [k]) d
          (.acq (.player one i) :: .rel (.player one i) :: t, d)
def etraceCNth (c : ECtx α) (cache : List (Path × α)) :
    List (Node α) → Nat → Path → DrawSt α → List LEv × DrawSt α
  | [], _, _, d => ([], d)
  | k :: _, 0, path, d => etraceC c cache k path d
  | _ :: ks, n + 1, path, d => etraceCNth c cache ks n path d
def etraceCActs (c : ECtx α) (cache : List (Path × α)) :
    List α → List (Node α) → Path → DrawSt α → Nat → List LEv × DrawSt α
  | _ :: σ, k :: ks, path, d, a =>
    let (t, d) := etraceC c cache k (path ++ [a]) d
    let (t', d') := etraceCActs c cache σ ks path d (a + 1)
    (t ++ t', d')
  | _, _, _, d, _ => ([], d)
end

/-- one trace per task handed to the pool (`work.queue.par_drain(..)`), draws as in `eRunTasks` -/
def eTaskTraces (c : ECtx α) : List (EItem α) → DrawSt α → List (List LEv) × DrawSt α
  | [], d => ([], d)
  | it :: rest, d =>
    let (t, d) := etrace c it.node d
    let (ts, d') := eTaskTraces c rest d
    (t :: ts, d')

/-- the tasks of one pass of `single_player_iter::<FIRST>` -/
def externalPoolTraces (g : Game α) (c : ECtx α) (target : Nat) (log : List (DrawRec α)) :
    List (List LEv) :=
  let size := g.root.size
  let (queue, _, d) := eThreshold c target size (2 * size + 2) [⟨[], g.root⟩] [] { log := log }
  (eTaskTraces c queue d).1

/-- the closing recursion of the same pass on the calling thread (after the pool has finished) -/
def externalClosingTrace (g : Game α) (c : ECtx α) (target : Nat) (log : List (DrawRec α)) :
    List LEv :=
  let size := g.root.size
  let (queue, _, d) := eThreshold c target size (2 * size + 2) [⟨[], g.root⟩] [] { log := log }
  let (cache, _, d) := eRunTasks c queue d
  (etraceC c cache g.root [] d).1

end

/-! ## the pool: any worker may move next -/

/-- remaining events of every task, and who holds which mutex -/
structure LCfg where
  tasks : List (List LEv)
  held : List (LockId × Nat)
  deriving Repr

def LCfg.init (ts : List (List LEv)) : LCfg := ⟨ts, []⟩

def LCfg.isHeld (cfg : LCfg) (l : LockId) : Bool := cfg.held.any (fun h => h.1 == l)

def LCfg.finished (cfg : LCfg) : Bool := cfg.tasks.all List.isEmpty

/-- outcome of letting task `j` take its next step -/
inductive LOut where
  | ok (cfg : LCfg)
  /-- `lock()` on a held mutex: the worker waits -/
  | blocked
  /-- `try_lock().unwrap()` on a held mutex -/
  | panic
  /-- the task has finished (or there is no such task) -/
  | idle
  deriving Repr

def lstep (cfg : LCfg) (j : Nat) : LOut :=
  match cfg.tasks[j]? with
  | none => .idle
  | some [] => .idle
  | some (e :: rest) =>
    match e with
    | .tryAcq l => if cfg.isHeld l then .panic else .ok ⟨cfg.tasks.set j rest, (l, j) :: cfg.held⟩
    | .acq l => if cfg.isHeld l then .blocked else .ok ⟨cfg.tasks.set j rest, (l, j) :: cfg.held⟩
    | .rel l => .ok ⟨cfg.tasks.set j rest, cfg.held.filter (fun h => !(h.1 == l && h.2 == j))⟩

/-- `LReach a n b` : `b` is reached from `a` by `n` steps of some thread schedule -/
inductive LReach : LCfg → Nat → LCfg → Prop where
  | refl (a : LCfg) : LReach a 0 a
  | step {a b c : LCfg} {n : Nat} (j : Nat) : LReach a n b → lstep b j = .ok c → LReach a (n + 1) c

/-- number of events still to be executed -/
def LCfg.remaining (cfg : LCfg) : Nat := (cfg.tasks.map List.length).sum

/-- run a given schedule (list of task numbers), stopping at the first panic; steps of blocked or
finished tasks are skipped (the scheduler picks another worker) -/
def lrun : LCfg → List Nat → Option LCfg
  | cfg, [] => some cfg
  | cfg, j :: js =>
    match lstep cfg j with
    | .ok cfg' => lrun cfg' js
    | .panic => none
    | .blocked => lrun cfg js
    | .idle => lrun cfg js

/-! ## decidable form of the hypotheses `Lk.PoolOK` (Proofs/LocksGeneric.lean)

`poolOKb` is run by the driver on the traces *observed* in the crate (feature `verif` logs every
`lock`, `try_lock` and guard drop per thread and pass); `Proofs/LocksCheck.lean` proves
`poolOKb ts = true → Lk.PoolOK ts`, so a positive answer puts the observed traces under the
theorems: no interleaving of them panics on a `try_lock` or deadlocks. -/

def tryLocksOf : List LEv → List LockId
  | [] => []
  | .tryAcq l :: t => l :: tryLocksOf t
  | _ :: t => tryLocksOf t

def blockLocksOf : List LEv → List LockId
  | [] => []
  | .acq l :: t => l :: blockLocksOf t
  | _ :: t => blockLocksOf t

def leafCSb : List LEv → Bool
  | [] => true
  | .acq l :: .rel l' :: t => l == l' && leafCSb t
  | .acq _ :: _ => false
  | _ :: t => leafCSb t

def relOKb : List LEv → Bool
  | [] => true
  | .tryAcq l :: t => t.contains (.rel l) && relOKb t
  | .acq l :: t => t.contains (.rel l) && relOKb t
  | .rel _ :: t => relOKb t

def nodupb : List LockId → Bool
  | [] => true
  | l :: ls => !ls.contains l && nodupb ls

def poolOKb (ts : List (List LEv)) : Bool :=
  let tr := ts.flatMap tryLocksOf
  let bl := ts.flatMap blockLocksOf
  nodupb tr && ts.all leafCSb && tr.all (fun l => !bl.contains l) && ts.all relOKb

/-- which hypothesis fails first (for the report) -/
def poolOKwhy (ts : List (List LEv)) : String :=
  let tr := ts.flatMap tryLocksOf
  let bl := ts.flatMap blockLocksOf
  if !nodupb tr then "a mutex is try_locked twice in one pass"
  else if !ts.all leafCSb then "a blocking lock() is not released by the thread's next mutex operation"
  else if !tr.all (fun l => !bl.contains l) then "a mutex is try_locked by one worker and lock()ed by another in the same pass"
  else if !ts.all relOKb then "an acquisition is never released"
  else "ok"

/-! ### the wider hypotheses `Lk.PoolOK2` (Proofs/LocksWide.lean)

A mutex that is acquired only once in the whole pass (by whatever call) is never contended, so it
may be held across other acquisitions whether it was taken by `try_lock` or by `lock`; every other
acquisition must be a blocking `lock()` released by the thread's next operation. -/

/-- every mutex some task acquires, with multiplicity -/
def acqLocksOf : List LEv → List LockId
  | [] => []
  | .tryAcq l :: t => l :: acqLocksOf t
  | .acq l :: t => l :: acqLocksOf t
  | .rel _ :: t => acqLocksOf t

/-- `wideOKb all t` : every acquisition in `t` is of a mutex acquired once in the pass (`all` lists
every acquisition of the pass), or a `lock()` released by the next operation -/
def wideOKb (all : List LockId) : List LEv → Bool
  | [] => true
  | .tryAcq l :: t => all.count l == 1 && wideOKb all t
  | .acq l :: .rel l' :: t =>
    if l == l' then wideOKb all t else all.count l == 1 && wideOKb all (.rel l' :: t)
  | .acq l :: t => all.count l == 1 && wideOKb all t
  | .rel _ :: t => wideOKb all t

def poolOK2b (ts : List (List LEv)) : Bool :=
  let all := ts.flatMap acqLocksOf
  ts.all (wideOKb all) && ts.all relOKb

def poolOK2why (ts : List (List LEv)) : String :=
  let all := ts.flatMap acqLocksOf
  if !ts.all (wideOKb all) then
    "a mutex acquired more than once in the pass is try_locked, or lock()ed and not released by the thread's next mutex operation"
  else if !ts.all relOKb then "an acquisition is never released"
  else "ok"

section
variable {α : Type} [Zero α] [One α] [Add α] [Sub α] [Mul α] [Div α] [Neg α]
  [LT α] [DecidableLT α] [BEq α] [NatCast α] [FloatLike α] [Transc α]

/-- the pass context `externalPass` builds -/
def externalCtx (g : Game α) (first : Bool) (draw : DrawFn α) (it : Nat) (s : SolveSt α) : ECtx α :=
  ⟨g.chance, first, s.strat, draw, 2 * (it - 1) + (if first then 0 else 1), if first then it - 1 else it⟩

/-- the mutex events of every pass of `n` iterations of external sampling from iteration `it`
(all nodes of the sampled tree: what the pool's tasks and the closing recursion do together) -/
def externalLockPasses (g : Game α) (p : RegretParams α) (draw : DrawFn α) :
    Nat → Nat → SolveSt α → List (DrawRec α) → List (List LEv)
  | 0, _, _, _ => []
  | n + 1, it, s, log =>
    let t1 := (etrace (externalCtx g true draw it s) g.root { log := log }).1
    match externalPass g true p draw it s log with
    | (s, _, log) =>
      let t2 := (etrace (externalCtx g false draw it s) g.root { log := log }).1
      match externalPass g false p draw it s log with
      | (s, _, log) => t1 :: t2 :: externalLockPasses g p draw n (it + 1) s log

end

end Cfr
