import CfrVerif.Model.Locks
/-!
# The mutexes of `solve_generic_multi` (src/solve/vanilla.rs)

In the multi-threaded full / chance-sampled solver the cumulative regrets are atomics; two kinds
of mutex remain:

* `MutexPlayerRecurse::update_cum_strat` : `self.cum_strat.lock().unwrap()` — one blocking lock per
  visited player node, held for the accumulation into the average strategy only (the guard is a
  temporary of the `zip` expression and is dropped at the end of the `for` statement, before the
  recursion into the children);
* `ChanceRecurse for Mutex<SampledChance>::next_nodes` : `self.lock().unwrap().sample()` — one
  blocking lock per visited chance node of the chance-sampled method, held for the draw only.  The
  unsampled method keeps its chance infosets in plain values: no mutex at all.

`vtrace` is what one traversal (`recurse_multi`, the same walk as `vrec` of `Model/Vanilla.lean`)
does to the mutexes, in program order.  Every acquisition is a blocking `lock()` released by the
very next operation of the same thread, no `try_lock` occurs: the traces of any set of tasks are
inside the hypotheses of the interleaving theorems (`Proofs/LocksVanilla.lean`).
-/
namespace Cfr

section
variable {α : Type} [Zero α] [One α] [Add α] [Sub α] [Mul α] [Div α] [Neg α]
  [LT α] [DecidableLT α] [BEq α] [NatCast α] [FloatLike α] [Transc α]

mutual
/-- the mutex events of `recurse_multi` without a payoff cache, in program order; the draws are
the ones `vrec` makes -/
def vtrace (c : VCtx α) : Node α → DrawSt α → List LEv × DrawSt α
  | .term _, d => ([], d)
  | .chance i ks, d =>
    if c.sampled then
      let (k, d) := sampleChance c.draw c.pass (c.ch.getD i []) i d
      let (t, d) := vtraceNth c ks k d
      (.acq (.chance i) :: .rel (.chance i) :: t, d)
    else vtraceChance c (c.ch.getD i []) ks d
  | .player one i ks, d =>
    let (t, d) := vtraceActs c (c.strat one i) ks d
    (.acq (.player one i) :: .rel (.player one i) :: t, d)
def vtraceNth (c : VCtx α) : List (Node α) → Nat → DrawSt α → List LEv × DrawSt α
  | [], _, d => ([], d)
  | k :: _, 0, d => vtrace c k d
  | _ :: ks, n + 1, d => vtraceNth c ks n d
/-- all outcomes of a chance node of the unsampled method (zipped with the probabilities) -/
def vtraceChance (c : VCtx α) : List α → List (Node α) → DrawSt α → List LEv × DrawSt α
  | _ :: ps, k :: ks, d =>
    let (t, d) := vtrace c k d
    let (t', d') := vtraceChance c ps ks d
    (t ++ t', d')
  | _, _, d => ([], d)
/-- the children visited by `recurse_player` (zipped with the strategy vector) -/
def vtraceActs (c : VCtx α) : List α → List (Node α) → DrawSt α → List LEv × DrawSt α
  | _ :: σ, k :: ks, d =>
    let (t, d) := vtrace c k d
    let (t', d') := vtraceActs c σ ks d
    (t ++ t', d')
  | _, _, d => ([], d)
end

/-- one trace per task: the subtrees handed to the pool, each with the draw state it starts from -/
def vTaskTraces (c : VCtx α) (tasks : List (Node α × DrawSt α)) : List (List LEv) :=
  tasks.map (fun t => (vtrace c t.1 t.2).1)

/-- the traversal context `vanillaIter` builds -/
def vanillaCtx (g : Game α) (sampled : Bool) (draw : DrawFn α) (it : Nat) (s : SolveSt α) : VCtx α :=
  ⟨g.chance, sampled, s.strat, draw, it - 1⟩

/-- the mutex events of every iteration of `n` iterations from iteration `it` (all nodes the
traversal visits: what the frontier's tasks and the closing recursion do together to the
players' mutexes) -/
def vanillaLockPasses (g : Game α) (sampled : Bool) (p : RegretParams α) (draw : DrawFn α) :
    Nat → Nat → SolveSt α → List (DrawRec α) → List (List LEv)
  | 0, _, _, _ => []
  | n + 1, it, s, log =>
    let t := (vtrace (vanillaCtx g sampled draw it s) g.root { log := log }).1
    match vanillaIter g sampled p draw it s log with
    | (s, _, _, log) => t :: vanillaLockPasses g sampled p draw n (it + 1) s log

/-- number of acquisitions of one mutex in a trace -/
def acqCount (l : LockId) : List LEv → Nat
  | [] => 0
  | .acq l' :: t => (if l = l' then 1 else 0) + acqCount l t
  | .tryAcq l' :: t => (if l = l' then 1 else 0) + acqCount l t
  | .rel _ :: t => acqCount l t

mutual
/-- number of nodes of player infoset `(one, i)` the traversal visits -/
def vvisits (c : VCtx α) (one : Bool) (i : Nat) : Node α → DrawSt α → Nat × DrawSt α
  | .term _, d => (0, d)
  | .chance j ks, d =>
    if c.sampled then
      let (k, d) := sampleChance c.draw c.pass (c.ch.getD j []) j d
      vvisitsNth c one i ks k d
    else vvisitsChance c one i (c.ch.getD j []) ks d
  | .player o j ks, d =>
    let (n, d) := vvisitsActs c one i (c.strat o j) ks d
    ((if o = one ∧ j = i then 1 else 0) + n, d)
def vvisitsNth (c : VCtx α) (one : Bool) (i : Nat) : List (Node α) → Nat → DrawSt α → Nat × DrawSt α
  | [], _, d => (0, d)
  | k :: _, 0, d => vvisits c one i k d
  | _ :: ks, n + 1, d => vvisitsNth c one i ks n d
def vvisitsChance (c : VCtx α) (one : Bool) (i : Nat) : List α → List (Node α) → DrawSt α → Nat × DrawSt α
  | _ :: ps, k :: ks, d =>
    let (n, d) := vvisits c one i k d
    let (n', d') := vvisitsChance c one i ps ks d
    (n + n', d')
  | _, _, d => (0, d)
def vvisitsActs (c : VCtx α) (one : Bool) (i : Nat) : List α → List (Node α) → DrawSt α → Nat × DrawSt α
  | _ :: σ, k :: ks, d =>
    let (n, d) := vvisits c one i k d
    let (n', d') := vvisitsActs c one i σ ks d
    (n + n', d')
  | _, _, d => (0, d)
end

end
end Cfr
