import CfrVerif.Model.Solve
/-!
# `src/solve/vanilla.rs` : full and chance-sampled CFR, single-threaded
-/
namespace Cfr

section
variable {α : Type} [Zero α] [One α] [Add α] [Sub α] [Mul α] [Div α] [Neg α]
  [LT α] [DecidableLT α] [BEq α] [NatCast α] [FloatLike α] [Transc α]

/-- read-only context of a traversal -/
structure VCtx (α : Type) where
  ch : List (List α)
  sampled : Bool
  strat : Bool → Nat → List α
  draw : DrawFn α
  pass : Nat

/-- `update_cum_strat(prob)` : `cum_strat[a] += prob * strat[a]` -/
def stratEffs (one : Bool) (i : Nat) (own : α) : List α → Nat → List (Eff α)
  | [], _ => []
  | s :: σ, a => ⟨one, i, .strat, a, own * s⟩ :: stratEffs one i own σ (a + 1)

/-- `for val in cum_regret: *val -= sub` -/
def subEffs (one : Bool) (i : Nat) (sub : α) (n : Nat) : List (Eff α) :=
  (List.range n).map (fun a => ⟨one, i, .regret, a, -sub⟩)

mutual
/-- `recurse_single` : returns player one's value of the subtree, the effect, the sample caches -/
def vrec (c : VCtx α) : Node α → α → α → α → DrawSt α → α × List (Eff α) × DrawSt α
  | .term p, _, _, _, d => (p, [], d)
  | .chance i ks, pc, p1, p2, d =>
    if c.sampled then
      let (k, d) := sampleChance c.draw c.pass (c.ch.getD i []) i d
      vrecNth c ks k pc p1 p2 d
    else vrecChance c (c.ch.getD i []) ks pc p1 p2 d 0
  | .player one i ks, pc, p1, p2, d =>
    let σ := c.strat one i
    let own := if one then p1 else p2
    let mult := if one then pc * p2 else -p1 * pc
    let (eo, ex, es, d) := vrecActs c one i mult σ ks pc p1 p2 d 0 0 0
    (eo, stratEffs one i own σ 0 ++ es ++ subEffs one i ex σ.length, d)
/-- the sampled outcome `chance.outcomes[ind]` with probability `1.0` -/
def vrecNth (c : VCtx α) : List (Node α) → Nat → α → α → α → DrawSt α → α × List (Eff α) × DrawSt α
  | [], _, _, _, _, d => (0, [], d)
  | k :: _, 0, pc, p1, p2, d => vrec c k pc p1 p2 d
  | _ :: ks, n + 1, pc, p1, p2, d => vrecNth c ks n pc p1 p2 d
/-- all outcomes of a chance node, `expected += prob * payoff` -/
def vrecChance (c : VCtx α) : List α → List (Node α) → α → α → α → DrawSt α → α →
    α × List (Eff α) × DrawSt α
  | p :: ps, k :: ks, pc, p1, p2, d, acc =>
    let (v, e, d) := vrec c k (pc * p) p1 p2 d
    let (v', e', d') := vrecChance c ps ks pc p1 p2 d (acc + p * v)
    (v', e ++ e', d')
  | _, _, _, _, _, d, acc => (acc, [], d)
/-- `recurse_player` : the loop over the actions of a player node -/
def vrecActs (c : VCtx α) (one : Bool) (i : Nat) (mult : α) : List α → List (Node α) →
    α → α → α → DrawSt α → Nat → α → α → α × α × List (Eff α) × DrawSt α
  | s :: σ, k :: ks, pc, p1, p2, d, a, eo, ex =>
    let (v, e, d) := if one then vrec c k pc (p1 * s) p2 d else vrec c k pc p1 (p2 * s) d
    let util := v * mult
    let (eo', ex', e', d') := vrecActs c one i mult σ ks pc p1 p2 d (a + 1) (eo + s * v) (ex + util * s)
    (eo', ex', e ++ ⟨one, i, .regret, a, util⟩ :: e', d')
  | _, _, _, _, _, d, _, eo, ex => (eo, ex, [], d)
end

/-- one iteration of `solve_generic_single` (traversal, reset of the chance caches, `advance`) -/
def vanillaIter (g : Game α) (sampled : Bool) (p : RegretParams α) (draw : DrawFn α)
    (it : Nat) (s : SolveSt α) (log : List (DrawRec α)) : SolveSt α × α × α × List (DrawRec α) :=
  let c : VCtx α := ⟨g.chance, sampled, s.strat, draw, it - 1⟩
  let (_, es, d) := vrec c g.root 1 1 1 { log := log }
  let s := s.applyEffs es
  let (one, r1) := advanceAll p it it s.one 0
  let (two, r2) := advanceAll p it it s.two 0
  (⟨one, two⟩, r1, r2, d.log)

/-- `solve_full_single` / `solve_sampled_single` -/
def solveVanillaSingle (g : Game α) (sampled : Bool) (p : RegretParams α) (draw : DrawFn α)
    (maxIter : Nat) (thr : Option (Ext α)) : SolveOut α :=
  solveWith g (vanillaIter g sampled p draw) maxIter thr

end
end Cfr
