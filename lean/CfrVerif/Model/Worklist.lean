import CfrVerif.Model.Eval
/-!
# `optimal_deviations` with its work-list, as the crate schedules it (src/regret.rs)

`Model/Eval.lean` resolves the infosets in decreasing index order.  The crate instead keeps, per
infoset, the reached nodes (`prob_nodes`), the number of reached nodes of *later* infosets whose
previous infoset it is (`future_nodes`) and the resolved value (`max_utility`), and drives a LIFO
work-list: an infoset is resolved once its `future_nodes` counter has dropped to zero; resolving
it takes its nodes, decrements the counter of its previous infoset by their number and pushes that
infoset when the counter reaches zero.  This file models that bookkeeping literally;
`Proofs/WorklistEq.lean` proves that on every well-formed game it computes the same value.
-/
namespace Cfr

/-- `DeviationInfo` -/
structure DevInfo (α : Type) where
  future : Nat
  nodes : List (Reached α)
  maxU : α

section
variable {α : Type} [Zero α] [One α] [Add α] [Sub α] [Mul α] [Div α] [Neg α]
  [LT α] [DecidableLT α] [FloatLike α]

/-- the first loop: every reached own node is filed under its infoset, and counts as a future
node of that infoset's previous infoset -/
def wlCollect (prev : Nat → Option Nat) : List (Reached α) → List (DevInfo α) → List (DevInfo α)
  | [], infos => infos
  | h :: hs, infos =>
    let infos := infos.modify h.info (fun d => { d with nodes := d.nodes ++ [h] })
    let infos := match prev h.info with
      | some j => infos.modify j (fun d => { d with future := d.future + 1 })
      | none => infos
    wlCollect prev hs infos

/-- the initial work-list: infosets without future nodes that were reached, in index order -/
def wlInitial (infos : List (DevInfo α)) : List Nat :=
  (List.range infos.length).filter (fun i =>
    match infos[i]? with
    | some d => d.future == 0 && !d.nodes.isEmpty
    | none => false)

/-- one turn of `while let Some(info) = info_queue.pop()` -/
def wlStep (prev : Nat → Option Nat) (nActs : Nat → Nat) (I : Nat) (queue : List Nat)
    (infos : List (DevInfo α)) : List Nat × List (DevInfo α) :=
  match infos[I]? with
  | none => (queue, infos)
  | some d =>
    let nodes := d.nodes
    let infos := infos.set I { d with nodes := [] }
    let total := lsum (nodes.map (·.reach))
    let (queue, infos) :=
      match prev I with
      | none => (queue, infos)
      | some j =>
        match infos[j]? with
        | none => (queue, infos)
        | some dj =>
          let f := dj.future - nodes.length
          (if f == 0 then queue ++ [j] else queue, infos.set j { dj with future := f })
    let mu := infos.map (·.maxU)
    let payoffs := nodes.foldl (fun acc n => addPayoffs mu n.reach acc n.kids) (List.replicate (nActs I) 0)
    match maxList payoffs with
    | some m => (queue, infos.modify I (fun d => { d with maxU := m / total }))
    | none => (queue, infos)

/-- the work-list loop; `fuel` = number of infosets (each is resolved at most once) -/
def wlLoop (prev : Nat → Option Nat) (nActs : Nat → Nat) :
    Nat → List Nat → List (DevInfo α) → List (DevInfo α)
  | 0, _, infos => infos
  | fuel + 1, queue, infos =>
    match queue.getLast? with
    | none => infos
    | some I =>
      let (queue, infos) := wlStep prev nActs I queue.dropLast infos
      wlLoop prev nActs fuel queue infos

/-- `optimal_deviations::<me>` with the crate's work-list -/
def optimalDeviationsWL (g : Game α) (me : Bool) (σo : Strat α) : α :=
  let infos := g.infos me
  let prev : Nat → Option Nat := fun i => ((infos.getD i default).prev).map (·.1)
  let nActs : Nat → Nat := fun i => (infos.getD i default).actions.length
  let v := view g.chance σo me g.root
  let table := wlCollect prev (collect v 1) (List.replicate infos.length ⟨0, [], 0⟩)
  let table := wlLoop prev nActs (infos.length + 1) (wlInitial table) table
  search (table.map (·.maxU)) v

/-- `regret::regret` with the crate's work-list -/
def getInfoWL (g : Game α) (σ : Bool → Strat α) : StrategiesInfo α :=
  let e := expected g.chance σ g.root
  let one := optimalDeviationsWL g true (σ false)
  let two := optimalDeviationsWL g false (σ true)
  ⟨e, fmax (one - e) 0, fmax (two + e) 0⟩

end
end Cfr
