import CfrVerif.Model.Tree
import CfrVerif.Model.Params
/-!
# Solver state, effects, draws — shared by the three solvers

A traversal only *adds* to `cum_regret` / `cum_strat` and only *reads* `strat`
and the cached samples.  The model therefore makes a traversal return its
**effect**: the list of atomic accumulations in the order the code performs
them.  Applying the list in order reproduces the single-threaded arithmetic
exactly; the multi-threaded code performs the same atomic adds
(`fetch_add`, mutex-protected `+=`) in some interleaving.
-/
namespace Cfr

inductive Slot where
  | regret | strat
  deriving Repr, BEq, DecidableEq, Inhabited

/-- one atomic accumulation `infoset.slot[act] += delta` -/
structure Eff (α : Type) where
  one : Bool
  info : Nat
  slot : Slot
  act : Nat
  delta : α

/-- `RegretInfoset` -/
structure InfoSt (α : Type) where
  cumRegret : List α
  cumStrat : List α
  strat : List α

/-- the per-player infoset tables of a running solve -/
structure SolveSt (α : Type) where
  one : List (InfoSt α)
  two : List (InfoSt α)

def SolveSt.get {α} (s : SolveSt α) (one : Bool) : List (InfoSt α) := if one then s.one else s.two
def SolveSt.set {α} (s : SolveSt α) (one : Bool) (l : List (InfoSt α)) : SolveSt α :=
  if one then { s with one := l } else { s with two := l }

/-- the draw oracle: `(kind, infoset index, pass, weights) ↦ index`;
kind `0` = chance infoset, `1`/`2` = infoset of player one/two (external sampling) -/
abbrev DrawFn (α : Type) := Nat → Nat → Nat → List α → Nat

structure DrawRec (α : Type) where
  kind : Nat
  id : Nat
  pass : Nat
  weights : List α
  result : Nat

/-- per-pass sample caches (`SampledChance.cached`, `CachedInfoset.cached`) and the draw log -/
structure DrawSt (α : Type) where
  chance : List (Nat × Nat) := []
  player : List (Nat × Nat) := []
  log : List (DrawRec α) := []

def DrawSt.resetChance {α} (d : DrawSt α) : DrawSt α := { d with chance := [] }
def DrawSt.resetPlayer {α} (d : DrawSt α) : DrawSt α := { d with player := [] }

def assocGet (l : List (Nat × Nat)) (k : Nat) : Option Nat :=
  (l.find? (fun e => e.1 == k)).map (·.2)

section
variable {α : Type} [Zero α] [One α] [Add α] [Sub α] [Mul α] [Div α] [Neg α]
  [LT α] [DecidableLT α] [BEq α] [NatCast α] [FloatLike α] [Transc α]

/-- `RegretInfoset::new` -/
def InfoSt.new (n : Nat) : InfoSt α :=
  ⟨List.replicate n 0, List.replicate n 0, List.replicate n (1 / (n : α))⟩

def SolveSt.init (g : Game α) : SolveSt α :=
  ⟨g.p1.map (fun i => InfoSt.new i.actions.length), g.p2.map (fun i => InfoSt.new i.actions.length)⟩

def SolveSt.strat (s : SolveSt α) (one : Bool) (i : Nat) : List α :=
  match (s.get one)[i]? with
  | some x => x.strat
  | none => []

def addAt (l : List α) (a : Nat) (d : α) : List α := l.modify a (· + d)

def InfoSt.apply (x : InfoSt α) (slot : Slot) (a : Nat) (d : α) : InfoSt α :=
  match slot with
  | .regret => { x with cumRegret := addAt x.cumRegret a d }
  | .strat => { x with cumStrat := addAt x.cumStrat a d }

def SolveSt.applyEff (s : SolveSt α) (e : Eff α) : SolveSt α :=
  s.set e.one ((s.get e.one).modify e.info (fun x => x.apply e.slot e.act e.delta))

def SolveSt.applyEffs (s : SolveSt α) (es : List (Eff α)) : SolveSt α := es.foldl SolveSt.applyEff s

/-- `SampledChance::sample` (cached per pass) -/
def sampleChance (draw : DrawFn α) (pass : Nat) (probs : List α) (i : Nat) (d : DrawSt α) :
    Nat × DrawSt α :=
  match assocGet d.chance i with
  | some k => (k, d)
  | none =>
    let k := draw 0 i pass probs
    (k, { d with chance := (i, k) :: d.chance, log := ⟨0, i, pass, probs, k⟩ :: d.log })

/-- `CachedInfoset::sample` (cached per pass) -/
def samplePlayer (draw : DrawFn α) (kind pass : Nat) (strat : List α) (i : Nat) (d : DrawSt α) :
    Nat × DrawSt α :=
  match assocGet d.player i with
  | some k => (k, d)
  | none =>
    let k := draw kind i pass strat
    (k, { d with player := (i, k) :: d.player, log := ⟨kind, i, pass, strat, k⟩ :: d.log })

/-- `advance` of a vanilla infoset: match, discount regrets, discount average, report -/
def InfoSt.advance (p : RegretParams α) (it : Nat) (itAvg : Nat) (x : InfoSt α) : InfoSt α × α :=
  let strat := regretMatch p.noPositive x.cumRegret
  let cr := discountCumRegret p it x.cumRegret
  let cs := discountAverageStrat p itAvg x.cumStrat
  (⟨cr, cs, strat⟩, cumRegretBound it cr)

/-- advance every infoset of one player, summing the reported bounds (`Iterator::sum`) -/
def advanceAll (p : RegretParams α) (it itAvg : Nat) : List (InfoSt α) → α → List (InfoSt α) × α
  | [], acc => ([], acc)
  | x :: xs, acc =>
    let (x', b) := x.advance p it itAvg
    let (xs', acc') := advanceAll p it itAvg xs (acc + b)
    (x' :: xs', acc')

/-- `into_avg_strat` of every infoset -/
def SolveSt.avg (s : SolveSt α) (one : Bool) : List (List α) := (s.get one).map (fun x => avgStrat x.cumStrat)

/-- result of a solve: per-player bounds (`∞` before the first iteration) and average strategies -/
structure SolveOut (α : Type) where
  regOne : Ext α
  regTwo : Ext α
  stratOne : List (List α)
  stratTwo : List (List α)
  iters : Nat
  log : List (DrawRec α)

/-- `f64::max(reg_one, reg_two) < max_reg`; the threshold is `none` when it is NaN -/
def belowThreshold (r1 r2 : α) (thr : Option (Ext α)) : Bool :=
  match thr with
  | none => false
  | some t => Ext.lt (.fin (fmax r1 r2)) t

/-- one iteration of a solver: `(iteration number, state, draw log) ↦ (state, bound one, bound two, draw log)` -/
abbrev IterFn (α : Type) := Nat → SolveSt α → List (DrawRec α) → SolveSt α × α × α × List (DrawRec α)

/-- the `for it in 1..=max_iter` loop shared by all solvers, with its `break`:
`n` iterations remain, `it` is the number of the next one -/
def solveLoop (step : IterFn α) (thr : Option (Ext α)) :
    Nat → Nat → SolveSt α → Ext α → Ext α → List (DrawRec α) → SolveOut α
  | 0, it, s, r1, r2, log => ⟨r1, r2, s.avg true, s.avg false, it - 1, log⟩
  | n + 1, it, s, _, _, log =>
    match step it s log with
    | (s, r1, r2, log) =>
      if belowThreshold r1 r2 thr then ⟨.fin r1, .fin r2, s.avg true, s.avg false, it, log⟩
      else solveLoop step thr n (it + 1) s (.fin r1) (.fin r2) log

/-- a whole solve from the initial state -/
def solveWith (g : Game α) (step : IterFn α) (maxIter : Nat) (thr : Option (Ext α)) : SolveOut α :=
  solveLoop step thr maxIter 1 (SolveSt.init g) .posInf .posInf []

end
end Cfr
