/-!
# Scalars of the model

The model (L1) is written once against core notation classes only, so that the
*same definitions* are compiled into the native driver at `Float` (IEEE doubles)
and instantiated at ordered fields (`ℚ`, `ℝ`) in the proof files.  This file is
Mathlib-free, like every file under `CfrVerif/Model`.
-/
namespace Cfr

/-- Transcendental operations the crate uses (`ln`, `exp`, `ln_1p`, `powf`). -/
class Transc (α : Type) where
  exp : α → α
  log : α → α
  log1p : α → α
  pow : α → α → α
  ln2 : α

/-- Float-only predicates.  At an exact field `isFinite = true`, `isNaN = false`. -/
class FloatLike (α : Type) where
  isFinite : α → Bool
  isNaN : α → Bool

/-- An `f64` that may also be `±∞` (used where the crate *documents* infinities as
values: the discount exponents, the soft-max weight, the bound before the first
iteration, the early-termination threshold). -/
inductive Ext (α : Type) where
  | negInf
  | fin (x : α)
  | posInf
  deriving Repr, BEq, DecidableEq, Inhabited

section
variable {α : Type} [LT α] [DecidableLT α] [FloatLike α]

/-- `f64::max` : if one argument is NaN the other is returned. -/
def fmax (a b : α) : α :=
  if FloatLike.isNaN a then b else if FloatLike.isNaN b then a else if a < b then b else a

/-- `f64::min`. -/
def fmin (a b : α) : α :=
  if FloatLike.isNaN a then b else if FloatLike.isNaN b then a else if b < a then b else a

/-- `a < b` on extended values whose finite parts are not NaN. -/
def Ext.lt : Ext α → Ext α → Bool
  | .negInf, .negInf => false
  | .negInf, _ => true
  | .fin _, .negInf => false
  | .fin x, .fin y => decide (x < y)
  | .fin _, .posInf => true
  | .posInf, _ => false

/-- `f64::max` on extended values. -/
def Ext.max : Ext α → Ext α → Ext α
  | .posInf, _ => .posInf
  | _, .posInf => .posInf
  | .negInf, b => b
  | a, .negInf => a
  | .fin x, .fin y => .fin (fmax x y)
end

/-- Sum of a list in `Iterator::sum` order (left fold from `0`).
NB: Rust's float `sum()` starts from `-0.0`/`0.0`; irrelevant up to the sign of zero. -/
def lsum {α : Type} [Zero α] [Add α] (l : List α) : α := l.foldl (· + ·) 0

end Cfr
