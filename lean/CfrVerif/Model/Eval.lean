import CfrVerif.Model.Tree
/-!
# `src/regret.rs` : expected utility, best-response value, regret

`expected` and `next_infoset_search` use an explicit stack in the crate; here
they are structural recursions computing the same sums (in a different
association order, which matters only for rounding).

`optimal_deviations::<PLAYER>` looks at the game from one player's side: the
opponent's decision nodes and the chance nodes are both "the rest of the world
moves with known probabilities" (`search_queue.push((next, prob * reach))`), with
the one difference that zero-probability opponent actions are not followed.  The
model makes that view explicit (`V`, `view`) and runs the algorithm on it:
collect the reached own nodes per infoset, resolve the infosets leaves-first
(the crate uses a work-list driven by `future_nodes` counters; because
`prev(I) < I` in insertion order, resolving in *decreasing index order* is one of
the orders the work-list can take, and each infoset's value depends only on
already resolved ones, so the values coincide), then evaluate the root.
-/
namespace Cfr

/-- a behavioural strategy of one player: one probability vector per multi-action infoset -/
abbrev Strat (α : Type) := List (List α)

/-- the game as one player sees it: terminals (in that player's own utility), moves of the
rest of the world (chance and the opponent's fixed strategy) with their probabilities, own
decisions -/
inductive V (α : Type) where
  | term (u : α)
  | nature (ws : List α) (kids : List (V α))
  | decide (info : Nat) (kids : List (V α))
  deriving Inhabited

section
variable {α : Type} [Zero α] [One α] [Add α] [Sub α] [Mul α] [Div α] [Neg α]
  [LT α] [DecidableLT α] [FloatLike α]

def Strat.at (σ : Strat α) (i : Nat) : List α := σ.getD i []

mutual
/-- `expected` : reach-weighted sum over terminals (zero-probability player edges skipped) -/
def expected (ch : List (List α)) (σ : Bool → Strat α) : Node α → α
  | .term p => p
  | .chance i ks => expectedL ch σ false (ch.getD i []) ks
  | .player one i ks => expectedL ch σ true ((σ one).at i) ks
def expectedL (ch : List (List α)) (σ : Bool → Strat α) (skip : Bool) : List α → List (Node α) → α
  | p :: ps, k :: ks =>
    (if skip && !(0 < p) then 0 else p * expected ch σ k) + expectedL ch σ skip ps ks
  | _, _ => 0
end

mutual
/-- the game seen by player `me` when the opponent plays `σo` -/
def view (ch : List (List α)) (σo : Strat α) (me : Bool) : Node α → V α
  | .term p => .term (if me then p else -p)
  | .chance i ks => .nature (ch.getD i []) (viewL ch σo me ks)
  | .player one i ks =>
    if one == me then .decide i (viewL ch σo me ks) else .nature (σo.at i) (viewL ch σo me ks)
def viewL (ch : List (List α)) (σo : Strat α) (me : Bool) : List (Node α) → List (V α)
  | [] => []
  | k :: ks => view ch σo me k :: viewL ch σo me ks
end

/-- a reached own node: its infoset, its children, the reach of the rest of the world -/
structure Reached (α : Type) where
  info : Nat
  kids : List (V α)
  reach : α

mutual
/-- first loop of `optimal_deviations`: own nodes reached with positive probability; a node whose
reach probability underflowed to zero (`reach <= 0.0` when it is popped) counts as unreached -/
def collect : V α → α → List (Reached α)
  | .term _, _ => []
  | .nature ws ks, r => collectN ws ks r
  | .decide i ks, r => ⟨i, ks, r⟩ :: collectD ks r
def collectN : List α → List (V α) → α → List (Reached α)
  | w :: ws, k :: ks, r => (if 0 < w && 0 < w * r then collect k (w * r) else []) ++ collectN ws ks r
  | _, _, _ => []
def collectD : List (V α) → α → List (Reached α)
  | [], _ => []
  | k :: ks, r => collect k r ++ collectD ks r
end

mutual
/-- `next_infoset_search` : value of a continuation up to the player's next infosets,
whose values are looked up in `mu` -/
def search (mu : List α) : V α → α
  | .term u => u
  | .nature ws ks => searchN mu ws ks
  | .decide i _ => mu.getD i 0
def searchN (mu : List α) : List α → List (V α) → α
  | w :: ws, k :: ks => (if 0 < w then w * search mu k else 0) + searchN mu ws ks
  | _, _ => 0
end

/-- `reduce(f64::max)` -/
def maxList : List α → Option α
  | [] => none
  | x :: xs => some (xs.foldl fmax x)

/-- pointwise `payoffs[a] += search(child a) * reach` for one reached node -/
def addPayoffs (mu : List α) (r : α) : List α → List (V α) → List α
  | acc :: accs, k :: ks => (acc + search mu k * r) :: addPayoffs mu r accs ks
  | accs, _ => accs

/-- per-action counterfactual value of infoset `I` over its reached nodes -/
def infoPayoffs (nodes : List (Reached α)) (nActs : Nat) (I : Nat) (mu : List α) : List α :=
  (nodes.filter (·.info == I)).foldl (fun acc n => addPayoffs mu n.reach acc n.kids)
    (List.replicate nActs 0)

/-- resolve infoset `I`: maximum of its per-action values, divided by the total reach -/
def resolveOne (nodes : List (Reached α)) (nActs : Nat) (I : Nat) (mu : List α) : List α :=
  let mine := nodes.filter (·.info == I)
  if mine.isEmpty then mu else
  let total := lsum (mine.map (·.reach))
  match maxList (infoPayoffs nodes nActs I mu) with
  | some m => mu.set I (m / total)
  | none => mu

/-- resolve infosets `n-1, n-2, …, 0` -/
def resolveAll (nodes : List (Reached α)) (nActs : Nat → Nat) : Nat → List α → List α
  | 0, mu => mu
  | n + 1, mu => resolveAll nodes nActs n (resolveOne nodes (nActs n) n mu)

/-- the best-response value on a view: `N` infosets with `nActs i` actions each -/
def bestResponse (N : Nat) (nActs : Nat → Nat) (v : V α) : α :=
  let nodes := collect v 1
  let mu := resolveAll nodes nActs N (List.replicate N 0)
  search mu v

/-- `optimal_deviations::<me>` : value of `me`'s best response against `σo` -/
def optimalDeviations (g : Game α) (me : Bool) (σo : Strat α) : α :=
  let infos := g.infos me
  bestResponse infos.length (fun i => (infos.getD i default).actions.length)
    (view g.chance σo me g.root)

structure StrategiesInfo (α : Type) where
  util : α
  regretOne : α
  regretTwo : α

/-- `regret::regret` / `Strategies::get_info` -/
def getInfo (g : Game α) (σ : Bool → Strat α) : StrategiesInfo α :=
  let e := expected g.chance σ g.root
  let one := optimalDeviations g true (σ false)
  let two := optimalDeviations g false (σ true)
  ⟨e, fmax (one - e) 0, fmax (two + e) 0⟩

def StrategiesInfo.regret (i : StrategiesInfo α) : α := fmax i.regretOne i.regretTwo
def StrategiesInfo.playerUtility (i : StrategiesInfo α) (one : Bool) : α :=
  if one then i.util else -i.util
def StrategiesInfo.playerRegret (i : StrategiesInfo α) (one : Bool) : α :=
  if one then i.regretOne else i.regretTwo

end
end Cfr
