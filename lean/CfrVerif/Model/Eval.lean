import CfrVerif.Model.Tree
/-!
# `src/regret.rs` : expected utility, best-response value, regret

`expected` and `next_infoset_search` use an explicit stack in the crate; here
they are structural recursions computing the same sums (in a different
association order, which matters only for rounding).  `optimal_deviations`
resolves infosets leaves-first with a work-list driven by `future_nodes`
counters; because `prev(I) < I` in insertion order, resolving in *decreasing
index order* is one of the orders the work-list can take, and each infoset's
value depends only on already resolved ones — so the values coincide.
-/
namespace Cfr

/-- a behavioural strategy of one player: one probability vector per multi-action infoset -/
abbrev Strat (α : Type) := List (List α)

section
variable {α : Type} [Zero α] [One α] [Add α] [Sub α] [Mul α] [Div α] [Neg α]
  [LT α] [DecidableLT α] [FloatLike α]

def Strat.at (σ : Strat α) (i : Nat) : List α := σ.getD i []

mutual
/-- `expected` : reach-weighted sum over terminals (zero-probability player edges skipped) -/
def expected (ch : List (List α)) (σ : Bool → Strat α) : Node α → α
  | .term p => p
  | .chance i ks => expectedL ch σ false (ch.getD i []) ks
  | .player one i ks => expectedL ch σ true ((σ one).at i) ks
def expectedL (ch : List (List α)) (σ : Bool → Strat α) (skip : Bool) : List α → List (Node α) → α
  | p :: ps, k :: ks =>
    (if skip && !(0 < p) then 0 else p * expected ch σ k) + expectedL ch σ skip ps ks
  | _, _ => 0
end

/-- a reached own node: its infoset, its children, the opponent×chance reach -/
structure Reached (α : Type) where
  info : Nat
  kids : List (Node α)
  reach : α

mutual
/-- first loop of `optimal_deviations`: own nodes reached with positive opponent probability -/
def collect (ch : List (List α)) (σo : Strat α) (me : Bool) : Node α → α → List (Reached α)
  | .term _, _ => []
  | .chance i ks, r => collectL ch σo me false (ch.getD i []) ks r
  | .player one i ks, r =>
    if one == me then ⟨i, ks, r⟩ :: collectOwn ch σo me ks r
    else collectL ch σo me true (σo.at i) ks r
def collectL (ch : List (List α)) (σo : Strat α) (me : Bool) (skip : Bool) :
    List α → List (Node α) → α → List (Reached α)
  | p :: ps, k :: ks, r =>
    (if skip && !(0 < p) then [] else collect ch σo me k (p * r)) ++ collectL ch σo me skip ps ks r
  | _, _, _ => []
def collectOwn (ch : List (List α)) (σo : Strat α) (me : Bool) : List (Node α) → α → List (Reached α)
  | [], _ => []
  | k :: ks, r => collect ch σo me k r ++ collectOwn ch σo me ks r
end

mutual
/-- `next_infoset_search` : value of a continuation up to the player's next infosets,
whose values are looked up in `mu` -/
def search (ch : List (List α)) (σo : Strat α) (me : Bool) (mu : List α) : Node α → α
  | .term p => if me then p else -p
  | .chance i ks => searchL ch σo me mu false (ch.getD i []) ks
  | .player one i ks =>
    if one == me then mu.getD i 0 else searchL ch σo me mu true (σo.at i) ks
def searchL (ch : List (List α)) (σo : Strat α) (me : Bool) (mu : List α) (skip : Bool) :
    List α → List (Node α) → α
  | p :: ps, k :: ks =>
    (if skip && !(0 < p) then 0 else p * search ch σo me mu k) + searchL ch σo me mu skip ps ks
  | _, _ => 0
end

/-- `reduce(f64::max)` -/
def maxList : List α → Option α
  | [] => none
  | x :: xs => some (xs.foldl fmax x)

/-- pointwise `payoffs[a] += search(child a) * reach` for one reached node -/
def addPayoffs (ch : List (List α)) (σo : Strat α) (me : Bool) (mu : List α) (r : α) :
    List α → List (Node α) → List α
  | acc :: accs, k :: ks => (acc + search ch σo me mu k * r) :: addPayoffs ch σo me mu r accs ks
  | accs, _ => accs

/-- resolve infoset `I`: per-action counterfactual value over its reached nodes,
maximum, divided by the total reach -/
def resolveOne (ch : List (List α)) (σo : Strat α) (me : Bool) (nodes : List (Reached α))
    (nActs : Nat) (I : Nat) (mu : List α) : List α :=
  let mine := nodes.filter (·.info == I)
  if mine.isEmpty then mu else
  let total := lsum (mine.map (·.reach))
  let payoffs := mine.foldl (fun acc n => addPayoffs ch σo me mu n.reach acc n.kids)
    (List.replicate nActs 0)
  match maxList payoffs with
  | some m => mu.set I (m / total)
  | none => mu

/-- resolve infosets `n-1, n-2, …, 0` -/
def resolveAll (ch : List (List α)) (σo : Strat α) (me : Bool) (nodes : List (Reached α))
    (nActs : Nat → Nat) : Nat → List α → List α
  | 0, mu => mu
  | n + 1, mu => resolveAll ch σo me nodes nActs n (resolveOne ch σo me nodes (nActs n) n mu)

/-- `optimal_deviations::<me>` : value of `me`'s best response against `σo` -/
def optimalDeviations (g : Game α) (me : Bool) (σo : Strat α) : α :=
  let infos := g.infos me
  let nodes := collect g.chance σo me g.root 1
  let mu := resolveAll g.chance σo me nodes (fun i => (infos.getD i default).actions.length)
    infos.length (List.replicate infos.length 0)
  search g.chance σo me mu g.root

structure StrategiesInfo (α : Type) where
  util : α
  regretOne : α
  regretTwo : α

/-- `regret::regret` / `Strategies::get_info` -/
def getInfo (g : Game α) (σ : Bool → Strat α) : StrategiesInfo α :=
  let e := expected g.chance σ g.root
  let one := optimalDeviations g true (σ false)
  let two := optimalDeviations g false (σ true)
  ⟨e, fmax (one - e) 0, fmax (two + e) 0⟩

def StrategiesInfo.regret (i : StrategiesInfo α) : α := fmax i.regretOne i.regretTwo
def StrategiesInfo.playerUtility (i : StrategiesInfo α) (one : Bool) : α :=
  if one then i.util else -i.util
def StrategiesInfo.playerRegret (i : StrategiesInfo α) (one : Bool) : α :=
  if one then i.regretOne else i.regretTwo

end
end Cfr
