import CfrVerif.Model.Scalar
/-!
# `src/solve/data.rs` : `RegretParams`, regret matching, discounting, `avg_strat`
-/
namespace Cfr

/-- `RegretParams`.  `±∞` are documented values of three of the fields, so they
are `Ext`; `strat` is finite and non-negative (`RegretParams::new` asserts it). -/
structure RegretParams (α : Type) where
  posRegret : Ext α
  negRegret : Ext α
  strat : α
  noPositive : Ext α

section
variable {α : Type} [Zero α] [One α] [Add α] [Sub α] [Mul α] [Div α] [Neg α]
  [LT α] [DecidableLT α] [BEq α] [NatCast α] [FloatLike α] [Transc α]

/-- `1.5`, `0.5` etc. without `OfScientific`: exact in doubles and in any field -/
def half : α := 1 / (1 + 1)
def two : α := 1 + 1

def RegretParams.vanilla : RegretParams α := ⟨.posInf, .posInf, 0, .fin 0⟩
def RegretParams.lcfr : RegretParams α := ⟨.fin 1, .fin 1, 1, .posInf⟩
def RegretParams.cfrPlus : RegretParams α := ⟨.posInf, .negInf, two, .posInf⟩
def RegretParams.dcfr : RegretParams α := ⟨.fin (1 + half), .fin 0, two, .posInf⟩
def RegretParams.dcfrPrune : RegretParams α := ⟨.fin (1 + half), .fin half, two, .posInf⟩
/-- `impl Default for RegretParams` -/
def RegretParams.default : RegretParams α := RegretParams.dcfr

/-- `RegretParams::new` : `none` = the constructor panics -/
def RegretParams.new? (pos neg : Ext α) (strat : α) (noPos : Ext α) : Option (RegretParams α) :=
  let nan (e : Ext α) : Bool := match e with | .fin x => FloatLike.isNaN x | _ => false
  if nan pos || nan neg || nan noPos then none
  else if !(decide (0 < strat) || strat == 0) then none
  else if !FloatLike.isFinite strat then none
  else some ⟨pos, neg, strat, noPos⟩

/-- index of the maximum as `Iterator::max_by(partial_cmp)` finds it (the *last* maximum) -/
def argmaxLast : List α → Nat
  | [] => 0
  | x :: xs =>
    let rec go : List α → Nat → α → Nat → Nat
      | [], _, _, bi => bi
      | y :: ys, i, b, bi => if y < b then go ys (i + 1) b bi else go ys (i + 1) y i
    go xs 1 x 0

/-- index of the minimum as `Iterator::min_by(partial_cmp)` finds it (the *first* minimum) -/
def argminFirst : List α → Nat
  | [] => 0
  | x :: xs =>
    let rec go : List α → Nat → α → Nat → Nat
      | [], _, _, bi => bi
      | y :: ys, i, b, bi => if y < b then go ys (i + 1) y i else go ys (i + 1) b bi
    go xs 1 x 0

def oneHot (n k : Nat) : List α := (List.range n).map (fun i => if i == k then 1 else 0)

/-- `reduce(f64::max)` with a default -/
def maxD (d : α) : List α → α
  | [] => d
  | x :: xs => xs.foldl fmax x

def minD (d : α) : List α → α
  | [] => d
  | x :: xs => xs.foldl fmin x

/-- `RegretParams::regret_match` : the next strategy from the cumulative regrets -/
def regretMatch (noPositive : Ext α) (cumReg : List α) : List α :=
  let norm := lsum (cumReg.filter (fun v => 0 < v))
  if 0 < norm then cumReg.map (fun r => if 0 < r then r / norm else 0)
  else match noPositive with
    | .posInf => oneHot cumReg.length (argmaxLast cumReg)
    | .negInf => oneHot cumReg.length (argminFirst cumReg)
    | .fin w =>
      if w == 0 then List.replicate cumReg.length (1 / (cumReg.length : α))
      else
        -- subtract the extreme that keeps every exponent non-positive
        let ext := if 0 < w then maxD 0 cumReg else minD 0 cumReg
        let es := cumReg.map (fun r => Transc.exp ((r - ext) * w))
        let norm := lsum es
        es.map (· / norm)

/-- `ln_add_exp(x, 0)` of the `logaddexp` crate -/
def lnAddExp0 (x : α) : α :=
  if x == 0 then x + Transc.ln2
  else if 0 < x then x + Transc.log1p (Transc.exp (-x))
  else 0 + Transc.log1p (Transc.exp x)

/-- `RegretParams::gen_discount` : `t^d / (t^d + 1)` -/
def genDiscount (it : Nat) : Ext α → α
  | .negInf => 0
  | .posInf => 1
  | .fin d =>
    if d == 0 then half
    else
      let numer := d * Transc.log (it : α)
      let denom := lnAddExp0 numer
      Transc.exp (numer - denom)

/-- `discount_cum_regret` -/
def discountCumRegret (p : RegretParams α) (it : Nat) (cumReg : List α) : List α :=
  let pos := genDiscount it p.posRegret
  let neg := genDiscount it p.negRegret
  cumReg.map (fun r => if 0 < r then r * pos else if r < 0 then r * neg else r)

/-- `discount_average_strat` -/
def discountAverageStrat (p : RegretParams α) (it : Nat) (avg : List α) : List α :=
  if 0 < p.strat then
    let f : α := (it : α)
    let ratio := Transc.pow (f / (f + 1)) p.strat
    avg.map (· * ratio)
  else avg

/-- `RegretParams::cum_regret` : `2·max(max_a R(a), 0)/it` -/
def cumRegretBound (it : Nat) (cumReg : List α) : α :=
  two * fmax (maxD 0 cumReg) 0 / (it : α)

/-- `avg_strat` -/
def avgStrat (cum : List α) : List α :=
  let norm := lsum cum
  if norm == 0 then List.replicate cum.length (1 / (cum.length : α))
  else cum.map (· / norm)

end
end Cfr
