import CfrVerif.Proofs.CompileWF
/-!
# `fromRoot` succeeds exactly on the documented class of games (helper lemmas for C11)

* the declarative contract (`Assignment`, `Conforms`, `Valid`, `Violates`, `AnyNode`);
* `Inv` / `Grow` : well-formedness of builder states and "tables only grow by appending";
* `LH` : the label history named by a `prev` pointer;
* `compile_sound`    : whatever `compile` accepts conforms to every assignment that agrees with
  the final tables (`AgreeW`), and such an assignment exists (`exists_agreeW`);
* `compile_complete` : a tree conforming to an assignment is accepted (invariant `AgreeS`);
* `compile_err`      : the four local errors are raised only at a node violating that rule.
-/
set_option linter.unusedSectionVars false
set_option linter.unusedVariables false
namespace Cfr
variable {α : Type} [Field α] [LinearOrder α] [IsStrictOrderedRing α]

/-! ## the documented contract -/

/-- an own history on labels: `(infoset label, action label)` of the player's earlier
multi-action decisions, oldest first (single-action nodes are exempt) -/
abbrev LHist := List (Nat × Nat)

/-- the per-infoset data every node has to agree with -/
structure Assignment (α : Type) where
  /-- outcome probabilities of a named chance infoset -/
  cprob : Nat → List α
  /-- action list of a player infoset -/
  acts : Bool → Nat → List Nat
  /-- own history of a multi-action player infoset -/
  hist : Bool → Nat → LHist

def normalise (ws : List α) : List α := ws.map (· / ws.sum)

mutual
/-- node `r`, reached with own label histories `h1` (player one) and `h2` (player two),
conforms to the assignment and so does everything below it -/
def Conforms (A : Assignment α) : Raw α → LHist → LHist → Prop
  | .term _, _, _ => True   -- payoffs are finite: automatic in exact arithmetic
  | .chance info ws kids, h1, h2 =>
    ws.length = kids.length ∧ ws ≠ [] ∧ (∀ w ∈ ws, 0 < w) ∧
    (∀ l, info = some l → A.cprob l = normalise ws) ∧
    ConformsL A kids h1 h2
  | .player one info acts kids, h1, h2 =>
    acts.length = kids.length ∧ acts ≠ [] ∧ A.acts one info = acts ∧ acts.Nodup ∧
    (2 ≤ acts.length → A.hist one info = (if one then h1 else h2)) ∧
    ConformsA A one info (2 ≤ acts.length) acts kids h1 h2
/-- children of a chance node: histories unchanged -/
def ConformsL (A : Assignment α) : List (Raw α) → LHist → LHist → Prop
  | [], _, _ => True
  | k :: ks, h1, h2 => Conforms A k h1 h2 ∧ ConformsL A ks h1 h2
/-- children of a player node: a multi-action decision is appended to that player's history -/
def ConformsA (A : Assignment α) (one : Bool) (info : Nat) (multi : Prop) [Decidable multi] :
    List Nat → List (Raw α) → LHist → LHist → Prop
  | a :: as, k :: ks, h1, h2 =>
    Conforms A k (if multi ∧ one then h1 ++ [(info, a)] else h1)
      (if multi ∧ ¬ one then h2 ++ [(info, a)] else h2) ∧
    ConformsA A one info multi as ks h1 h2
  | _, _, _, _ => True
end

/-- **the documented class of games**: every chance node has at least one outcome and only
positive weights; chance nodes sharing an infoset have the same outcome probabilities in the
same order; every decision node has at least one action; nodes sharing a player infoset list the
same distinct actions in the same order; each player has perfect recall (nodes of a multi-action
infoset are reached after the same own decisions; single-action nodes exempt) -/
def Valid (r : Raw α) : Prop := ∃ A : Assignment α, Conforms A r [] []

/-- a rule named by an error, as a property of one node -/
def Violates : GameError → Raw α → Prop
  | .emptyChance, .chance _ ws _ => ws = []
  | .nonPositiveChance, .chance _ ws _ => ∃ w ∈ ws, ¬ 0 < w
  | .emptyPlayer, .player _ _ acts _ => acts = []
  | .actionsNotUnique, .player _ _ acts _ => ¬ acts.Nodup
  | _, _ => False

mutual
/-- some node of the tree satisfies `P` -/
def AnyNode (P : Raw α → Prop) : Raw α → Prop
  | .term p => P (.term p)
  | .chance i ws ks => P (.chance i ws ks) ∨ AnyNodeL P ks
  | .player o i as ks => P (.player o i as ks) ∨ AnyNodeL P ks
def AnyNodeL (P : Raw α → Prop) : List (Raw α) → Prop
  | [] => False
  | k :: ks => AnyNode P k ∨ AnyNodeL P ks
end

/-! The helper lemmas live in their own namespace (other proof files about `compile` use similar
names). -/
namespace CompileValid

/-! ## `eraseDups` -/

theorem eraseDups_length_le : ∀ (n : Nat) (l : List Nat), l.length = n → l.eraseDups.length ≤ l.length := by
  intro n
  induction n using Nat.strong_induction_on with
  | _ n ih =>
    intro l hl
    cases l with
    | nil => simp
    | cons a as =>
      rw [List.eraseDups_cons]
      have h1 : (as.filter fun b => !b == a).length ≤ as.length := List.length_filter_le _ _
      have h2 := ih (as.filter fun b => !b == a).length (by simp at hl; omega) _ rfl
      simp only [List.length_cons]
      omega

theorem eraseDups_length_eq_iff : ∀ (n : Nat) (l : List Nat), l.length = n →
    (l.eraseDups.length = l.length ↔ l.Nodup) := by
  intro n
  induction n using Nat.strong_induction_on with
  | _ n ih =>
    intro l hl
    cases l with
    | nil => simp
    | cons a as =>
      rw [List.eraseDups_cons]
      have h1 : (as.filter fun b => !b == a).length ≤ as.length := List.length_filter_le _ _
      have h2 := eraseDups_length_le _ (as.filter fun b => !b == a) rfl
      simp only [List.length_cons, List.nodup_cons]
      constructor
      · intro h
        have h3 : (as.filter fun b => !b == a).length = as.length := by omega
        have h4 : as.filter (fun b => !b == a) = as := by
          rw [List.filter_eq_self]
          intro b hb
          by_contra hc
          have := (List.length_filter_lt_length_iff_exists (p := fun b => !b == a) (l := as)).mpr ⟨b, hb, hc⟩
          omega
        rw [h4] at h
        refine ⟨?_, (ih as.length (by simp at hl; omega) as rfl).mp (by omega)⟩
        intro ha
        have := (List.filter_eq_self.mp h4) a ha
        simp at this
      · rintro ⟨ha, hn⟩
        have h4 : as.filter (fun b => !b == a) = as := by
          rw [List.filter_eq_self]
          intro b hb
          have : b ≠ a := fun h => ha (h ▸ hb)
          simpa using this
        rw [h4, (ih as.length (by simp at hl; omega) as rfl).mpr hn]

theorem eraseDups_check (l : List Nat) : (l.eraseDups.length == l.length) = true ↔ l.Nodup := by
  rw [beq_iff_eq]
  exact eraseDups_length_eq_iff _ l rfl

/-! ## builder states -/

@[simp] theorem infos_setInfos (s : BState α) (one o : Bool) (l : List PInfo) :
    (s.setInfos one l).infos o = if o = one then l else s.infos o := by
  cases one <;> cases o <;> simp [BState.setInfos, BState.infos]
@[simp] theorem singles_setInfos (s : BState α) (one o : Bool) (l : List PInfo) :
    (s.setInfos one l).singles o = s.singles o := by
  cases one <;> cases o <;> simp [BState.setInfos, BState.singles]
@[simp] theorem chance_setInfos (s : BState α) (one : Bool) (l : List PInfo) :
    (s.setInfos one l).chance = s.chance := by
  cases one <;> simp [BState.setInfos]
@[simp] theorem singles_setSingles (s : BState α) (one o : Bool) (l : List (Nat × Nat)) :
    (s.setSingles one l).singles o = if o = one then l else s.singles o := by
  cases one <;> cases o <;> simp [BState.setSingles, BState.singles]
@[simp] theorem infos_setSingles (s : BState α) (one o : Bool) (l : List (Nat × Nat)) :
    (s.setSingles one l).infos o = s.infos o := by
  cases one <;> cases o <;> simp [BState.setSingles, BState.infos]
@[simp] theorem chance_setSingles (s : BState α) (one : Bool) (l : List (Nat × Nat)) :
    (s.setSingles one l).chance = s.chance := by
  cases one <;> simp [BState.setSingles]
@[simp] theorem infos_withChance (s : BState α) (one : Bool) (c : List (Option Nat × List α)) :
    ({ s with chance := c } : BState α).infos one = s.infos one := by
  cases one <;> simp [BState.infos]
@[simp] theorem singles_withChance (s : BState α) (one : Bool) (c : List (Option Nat × List α)) :
    ({ s with chance := c } : BState α).singles one = s.singles one := by
  cases one <;> simp [BState.singles]

/-- the tables only grow by appending -/
structure Grow (s s' : BState α) : Prop where
  chance : s.chance <+: s'.chance
  infos : ∀ one, s.infos one <+: s'.infos one
  singles : ∀ one, s.singles one <+: s'.singles one

theorem Grow.refl (s : BState α) : Grow s s := ⟨List.prefix_rfl, fun _ => List.prefix_rfl, fun _ => List.prefix_rfl⟩
theorem Grow.trans {s s' s'' : BState α} (a : Grow s s') (b : Grow s' s'') : Grow s s'' :=
  ⟨a.chance.trans b.chance, fun o => (a.infos o).trans (b.infos o), fun o => (a.singles o).trans (b.singles o)⟩

theorem prefix_getElem? {β : Type} {l l' : List β} (h : l <+: l') {i : Nat} {x : β}
    (hx : l[i]? = some x) : l'[i]? = some x := by
  obtain ⟨t, rfl⟩ := h
  obtain ⟨hi, _⟩ := List.getElem?_eq_some_iff.mp hx
  rw [List.getElem?_append_left hi]; exact hx

/-! ## the label history named by a `prev` pointer -/

/-- `LH infos p h`: following the `prev` pointers from `p` through the table `infos` spells the
label history `h` (oldest decision first) -/
inductive LH (infos : List PInfo) : Option (Nat × Nat) → LHist → Prop
  | nil : LH infos none []
  | step (j a : Nat) (e : PInfo) (x : Nat) (h : LHist) :
      infos[j]? = some e → e.actions[a]? = some x → LH infos e.prev h →
      LH infos (some (j, a)) (h ++ [(e.label, x)])

theorem LH.mono {l l' : List PInfo} {p : Option (Nat × Nat)} {h : LHist} (hl : l <+: l')
    (a : LH l p h) : LH l' p h := by
  induction a with
  | nil => exact .nil
  | step j a e x h h1 h2 _ ih => exact .step j a e x h (prefix_getElem? hl h1) h2 ih

theorem LH.func {l : List PInfo} {p : Option (Nat × Nat)} {h h' : LHist}
    (a : LH l p h) (b : LH l p h') : h = h' := by
  induction a generalizing h' with
  | nil => cases b; rfl
  | step j a e x h h1 h2 _ ih =>
    cases b with
    | step _ _ e' x' h'' g1 g2 g3 =>
      rw [h1] at g1; cases g1
      rw [h2] at g2; cases g2
      rw [ih g3]

theorem LH.inj' {l : List PInfo} {p p' : Option (Nat × Nat)} {h h' : LHist}
    (hl : ∀ (i j : Nat) (e e' : PInfo), l[i]? = Option.some e → l[j]? = Option.some e' → e.label = e'.label → i = j)
    (ha : ∀ e ∈ l, e.actions.Nodup)
    (a : LH l p h) (b : LH l p' h') (hh : h = h') : p = p' := by
  cases a with
  | nil =>
    cases b with
    | nil => rfl
    | step j a e x h h1 h2 h3 => simp at hh
  | step j a e x h h1 h2 h3 =>
    cases b with
    | nil => simp at hh
    | step j' a' e' x' h' g1 g2 g3 =>
      obtain ⟨_, h5⟩ := List.append_inj' hh (by simp)
      simp only [List.cons.injEq, Prod.mk.injEq, and_true] at h5
      obtain ⟨h6, h7⟩ := h5
      have hj := hl j j' e e' h1 g1 h6
      subst hj
      rw [h1] at g1; cases g1
      subst h7
      have hn := ha e (List.mem_of_getElem? h1)
      obtain ⟨ha1, _⟩ := List.getElem?_eq_some_iff.mp h2
      have := (List.getElem?_inj ha1 hn).mp (h2.trans g2.symm)
      rw [this]

theorem LH.inj {l : List PInfo} {p p' : Option (Nat × Nat)} {h : LHist}
    (hl : ∀ (i j : Nat) (e e' : PInfo), l[i]? = Option.some e → l[j]? = Option.some e' → e.label = e'.label → i = j)
    (ha : ∀ e ∈ l, e.actions.Nodup)
    (a : LH l p h) (b : LH l p' h) : p = p' := LH.inj' hl ha a b rfl

/-! ## well-formed builder states -/

/-- label tables are consistent (nothing here depends on an assignment) -/
structure Inv (s : BState α) : Prop where
  lab : ∀ (one : Bool) (i j : Nat) (e e' : PInfo), (s.infos one)[i]? = some e → (s.infos one)[j]? = some e' →
    e.label = e'.label → i = j
  acts : ∀ one, ∀ e ∈ s.infos one, e.actions.Nodup ∧ 2 ≤ e.actions.length
  sing : ∀ one, ∀ e ∈ s.singles one, ∀ e' ∈ s.singles one, e.1 = e'.1 → e.2 = e'.2
  disj : ∀ one, ∀ e ∈ s.infos one, ∀ e' ∈ s.singles one, e.label ≠ e'.1
  ch : ∀ e ∈ s.chance, ∀ e' ∈ s.chance, ∀ l, e.1 = some l → e'.1 = some l → e.2 = e'.2

theorem Inv.empty : Inv ({} : BState α) := by
  constructor <;> intro one <;> cases one <;> simp [BState.infos, BState.singles]

theorem lab_append {l : List PInfo} {E : PInfo}
    (hl : ∀ (i j : Nat) (e e' : PInfo), l[i]? = some e → l[j]? = some e' → e.label = e'.label → i = j)
    (hn : ∀ x ∈ l, x.label ≠ E.label) :
    ∀ (i j : Nat) (e e' : PInfo), (l ++ [E])[i]? = some e → (l ++ [E])[j]? = some e' →
      e.label = e'.label → i = j := by
  intro i j e e' hi hj hlab
  rw [List.getElem?_append] at hi hj
  split_ifs at hi hj with h1 h2 h2
  · exact hl i j e e' hi hj hlab
  · have hm := List.mem_of_getElem? hi
    have hm' := List.mem_of_getElem? hj
    simp at hm'; subst hm'
    exact absurd hlab (hn e hm)
  · have hm := List.mem_of_getElem? hi
    have hm' := List.mem_of_getElem? hj
    simp at hm; subst hm
    exact absurd hlab.symm (hn e' hm')
  · obtain ⟨a, _⟩ := List.getElem?_eq_some_iff.mp hi
    obtain ⟨b, _⟩ := List.getElem?_eq_some_iff.mp hj
    simp at a b; omega

theorem registerSingle_ok {one : Bool} {info a : Nat} {s s' : BState α}
    (h : registerSingle one info a s = .ok s') (hi : Inv s) :
    Inv s' ∧ Grow s s' ∧ (info, a) ∈ s'.singles one := by
  unfold registerSingle at h
  split_ifs at h with h1
  split at h
  · rename_i e he
    split_ifs at h with h2
    cases h
    have hm := List.mem_of_find?_eq_some he
    have hp := List.find?_some he
    simp at hp h2
    refine ⟨hi, Grow.refl _, ?_⟩
    rw [← hp, ← h2]; exact hm
  · rename_i he
    cases h
    simp at h1 he
    refine ⟨⟨?_, ?_, ?_, ?_, ?_⟩, ⟨?_, ?_, ?_⟩, ?_⟩
    · simpa using hi.lab
    · simpa using hi.acts
    · intro o e hm e' hm' hee
      simp only [singles_setSingles] at hm hm'
      split_ifs at hm hm' with ho
      · subst ho
        simp only [List.mem_append, List.mem_singleton] at hm hm'
        rcases hm with hm | hm <;> rcases hm' with hm' | hm'
        · exact hi.sing o e hm e' hm' hee
        · subst hm'; exact absurd hee (he _ _ hm)
        · subst hm; exact absurd hee.symm (he _ _ hm')
        · subst hm hm'; rfl
      · exact hi.sing o e hm e' hm' hee
    · intro o e hm e' hm'
      simp only [singles_setSingles, infos_setSingles] at hm hm'
      split_ifs at hm' with ho
      · subst ho
        simp only [List.mem_append, List.mem_singleton] at hm'
        rcases hm' with hm' | hm'
        · exact hi.disj o e hm e' hm'
        · subst hm'; exact h1 e hm
      · exact hi.disj o e hm e' hm'
    · simpa using hi.ch
    · simp
    · intro o; simp
    · intro o; simp only [singles_setSingles]; split_ifs with ho
      · subst ho; simp
      · simp
    · simp

theorem registerPlayer_ok {one : Bool} {info : Nat} {acts : List Nat} {prev : Prev} {i : Nat}
    {s s' : BState α}
    (h : registerPlayer one info acts prev s = .ok (i, s')) (hi : Inv s) (h2 : 2 ≤ acts.length) :
    Inv s' ∧ Grow s s' ∧ (s'.infos one)[i]? = some ⟨info, acts, prev.get one⟩ ∧ acts.Nodup := by
  unfold registerPlayer at h
  split at h
  · rename_i j hj
    split at h
    · rename_i e he
      split_ifs at h with h3 h4
      cases h
      simp at h3 h4
      obtain ⟨hlt, hp, _⟩ := List.findIdx?_eq_some_iff_getElem.mp hj
      have hee : (s.infos one)[i] = e := by
        rw [List.getElem?_eq_getElem hlt] at he; exact Option.some.inj he
      rw [hee] at hp
      simp at hp
      refine ⟨hi, Grow.refl _, ?_, ?_⟩
      · rw [he]; cases e; simp_all
      · have := (hi.acts one e (List.mem_of_getElem? he)).1; rwa [h3] at this
    · cases h
  · rename_i hn
    split_ifs at h with h3 h4
    cases h
    simp at hn h3
    have hnd := (eraseDups_check acts).mp h4
    refine ⟨⟨?_, ?_, ?_, ?_, ?_⟩, ⟨?_, ?_, ?_⟩, ?_, hnd⟩
    · intro o
      simp only [infos_setInfos]
      split_ifs with ho
      · subst ho
        exact lab_append (hi.lab o) (fun x hx => by simpa using hn x hx)
      · exact hi.lab o
    · intro o e hm
      simp only [infos_setInfos] at hm
      split_ifs at hm with ho
      · subst ho
        simp only [List.mem_append, List.mem_singleton] at hm
        rcases hm with hm | hm
        · exact hi.acts o e hm
        · subst hm; exact ⟨hnd, h2⟩
      · exact hi.acts o e hm
    · simpa using hi.sing
    · intro o e hm e' hm'
      simp only [singles_setInfos, infos_setInfos] at hm hm'
      split_ifs at hm with ho
      · subst ho
        simp only [List.mem_append, List.mem_singleton] at hm
        rcases hm with hm | hm
        · exact hi.disj o e hm e' hm'
        · subst hm; intro hc; simp at hc; subst hc; exact h3 e'.2 hm'
      · exact hi.disj o e hm e' hm'
    · simpa using hi.ch
    · simp
    · intro o; simp only [infos_setInfos]; split_ifs with ho
      · subst ho; simp
      · simp
    · intro o; simp
    · simp

theorem ch_append {c : List (Option Nat × List α)} {E : Option Nat × List α}
    (hc : ∀ e ∈ c, ∀ e' ∈ c, ∀ l, e.1 = some l → e'.1 = some l → e.2 = e'.2)
    (hn : ∀ x ∈ c, E.1 = none ∨ x.1 ≠ E.1) :
    ∀ e ∈ c ++ [E], ∀ e' ∈ c ++ [E], ∀ l, e.1 = some l → e'.1 = some l → e.2 = e'.2 := by
  intro e hm e' hm' l h1 h2
  simp only [List.mem_append, List.mem_singleton] at hm hm'
  rcases hm with hm | hm <;> rcases hm' with hm' | hm'
  · exact hc e hm e' hm' l h1 h2
  · subst hm'
    rcases hn e hm with h | h
    · rw [h] at h2; cases h2
    · rw [h1, h2] at h; exact absurd rfl h
  · subst hm
    rcases hn e' hm' with h | h
    · rw [h] at h1; cases h1
    · rw [h1, h2] at h; exact absurd rfl h
  · subst hm hm'; rfl

theorem Inv.withChance {s : BState α} (hi : Inv s) {c : List (Option Nat × List α)}
    (hc : ∀ e ∈ c, ∀ e' ∈ c, ∀ l, e.1 = some l → e'.1 = some l → e.2 = e'.2) :
    Inv ({ s with chance := c } : BState α) :=
  ⟨by simpa using hi.lab, by simpa using hi.acts, by simpa using hi.sing, by simpa using hi.disj, hc⟩

theorem Grow.withChance (s : BState α) (t : List (Option Nat × List α)) :
    Grow s ({ s with chance := s.chance ++ t } : BState α) :=
  ⟨by simp, fun o => by simp, fun o => by simp⟩

theorem registerChance_ok {info : Option Nat} {probs : List α} {nodes : List (Node α)} {n : Node α}
    {s s' : BState α}
    (h : registerChance info probs nodes s = .ok (n, s')) (hi : Inv s) :
    Inv s' ∧ Grow s s' ∧ nodes ≠ [] ∧
      ∀ l, info = some l →
        (some l, if nodes.length = 1 then [1] else probs.map (· / lsum probs)) ∈ s'.chance := by
  unfold registerChance at h
  split at h
  · cases h
  · rename_i k
    split at h
    · cases h
      exact ⟨hi, Grow.refl _, by simp, by simp⟩
    · rename_i l
      split at h
      · rename_i e he
        split_ifs at h with h1
        cases h
        have hm := List.mem_of_find?_eq_some he
        have hp := List.find?_some he
        simp at hp h1
        refine ⟨hi, Grow.refl _, by simp, ?_⟩
        intro l' hl'; cases hl'
        simp only [List.length_singleton, if_true]
        rw [← hp, ← h1]; exact hm
      · rename_i he
        cases h
        simp at he
        refine ⟨hi.withChance (ch_append hi.ch ?_), Grow.withChance _ _, by simp, ?_⟩
        · intro x hx; right; intro hc; exact he _ _ hx hc
        · intro l' hl'; cases hl'; simp
  · rename_i hk1 hk2
    have hlen : nodes.length ≠ 1 := by
      intro hc
      match nodes, hc with
      | [k], _ => exact hk2 k rfl
    have hne : nodes ≠ [] := fun hc => hk1 hc
    dsimp only at h
    split at h
    · cases h
      refine ⟨hi.withChance (ch_append hi.ch ?_), Grow.withChance _ _, hne, by simp⟩
      intro x hx; left; rfl
    · rename_i l
      split at h
      · rename_i i hidx
        split_ifs at h with h1
        cases h
        simp at h1
        obtain ⟨a, he⟩ := h1
        obtain ⟨hlt, hp, _⟩ := List.findIdx?_eq_some_iff_getElem.mp hidx
        have hee : s.chance[i] = (a, probs.map (· / lsum probs)) := by
          rw [List.getElem?_eq_getElem hlt] at he; exact Option.some.inj he
        rw [hee] at hp
        simp at hp
        refine ⟨hi, Grow.refl _, hne, ?_⟩
        intro l' hl'; cases hl'
        simp only [hlen, if_false]
        rw [← hp]; exact List.mem_of_getElem? he
      · rename_i hidx
        cases h
        simp at hidx
        refine ⟨hi.withChance (ch_append hi.ch ?_), Grow.withChance _ _, hne, ?_⟩
        · intro x hx; right; intro hc; exact hidx _ _ hx hc
        · intro l' hl'; cases hl'; simp [hlen]

/-! ## `compile` preserves `Inv` and only appends -/

mutual
theorem compile_inv : ∀ (r : Raw α) (prev : Prev) (s : BState α) (n : Node α) (s' : BState α),
    compile r prev s = .ok (n, s') → Inv s → Inv s' ∧ Grow s s'
  | .term pay, prev, s, n, s', h, hi => by
    simp only [compile, isFinite_exact, if_true] at h
    cases h; exact ⟨hi, Grow.refl _⟩
  | .chance info ws kids, prev, s, n, s', h, hi => by
    simp only [compile] at h
    split at h
    · cases h
    · rename_i probs nodes s1 ho
      obtain ⟨i1, g1⟩ := compileOutcomes_inv ws kids prev s probs nodes s1 ho hi
      obtain ⟨i2, g2, _⟩ := registerChance_ok h i1
      exact ⟨i2, g1.trans g2⟩
  | .player one info [] kids, prev, s, n, s', h, hi => by
    simp only [compile] at h
    cases h
  | .player one info (a :: as) [], prev, s, n, s', h, hi => by
    simp only [compile] at h
    cases h
  | .player one info [a] (k :: ks), prev, s, n, s', h, hi => by
    simp only [compile] at h
    split at h
    · cases h
    · rename_i s1 hr
      obtain ⟨i1, g1, _⟩ := registerSingle_ok hr hi
      obtain ⟨i2, g2⟩ := compile_inv k prev s1 n s' h i1
      exact ⟨i2, g1.trans g2⟩
  | .player one info (a :: b :: as) (k :: ks), prev, s, n, s', h, hi => by
    simp only [compile] at h
    split at h
    · cases h
    · rename_i i s1 hr
      obtain ⟨i1, g1, _⟩ := registerPlayer_ok hr hi (by simp)
      split at h
      · cases h
      · rename_i nodes s2 hc
        obtain ⟨i2, g2⟩ := compileActions_inv (k :: ks) one i 0 prev s1 nodes s2 hc i1
        cases h
        exact ⟨i2, g1.trans g2⟩
theorem compileOutcomes_inv : ∀ (ws : List α) (ks : List (Raw α)) (prev : Prev) (s : BState α)
    (ps : List α) (ns : List (Node α)) (s' : BState α),
    compileOutcomes ws ks prev s = .ok (ps, ns, s') → Inv s → Inv s' ∧ Grow s s'
  | [], ks, prev, s, ps, ns, s', h, hi => by
    simp only [compileOutcomes] at h
    cases h; exact ⟨hi, Grow.refl _⟩
  | w :: ws, [], prev, s, ps, ns, s', h, hi => by
    simp only [compileOutcomes] at h
    cases h; exact ⟨hi, Grow.refl _⟩
  | w :: ws, k :: ks, prev, s, ps, ns, s', h, hi => by
    simp only [compileOutcomes] at h
    split_ifs at h with hw
    split at h
    · cases h
    · rename_i n s1 hc
      split at h
      · cases h
      · rename_i ps' ns' s2 ho
        obtain ⟨i1, g1⟩ := compile_inv k prev s n s1 hc hi
        obtain ⟨i2, g2⟩ := compileOutcomes_inv ws ks prev s1 ps' ns' s2 ho i1
        cases h
        exact ⟨i2, g1.trans g2⟩
theorem compileActions_inv : ∀ (ks : List (Raw α)) (one : Bool) (i a : Nat) (prev : Prev)
    (s : BState α) (ns : List (Node α)) (s' : BState α),
    compileActions ks one i a prev s = .ok (ns, s') → Inv s → Inv s' ∧ Grow s s'
  | [], one, i, a, prev, s, ns, s', h, hi => by
    simp only [compileActions] at h
    cases h; exact ⟨hi, Grow.refl _⟩
  | k :: ks, one, i, a, prev, s, ns, s', h, hi => by
    simp only [compileActions] at h
    split at h
    · cases h
    · rename_i n s1 hc
      split at h
      · cases h
      · rename_i ns' s2 ho
        obtain ⟨i1, g1⟩ := compile_inv k _ s n s1 hc hi
        obtain ⟨i2, g2⟩ := compileActions_inv ks one i (a + 1) prev s1 ns' s2 ho i1
        cases h
        exact ⟨i2, g1.trans g2⟩
end

/-! ## soundness: what is accepted conforms to every assignment agreeing with the final tables -/

/-- the assignment agrees with every entry of the tables (history part: *whatever* history the
`prev` pointer of an entry spells is the assigned one) -/
structure AgreeW (A : Assignment α) (s : BState α) : Prop where
  ch : ∀ e ∈ s.chance, ∀ l, e.1 = some l → A.cprob l = e.2
  acts : ∀ one, ∀ e ∈ s.infos one, A.acts one e.label = e.actions
  hist : ∀ one, ∀ e ∈ s.infos one, ∀ h, LH (s.infos one) e.prev h → A.hist one e.label = h
  sing : ∀ one, ∀ e ∈ s.singles one, A.acts one e.1 = [e.2]

theorem AgreeW.down {A : Assignment α} {s s' : BState α} (a : AgreeW A s') (g : Grow s s') :
    AgreeW A s :=
  ⟨fun e he => a.ch e (g.chance.subset he),
   fun o e he => a.acts o e ((g.infos o).subset he),
   fun o e he h hh => a.hist o e ((g.infos o).subset he) h (hh.mono (g.infos o)),
   fun o e he => a.sing o e ((g.singles o).subset he)⟩

/-- the `prev` pointers threaded down the DFS spell the label histories `h1`, `h2` -/
def PrevH (s : BState α) (prev : Prev) (h1 h2 : LHist) : Prop :=
  ∀ one : Bool, LH (s.infos one) (prev.get one) (if one then h1 else h2)

theorem PrevH.mono {s s' : BState α} {prev : Prev} {h1 h2 : LHist} (p : PrevH s prev h1 h2)
    (g : Grow s s') : PrevH s' prev h1 h2 := fun o => (p o).mono (g.infos o)

theorem PrevH.set {s : BState α} {prev : Prev} {h1 h2 : LHist} (p : PrevH s prev h1 h2)
    {one : Bool} {i a x : Nat} {E : PInfo} (multi : Prop) [Decidable multi] (hm : multi)
    (hE : (s.infos one)[i]? = some E) (hp : E.prev = prev.get one) (hx : E.actions[a]? = some x) :
    PrevH s (prev.set one (some (i, a)))
      (if multi ∧ one then h1 ++ [(E.label, x)] else h1)
      (if multi ∧ ¬ one then h2 ++ [(E.label, x)] else h2) := by
  intro o
  have := p one
  rw [← hp] at this
  have key := LH.step i a E x _ hE hx this
  cases one <;> cases o <;> simp [hm, Prev.set, Prev.get] at key ⊢
  · exact key
  · simpa [Prev.get] using p true
  · simpa [Prev.get] using p false
  · exact key

theorem normalise_eq (ws : List α) (hw : ∀ w ∈ ws, 0 < w) :
    (if ws.length = 1 then [1] else ws.map (· / lsum ws)) = normalise ws := by
  split_ifs with h
  · match ws, h with
    | [w], _ =>
      have : w ≠ 0 := (hw w (by simp)).ne'
      simp [normalise, this]
  · simp [normalise, lsum_eq_sum]

theorem drop_eq_cons {β : Type} {l : List β} {a : Nat} {x : β} {t : List β} (h : l.drop a = x :: t) :
    l[a]? = some x ∧ l.drop (a + 1) = t := by
  constructor
  · have := List.getElem?_drop (xs := l) (i := a) (j := 0)
    rw [h] at this; simpa using this.symm
  · have := congrArg List.tail h
    simpa [List.tail_drop] using this

mutual
theorem compile_sound : ∀ (r : Raw α) (prev : Prev) (s : BState α) (n : Node α) (s' : BState α),
    compile r prev s = .ok (n, s') → Raw.Shape r → Inv s →
    ∀ (A : Assignment α), AgreeW A s' → ∀ h1 h2, PrevH s prev h1 h2 → Conforms A r h1 h2
  | .term pay, prev, s, n, s', h, hs, hi, A, hA, h1, h2, hp => by
    simp [Conforms]
  | .chance info ws kids, prev, s, n, s', h, hs, hi, A, hA, h1, h2, hp => by
    obtain ⟨hs1, hs2⟩ := (by simpa [Raw.Shape] using hs : ws.length = kids.length ∧ Raw.ShapeL kids)
    simp only [compile] at h
    split at h
    · cases h
    · rename_i probs nodes s1 ho
      obtain ⟨i1, g1⟩ := compileOutcomes_inv ws kids prev s probs nodes s1 ho hi
      obtain ⟨i2, g2, hne, hmem⟩ := registerChance_ok h i1
      obtain ⟨⟨e1, e2, e3⟩, hc⟩ := compileOutcomes_sound ws kids prev s probs nodes s1 ho hs1 hs2 hi
      subst e1
      simp only [Conforms]
      refine ⟨hs1, ?_, e3, ?_, hc A (hA.down g2) h1 h2 hp⟩
      · intro hc; subst hc
        simp at hs1; rw [← hs1] at e2; exact hne (List.eq_nil_of_length_eq_zero e2)
      · intro l hl
        have := hA.ch _ (hmem l hl) l rfl
        rw [this]
        simp only
        rw [e2, ← hs1]
        exact normalise_eq _ e3
  | .player one info [] kids, prev, s, n, s', h, hs, hi, A, hA, h1, h2, hp => by
    simp only [compile] at h
    cases h
  | .player one info (a :: as) [], prev, s, n, s', h, hs, hi, A, hA, h1, h2, hp => by
    simp only [compile] at h
    cases h
  | .player one info [a] (k :: ks), prev, s, n, s', h, hs, hi, A, hA, h1, h2, hp => by
    obtain ⟨hs1, hs2, hs3⟩ := (by simpa [Raw.Shape, Raw.ShapeL] using hs :
      ks.length = 0 ∧ Raw.Shape k ∧ Raw.ShapeL ks)
    have : ks = [] := List.eq_nil_of_length_eq_zero hs1
    subst this
    simp only [compile] at h
    split at h
    · cases h
    · rename_i s1 hr
      obtain ⟨i1, g1, hm⟩ := registerSingle_ok hr hi
      obtain ⟨i2, g2⟩ := compile_inv k prev s1 n s' h i1
      have hk := compile_sound k prev s1 n s' h hs2 i1 A hA h1 h2 (hp.mono g1)
      have ha := hA.sing one _ ((g2.singles one).subset hm)
      simp [Conforms, ConformsA, ha, hk]
  | .player one info (a :: b :: as) (k :: ks), prev, s, n, s', h, hs, hi, A, hA, h1, h2, hp => by
    obtain ⟨hs1, hs2⟩ := (by simpa [Raw.Shape] using hs :
      as.length + 1 = ks.length ∧ Raw.ShapeL (k :: ks))
    simp only [compile] at h
    split at h
    · cases h
    · rename_i i s1 hr
      obtain ⟨i1, g1, hE, hnd⟩ := registerPlayer_ok hr hi (by simp)
      split at h
      · cases h
      · rename_i nodes s2 hc
        obtain ⟨i2, g2⟩ := compileActions_inv (k :: ks) one i 0 prev s1 nodes s2 hc i1
        have hk := compileActions_sound (k :: ks) one i 0 prev s1 nodes s2 hc hs2 i1
        cases h
        have hE' := List.mem_of_getElem? (prefix_getElem? (g2.infos one) hE)
        have hk' := hk A hA h1 h2 (hp.mono g1) ⟨info, a :: b :: as, prev.get one⟩ (a :: b :: as)
          (2 ≤ (a :: b :: as).length) (by simp) hE rfl rfl (by simp; omega)
        have hacts := hA.acts one _ hE'
        have hh := hA.hist one _ hE' _ ((hp one).mono ((g1.trans g2).infos one))
        simp only [Conforms]
        exact ⟨by simp; omega, by simp, hacts, hnd, fun _ => hh, hk'⟩
theorem compileOutcomes_sound : ∀ (ws : List α) (ks : List (Raw α)) (prev : Prev) (s : BState α)
    (ps : List α) (ns : List (Node α)) (s' : BState α),
    compileOutcomes ws ks prev s = .ok (ps, ns, s') → ws.length = ks.length → Raw.ShapeL ks → Inv s →
    (ps = ws ∧ ns.length = ks.length ∧ ∀ w ∈ ws, 0 < w) ∧
    ∀ (A : Assignment α), AgreeW A s' → ∀ h1 h2, PrevH s prev h1 h2 → ConformsL A ks h1 h2
  | [], [], prev, s, ps, ns, s', h, hl, hs, hi => by
    simp only [compileOutcomes] at h
    cases h; simp [ConformsL]
  | [], k :: ks, prev, s, ps, ns, s', h, hl, hs, hi => by simp at hl
  | w :: ws, [], prev, s, ps, ns, s', h, hl, hs, hi => by simp at hl
  | w :: ws, k :: ks, prev, s, ps, ns, s', h, hl, hs, hi => by
    obtain ⟨hs1, hs2⟩ := (by simpa [Raw.ShapeL] using hs : Raw.Shape k ∧ Raw.ShapeL ks)
    simp only [compileOutcomes] at h
    split_ifs at h with hw
    split at h
    · cases h
    · rename_i n s1 hc
      split at h
      · cases h
      · rename_i ps' ns' s2 ho
        obtain ⟨i1, g1⟩ := compile_inv k prev s n s1 hc hi
        obtain ⟨i2, g2⟩ := compileOutcomes_inv ws ks prev s1 ps' ns' s2 ho i1
        obtain ⟨⟨e1, e2, e3⟩, hr⟩ := compileOutcomes_sound ws ks prev s1 ps' ns' s2 ho
          (by simpa using hl) hs2 i1
        have hk := compile_sound k prev s n s1 hc hs1 hi
        cases h
        simp at hw
        refine ⟨⟨by rw [e1], by simp [e2], ?_⟩, ?_⟩
        · intro x hx
          simp only [List.mem_cons] at hx
          rcases hx with hx | hx
          · subst hx; exact hw
          · exact e3 x hx
        · intro A hA h1 h2 hp
          simp only [ConformsL]
          exact ⟨hk A (hA.down g2) h1 h2 hp, hr A hA h1 h2 (hp.mono g1)⟩
theorem compileActions_sound : ∀ (ks : List (Raw α)) (one : Bool) (i a : Nat) (prev : Prev)
    (s : BState α) (ns : List (Node α)) (s' : BState α),
    compileActions ks one i a prev s = .ok (ns, s') → Raw.ShapeL ks → Inv s →
    ∀ (A : Assignment α), AgreeW A s' → ∀ h1 h2, PrevH s prev h1 h2 →
    ∀ (E : PInfo) (as : List Nat) (multi : Prop) [Decidable multi], multi →
      (s.infos one)[i]? = some E → E.prev = prev.get one → E.actions.drop a = as →
      as.length = ks.length → ConformsA A one E.label multi as ks h1 h2
  | [], one, i, a, prev, s, ns, s', h, hs, hi, A, hA, h1, h2, hp, E, as, multi, _, hm, hE, hpr, hd, hl => by
    cases as <;> simp [ConformsA]
  | k :: ks, one, i, a, prev, s, ns, s', h, hs, hi, A, hA, h1, h2, hp, E, [], multi, _, hm, hE, hpr, hd, hl => by
    simp at hl
  | k :: ks, one, i, a, prev, s, ns, s', h, hs, hi, A, hA, h1, h2, hp, E, x :: as, multi, _, hm, hE, hpr, hd, hl => by
    obtain ⟨hs1, hs2⟩ := (by simpa [Raw.ShapeL] using hs : Raw.Shape k ∧ Raw.ShapeL ks)
    obtain ⟨hx, hd'⟩ := drop_eq_cons hd
    simp only [compileActions] at h
    split at h
    · cases h
    · rename_i n s1 hc
      split at h
      · cases h
      · rename_i ns' s2 ho
        obtain ⟨i1, g1⟩ := compile_inv k _ s n s1 hc hi
        obtain ⟨i2, g2⟩ := compileActions_inv ks one i (a + 1) prev s1 ns' s2 ho i1
        have hk := compile_sound k _ s n s1 hc hs1 hi A
        have hr := compileActions_sound ks one i (a + 1) prev s1 ns' s2 ho hs2 i1 A
        cases h
        simp only [ConformsA]
        exact ⟨hk (hA.down g2) _ _ (hp.set multi hm hE hpr hx),
          hr hA h1 h2 (hp.mono g1) E as multi hm (prefix_getElem? (g1.infos one) hE) hpr hd'
            (by simpa using hl)⟩
end

theorem Inv.lab_mem {s : BState α} (hi : Inv s) {one : Bool} {e e' : PInfo}
    (he : e ∈ s.infos one) (he' : e' ∈ s.infos one) (h : e.label = e'.label) : e = e' := by
  obtain ⟨i, hi1⟩ := List.getElem?_of_mem he
  obtain ⟨j, hj1⟩ := List.getElem?_of_mem he'
  have := hi.lab one i j e e' hi1 hj1 h
  subst this
  rw [hi1] at hj1; exact Option.some.inj hj1

open Classical in
/-- the assignment read off the final tables -/
noncomputable def assignOf (s : BState α) : Assignment α where
  cprob l := match s.chance.find? (fun e => e.1 == some l) with
    | some e => e.2
    | none => []
  acts one l := match (s.infos one).find? (fun e => e.label == l) with
    | some e => e.actions
    | none => match (s.singles one).find? (fun e => e.1 == l) with
      | some e => [e.2]
      | none => []
  hist one l :=
    if h : ∃ hh, ∃ e ∈ s.infos one, e.label = l ∧ LH (s.infos one) e.prev hh then Classical.choose h
    else []

theorem agreeW_assignOf (s : BState α) (hi : Inv s) : AgreeW (assignOf s) s := by
  refine ⟨?_, ?_, ?_, ?_⟩
  · intro e he l hl
    simp only [assignOf]
    split
    · rename_i e' hf
      have hm := List.mem_of_find?_eq_some hf
      have hp := List.find?_some hf
      simp at hp
      exact hi.ch e' hm e he l hp hl
    · rename_i hf
      simp at hf
      exact absurd hl (hf _ _ he)
  · intro one e he
    simp only [assignOf]
    split
    · rename_i e' hf
      have hm := List.mem_of_find?_eq_some hf
      have hp := List.find?_some hf
      simp at hp
      rw [hi.lab_mem hm he hp]
    · rename_i hf
      simp at hf
      exact absurd rfl (hf e he)
  · intro one e he h hh
    have hex : ∃ hh, ∃ e' ∈ s.infos one, e'.label = e.label ∧ LH (s.infos one) e'.prev hh :=
      ⟨h, e, he, rfl, hh⟩
    simp only [assignOf, hex, dif_pos]
    obtain ⟨e', he', hl', hh'⟩ := Classical.choose_spec hex
    have := hi.lab_mem he' he hl'
    subst this
    exact hh'.func hh
  · intro one e he
    simp only [assignOf]
    split
    · rename_i e' hf
      have hm := List.mem_of_find?_eq_some hf
      have hp := List.find?_some hf
      simp at hp
      exact absurd hp (hi.disj one e' hm e he)
    · split
      · rename_i e' hf
        have hm := List.mem_of_find?_eq_some hf
        have hp := List.find?_some hf
        simp at hp
        rw [hi.sing one e' hm e he hp]
      · rename_i hf
        simp at hf
        exact absurd rfl (hf _ _ he)

theorem PrevH.empty : PrevH ({} : BState α) {} [] [] := by
  intro o; cases o <;> simp [Prev.get, BState.infos] <;> exact LH.nil

theorem fromRoot_ok_valid (r : Raw α) (hs : Raw.Shape r) (g : Game α) (h : fromRoot r = .ok g) :
    Valid r := by
  unfold fromRoot at h
  split at h
  · cases h
  · rename_i root s hc
    obtain ⟨i1, _⟩ := compile_inv r {} {} root s hc Inv.empty
    exact ⟨assignOf s, compile_sound r {} {} root s hc hs Inv.empty _ (agreeW_assignOf s i1) [] []
      PrevH.empty⟩

/-! ## completeness: a tree conforming to an assignment is accepted -/

/-- the tables agree with the assignment (history part: the `prev` pointer of an entry spells
the assigned history) -/
structure AgreeS (A : Assignment α) (s : BState α) : Prop where
  ch : ∀ e ∈ s.chance, ∀ l, e.1 = some l → A.cprob l = e.2
  acts : ∀ one, ∀ e ∈ s.infos one, A.acts one e.label = e.actions
  hist : ∀ one, ∀ e ∈ s.infos one, LH (s.infos one) e.prev (A.hist one e.label)
  sing : ∀ one, ∀ e ∈ s.singles one, A.acts one e.1 = [e.2]

theorem AgreeS.empty (A : Assignment α) : AgreeS A ({} : BState α) := by
  constructor <;> intro one <;> cases one <;> simp [BState.infos, BState.singles]

theorem registerSingle_complete {A : Assignment α} {one : Bool} {info a : Nat} {s : BState α}
    (hA : AgreeS A s) (hi : Inv s) (ha : A.acts one info = [a]) :
    ∃ s', registerSingle one info a s = .ok s' ∧ AgreeS A s' := by
  unfold registerSingle
  split_ifs with h1
  · exfalso
    simp at h1
    obtain ⟨e, he, hl⟩ := h1
    have h2 := hA.acts one e he
    have h3 := (hi.acts one e he).2
    rw [hl, ha] at h2
    rw [← h2] at h3; simp at h3
  · split
    · rename_i e he
      have hm := List.mem_of_find?_eq_some he
      have hp := List.find?_some he
      simp at hp
      have h2 := hA.sing one e hm
      rw [hp, ha] at h2
      simp at h2
      simp [h2, hA]
    · refine ⟨_, rfl, ⟨?_, ?_, ?_, ?_⟩⟩
      · simpa using hA.ch
      · simpa using hA.acts
      · simpa using hA.hist
      · intro o e hm
        simp only [singles_setSingles] at hm
        split_ifs at hm with ho
        · subst ho
          simp only [List.mem_append, List.mem_singleton] at hm
          rcases hm with hm | hm
          · exact hA.sing o e hm
          · subst hm; exact ha
        · exact hA.sing o e hm

theorem registerPlayer_complete {A : Assignment α} {one : Bool} {info : Nat} {acts : List Nat}
    {prev : Prev} {s : BState α}
    (hA : AgreeS A s) (hi : Inv s) (ha : A.acts one info = acts) (hnd : acts.Nodup)
    (h2 : 2 ≤ acts.length) (hh : LH (s.infos one) (prev.get one) (A.hist one info)) :
    ∃ i s', registerPlayer one info acts prev s = .ok (i, s') ∧ AgreeS A s' := by
  unfold registerPlayer
  split
  · rename_i i hidx
    obtain ⟨hlt, hp, _⟩ := List.findIdx?_eq_some_iff_getElem.mp hidx
    simp at hp
    have hm : (s.infos one)[i] ∈ s.infos one := List.getElem_mem hlt
    rw [List.getElem?_eq_getElem hlt]
    simp only
    have e1 : (s.infos one)[i].actions = acts := by rw [← hA.acts one _ hm, hp, ha]
    have e2 : (s.infos one)[i].prev = prev.get one := by
      have := hA.hist one _ hm
      rw [hp] at this
      exact LH.inj (hi.lab one) (fun e he => (hi.acts one e he).1) this hh
    simp [e1, e2, hA]
  · rename_i hidx
    simp at hidx
    split_ifs with h3 h4
    · exfalso
      simp at h3
      obtain ⟨x, hx⟩ := h3
      have := hA.sing one _ hx
      simp only [ha] at this
      rw [this] at h2; simp at h2
    · refine ⟨_, _, rfl, ⟨?_, ?_, ?_, ?_⟩⟩
      · simpa using hA.ch
      · intro o e hm
        simp only [infos_setInfos] at hm
        split_ifs at hm with ho
        · subst ho
          simp only [List.mem_append, List.mem_singleton] at hm
          rcases hm with hm | hm
          · exact hA.acts o e hm
          · subst hm; exact ha
        · exact hA.acts o e hm
      · intro o e hm
        simp only [infos_setInfos] at hm ⊢
        split_ifs at hm ⊢ with ho
        · subst ho
          simp only [List.mem_append, List.mem_singleton] at hm
          rcases hm with hm | hm
          · exact (hA.hist o e hm).mono (List.prefix_append _ _)
          · subst hm; exact hh.mono (List.prefix_append _ _)
        · exact hA.hist o e hm
      · simpa using hA.sing
    · exact absurd ((eraseDups_check acts).mpr hnd) h4

theorem AgreeS.withChance {A : Assignment α} {s : BState α} (hA : AgreeS A s)
    {E : Option Nat × List α} (hE : ∀ l, E.1 = some l → A.cprob l = E.2) :
    AgreeS A ({ s with chance := s.chance ++ [E] } : BState α) := by
  refine ⟨?_, by simpa using hA.acts, by simpa using hA.hist, by simpa using hA.sing⟩
  intro e hm l hl
  simp only [List.mem_append, List.mem_singleton] at hm
  rcases hm with hm | hm
  · exact hA.ch e hm l hl
  · subst hm; exact hE l hl

theorem registerChance_complete {A : Assignment α} {info : Option Nat} {probs : List α}
    {nodes : List (Node α)} {s : BState α}
    (hA : AgreeS A s) (hne : nodes ≠ [])
    (hc : ∀ l, info = some l →
      A.cprob l = if nodes.length = 1 then [1] else probs.map (· / lsum probs)) :
    ∃ n s', registerChance info probs nodes s = .ok (n, s') ∧ AgreeS A s' := by
  unfold registerChance
  split
  · exact absurd rfl hne
  · rename_i k
    split
    · exact ⟨_, _, rfl, hA⟩
    · rename_i l
      have hc' := hc l rfl
      simp only [List.length_singleton, if_true] at hc'
      split
      · rename_i e he
        have hm := List.mem_of_find?_eq_some he
        have hp := List.find?_some he
        simp at hp
        have := hA.ch e hm l hp
        rw [hc'] at this
        simp [← this, hA]
      · exact ⟨_, _, rfl, hA.withChance (by intro l' hl'; cases hl'; exact hc')⟩
  · rename_i hk1 hk2
    have hlen : nodes.length ≠ 1 := by
      intro hc
      match nodes, hc with
      | [k], _ => exact hk2 k rfl
    simp only [hlen, if_false] at hc
    dsimp only
    split
    · exact ⟨_, _, rfl, hA.withChance (by intro l' hl'; cases hl')⟩
    · rename_i l
      have hc' := hc l rfl
      split
      · rename_i i hidx
        obtain ⟨hlt, hp, _⟩ := List.findIdx?_eq_some_iff_getElem.mp hidx
        simp at hp
        have := hA.ch _ (List.getElem_mem hlt) l hp
        rw [hc'] at this
        rw [List.getElem?_eq_getElem hlt]
        simp [← this, hA]
      · exact ⟨_, _, rfl, hA.withChance (by intro l' hl'; cases hl'; exact hc')⟩

mutual
theorem compile_complete : ∀ (r : Raw α) (prev : Prev) (s : BState α) (A : Assignment α)
    (h1 h2 : LHist), Conforms A r h1 h2 → AgreeS A s → Inv s → PrevH s prev h1 h2 →
    ∃ n s', compile r prev s = .ok (n, s') ∧ AgreeS A s'
  | .term pay, prev, s, A, h1, h2, hc, hA, hi, hp => by
    simp only [compile, isFinite_exact, if_true]
    exact ⟨_, _, rfl, hA⟩
  | .chance info ws kids, prev, s, A, h1, h2, hc, hA, hi, hp => by
    obtain ⟨c1, c2, c3, c4, c5⟩ := (by simpa only [Conforms] using hc :
      ws.length = kids.length ∧ ws ≠ [] ∧ (∀ w ∈ ws, 0 < w) ∧
      (∀ l, info = some l → A.cprob l = normalise ws) ∧ ConformsL A kids h1 h2)
    obtain ⟨ns, s1, ho, hl, hA1⟩ := compileOutcomes_complete ws kids prev s A h1 h2 c1 c3 c5 hA hi hp
    simp only [compile, ho]
    refine registerChance_complete hA1 ?_ ?_
    · intro hn; subst hn; simp at hl
      rw [← hl] at c1; exact c2 (List.eq_nil_of_length_eq_zero c1)
    · intro l hl'
      rw [c4 l hl', hl, ← c1]
      exact (normalise_eq ws c3).symm
  | .player one info [] kids, prev, s, A, h1, h2, hc, hA, hi, hp => by
    simp [Conforms] at hc
  | .player one info (a :: as) [], prev, s, A, h1, h2, hc, hA, hi, hp => by
    simp [Conforms] at hc
  | .player one info [a] (k :: ks), prev, s, A, h1, h2, hc, hA, hi, hp => by
    obtain ⟨c1, c2, c3, c4, c5, c6⟩ := (by simpa only [Conforms] using hc :
      [a].length = (k :: ks).length ∧ [a] ≠ [] ∧ A.acts one info = [a] ∧ [a].Nodup ∧
      (2 ≤ [a].length → A.hist one info = (if one then h1 else h2)) ∧
      ConformsA A one info (2 ≤ [a].length) [a] (k :: ks) h1 h2)
    obtain ⟨s1, hr, hA1⟩ := registerSingle_complete hA hi c3
    obtain ⟨i1, g1, _⟩ := registerSingle_ok hr hi
    simp only [compile, hr]
    have c7 : Conforms A k h1 h2 := by simpa [ConformsA] using c6
    exact compile_complete k prev s1 A h1 h2 c7 hA1 i1 (hp.mono g1)
  | .player one info (a :: b :: as) (k :: ks), prev, s, A, h1, h2, hc, hA, hi, hp => by
    obtain ⟨c1, c2, c3, c4, c5, c6⟩ := (by simpa only [Conforms] using hc :
      (a :: b :: as).length = (k :: ks).length ∧ (a :: b :: as) ≠ [] ∧
      A.acts one info = (a :: b :: as) ∧ (a :: b :: as).Nodup ∧
      (2 ≤ (a :: b :: as).length → A.hist one info = (if one then h1 else h2)) ∧
      ConformsA A one info (2 ≤ (a :: b :: as).length) (a :: b :: as) (k :: ks) h1 h2)
    have hm : 2 ≤ (a :: b :: as).length := by simp
    have hh : LH (s.infos one) (prev.get one) (A.hist one info) := by rw [c5 hm]; exact hp one
    obtain ⟨i, s1, hr, hA1⟩ := registerPlayer_complete (prev := prev) hA hi c3 c4 hm hh
    obtain ⟨i1, g1, hE, _⟩ := registerPlayer_ok hr hi hm
    obtain ⟨ns, s2, hk, hA2⟩ := compileActions_complete (k :: ks) one i 0 prev s1 A h1 h2
      ⟨info, a :: b :: as, prev.get one⟩ (a :: b :: as) (2 ≤ (a :: b :: as).length) hm hE rfl rfl
      c6 c1 hA1 i1 (hp.mono g1)
    simp only [compile, hr, hk]
    exact ⟨_, _, rfl, hA2⟩
theorem compileOutcomes_complete : ∀ (ws : List α) (ks : List (Raw α)) (prev : Prev) (s : BState α)
    (A : Assignment α) (h1 h2 : LHist), ws.length = ks.length → (∀ w ∈ ws, 0 < w) →
    ConformsL A ks h1 h2 → AgreeS A s → Inv s → PrevH s prev h1 h2 →
    ∃ ns s', compileOutcomes ws ks prev s = .ok (ws, ns, s') ∧ ns.length = ks.length ∧ AgreeS A s'
  | [], [], prev, s, A, h1, h2, hl, hw, hc, hA, hi, hp => by
    simp only [compileOutcomes]
    exact ⟨_, _, rfl, rfl, hA⟩
  | [], k :: ks, prev, s, A, h1, h2, hl, hw, hc, hA, hi, hp => by simp at hl
  | w :: ws, [], prev, s, A, h1, h2, hl, hw, hc, hA, hi, hp => by simp at hl
  | w :: ws, k :: ks, prev, s, A, h1, h2, hl, hw, hc, hA, hi, hp => by
    obtain ⟨c1, c2⟩ := (by simpa only [ConformsL] using hc : Conforms A k h1 h2 ∧ ConformsL A ks h1 h2)
    obtain ⟨n, s1, hk, hA1⟩ := compile_complete k prev s A h1 h2 c1 hA hi hp
    obtain ⟨i1, g1⟩ := compile_inv k prev s n s1 hk hi
    obtain ⟨ns, s2, ho, hl2, hA2⟩ := compileOutcomes_complete ws ks prev s1 A h1 h2 (by simpa using hl)
      (fun x hx => hw x (by simp [hx])) c2 hA1 i1 (hp.mono g1)
    have hw0 : 0 < w := hw w (by simp)
    simp only [compileOutcomes, hw0, isFinite_exact, decide_true, Bool.and_self, if_true, hk, ho]
    exact ⟨_, _, rfl, by simp [hl2], hA2⟩
theorem compileActions_complete : ∀ (ks : List (Raw α)) (one : Bool) (i a : Nat) (prev : Prev)
    (s : BState α) (A : Assignment α) (h1 h2 : LHist) (E : PInfo) (as : List Nat)
    (multi : Prop) [Decidable multi], multi →
    (s.infos one)[i]? = some E → E.prev = prev.get one → E.actions.drop a = as →
    ConformsA A one E.label multi as ks h1 h2 → as.length = ks.length →
    AgreeS A s → Inv s → PrevH s prev h1 h2 →
    ∃ ns s', compileActions ks one i a prev s = .ok (ns, s') ∧ AgreeS A s'
  | [], one, i, a, prev, s, A, h1, h2, E, as, multi, _, hm, hE, hpr, hd, hc, hl, hA, hi, hp => by
    simp only [compileActions]
    exact ⟨_, _, rfl, hA⟩
  | k :: ks, one, i, a, prev, s, A, h1, h2, E, [], multi, _, hm, hE, hpr, hd, hc, hl, hA, hi, hp => by
    simp at hl
  | k :: ks, one, i, a, prev, s, A, h1, h2, E, x :: as, multi, _, hm, hE, hpr, hd, hc, hl, hA, hi, hp => by
    obtain ⟨hx, hd'⟩ := drop_eq_cons hd
    obtain ⟨c1, c2⟩ := (by simpa only [ConformsA] using hc :
      Conforms A k (if multi ∧ one then h1 ++ [(E.label, x)] else h1)
        (if multi ∧ ¬ one then h2 ++ [(E.label, x)] else h2) ∧
      ConformsA A one E.label multi as ks h1 h2)
    obtain ⟨n, s1, hk, hA1⟩ := compile_complete k (prev.set one (some (i, a))) s A _ _ c1 hA hi
      (hp.set multi hm hE hpr hx)
    obtain ⟨i1, g1⟩ := compile_inv k _ s n s1 hk hi
    obtain ⟨ns, s2, ho, hA2⟩ := compileActions_complete ks one i (a + 1) prev s1 A h1 h2 E as multi hm
      (prefix_getElem? (g1.infos one) hE) hpr hd' c2 (by simpa using hl) hA1 i1 (hp.mono g1)
    simp only [compileActions, hk, ho]
    exact ⟨_, _, rfl, hA2⟩
end

theorem valid_fromRoot_ok (r : Raw α) (hv : Valid r) : ∃ g, fromRoot r = .ok g := by
  obtain ⟨A, hc⟩ := hv
  obtain ⟨n, s, hk, _⟩ := compile_complete r {} {} A [] [] hc (AgreeS.empty A) Inv.empty PrevH.empty
  unfold fromRoot
  simp only [hk]
  exact ⟨_, rfl⟩

/-! ## the local errors are raised at a node violating the rule -/

/-- the four errors naming a rule about one node -/
def LocalErr (e : GameError) : Prop :=
  e = .emptyChance ∨ e = .nonPositiveChance ∨ e = .emptyPlayer ∨ e = .actionsNotUnique

theorem registerSingle_err {one : Bool} {info a : Nat} {s : BState α} {e : GameError}
    (h : registerSingle one info a s = .error e) : e = .actionsNotEqual := by
  unfold registerSingle at h
  split_ifs at h with h1
  · cases h; rfl
  · split at h
    · split_ifs at h; cases h; rfl
    · cases h

theorem registerPlayer_err {one : Bool} {info : Nat} {acts : List Nat} {prev : Prev} {s : BState α}
    {e : GameError} (h : registerPlayer one info acts prev s = .error e) :
    e = .actionsNotEqual ∨ e = .imperfectRecall ∨ (e = .actionsNotUnique ∧ ¬ acts.Nodup) := by
  unfold registerPlayer at h
  split at h
  · split at h
    · split_ifs at h
      · cases h; exact .inl rfl
      · cases h; exact .inr (.inl rfl)
    · cases h; exact .inl rfl
  · split_ifs at h with h3 h4
    · cases h; exact .inl rfl
    · cases h; exact .inr (.inr ⟨rfl, fun hn => h4 ((eraseDups_check acts).mpr hn)⟩)

theorem registerChance_err {info : Option Nat} {probs : List α} {nodes : List (Node α)}
    {s : BState α} {e : GameError} (h : registerChance info probs nodes s = .error e) :
    (e = .emptyChance ∧ nodes = []) ∨ e = .probabilitiesNotEqual := by
  unfold registerChance at h
  split at h
  · cases h; exact .inl ⟨rfl, rfl⟩
  · split at h
    · cases h
    · split at h
      · split_ifs at h; cases h; exact .inr rfl
      · cases h
  · dsimp only at h
    split at h
    · cases h
    · split at h
      · split_ifs at h; cases h; exact .inr rfl
      · cases h

theorem compileOutcomes_len : ∀ (ws : List α) (ks : List (Raw α)) (prev : Prev) (s : BState α)
    (ps : List α) (ns : List (Node α)) (s' : BState α),
    compileOutcomes ws ks prev s = .ok (ps, ns, s') → ws.length = ks.length → ns.length = ks.length
  | [], [], prev, s, ps, ns, s', h, hl => by
    simp only [compileOutcomes] at h
    cases h; rfl
  | [], k :: ks, prev, s, ps, ns, s', h, hl => by simp at hl
  | w :: ws, [], prev, s, ps, ns, s', h, hl => by simp at hl
  | w :: ws, k :: ks, prev, s, ps, ns, s', h, hl => by
    simp only [compileOutcomes] at h
    split_ifs at h with hw
    split at h
    · cases h
    · split at h
      · cases h
      · rename_i ps' ns' s2 ho
        have := compileOutcomes_len ws ks prev _ ps' ns' s2 ho (by simpa using hl)
        cases h
        simp [this]

mutual
theorem compile_err : ∀ (r : Raw α) (prev : Prev) (s : BState α) (e : GameError),
    compile r prev s = .error e → Raw.Shape r →
    e ≠ .nonFinitePayoff ∧ (LocalErr e → AnyNode (Violates e) r)
  | .term pay, prev, s, e, h, hs => by
    simp only [compile, isFinite_exact, if_true] at h
    cases h
  | .chance info ws kids, prev, s, e, h, hs => by
    obtain ⟨hs1, hs2⟩ := (by simpa [Raw.Shape] using hs : ws.length = kids.length ∧ Raw.ShapeL kids)
    simp only [compile] at h
    split at h
    · rename_i e' ho
      cases h
      obtain ⟨h1, h2⟩ := compileOutcomes_err ws kids prev s e ho hs1 hs2
      refine ⟨h1, fun hl => ?_⟩
      simp only [AnyNode]
      rcases h2 hl with ⟨rfl, hw⟩ | h3
      · left; simpa [Violates] using hw
      · right; exact h3
    · rename_i probs nodes s1 ho
      have hlen := compileOutcomes_len ws kids prev s probs nodes s1 ho hs1
      rcases registerChance_err h with ⟨rfl, hn⟩ | rfl
      · refine ⟨by simp, fun _ => ?_⟩
        simp only [AnyNode]
        left
        subst hn
        simp at hlen
        rw [← hlen] at hs1
        simpa [Violates] using List.eq_nil_of_length_eq_zero hs1
      · refine ⟨by simp, fun hl => ?_⟩
        simp [LocalErr] at hl
  | .player one info [] kids, prev, s, e, h, hs => by
    simp only [compile] at h
    cases h
    exact ⟨by simp, fun _ => by simp [AnyNode, Violates]⟩
  | .player one info (a :: as) [], prev, s, e, h, hs => by
    simp [Raw.Shape] at hs
  | .player one info [a] (k :: ks), prev, s, e, h, hs => by
    obtain ⟨hs1, hs2, hs3⟩ := (by simpa [Raw.Shape, Raw.ShapeL] using hs :
      ks.length = 0 ∧ Raw.Shape k ∧ Raw.ShapeL ks)
    simp only [compile] at h
    split at h
    · rename_i e' hr
      cases h
      have := registerSingle_err hr
      subst this
      exact ⟨by simp, fun hl => by simp [LocalErr] at hl⟩
    · rename_i s1 hr
      obtain ⟨h1, h2⟩ := compile_err k prev s1 e h hs2
      refine ⟨h1, fun hl => ?_⟩
      simp only [AnyNode, AnyNodeL]
      exact .inr (.inl (h2 hl))
  | .player one info (a :: b :: as) (k :: ks), prev, s, e, h, hs => by
    obtain ⟨hs1, hs2⟩ := (by simpa [Raw.Shape] using hs :
      as.length + 1 = ks.length ∧ Raw.ShapeL (k :: ks))
    simp only [compile] at h
    split at h
    · rename_i e' hr
      cases h
      rcases registerPlayer_err hr with rfl | rfl | ⟨rfl, hn⟩
      · exact ⟨by simp, fun hl => by simp [LocalErr] at hl⟩
      · exact ⟨by simp, fun hl => by simp [LocalErr] at hl⟩
      · refine ⟨by simp, fun _ => ?_⟩
        simp only [AnyNode]
        left; simpa [Violates] using hn
    · rename_i i s1 hr
      split at h
      · rename_i e' hc
        cases h
        obtain ⟨h1, h2⟩ := compileActions_err (k :: ks) one i 0 prev s1 e hc hs2
        refine ⟨h1, fun hl => ?_⟩
        simp only [AnyNode]
        exact .inr (h2 hl)
      · cases h
theorem compileOutcomes_err : ∀ (ws : List α) (ks : List (Raw α)) (prev : Prev) (s : BState α)
    (e : GameError), compileOutcomes ws ks prev s = .error e → ws.length = ks.length →
    Raw.ShapeL ks →
    e ≠ .nonFinitePayoff ∧
    (LocalErr e → (e = .nonPositiveChance ∧ ∃ w ∈ ws, ¬ 0 < w) ∨ AnyNodeL (Violates e) ks)
  | [], ks, prev, s, e, h, hl, hs => by
    simp only [compileOutcomes] at h
    cases h
  | w :: ws, [], prev, s, e, h, hl, hs => by simp at hl
  | w :: ws, k :: ks, prev, s, e, h, hl, hs => by
    obtain ⟨hs1, hs2⟩ := (by simpa [Raw.ShapeL] using hs : Raw.Shape k ∧ Raw.ShapeL ks)
    simp only [compileOutcomes] at h
    split_ifs at h with hw
    · split at h
      · rename_i e' hc
        cases h
        obtain ⟨h1, h2⟩ := compile_err k prev s e hc hs1
        refine ⟨h1, fun hl => ?_⟩
        simp only [AnyNodeL]
        exact .inr (.inl (h2 hl))
      · rename_i n s1 hc
        split at h
        · rename_i e' ho
          cases h
          obtain ⟨h1, h2⟩ := compileOutcomes_err ws ks prev s1 e ho (by simpa using hl) hs2
          refine ⟨h1, fun hl => ?_⟩
          simp only [AnyNodeL]
          rcases h2 hl with ⟨h3, x, hx, hx'⟩ | h3
          · exact .inl ⟨h3, x, by simp [hx], hx'⟩
          · exact .inr (.inr h3)
        · cases h
    · cases h
      simp at hw
      exact ⟨by simp, fun _ => .inl ⟨rfl, w, by simp, not_lt.mpr hw⟩⟩
theorem compileActions_err : ∀ (ks : List (Raw α)) (one : Bool) (i a : Nat) (prev : Prev)
    (s : BState α) (e : GameError), compileActions ks one i a prev s = .error e → Raw.ShapeL ks →
    e ≠ .nonFinitePayoff ∧ (LocalErr e → AnyNodeL (Violates e) ks)
  | [], one, i, a, prev, s, e, h, hs => by
    simp only [compileActions] at h
    cases h
  | k :: ks, one, i, a, prev, s, e, h, hs => by
    obtain ⟨hs1, hs2⟩ := (by simpa [Raw.ShapeL] using hs : Raw.Shape k ∧ Raw.ShapeL ks)
    simp only [compileActions] at h
    split at h
    · rename_i e' hc
      cases h
      obtain ⟨h1, h2⟩ := compile_err k _ s e hc hs1
      refine ⟨h1, fun hl => ?_⟩
      simp only [AnyNodeL]
      exact .inl (h2 hl)
    · rename_i n s1 hc
      split at h
      · rename_i e' ho
        cases h
        obtain ⟨h1, h2⟩ := compileActions_err ks one i (a + 1) prev s1 e ho hs2
        refine ⟨h1, fun hl => ?_⟩
        simp only [AnyNodeL]
        exact .inr (h2 hl)
      · cases h
end

theorem fromRoot_err (r : Raw α) (hs : Raw.Shape r) (e : GameError) (h : fromRoot r = .error e) :
    e ≠ .nonFinitePayoff ∧ (LocalErr e → AnyNode (Violates e) r) := by
  unfold fromRoot at h
  split at h
  · rename_i e' hc
    cases h
    exact compile_err r {} {} e hc hs
  · cases h

end CompileValid
end Cfr
