import CfrVerif.Proofs.Rate
import Mathlib.Algebra.BigOperators.Group.Finset.Basic
import Mathlib.Algebra.BigOperators.Ring.Finset
import Mathlib.Algebra.Order.BigOperators.Group.Finset
/-!
# The potential argument of regret matching (pure real analysis on lists)

`Phi R = Σ_a (max R_a 0)²`.  If `R' = R + δ` entrywise, the increment `δ` is orthogonal to the
strategy matched on `R` (`Σ_a σ_a δ_a = 0`, `σ = regretMatch (.fin 0) R`) and `|δ_a| ≤ D`, then
`Phi R' ≤ Phi R + n·D²` (`phi_step`).  Hence `max (max_a R_a) 0 ≤ √(Phi R)` stays below
`D·√(A·t)` after `t` steps (`bound_of_phi`).
-/
set_option linter.unusedSectionVars false
namespace Cfr
open Finset

/-- the potential: sum of the squared positive parts -/
noncomputable def Phi (l : List ℝ) : ℝ := ∑ a ∈ range l.length, (max (l.getD a 0) 0) ^ 2

theorem Phi_nonneg (l : List ℝ) : 0 ≤ Phi l :=
  Finset.sum_nonneg (fun _ _ => sq_nonneg _)

theorem pos_step (x y : ℝ) :
    (max (x + y) 0) ^ 2 ≤ (max x 0) ^ 2 + 2 * max x 0 * y + y ^ 2 := by
  have h1 : x ≤ max x 0 := le_max_left _ _
  rcases le_total (x + y) 0 with h | h
  · rw [max_eq_right h]
    nlinarith [sq_nonneg (max x 0 + y)]
  · rw [max_eq_left h]
    nlinarith [mul_nonneg (sub_nonneg.mpr h1) (by linarith : 0 ≤ max x 0 + x + 2 * y)]

theorem sum_range_getD_r (l : List ℝ) : ∑ a ∈ range l.length, l.getD a 0 = l.sum := by
  induction l with
  | nil => simp
  | cons x xs ih =>
    rw [List.length_cons, Finset.sum_range_succ', List.sum_cons]
    simp only [List.getD_cons_succ, List.getD_cons_zero, ih]
    ring

theorem getD_map_lt (f : ℝ → ℝ) (l : List ℝ) (a : ℕ) (ha : a < l.length) :
    (l.map f).getD a 0 = f (l.getD a 0) := by
  rw [List.getD_eq_getElem?_getD, List.getD_eq_getElem?_getD, List.getElem?_map]
  simp [ha]

theorem getD_mem (l : List ℝ) (a : ℕ) (ha : a < l.length) : l.getD a 0 ∈ l := by
  rw [List.getD_eq_getElem?_getD]
  simp [ha]

/-- the positive parts of `R` are orthogonal to any increment orthogonal to the matched strategy -/
theorem pos_orth (R : List ℝ) (δ : ℕ → ℝ)
    (horth : ∑ a ∈ range R.length, (regretMatch (.fin 0) R).getD a 0 * δ a = 0) :
    ∑ a ∈ range R.length, max (R.getD a 0) 0 * δ a = 0 := by
  by_cases h : ∃ x ∈ R, 0 < x
  · rw [regretMatch_positive _ R h] at horth
    have hS := sum_map_pos_pos R h
    have e : ∑ a ∈ range R.length, max (R.getD a 0) 0 * δ a
        = (R.map pos).sum * ∑ a ∈ range R.length,
            (R.map (fun r => pos r / (R.map pos).sum)).getD a 0 * δ a := by
      rw [Finset.mul_sum]
      apply Finset.sum_congr rfl
      intro a ha
      rw [getD_map_lt _ R a (Finset.mem_range.mp ha)]
      simp only [pos]
      field_simp
    rw [e, horth, mul_zero]
  · apply Finset.sum_eq_zero
    intro a ha
    have hm := getD_mem R a (Finset.mem_range.mp ha)
    have : R.getD a 0 ≤ 0 := by
      by_contra hc
      exact h ⟨_, hm, not_le.mp hc⟩
    rw [max_eq_right this, zero_mul]

/-- **one step of the potential argument** -/
theorem phi_step (R R' : List ℝ) (δ : ℕ → ℝ) (D : ℝ) (hlen : R'.length = R.length)
    (hR' : ∀ a, a < R.length → R'.getD a 0 = R.getD a 0 + δ a)
    (horth : ∑ a ∈ range R.length, (regretMatch (.fin 0) R).getD a 0 * δ a = 0)
    (hbd : ∀ a, a < R.length → |δ a| ≤ D) :
    Phi R' ≤ Phi R + R.length * D ^ 2 := by
  have h0 := pos_orth R δ horth
  have h1 : Phi R' ≤ ∑ a ∈ range R.length,
      ((max (R.getD a 0) 0) ^ 2 + 2 * (max (R.getD a 0) 0 * δ a) + D ^ 2) := by
    unfold Phi
    rw [hlen]
    apply Finset.sum_le_sum
    intro a ha
    have ha' := Finset.mem_range.mp ha
    rw [hR' a ha']
    have hb := abs_le.mp (hbd a ha')
    have := pos_step (R.getD a 0) (δ a)
    nlinarith [mul_nonneg (sub_nonneg.mpr hb.2) (by linarith [hb.1] : 0 ≤ D + δ a)]
  rw [Finset.sum_add_distrib, Finset.sum_add_distrib, ← Finset.mul_sum, h0, Finset.sum_const,
    Finset.card_range, nsmul_eq_mul] at h1
  unfold Phi at h1 ⊢
  linarith

theorem Phi_replicate_zero (n : ℕ) : Phi (List.replicate n (0 : ℝ)) = 0 := by
  unfold Phi
  apply Finset.sum_eq_zero
  intro a ha
  have : (List.replicate n (0 : ℝ)).getD a 0 = 0 := by
    rw [List.getD_eq_getElem?_getD]
    by_cases h : a < n <;> simp [h]
  rw [this]; simp

theorem max_le_sqrt_phi (l : List ℝ) (m : ℝ) (hm : m ∈ l) : max m 0 ≤ Real.sqrt (Phi l) := by
  apply Real.le_sqrt_of_sq_le
  obtain ⟨a, ha, rfl⟩ := List.getElem_of_mem hm
  have e : l.getD a 0 = l[a] := by
    rw [List.getD_eq_getElem?_getD]; simp [ha]
  have := Finset.single_le_sum (f := fun a => (max (l.getD a 0) 0) ^ 2) (s := range l.length)
    (fun _ _ => sq_nonneg _) (Finset.mem_range.mpr ha)
  simp only [e] at this
  exact this

/-- the bound an infoset reports is within the CFR rate once its potential is -/
theorem bound_of_phi (cr : List ℝ) (hne : cr ≠ []) (D : ℝ) (hD : 0 ≤ D) (A t : ℕ) (ht : 1 ≤ t)
    (h : Phi cr ≤ t * A * D ^ 2) :
    cumRegretBound t cr ≤ 2 * D * Real.sqrt A / Real.sqrt t := by
  obtain ⟨m, -, hm, e⟩ := cumRegretBound_closed t cr hne
  rw [e]
  have h1 : max m 0 ≤ Real.sqrt (t * A * D ^ 2) :=
    le_trans (max_le_sqrt_phi cr m hm) (Real.sqrt_le_sqrt h)
  have h2 : Real.sqrt ((t : ℝ) * A * D ^ 2) = Real.sqrt t * Real.sqrt A * D := by
    rw [Real.sqrt_mul (by positivity), Real.sqrt_mul (by positivity), Real.sqrt_sq hD]
  rw [h2] at h1
  have ht' : (0 : ℝ) < t := by exact_mod_cast ht
  have hs : 0 < Real.sqrt t := Real.sqrt_pos.mpr ht'
  have hss : Real.sqrt t * Real.sqrt t = t := Real.mul_self_sqrt ht'.le
  rw [div_le_div_iff₀ ht' hs]
  have hA : 0 ≤ Real.sqrt A := Real.sqrt_nonneg _
  calc 2 * max m 0 * Real.sqrt t
      ≤ 2 * (Real.sqrt t * Real.sqrt A * D) * Real.sqrt t := by
        apply mul_le_mul_of_nonneg_right _ hs.le
        linarith
    _ = 2 * D * Real.sqrt A * (Real.sqrt t * Real.sqrt t) := by ring
    _ = 2 * D * Real.sqrt A * t := by rw [hss]

end Cfr
