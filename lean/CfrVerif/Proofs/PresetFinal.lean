import CfrVerif.Proofs.PresetGame
import CfrVerif.Proofs.PresetScalar
import CfrVerif.Props.C03
/-!
# C03, second sentence: the discounted presets (to be appended to `Props/C03.lean` once proved)
-/
set_option linter.unusedSectionVars false
namespace Cfr

/-- the envelope of the property: `6·D·N·(√A + 1/√T)/√T` -/
noncomputable def presetEnvelope (D : ℝ) (N A T : Nat) : ℝ :=
  6 * D * (N : ℝ) * (Real.sqrt A + 1 / Real.sqrt T) / Real.sqrt T

/-- the four discounted presets -/
def IsDiscountedPreset (p : RegretParams ℝ) : Prop :=
  p = RegretParams.lcfr ∨ p = RegretParams.cfrPlus ∨ p = RegretParams.dcfr ∨ p = RegretParams.dcfrPrune

/-- **every documented preset**: after `T` iterations of the unsampled solver (no early
termination) the true regret of the returned profile is at most `6·D·N·(√A + 1/√T)/√T`, where
`D = hi − lo` is the payoff range, `N` the number of decision infosets of both players, `A ≥ 2` a
bound on the number of actions per infoset -/
theorem full_preset_rate (g : Game ℝ) (hg : GameWF g) (lo hi : ℝ) (hpay : PayIn lo hi g.root)
    (A : Nat) (hA : ActsLe g A) (hA2 : 2 ≤ A) (p : RegretParams ℝ)
    (hp : p = RegretParams.vanilla ∨ IsDiscountedPreset p) (draw : DrawFn ℝ) (T : Nat) (hT : 0 < T) :
    (getInfo g (solveVanillaSingle g false p draw T none).profile).regret
      ≤ presetEnvelope (hi - lo) (g.p1.length + g.p2.length) A T := by
  sorry

/-- every thread count -/
theorem full_preset_rate_multi (sched : Sched ℝ) (hs : sched.Fair) (g : Game ℝ) (hg : GameWF g)
    (lo hi : ℝ) (hpay : PayIn lo hi g.root) (A : Nat) (hA : ActsLe g A) (hA2 : 2 ≤ A)
    (p : RegretParams ℝ) (hp : p = RegretParams.vanilla ∨ IsDiscountedPreset p) (draw : DrawFn ℝ)
    (T : Nat) (hT : 0 < T) (target : Nat) :
    (getInfo g (solveVanillaMultiS sched g false p draw T none target).profile).regret
      ≤ presetEnvelope (hi - lo) (g.p1.length + g.p2.length) A T := by
  sorry

/-- regret tends to zero with every preset -/
theorem full_preset_regret_tendsto_zero (g : Game ℝ) (hg : GameWF g) (lo hi : ℝ)
    (hpay : PayIn lo hi g.root) (A : Nat) (hA : ActsLe g A) (hA2 : 2 ≤ A) (p : RegretParams ℝ)
    (hp : p = RegretParams.vanilla ∨ IsDiscountedPreset p) (draw : DrawFn ℝ) :
    ∀ ε : ℝ, 0 < ε → ∃ T0 : Nat, ∀ T : Nat, T0 ≤ T →
      (getInfo g (solveVanillaSingle g false p draw T none).profile).regret ≤ ε := by
  sorry

end Cfr
