import CfrVerif.Proofs.PresetGame
import CfrVerif.Proofs.PresetScalar
import CfrVerif.Proofs.RateProps
/-!
# C03, second sentence: the discounted presets (re-exported by `Props/C03.lean`)
-/
set_option linter.unusedSectionVars false
namespace Cfr

/-- the envelope of the property: `6·D·N·(√A + 1/√T)/√T` -/
noncomputable def presetEnvelope (D : ℝ) (N A T : Nat) : ℝ :=
  6 * D * (N : ℝ) * (Real.sqrt A + 1 / Real.sqrt T) / Real.sqrt T

/-- the four discounted presets -/
def IsDiscountedPreset (p : RegretParams ℝ) : Prop :=
  p = RegretParams.lcfr ∨ p = RegretParams.cfrPlus ∨ p = RegretParams.dcfr ∨ p = RegretParams.dcfrPrune

namespace PF

theorem maxD_le (d B : ℝ) (L : List ℝ) (hd : d ≤ B) (h : ∀ y ∈ L, y ≤ B) : maxD d L ≤ B := by
  cases L with
  | nil => simpa [maxD] using hd
  | cons x xs =>
    simp only [maxD]
    exact h _ (foldl_fmax_mem_le xs x).1

/-- the clamped maximum of an infoset is below every non-negative bound of its entries -/
theorem clamped_le {p : RegretParams ℝ} {n : Nat} {D : ℝ} {T : Nat} (tr : RMTrace p n D T) (B : ℝ)
    (hB : 0 ≤ B) (h : ∀ a, a < n → tr.weightedRegret a ≤ B) : tr.clampedMax ≤ B := by
  unfold RMTrace.clampedMax
  rw [fmax_eq_max]
  refine max_le (maxD_le 0 B _ hB ?_) hB
  intro y hy
  obtain ⟨a, ha, rfl⟩ := List.mem_map.mp hy
  exact h a (List.mem_range.mp ha)

theorem sum_range_le (m : Nat) (f : Nat → ℝ) (B : ℝ) (h : ∀ I, I < m → f I ≤ B) :
    ((List.range m).map f).sum ≤ (m : ℝ) * B := by
  induction m with
  | zero => simp
  | succ m ih =>
    rw [List.range_succ, List.map_append, List.sum_append]
    have h1 := ih (fun I hI => h I (by omega))
    have h2 := h m (by omega)
    push_cast
    simp only [List.map_cons, List.map_nil, List.sum_cons, List.sum_nil, add_zero]
    linarith

theorem nActs_bounds (g : Game ℝ) (hg : GameWF g) (A : Nat) (hA : ActsLe g A) (me : Bool) (I : Nat)
    (hI : I < (g.infos me).length) : 1 ≤ nActsAt g me I ∧ nActsAt g me I ≤ A := by
  unfold nActsAt
  rw [List.getD_eq_getElem?_getD, List.getElem?_eq_getElem hI]
  simp only [Option.getD_some]
  have hm := List.getElem_mem hI
  exact ⟨by have := hg.actsTwo me _ hm; omega, hA me _ hm⟩

/-- steps 2 and 3: the per-infoset scalar bound, summed over all infosets -/
theorem reduce (g : Game ℝ) (hg : GameWF g) (lo hi : ℝ) (hpay : PayIn lo hi g.root)
    (A : Nat) (hA : ActsLe g A) (p : RegretParams ℝ) (hp0 : 0 ≤ p.strat)
    (hpos : p.posRegret ≠ .negInf) (draw : DrawFn ℝ) (T : Nat) (hT : 0 < T) (hD : 0 ≤ hi - lo)
    (C : ℝ) (hC : 0 ≤ C)
    (hsc : ∀ n, 1 ≤ n → ∀ (tr : RMTrace p n (hi - lo) T) (a : Nat), a < n →
      tr.weightedRegret a ≤ (T : ℝ) ^ p.strat * ((hi - lo) * Real.sqrt (n * T)) + C * (hi - lo)) :
    (getInfo g (solveVanillaSingle g false p draw T none).profile).regret * weightTotal p.strat T
      ≤ ((g.p1.length + g.p2.length : ℕ) : ℝ)
          * ((T : ℝ) ^ p.strat * ((hi - lo) * Real.sqrt (A * T)) + C * (hi - lo)) := by
  obtain ⟨tr, h⟩ := preset_reduction g hg p hp0 hpos lo hi hpay draw T hT
  refine le_trans h ?_
  have hP : 0 ≤ (T : ℝ) ^ p.strat := Real.rpow_nonneg (Nat.cast_nonneg _) _
  set B : ℝ := (T : ℝ) ^ p.strat * ((hi - lo) * Real.sqrt (A * T)) + C * (hi - lo) with hBdef
  have hB : 0 ≤ B :=
    add_nonneg (mul_nonneg hP (mul_nonneg hD (Real.sqrt_nonneg _))) (mul_nonneg hC hD)
  have key : ∀ me I, I < (g.infos me).length → (tr me I).clampedMax ≤ B := by
    intro me I hI
    obtain ⟨h1, h2⟩ := nActs_bounds g hg A hA me I hI
    apply clamped_le _ _ hB
    intro a ha
    refine le_trans (hsc _ h1 (tr me I) a ha) ?_
    have h2' : (nActsAt g me I : ℝ) ≤ (A : ℝ) := by exact_mod_cast h2
    have hs : Real.sqrt ((nActsAt g me I : ℝ) * T) ≤ Real.sqrt ((A : ℝ) * T) :=
      Real.sqrt_le_sqrt (mul_le_mul_of_nonneg_right h2' (Nat.cast_nonneg _))
    have := mul_le_mul_of_nonneg_left (mul_le_mul_of_nonneg_left hs hD) hP
    rw [hBdef]
    linarith
  have s1 := sum_range_le g.p1.length (fun I => (tr true I).clampedMax) B
    (fun I hI => key true I (by simpa [Game.infos] using hI))
  have s2 := sum_range_le g.p2.length (fun I => (tr false I).clampedMax) B
    (fun I hI => key false I (by simpa [Game.infos] using hI))
  push_cast
  linarith

/-- step 4 for `C = 0` (lcfr, cfr+), denominators cleared -/
theorem arith_zero (R D N a s P : ℝ) (hD : 0 ≤ D) (hN : 0 ≤ N) (ha : 0 ≤ a) (hs : 0 < s)
    (hP : 0 < P) (h : R * (P * s ^ 2) ≤ 3 * (N * (P * (D * (a * s))))) :
    R * s ^ 2 ≤ 6 * D * N * (a * s + 1) := by
  have h3 : (P * s) * (R * s) ≤ (P * s) * (3 * (D * N * a)) := by
    have e1 : (P * s) * (R * s) = R * (P * s ^ 2) := by ring
    have e2 : (P * s) * (3 * (D * N * a)) = 3 * (N * (P * (D * (a * s)))) := by ring
    rw [e1, e2]; exact h
  have h4 : R * s ≤ 3 * (D * N * a) := le_of_mul_le_mul_left h3 (mul_pos hP hs)
  have h5 := mul_le_mul_of_nonneg_right h4 hs.le
  have hDN : 0 ≤ D * N := mul_nonneg hD hN
  have hDNas : 0 ≤ D * N * (a * s) := mul_nonneg hDN (mul_nonneg ha hs.le)
  linarith

/-- the trivial bound `R ≤ D` is below the envelope for `T ≤ 36` (and at least one infoset) -/
theorem arith_small (R D N a s : ℝ) (hRD : R ≤ D) (hD : 0 ≤ D) (hN : 1 ≤ N) (ha : 1 ≤ a)
    (hs : 0 ≤ s) (hs6 : s ≤ 6) : R * s ^ 2 ≤ 6 * D * N * (a * s + 1) := by
  have h5 : R * s ^ 2 ≤ D * s ^ 2 := mul_le_mul_of_nonneg_right hRD (by positivity)
  have h6 : s ^ 2 ≤ 6 * (a * s) := by
    have h61 : s * s ≤ 6 * s := mul_le_mul_of_nonneg_right hs6 hs
    have h62 : 1 * s ≤ a * s := mul_le_mul_of_nonneg_right ha hs
    nlinarith
  have h7 : D * s ^ 2 ≤ D * (6 * (a * s)) := mul_le_mul_of_nonneg_left h6 hD
  have h8 : 0 ≤ D * (a * s) := by positivity
  have h9 : 1 * (D * (a * s)) ≤ N * (D * (a * s)) := mul_le_mul_of_nonneg_right hN h8
  have h10 : 0 ≤ D * N := by positivity
  linarith

/-- step 4 for `γ = 2`, `C ≤ 250`, `T ≥ 12` -/
theorem arith_large (R D N a s C : ℝ) (hD : 0 ≤ D) (hN : 0 ≤ N) (ha : 0 ≤ a) (hs : 0 < s)
    (hC : C ≤ 250) (hs4 : 144 ≤ s ^ 4)
    (h : R * (s ^ 4 * s ^ 2) ≤ 3 * (N * (s ^ 4 * (D * (a * s)) + C * D))) :
    R * s ^ 2 ≤ 6 * D * N * (a * s + 1) := by
  have hDN : 0 ≤ D * N := mul_nonneg hD hN
  have h1 : C * (D * N) ≤ 250 * (D * N) := mul_le_mul_of_nonneg_right hC hDN
  have h2 : 144 * (D * N) ≤ s ^ 4 * (D * N) := mul_le_mul_of_nonneg_right hs4 hDN
  have h3 : 0 ≤ D * N * (s ^ 5 * a) := by positivity
  have h4 : s ^ 4 * (R * s ^ 2) ≤ s ^ 4 * (6 * D * N * (a * s + 1)) := by
    have e1 : s ^ 4 * (R * s ^ 2) = R * (s ^ 4 * s ^ 2) := by ring
    rw [e1]
    refine le_trans h ?_
    have e2 : 3 * (N * (s ^ 4 * (D * (a * s)) + C * D))
        = 3 * (D * N * (s ^ 5 * a)) + 3 * (C * (D * N)) := by ring
    have e3 : s ^ 4 * (6 * D * N * (a * s + 1))
        = 6 * (D * N * (s ^ 5 * a)) + 6 * (s ^ 4 * (D * N)) := by ring
    rw [e2, e3]
    linarith
  exact le_of_mul_le_mul_left h4 (by positivity)

/-- step 4: the arithmetic -/
theorem final_arith (R D W γ C : ℝ) (N A T : ℕ) (hR : 0 ≤ R) (hRD : R ≤ D) (hT : 0 < T)
    (hA2 : 2 ≤ A) (hγ0 : 0 ≤ γ) (hγ2 : γ ≤ 2) (hC0 : 0 ≤ C)
    (hW : (T : ℝ) ^ (γ + 1) / (γ + 1) ≤ W)
    (h : R * W ≤ (N : ℝ) * ((T : ℝ) ^ γ * (D * Real.sqrt (A * T)) + C * D))
    (hC : C = 0 ∨ (γ = 2 ∧ C ≤ 250)) : R ≤ presetEnvelope D N A T := by
  have hD : 0 ≤ D := le_trans hR hRD
  have hT1 : (1 : ℝ) ≤ T := by exact_mod_cast hT
  have hA1 : (2 : ℝ) ≤ A := by exact_mod_cast hA2
  have hN : (0 : ℝ) ≤ N := Nat.cast_nonneg _
  obtain ⟨s, hsdef⟩ : ∃ s, s = Real.sqrt T := ⟨_, rfl⟩
  obtain ⟨a, hadef⟩ : ∃ a, a = Real.sqrt A := ⟨_, rfl⟩
  have hs2 : s ^ 2 = T := by rw [hsdef]; exact Real.sq_sqrt (by linarith)
  have ha2 : a ^ 2 = A := by rw [hadef]; exact Real.sq_sqrt (by linarith)
  have hs0 : 0 ≤ s := by rw [hsdef]; exact Real.sqrt_nonneg _
  have ha0 : 0 ≤ a := by rw [hadef]; exact Real.sqrt_nonneg _
  have hs1 : 1 ≤ s := by nlinarith
  have ha1 : 1 ≤ a := by nlinarith
  have hspos : 0 < s := by linarith
  have hsq : Real.sqrt ((A : ℝ) * T) = a * s := by
    rw [hadef, hsdef]; exact Real.sqrt_mul (by linarith) _
  obtain ⟨P, hPdef⟩ : ∃ P, P = (T : ℝ) ^ γ := ⟨_, rfl⟩
  have hP : 0 < P := by rw [hPdef]; exact Real.rpow_pos_of_pos (by linarith) _
  have hP1 : (T : ℝ) ^ (γ + 1) = P * s ^ 2 := by
    rw [hPdef, hs2]; exact Real.rpow_add_one (by linarith) _
  rw [hsq, ← hPdef] at h
  rw [hP1] at hW
  -- the envelope with cleared denominators
  have henv : presetEnvelope D N A T = 6 * D * N * (a * s + 1) / s ^ 2 := by
    unfold presetEnvelope
    rw [← hadef, ← hsdef]
    field_simp
  rw [henv, le_div_iff₀ (by positivity)]
  -- the main inequality: `R·P·s² ≤ 3·N·(P·D·a·s + C·D)`
  have hX : 0 ≤ (N : ℝ) * (P * (D * (a * s)) + C * D) := by positivity
  have h1 : R * (P * s ^ 2 / (γ + 1)) ≤ (N : ℝ) * (P * (D * (a * s)) + C * D) :=
    le_trans (mul_le_mul_of_nonneg_left hW hR) h
  have h2 : R * (P * s ^ 2) ≤ 3 * ((N : ℝ) * (P * (D * (a * s)) + C * D)) := by
    rw [← mul_div_assoc, div_le_iff₀ (by linarith)] at h1
    have hg3 : γ + 1 ≤ 3 := by linarith
    have := mul_le_mul_of_nonneg_left hg3 hX
    linarith
  clear h1 h hW hsq henv
  rcases hC with hC | ⟨hγ, hC⟩
  · -- lcfr, cfr+
    subst hC
    rw [zero_mul, add_zero] at h2
    exact arith_zero R D N a s P hD hN ha0 hspos hP h2
  · -- dcfr, dcfr-prune
    subst hγ
    have hP4 : P = s ^ 4 := by
      rw [hPdef, Real.rpow_two, ← hs2]; ring
    subst hP4
    rcases Nat.lt_or_ge T 12 with hT12 | hT12
    · have hT11 : (T : ℝ) ≤ 11 := by exact_mod_cast Nat.lt_succ_iff.mp hT12
      rcases Nat.eq_zero_or_pos N with hN0 | hN0
      · subst hN0
        simp only [Nat.cast_zero, zero_mul] at h2 ⊢
        have hX : 0 < s ^ 4 * s ^ 2 := by positivity
        have hR0 : R ≤ 0 := by
          by_contra hc
          have := mul_pos (not_le.mp hc) hX
          linarith
        have : R = 0 := le_antisymm hR0 hR
        simp [this]
      · have hN1 : (1 : ℝ) ≤ N := by exact_mod_cast hN0
        have hs6 : s ≤ 6 := by nlinarith
        exact arith_small R D N a s hRD hD hN1 ha1 hs0 hs6
    · have hT12' : (12 : ℝ) ≤ T := by exact_mod_cast hT12
      have hs4 : 144 ≤ s ^ 4 := by
        have : s ^ 4 = (T : ℝ) ^ 2 := by rw [← hs2]; ring
        have h12 : (12 : ℝ) * 12 ≤ (T : ℝ) * T :=
          mul_le_mul hT12' hT12' (by norm_num) (by linarith)
        rw [this, sq]; linarith
      exact arith_large R D N a s C hD hN ha0 hspos hC hs4 h2

theorem regret_nonneg (g : Game ℝ) (σ : Profile ℝ) : 0 ≤ (getInfo g σ).regret := by
  simp only [StrategiesInfo.regret, getInfo, fmax_eq_max]
  exact le_max_of_le_left (le_max_right _ _)

theorem profile_ok (g : Game ℝ) (hg : GameWF g) (p : RegretParams ℝ) (hp : p.OK) (draw : DrawFn ℝ)
    (T : Nat) : ProfileOK g (solveVanillaSingle g false p draw T none).profile := by
  have w := vanilla_single_wellformed g hg false p hp draw T none
  intro me
  cases me
  · simpa [SolveOut.profile] using w.stratTwo
  · simpa [SolveOut.profile] using w.stratOne

theorem preset_ok (p : RegretParams ℝ) (hp : p = RegretParams.vanilla ∨ IsDiscountedPreset p) :
    p.OK := by
  rcases hp with rfl | rfl | rfl | rfl | rfl
  · exact presets_ok.1
  · exact presets_ok.2.1
  · exact presets_ok.2.2.1
  · exact presets_ok.2.2.2.1
  · exact presets_ok.2.2.2.2.1

/-- the payoff range is non-negative and bounds the regret of the returned profile -/
theorem range_facts (g : Game ℝ) (hg : GameWF g) (lo hi : ℝ) (hpay : PayIn lo hi g.root)
    (p : RegretParams ℝ) (hp : p = RegretParams.vanilla ∨ IsDiscountedPreset p) (draw : DrawFn ℝ)
    (T : Nat) :
    0 ≤ (getInfo g (solveVanillaSingle g false p draw T none).profile).regret ∧
    (getInfo g (solveVanillaSingle g false p draw T none).profile).regret ≤ hi - lo ∧
    0 ≤ hi - lo := by
  have h0 := regret_nonneg g (solveVanillaSingle g false p draw T none).profile
  have h1 := regret_le_range g hg lo hi hpay _ (profile_ok g hg p (preset_ok p hp) draw T)
  exact ⟨h0, h1, le_trans h0 h1⟩

/-- the discounted presets, from the scalar theorem of the preset (`γ` its averaging exponent,
`C` its constant) -/
theorem rate_of_scalar (g : Game ℝ) (hg : GameWF g) (lo hi : ℝ) (hpay : PayIn lo hi g.root)
    (A : Nat) (hA : ActsLe g A) (hA2 : 2 ≤ A) (p : RegretParams ℝ)
    (hp : p = RegretParams.vanilla ∨ IsDiscountedPreset p) (draw : DrawFn ℝ) (T : Nat) (hT : 0 < T)
    (γ : ℝ) (hγ : p.strat = γ) (hγ0 : 0 ≤ γ) (hγ2 : γ ≤ 2) (hpos : p.posRegret ≠ .negInf)
    (C : ℝ) (hC0 : 0 ≤ C) (hC : C = 0 ∨ (γ = 2 ∧ C ≤ 250))
    (hsc : ∀ n, 1 ≤ n → ∀ D : ℝ, 0 ≤ D → ∀ (tr : RMTrace p n D T) (a : Nat), a < n →
      tr.weightedRegret a ≤ (T : ℝ) ^ γ * (D * Real.sqrt (n * T)) + C * D) :
    (getInfo g (solveVanillaSingle g false p draw T none).profile).regret
      ≤ presetEnvelope (hi - lo) (g.p1.length + g.p2.length) A T := by
  obtain ⟨hR0, hRD, hD⟩ := range_facts g hg lo hi hpay p hp draw T
  have h := reduce g hg lo hi hpay A hA p (by rw [hγ]; exact hγ0) hpos draw T hT hD C hC0
    (fun n hn tr a ha => by rw [hγ]; exact hsc n hn _ hD tr a ha)
  rw [hγ] at h
  exact final_arith _ _ _ γ C _ A T hR0 hRD hT hA2 hγ0 hγ2 hC0 (weightTotal_ge γ hγ0 T) h hC

end PF

/-- **every documented preset**: after `T` iterations of the unsampled solver (no early
termination) the true regret of the returned profile is at most `6·D·N·(√A + 1/√T)/√T`, where
`D = hi − lo` is the payoff range, `N` the number of decision infosets of both players, `A ≥ 2` a
bound on the number of actions per infoset -/
theorem full_preset_rate (g : Game ℝ) (hg : GameWF g) (lo hi : ℝ) (hpay : PayIn lo hi g.root)
    (A : Nat) (hA : ActsLe g A) (hA2 : 2 ≤ A) (p : RegretParams ℝ)
    (hp : p = RegretParams.vanilla ∨ IsDiscountedPreset p) (draw : DrawFn ℝ) (T : Nat) (hT : 0 < T) :
    (getInfo g (solveVanillaSingle g false p draw T none).profile).regret
      ≤ presetEnvelope (hi - lo) (g.p1.length + g.p2.length) A T := by
  have hp' := hp
  rcases hp with rfl | rfl | rfl | rfl | rfl
  · obtain ⟨-, -, hD⟩ := PF.range_facts g hg lo hi hpay _ hp' draw T
    exact full_preset_rate_partial g hg lo hi (by linarith) hpay A hA draw T hT
  · exact PF.rate_of_scalar g hg lo hi hpay A hA hA2 _ hp' draw T hT 1 rfl (by norm_num)
      (by norm_num) (by simp [RegretParams.lcfr]) (presetConst 0) (le_refl _) (Or.inl rfl)
      (fun n hn D hD tr a ha => lcfr_weighted_regret n hn D hD T tr a ha)
  · exact PF.rate_of_scalar g hg lo hi hpay A hA hA2 _ hp' draw T hT 2 PS.two_eq (by norm_num)
      (by norm_num) (by simp [RegretParams.cfrPlus]) (presetConst 1) (le_refl _) (Or.inl rfl)
      (fun n hn D hD tr a ha => cfrPlus_weighted_regret n hn D hD T tr a ha)
  · exact PF.rate_of_scalar g hg lo hi hpay A hA hA2 _ hp' draw T hT 2 PS.two_eq (by norm_num)
      (by norm_num) (by simp [RegretParams.dcfr]) (presetConst 2) (by norm_num [presetConst])
      (Or.inr ⟨rfl, by norm_num [presetConst]⟩)
      (fun n hn D hD tr a ha => dcfr_weighted_regret n hn D hD T tr a ha)
  · exact PF.rate_of_scalar g hg lo hi hpay A hA hA2 _ hp' draw T hT 2 PS.two_eq (by norm_num)
      (by norm_num) (by simp [RegretParams.dcfrPrune]) (presetConst 3)
      (by norm_num [presetConst]) (Or.inr ⟨rfl, by norm_num [presetConst]⟩)
      (fun n hn D hD tr a ha => dcfrPrune_weighted_regret n hn D hD T tr a ha)

/-- every thread count -/
theorem full_preset_rate_multi (sched : Sched ℝ) (hs : sched.Fair) (g : Game ℝ) (hg : GameWF g)
    (lo hi : ℝ) (hpay : PayIn lo hi g.root) (A : Nat) (hA : ActsLe g A) (hA2 : 2 ≤ A)
    (p : RegretParams ℝ) (hp : p = RegretParams.vanilla ∨ IsDiscountedPreset p) (draw : DrawFn ℝ)
    (T : Nat) (hT : 0 < T) (target : Nat) :
    (getInfo g (solveVanillaMultiS sched g false p draw T none target).profile).regret
      ≤ presetEnvelope (hi - lo) (g.p1.length + g.p2.length) A T := by
  rw [full_multi_eq_single sched hs]
  exact full_preset_rate g hg lo hi hpay A hA hA2 p hp draw T hT

/-- for `T ≥ 1` the envelope is at most `6·D·N·(√A + 1)/√T` -/
theorem PF.envelope_le (D : ℝ) (hD : 0 ≤ D) (N A T : Nat) (hT : 0 < T) :
    presetEnvelope D N A T ≤ 6 * D * (N : ℝ) * (Real.sqrt A + 1) / Real.sqrt T := by
  unfold presetEnvelope
  have hT1 : (1 : ℝ) ≤ T := by exact_mod_cast hT
  have hs1 : 1 ≤ Real.sqrt T := by
    rw [show (1 : ℝ) = Real.sqrt 1 by simp]; exact Real.sqrt_le_sqrt hT1
  have hinv : 1 / Real.sqrt T ≤ 1 := by
    rw [div_le_one (by linarith)]; exact hs1
  have hN : (0 : ℝ) ≤ N := Nat.cast_nonneg _
  apply div_le_div_of_nonneg_right _ (by linarith)
  apply mul_le_mul_of_nonneg_left _ (by positivity)
  linarith

/-- regret tends to zero with every preset -/
theorem full_preset_regret_tendsto_zero (g : Game ℝ) (hg : GameWF g) (lo hi : ℝ)
    (hpay : PayIn lo hi g.root) (A : Nat) (hA : ActsLe g A) (hA2 : 2 ≤ A) (p : RegretParams ℝ)
    (hp : p = RegretParams.vanilla ∨ IsDiscountedPreset p) (draw : DrawFn ℝ) :
    ∀ ε : ℝ, 0 < ε → ∃ T0 : Nat, ∀ T : Nat, T0 ≤ T →
      (getInfo g (solveVanillaSingle g false p draw T none).profile).regret ≤ ε := by
  intro ε hε
  obtain ⟨-, -, hD⟩ := PF.range_facts g hg lo hi hpay p hp draw 0
  have hC : 0 ≤ 6 * (hi - lo) * ((g.p1.length + g.p2.length : Nat) : ℝ) * (Real.sqrt A + 1) := by
    have := Real.sqrt_nonneg (A : ℝ)
    positivity
  obtain ⟨T0, hT0, h⟩ := const_div_sqrt_eventually _ hC ε hε
  refine ⟨T0, fun T hT => ?_⟩
  have hTpos : 0 < T := by omega
  exact le_trans (full_preset_rate g hg lo hi hpay A hA hA2 p hp draw T hTpos)
    (le_trans (PF.envelope_le _ hD _ A T hTpos) (h T hT))

/-- the hypotheses are satisfiable: the default preset (DCFR) on a concrete game with one infoset
per player, two actions, payoffs in `[-1, 1]` -/
example (draw : DrawFn ℝ) (T : ℕ) (hT : 0 < T) :
    (getInfo C05.tinyGame
        (solveVanillaSingle C05.tinyGame false RegretParams.dcfr draw T none).profile).regret
      ≤ presetEnvelope (1 - -1) (C05.tinyGame.p1.length + C05.tinyGame.p2.length) 2 T :=
  full_preset_rate C05.tinyGame C05.tinyGame_wf (-1) 1 C05.tinyGame_payIn 2 C05.tinyGame_actsLe
    le_rfl RegretParams.dcfr (Or.inr (Or.inr (Or.inr (Or.inl rfl)))) draw T hT

end Cfr
