import CfrVerif.Proofs.CfrSpec
/-!
# What one unsampled traversal adds to the accumulators (L1 → textbook)

`vrec` in full mode (`c.sampled = false`) returns player one's expected value of the subtree, and
its effect list adds exactly the instantaneous counterfactual regrets (`regAdd`) and the
reach-weighted strategy masses (`stratAdd`) of *both* players, each computed on that player's view
of the game.
-/
set_option linter.unusedSectionVars false
namespace Cfr
variable {α : Type} [Field α] [LinearOrder α] [IsStrictOrderedRing α]

/-- the traversal context reads the profile `σ` -/
def CtxOf (c : VCtx α) (σ : Bool → Strat α) : Prop := ∀ one i, c.strat one i = (σ one).at i

/-- **accumulators after a list of atomic accumulations**: table sizes, vector lengths and the
current strategy are untouched; every existing cell grows by the `effSum` addressed to it -/
theorem applyEffs_cell (s : SolveSt α) (es : List (Eff α)) (one : Bool) :
    ((s.applyEffs es).get one).length = (s.get one).length ∧
    ∀ (I : Nat) (x : InfoSt α), (s.get one)[I]? = some x →
      ∃ x', ((s.applyEffs es).get one)[I]? = some x' ∧ x'.strat = x.strat ∧
        x'.cumRegret.length = x.cumRegret.length ∧ x'.cumStrat.length = x.cumStrat.length ∧
        (∀ a, a < x.cumRegret.length →
          x'.cumRegret.getD a 0 = x.cumRegret.getD a 0 + effSum es one I Slot.regret a) ∧
        (∀ a, a < x.cumStrat.length →
          x'.cumStrat.getD a 0 = x.cumStrat.getD a 0 + effSum es one I Slot.strat a) := by
  sorry

/-- the value returned by the unsampled traversal is player one's expected value -/
theorem vrec_full_value (c : VCtx α) (hs : c.sampled = false) (σ : Bool → Strat α) (hc : CtxOf c σ)
    (n : Node α) (pc p1 p2 : α) (d : DrawSt α) :
    (vrec c n pc p1 p2 d).1 = evV (σ true) (view c.ch (σ false) true n) := by
  sorry

/-- the regret accumulations of the unsampled traversal are the instantaneous counterfactual
regrets on the player's view; the rest of the world reaches the subtree with `pc * p_opponent` -/
theorem vrec_full_regret (c : VCtx α) (hs : c.sampled = false) (σ : Bool → Strat α) (hc : CtxOf c σ)
    (me : Bool) (n : Node α) (pc p1 p2 : α) (d : DrawSt α) (I a : Nat)
    (ha : a < ((σ me).at I).length) :
    effSum (vrec c n pc p1 p2 d).2.1 me I Slot.regret a
      = regAdd (σ me) I a (view c.ch (σ (!me)) me n) (pc * (if me then p2 else p1)) := by
  sorry

/-- the average-strategy accumulations of the unsampled traversal are the own-reach-weighted
strategy masses -/
theorem vrec_full_strat (c : VCtx α) (hs : c.sampled = false) (σ : Bool → Strat α) (hc : CtxOf c σ)
    (me : Bool) (n : Node α) (pc p1 p2 : α) (d : DrawSt α) (I a : Nat) :
    effSum (vrec c n pc p1 p2 d).2.1 me I Slot.strat a
      = stratAdd (σ me) I a (view c.ch (σ (!me)) me n) (if me then p1 else p2) := by
  sorry

end Cfr
