import CfrVerif.Proofs.CfrSpec
/-!
# What one unsampled traversal adds to the accumulators (L1 → textbook)

`vrec` in full mode (`c.sampled = false`) returns player one's expected value of the subtree, and
its effect list adds exactly the instantaneous counterfactual regrets (`regAdd`) and the
reach-weighted strategy masses (`stratAdd`) of *both* players, each computed on that player's view
of the game.

Two of the four statements needed a visible extra hypothesis (counterexamples in the report and
in the comments of `vrec_full_regret` / `vrec_full_strat`): the traversal zips the strategy /
chance probabilities with the children, the textbook quantities `regAddD` / `stratAddN` run over
all children.  `VOwnFits` / `VNatFits` say that no child is cut off; both follow from `VOK` and
the strategy lengths (`VOK.ownFits`, `VOK.natFits`).
-/
set_option linter.unusedSectionVars false
namespace Cfr
variable {α : Type} [Field α] [LinearOrder α] [IsStrictOrderedRing α]

/-- the traversal context reads the profile `σ` -/
def CtxOf (c : VCtx α) (σ : Bool → Strat α) : Prop := ∀ one i, c.strat one i = (σ one).at i

/-! ## `effSum` -/

theorem slot_beq (s t : Slot) : (s == t) = decide (s = t) := by cases s <;> cases t <;> rfl

@[simp] theorem effSum_nil (one : Bool) (I : Nat) (slot : Slot) (a : Nat) :
    effSum ([] : List (Eff α)) one I slot a = 0 := by simp [effSum]

theorem effSum_cons (e : Eff α) (es : List (Eff α)) (one : Bool) (I : Nat) (slot : Slot) (a : Nat) :
    effSum (e :: es) one I slot a
      = (if e.one = one ∧ e.info = I ∧ e.slot = slot ∧ e.act = a then e.delta else 0)
        + effSum es one I slot a := by
  unfold effSum
  by_cases h : e.one = one ∧ e.info = I ∧ e.slot = slot ∧ e.act = a
  · have : (e.one == one && e.info == I && e.slot == slot && e.act == a) = true := by
      obtain ⟨h1, h2, h3, h4⟩ := h
      simp [slot_beq, h1, h2, h3, h4]
    rw [List.filter_cons, if_pos this, if_pos h]
    simp
  · have : (e.one == one && e.info == I && e.slot == slot && e.act == a) = false := by
      rw [Bool.eq_false_iff]
      intro hh
      apply h
      simpa [slot_beq, and_assoc] using hh
    rw [List.filter_cons, this, if_neg h]
    simp

@[simp] theorem effSum_append (es es' : List (Eff α)) (one : Bool) (I : Nat) (slot : Slot) (a : Nat) :
    effSum (es ++ es') one I slot a = effSum es one I slot a + effSum es' one I slot a := by
  simp [effSum]

theorem effSum_stratEffs_strat (one : Bool) (i : Nat) (own : α) (me : Bool) (I a : Nat) :
    ∀ (σ : List α) (k : Nat), effSum (stratEffs one i own σ k) me I Slot.strat a
      = if one = me ∧ i = I ∧ k ≤ a then own * σ.getD (a - k) 0 else 0
  | [], k => by simp [stratEffs]
  | s :: σ, k => by
    simp only [stratEffs, effSum_cons, effSum_stratEffs_strat one i own me I a σ (k + 1)]
    by_cases h1 : one = me
    · by_cases h2 : i = I
      · rcases Nat.lt_trichotomy k a with h | h | h
        · have e : a - k = (a - (k + 1)) + 1 := by omega
          have : ¬ k = a := by omega
          have h' : k + 1 ≤ a := h
          have h'' : k ≤ a := by omega
          simp [h1, h2, this, h', h'', e]
        · subst h
          simp [h1, h2]
        · have : ¬ k = a := by omega
          have h' : ¬ k + 1 ≤ a := by omega
          have h'' : ¬ k ≤ a := by omega
          simp [h1, h2, this, h', h'']
      · simp [h2]
    · simp [h1]

theorem effSum_stratEffs_regret (one : Bool) (i : Nat) (own : α) (me : Bool) (I a : Nat) :
    ∀ (σ : List α) (k : Nat), effSum (stratEffs one i own σ k) me I Slot.regret a = 0
  | [], k => by simp [stratEffs]
  | s :: σ, k => by
    simp [stratEffs, effSum_cons, effSum_stratEffs_regret one i own me I a σ (k + 1)]

theorem effSum_subEffs_strat (one : Bool) (i : Nat) (sub : α) (n : Nat) (me : Bool) (I a : Nat) :
    effSum (subEffs one i sub n) me I Slot.strat a = 0 := by
  unfold subEffs
  induction n with
  | zero => simp
  | succ n ih => simp [List.range_succ, effSum_cons, ih]

theorem effSum_subEffs_regret (one : Bool) (i : Nat) (sub : α) (n : Nat) (me : Bool) (I a : Nat) :
    effSum (subEffs one i sub n) me I Slot.regret a
      = if one = me ∧ i = I ∧ a < n then -sub else 0 := by
  unfold subEffs
  induction n with
  | zero => simp
  | succ n ih =>
    simp only [List.range_succ, List.map_append, effSum_append, ih, List.map_cons, List.map_nil,
      effSum_cons, effSum_nil]
    by_cases h1 : one = me
    · by_cases h2 : i = I
      · rcases Nat.lt_trichotomy a n with h | h | h
        · have : ¬ n = a := by omega
          have h' : a < n + 1 := by omega
          simp [h1, h2, h, this, h']
        · subst h
          simp [h1, h2]
        · have : ¬ n = a := by omega
          have h' : ¬ a < n + 1 := by omega
          have h'' : ¬ a < n := by omega
          simp [h1, h2, this, h', h'']
      · simp [h2]
    · simp [h1]

/-! ## one atomic accumulation, a list of them -/

theorem addAt_length (l : List α) (a : Nat) (d : α) : (addAt l a d).length = l.length := by
  simp [addAt]

theorem addAt_getD (l : List α) (a : Nat) (d : α) (b : Nat) (hb : b < l.length) :
    (addAt l a d).getD b 0 = l.getD b 0 + if a = b then d else 0 := by
  unfold addAt
  rw [List.getD_eq_getElem?_getD, List.getD_eq_getElem?_getD, List.getElem?_modify]
  by_cases h : a = b <;> simp [h, hb]

theorem get_applyEff (s : SolveSt α) (e : Eff α) (one : Bool) :
    (s.applyEff e).get one
      = if e.one = one then (s.get one).modify e.info (fun x => x.apply e.slot e.act e.delta)
        else s.get one := by
  obtain ⟨o, i, sl, a, d⟩ := e
  cases o <;> cases one <;> simp [SolveSt.applyEff, SolveSt.set, SolveSt.get]

theorem applyEff_cell (s : SolveSt α) (e : Eff α) (one : Bool) :
    ((s.applyEff e).get one).length = (s.get one).length ∧
    ∀ (I : Nat) (x : InfoSt α), (s.get one)[I]? = some x →
      ∃ x', ((s.applyEff e).get one)[I]? = some x' ∧ x'.strat = x.strat ∧
        x'.cumRegret.length = x.cumRegret.length ∧ x'.cumStrat.length = x.cumStrat.length ∧
        (∀ a, a < x.cumRegret.length →
          x'.cumRegret.getD a 0 = x.cumRegret.getD a 0
            + (if e.one = one ∧ e.info = I ∧ e.slot = Slot.regret ∧ e.act = a then e.delta else 0)) ∧
        (∀ a, a < x.cumStrat.length →
          x'.cumStrat.getD a 0 = x.cumStrat.getD a 0
            + (if e.one = one ∧ e.info = I ∧ e.slot = Slot.strat ∧ e.act = a then e.delta else 0)) := by
  rw [get_applyEff]
  by_cases h1 : e.one = one
  · simp only [h1, if_true, List.length_modify, true_and]
    intro I x hx
    rw [List.getElem?_modify]
    by_cases h2 : e.info = I
    · simp only [h2, if_true, hx, true_and]
      refine ⟨_, rfl, ?_⟩
      cases hsl : e.slot with
      | regret =>
        refine ⟨rfl, addAt_length _ _ _, rfl, ?_, ?_⟩
        · intro a ha
          simp only [InfoSt.apply, addAt_getD _ _ _ _ ha, true_and]
        · intro a _
          simp [InfoSt.apply]
      | strat =>
        refine ⟨rfl, rfl, addAt_length _ _ _, ?_, ?_⟩
        · intro a _
          simp [InfoSt.apply]
        · intro a ha
          simp only [InfoSt.apply, addAt_getD _ _ _ _ ha, true_and]
    · simp only [h2, if_false, false_and, add_zero]
      exact ⟨x, by simp [hx], rfl, rfl, rfl, fun _ _ => rfl, fun _ _ => rfl⟩
  · simp only [h1, if_false, false_and, add_zero, true_and]
    intro I x hx
    exact ⟨x, hx, rfl, rfl, rfl, fun _ _ => rfl, fun _ _ => rfl⟩

/-- **accumulators after a list of atomic accumulations**: table sizes, vector lengths and the
current strategy are untouched; every existing cell grows by the `effSum` addressed to it -/
theorem applyEffs_cell (s : SolveSt α) (es : List (Eff α)) (one : Bool) :
    ((s.applyEffs es).get one).length = (s.get one).length ∧
    ∀ (I : Nat) (x : InfoSt α), (s.get one)[I]? = some x →
      ∃ x', ((s.applyEffs es).get one)[I]? = some x' ∧ x'.strat = x.strat ∧
        x'.cumRegret.length = x.cumRegret.length ∧ x'.cumStrat.length = x.cumStrat.length ∧
        (∀ a, a < x.cumRegret.length →
          x'.cumRegret.getD a 0 = x.cumRegret.getD a 0 + effSum es one I Slot.regret a) ∧
        (∀ a, a < x.cumStrat.length →
          x'.cumStrat.getD a 0 = x.cumStrat.getD a 0 + effSum es one I Slot.strat a) := by
  induction es generalizing s with
  | nil =>
    refine ⟨rfl, fun I x hx => ⟨x, hx, rfl, rfl, rfl, ?_, ?_⟩⟩ <;> intro a _ <;> simp
  | cons e es ih =>
    obtain ⟨l1, c1⟩ := applyEff_cell s e one
    obtain ⟨l2, c2⟩ := ih (s.applyEff e)
    have he : s.applyEffs (e :: es) = (s.applyEff e).applyEffs es := rfl
    rw [he]
    refine ⟨l2.trans l1, ?_⟩
    intro I x hx
    obtain ⟨x1, g1, s1, r1, t1, cr1, cs1⟩ := c1 I x hx
    obtain ⟨x2, g2, s2, r2, t2, cr2, cs2⟩ := c2 I x1 g1
    refine ⟨x2, g2, s2.trans s1, r2.trans r1, t2.trans t1, ?_, ?_⟩
    · intro a ha
      rw [cr2 a (by rw [r1]; exact ha), cr1 a ha, effSum_cons, add_assoc]
    · intro a ha
      rw [cs2 a (by rw [t1]; exact ha), cs1 a ha, effSum_cons, add_assoc]

/-! ## the traversal -/

theorem evV_view_player (ch : List (List α)) (σ : Bool → Strat α) (me one : Bool) (i : Nat)
    (ks : List (Node α)) :
    evV (σ me) (view ch (σ (!me)) me (.player one i ks))
      = evVN (σ me) ((σ one).at i) (viewL ch (σ (!me)) me ks) := by
  cases me <;> cases one <;> simp [view, evV]

mutual
theorem evV_view_neg (ch : List (List α)) (τ1 τ2 : Strat α) :
    ∀ n : Node α, evV τ2 (view ch τ1 false n) = - evV τ1 (view ch τ2 true n)
  | .term p => by simp [view, evV]
  | .chance i ks => by
    simp only [view, evV]; exact evVN_viewL_neg ch τ1 τ2 _ ks
  | .player one i ks => by
    cases one <;> simp [view, evV] <;> exact evVN_viewL_neg ch τ1 τ2 _ ks
theorem evVN_viewL_neg (ch : List (List α)) (τ1 τ2 : Strat α) :
    ∀ (ws : List α) (ks : List (Node α)),
      evVN τ2 ws (viewL ch τ1 false ks) = - evVN τ1 ws (viewL ch τ2 true ks)
  | [], ks => by simp [evVN]
  | _ :: _, [] => by simp [viewL, evVN]
  | w :: ws, k :: ks => by
    simp only [viewL, evVN, evV_view_neg ch τ1 τ2 k, evVN_viewL_neg ch τ1 τ2 ws ks]
    ring
end

theorem vrec_term (c : VCtx α) (p pc p1 p2 : α) (d : DrawSt α) :
    vrec c (.term p) pc p1 p2 d = (p, [], d) := by simp only [vrec]
theorem vrec_chance (c : VCtx α) (hs : c.sampled = false) (i : Nat) (ks : List (Node α))
    (pc p1 p2 : α) (d : DrawSt α) :
    vrec c (.chance i ks) pc p1 p2 d = vrecChance c (c.ch.getD i []) ks pc p1 p2 d 0 := by
  simp only [vrec, hs, Bool.false_eq_true, if_false]
theorem vrec_player (c : VCtx α) (one : Bool) (i : Nat) (ks : List (Node α))
    (pc p1 p2 : α) (d : DrawSt α) :
    vrec c (.player one i ks) pc p1 p2 d =
      (let r := vrecActs c one i (if one then pc * p2 else -p1 * pc) (c.strat one i) ks pc p1 p2 d 0 0 0
       (r.1, stratEffs one i (if one then p1 else p2) (c.strat one i) 0 ++ r.2.2.1
          ++ subEffs one i r.2.1 (c.strat one i).length, r.2.2.2)) := by
  simp only [vrec]
theorem vrecChance_cons (c : VCtx α) (p : α) (ps : List α) (k : Node α) (ks : List (Node α))
    (pc p1 p2 : α) (d : DrawSt α) (acc : α) :
    vrecChance c (p :: ps) (k :: ks) pc p1 p2 d acc =
      (let r := vrec c k (pc * p) p1 p2 d
       let r' := vrecChance c ps ks pc p1 p2 r.2.2 (acc + p * r.1)
       (r'.1, r.2.1 ++ r'.2.1, r'.2.2)) := by
  simp only [vrecChance]
theorem vrecActs_cons (c : VCtx α) (one : Bool) (i : Nat) (mult s : α) (σ : List α) (k : Node α)
    (ks : List (Node α)) (pc p1 p2 : α) (d : DrawSt α) (a : Nat) (eo ex : α) :
    vrecActs c one i mult (s :: σ) (k :: ks) pc p1 p2 d a eo ex =
      (let r := if one then vrec c k pc (p1 * s) p2 d else vrec c k pc p1 (p2 * s) d
       let r' := vrecActs c one i mult σ ks pc p1 p2 r.2.2 (a + 1) (eo + s * r.1) (ex + r.1 * mult * s)
       (r'.1, r'.2.1, r.2.1 ++ ⟨one, i, .regret, a, r.1 * mult⟩ :: r'.2.2.1, r'.2.2.2)) := by
  simp only [vrecActs]


theorem vrecChance_nil_right (c : VCtx α) (ws : List α) (pc p1 p2 : α) (d : DrawSt α) (acc : α) :
    vrecChance c ws [] pc p1 p2 d acc = (acc, [], d) := by
  cases ws <;> simp [vrecChance]
theorem vrecActs_nil_right (c : VCtx α) (one : Bool) (i : Nat) (mult : α) (ss : List α)
    (pc p1 p2 : α) (d : DrawSt α) (a : Nat) (eo ex : α) :
    vrecActs c one i mult ss [] pc p1 p2 d a eo ex = (eo, ex, [], d) := by
  cases ss <;> simp [vrecActs]

mutual
theorem vrec_val (c : VCtx α) (hs : c.sampled = false) (σ : Bool → Strat α) (hc : CtxOf c σ) :
    ∀ (n : Node α) (pc p1 p2 : α) (d : DrawSt α),
      (vrec c n pc p1 p2 d).1 = evV (σ true) (view c.ch (σ false) true n)
  | .term p, pc, p1, p2, d => by simp [vrec_term, view, evV]
  | .chance i ks, pc, p1, p2, d => by
    rw [vrec_chance c hs, vrecChance_val c hs σ hc _ ks pc p1 p2 d 0]
    simp [view, evV]
  | .player one i ks, pc, p1, p2, d => by
    rw [vrec_player]
    simp only []
    have hp := evV_view_player c.ch σ true one i ks
    simp only [Bool.not_true] at hp
    rw [(vrecActs_val c hs σ hc one i _ _ ks pc p1 p2 d 0 0 0).1, hc one i, hp]
    simp
theorem vrecChance_val (c : VCtx α) (hs : c.sampled = false) (σ : Bool → Strat α) (hc : CtxOf c σ) :
    ∀ (ws : List α) (ks : List (Node α)) (pc p1 p2 : α) (d : DrawSt α) (acc : α),
      (vrecChance c ws ks pc p1 p2 d acc).1 = acc + evVN (σ true) ws (viewL c.ch (σ false) true ks)
  | [], _, _, _, _, d, acc => by simp [vrecChance, evVN]
  | _ :: _, [], _, _, _, d, acc => by simp [vrecChance, viewL, evVN]
  | w :: ws, k :: ks, pc, p1, p2, d, acc => by
    rw [vrecChance_cons]
    simp only []
    rw [vrecChance_val c hs σ hc ws ks, vrec_val c hs σ hc k]
    simp only [viewL, evVN]
    ring
theorem vrecActs_val (c : VCtx α) (hs : c.sampled = false) (σ : Bool → Strat α) (hc : CtxOf c σ)
    (one : Bool) (i : Nat) (mult : α) :
    ∀ (ss : List α) (ks : List (Node α)) (pc p1 p2 : α) (d : DrawSt α) (a : Nat) (eo ex : α),
      (vrecActs c one i mult ss ks pc p1 p2 d a eo ex).1
          = eo + evVN (σ true) ss (viewL c.ch (σ false) true ks) ∧
      (vrecActs c one i mult ss ks pc p1 p2 d a eo ex).2.1
          = ex + mult * evVN (σ true) ss (viewL c.ch (σ false) true ks)
  | [], _, _, _, _, d, _, eo, ex => by simp [vrecActs, evVN]
  | _ :: _, [], _, _, _, d, _, eo, ex => by simp [vrecActs, viewL, evVN]
  | s :: ss, k :: ks, pc, p1, p2, d, a, eo, ex => by
    rw [vrecActs_cons]
    simp only []
    have hv : (if one = true then vrec c k pc (p1 * s) p2 d else vrec c k pc p1 (p2 * s) d).1
        = evV (σ true) (view c.ch (σ false) true k) := by
      cases one
      · simpa using vrec_val c hs σ hc k pc p1 (p2 * s) d
      · simpa using vrec_val c hs σ hc k pc (p1 * s) p2 d
    obtain ⟨h1, h2⟩ := vrecActs_val c hs σ hc one i mult ss ks pc p1 p2
      (if one = true then vrec c k pc (p1 * s) p2 d else vrec c k pc p1 (p2 * s) d).2.2 (a + 1)
      (eo + s * (if one = true then vrec c k pc (p1 * s) p2 d else vrec c k pc p1 (p2 * s) d).1)
      (ex + (if one = true then vrec c k pc (p1 * s) p2 d else vrec c k pc p1 (p2 * s) d).1 * mult * s)
    rw [h1, h2, hv]
    simp only [viewL, evVN]
    constructor <;> ring
end

/-! ## no child is cut off by the zip with the probabilities -/

mutual
/-- at every own decision node the strategy has an entry for every child -/
def VOwnFits (σ : Strat α) : V α → Prop
  | .term _ => True
  | .nature _ ks => VOwnFitsL σ ks
  | .decide i ks => ks.length ≤ (σ.at i).length ∧ VOwnFitsL σ ks
def VOwnFitsL (σ : Strat α) : List (V α) → Prop
  | [] => True
  | k :: ks => VOwnFits σ k ∧ VOwnFitsL σ ks
end

mutual
/-- at every move of the rest of the world there is a probability for every child -/
def VNatFits : V α → Prop
  | .term _ => True
  | .nature ws ks => ks.length ≤ ws.length ∧ VNatFitsL ks
  | .decide _ ks => VNatFitsL ks
def VNatFitsL : List (V α) → Prop
  | [] => True
  | k :: ks => VNatFits k ∧ VNatFitsL ks
end

mutual
theorem VOK.ownFits (N : Nat) (nActs : Nat → Nat) (σ : Strat α)
    (hσ : ∀ i, i < N → (σ.at i).length = nActs i) : ∀ v : V α, VOK N nActs v → VOwnFits σ v
  | .term _, _ => by simp [VOwnFits]
  | .nature ws ks, h => by
    obtain ⟨_, _, hk⟩ := (by simpa [VOK] using h :
      ws.length = ks.length ∧ (∀ w ∈ ws, 0 ≤ w) ∧ VOKL N nActs ks)
    simp only [VOwnFits]
    exact VOKL.ownFits N nActs σ hσ ks hk
  | .decide i ks, h => by
    obtain ⟨h1, h2, _, hk⟩ := (by simpa [VOK] using h :
      i < N ∧ ks.length = nActs i ∧ 1 ≤ ks.length ∧ VOKL N nActs ks)
    simp only [VOwnFits]
    exact ⟨by rw [hσ i h1, h2], VOKL.ownFits N nActs σ hσ ks hk⟩
theorem VOKL.ownFits (N : Nat) (nActs : Nat → Nat) (σ : Strat α)
    (hσ : ∀ i, i < N → (σ.at i).length = nActs i) : ∀ ks : List (V α), VOKL N nActs ks → VOwnFitsL σ ks
  | [], _ => by simp [VOwnFitsL]
  | k :: ks, h => by
    obtain ⟨h1, h2⟩ := (by simpa [VOKL] using h : VOK N nActs k ∧ VOKL N nActs ks)
    simp only [VOwnFitsL]
    exact ⟨VOK.ownFits N nActs σ hσ k h1, VOKL.ownFits N nActs σ hσ ks h2⟩
end

mutual
theorem VOK.natFits (N : Nat) (nActs : Nat → Nat) : ∀ v : V α, VOK N nActs v → VNatFits v
  | .term _, _ => by simp [VNatFits]
  | .nature ws ks, h => by
    obtain ⟨h1, _, hk⟩ := (by simpa [VOK] using h :
      ws.length = ks.length ∧ (∀ w ∈ ws, 0 ≤ w) ∧ VOKL N nActs ks)
    simp only [VNatFits]
    exact ⟨by rw [h1], VOKL.natFits N nActs ks hk⟩
  | .decide i ks, h => by
    obtain ⟨_, _, _, hk⟩ := (by simpa [VOK] using h :
      i < N ∧ ks.length = nActs i ∧ 1 ≤ ks.length ∧ VOKL N nActs ks)
    simp only [VNatFits]
    exact VOKL.natFits N nActs ks hk
theorem VOKL.natFits (N : Nat) (nActs : Nat → Nat) : ∀ ks : List (V α), VOKL N nActs ks → VNatFitsL ks
  | [], _ => by simp [VNatFitsL]
  | k :: ks, h => by
    obtain ⟨h1, h2⟩ := (by simpa [VOKL] using h : VOK N nActs k ∧ VOKL N nActs ks)
    simp only [VNatFitsL]
    exact ⟨VOK.natFits N nActs k h1, VOKL.natFits N nActs ks h2⟩
end

theorem view_player_own (ch : List (List α)) (σo : Strat α) (me : Bool) (i : Nat) (ks : List (Node α)) :
    view ch σo me (.player me i ks) = .decide i (viewL ch σo me ks) := by
  simp [view]

theorem view_player_opp (ch : List (List α)) (σo : Strat α) (me : Bool) (i : Nat) (ks : List (Node α)) :
    view ch σo me (.player (!me) i ks) = .nature (σo.at i) (viewL ch σo me ks) := by
  cases me <;> simp [view]

/-! ### the average-strategy slot -/

mutual
theorem vrec_str (c : VCtx α) (hs : c.sampled = false) (σ : Bool → Strat α) (hc : CtxOf c σ)
    (me : Bool) (I a : Nat) :
    ∀ (n : Node α) (pc p1 p2 : α) (d : DrawSt α), VNatFits (view c.ch (σ (!me)) me n) →
      effSum (vrec c n pc p1 p2 d).2.1 me I Slot.strat a
        = stratAdd (σ me) I a (view c.ch (σ (!me)) me n) (if me then p1 else p2)
  | .term p, pc, p1, p2, d, _ => by simp [vrec_term, view, stratAdd]
  | .chance i ks, pc, p1, p2, d, h => by
    obtain ⟨h1, h2⟩ := (by simpa [view, VNatFits] using h :
      (viewL c.ch (σ (!me)) me ks).length ≤ (c.ch.getD i []).length
        ∧ VNatFitsL (viewL c.ch (σ (!me)) me ks))
    rw [viewL_length] at h1
    rw [vrec_chance c hs, vrecChance_str c hs σ hc me I a _ ks pc p1 p2 d 0 h1 h2]
    simp [view, stratAdd]
  | .player one i ks, pc, p1, p2, d, h => by
    rw [vrec_player]
    simp only [effSum_append, effSum_subEffs_strat, add_zero]
    by_cases hone : one = me
    · subst hone
      rw [view_player_own] at h ⊢
      have h2 : VNatFitsL (viewL c.ch (σ (!one)) one ks) := by simpa [VNatFits] using h
      rw [vrecActs_str_own c hs σ hc one I a i _ _ ks pc p1 p2 d 0 0 0 h2,
        effSum_stratEffs_strat, hc one i]
      simp only [stratAdd]
      by_cases hi : i = I <;> simp [hi]
    · obtain rfl : one = !me := by cases me <;> cases one <;> simp_all
      rw [view_player_opp] at h ⊢
      obtain ⟨h1, h2⟩ := (by simpa [VNatFits] using h :
        (viewL c.ch (σ (!me)) me ks).length ≤ ((σ (!me)).at i).length
          ∧ VNatFitsL (viewL c.ch (σ (!me)) me ks))
      rw [viewL_length] at h1
      rw [vrecActs_str_opp c hs σ hc me I a i _ _ ks pc p1 p2 d 0 0 0 (by rw [hc]; exact h1) h2,
        effSum_stratEffs_strat]
      simp only [stratAdd]
      cases me <;> simp
theorem vrecChance_str (c : VCtx α) (hs : c.sampled = false) (σ : Bool → Strat α) (hc : CtxOf c σ)
    (me : Bool) (I a : Nat) :
    ∀ (ws : List α) (ks : List (Node α)) (pc p1 p2 : α) (d : DrawSt α) (acc : α),
      ks.length ≤ ws.length → VNatFitsL (viewL c.ch (σ (!me)) me ks) →
      effSum (vrecChance c ws ks pc p1 p2 d acc).2.1 me I Slot.strat a
        = stratAddN (σ me) I a (viewL c.ch (σ (!me)) me ks) (if me then p1 else p2)
  | ws, [], pc, p1, p2, d, acc, _, _ => by
    simp [vrecChance_nil_right, viewL, stratAddN]
  | [], _ :: _, _, _, _, d, acc, hl, _ => by simp at hl
  | w :: ws, k :: ks, pc, p1, p2, d, acc, hl, h => by
    obtain ⟨h1, h2⟩ := (by simpa [viewL, VNatFitsL] using h :
      VNatFits (view c.ch (σ (!me)) me k) ∧ VNatFitsL (viewL c.ch (σ (!me)) me ks))
    rw [vrecChance_cons]
    simp only [effSum_append]
    rw [vrec_str c hs σ hc me I a k _ _ _ _ h1,
      vrecChance_str c hs σ hc me I a ws ks _ _ _ _ _ (by simpa using hl) h2]
    simp only [viewL, stratAddN]
theorem vrecActs_str_own (c : VCtx α) (hs : c.sampled = false) (σ : Bool → Strat α) (hc : CtxOf c σ)
    (me : Bool) (I a : Nat) (i : Nat) (mult : α) :
    ∀ (ss : List α) (ks : List (Node α)) (pc p1 p2 : α) (d : DrawSt α) (k : Nat) (eo ex : α),
      VNatFitsL (viewL c.ch (σ (!me)) me ks) →
      effSum (vrecActs c me i mult ss ks pc p1 p2 d k eo ex).2.2.1 me I Slot.strat a
        = stratAddD (σ me) I a ss (viewL c.ch (σ (!me)) me ks) (if me then p1 else p2)
  | [], _, _, _, _, d, _, eo, ex, _ => by simp [vrecActs, stratAddD]
  | _ :: _, [], _, _, _, d, _, eo, ex, _ => by simp [vrecActs, viewL, stratAddD]
  | s :: ss, n :: ks, pc, p1, p2, d, k, eo, ex, h => by
    obtain ⟨h1, h2⟩ := (by simpa [viewL, VNatFitsL] using h :
      VNatFits (view c.ch (σ (!me)) me n) ∧ VNatFitsL (viewL c.ch (σ (!me)) me ks))
    rw [vrecActs_cons]
    simp only [effSum_append, effSum_cons]
    have hv : effSum (if me = true then vrec c n pc (p1 * s) p2 d else vrec c n pc p1 (p2 * s) d).2.1
        me I Slot.strat a
        = stratAdd (σ me) I a (view c.ch (σ (!me)) me n) ((if me then p1 else p2) * s) := by
      cases me
      · simpa using vrec_str c hs σ hc false I a n pc p1 (p2 * s) d h1
      · simpa using vrec_str c hs σ hc true I a n pc (p1 * s) p2 d h1
    rw [hv, vrecActs_str_own c hs σ hc me I a i mult ss ks _ _ _ _ _ _ _ h2]
    simp [viewL, stratAddD]
theorem vrecActs_str_opp (c : VCtx α) (hs : c.sampled = false) (σ : Bool → Strat α) (hc : CtxOf c σ)
    (me : Bool) (I a : Nat) (i : Nat) (mult : α) :
    ∀ (ss : List α) (ks : List (Node α)) (pc p1 p2 : α) (d : DrawSt α) (k : Nat) (eo ex : α),
      ks.length ≤ ss.length → VNatFitsL (viewL c.ch (σ (!me)) me ks) →
      effSum (vrecActs c (!me) i mult ss ks pc p1 p2 d k eo ex).2.2.1 me I Slot.strat a
        = stratAddN (σ me) I a (viewL c.ch (σ (!me)) me ks) (if me then p1 else p2)
  | ss, [], pc, p1, p2, d, k, eo, ex, _, _ => by
    simp [vrecActs_nil_right, viewL, stratAddN]
  | [], _ :: _, _, _, _, d, _, eo, ex, hl, _ => by simp at hl
  | s :: ss, n :: ks, pc, p1, p2, d, k, eo, ex, hl, h => by
    obtain ⟨h1, h2⟩ := (by simpa [viewL, VNatFitsL] using h :
      VNatFits (view c.ch (σ (!me)) me n) ∧ VNatFitsL (viewL c.ch (σ (!me)) me ks))
    rw [vrecActs_cons]
    simp only [effSum_append, effSum_cons]
    have hv : effSum (if (!me) = true then vrec c n pc (p1 * s) p2 d
          else vrec c n pc p1 (p2 * s) d).2.1 me I Slot.strat a
        = stratAdd (σ me) I a (view c.ch (σ (!me)) me n) (if me then p1 else p2) := by
      cases me
      · simpa using vrec_str c hs σ hc false I a n pc (p1 * s) p2 d h1
      · simpa using vrec_str c hs σ hc true I a n pc p1 (p2 * s) d h1
    rw [hv, vrecActs_str_opp c hs σ hc me I a i mult ss ks _ _ _ _ _ _ _ (by simpa using hl) h2]
    simp [viewL, stratAddN]
end

/-! ### the regret slot -/

theorem viewL_map {β : Type} (ch : List (List α)) (σo : Strat α) (me : Bool) (f : V α → β) :
    ∀ ks : List (Node α), (viewL ch σo me ks).map f = ks.map (fun n => f (view ch σo me n))
  | [] => by simp [viewL]
  | k :: ks => by simp [viewL, viewL_map ch σo me f ks]

theorem getD_map_mul {β : Type} (f g : β → α) (m C : α) (h : ∀ n, f n * m = C * g n) :
    ∀ (ks : List β) (a : Nat), (ks.map f).getD a 0 * m = C * (ks.map g).getD a 0
  | [], a => by simp
  | k :: ks, 0 => by simp [h]
  | k :: ks, a + 1 => by simpa using getD_map_mul f g m C h ks a

theorem evV_view_sg (ch : List (List α)) (σ : Bool → Strat α) (me : Bool) (n : Node α) :
    evV (σ me) (view ch (σ (!me)) me n) = sg me (evV (σ true) (view ch (σ false) true n)) := by
  cases me
  · simp [sg, evV_view_neg]
  · simp [sg]

theorem evVN_viewL_sg (ch : List (List α)) (σ : Bool → Strat α) (me : Bool) (ws : List α)
    (ks : List (Node α)) :
    evVN (σ me) ws (viewL ch (σ (!me)) me ks)
      = sg me (evVN (σ true) ws (viewL ch (σ false) true ks)) := by
  cases me
  · simp [sg, evVN_viewL_neg]
  · simp [sg]

mutual
theorem vrec_reg (c : VCtx α) (hs : c.sampled = false) (σ : Bool → Strat α) (hc : CtxOf c σ)
    (me : Bool) (I a : Nat) (ha : a < ((σ me).at I).length) :
    ∀ (n : Node α) (pc p1 p2 : α) (d : DrawSt α), VOwnFits (σ me) (view c.ch (σ (!me)) me n) →
      effSum (vrec c n pc p1 p2 d).2.1 me I Slot.regret a
        = regAdd (σ me) I a (view c.ch (σ (!me)) me n) (pc * (if me then p2 else p1))
  | .term p, pc, p1, p2, d, _ => by simp [vrec_term, view, regAdd]
  | .chance i ks, pc, p1, p2, d, h => by
    have h2 : VOwnFitsL (σ me) (viewL c.ch (σ (!me)) me ks) := by simpa [view, VOwnFits] using h
    rw [vrec_chance c hs, vrecChance_reg c hs σ hc me I a ha _ ks pc p1 p2 d 0 h2]
    simp [view, regAdd]
  | .player one i ks, pc, p1, p2, d, h => by
    rw [vrec_player]
    simp only [effSum_append, effSum_stratEffs_regret, zero_add]
    by_cases hone : one = me
    · subst hone
      rw [view_player_own] at h ⊢
      obtain ⟨h1, h2⟩ := (by simpa [VOwnFits] using h :
        (viewL c.ch (σ (!one)) one ks).length ≤ ((σ one).at i).length
          ∧ VOwnFitsL (σ one) (viewL c.ch (σ (!one)) one ks))
      rw [viewL_length] at h1
      rw [vrecActs_reg_own c hs σ hc one I a ha i _ _ ks pc p1 p2 d 0 0 0 (by rw [hc]; exact h1) h2,
        effSum_subEffs_regret, (vrecActs_val c hs σ hc one i _ _ ks pc p1 p2 d 0 0 0).2, hc one i]
      simp only [regAdd]
      by_cases hi : i = I
      · subst hi
        have hA := getD_map_mul (fun n => evV (σ true) (view c.ch (σ false) true n))
          (fun n => evV (σ one) (view c.ch (σ (!one)) one n))
          (if one = true then pc * p2 else -p1 * pc) (pc * (if one = true then p2 else p1))
          (by intro n; rw [evV_view_sg]; cases one <;> simp [sg] <;> ring) ks a
        rw [viewL_map, evVN_viewL_sg]
        simp only [ha, Nat.zero_le, and_self, if_true, Nat.sub_zero, hA]
        cases one <;> simp [sg] <;> ring
      · simp [hi]
    · obtain rfl : one = !me := by cases me <;> cases one <;> simp_all
      rw [view_player_opp] at h ⊢
      have h2 : VOwnFitsL (σ me) (viewL c.ch (σ (!me)) me ks) := by simpa [VOwnFits] using h
      rw [vrecActs_reg_opp c hs σ hc me I a ha i _ _ ks pc p1 p2 d 0 0 0 h2,
        effSum_subEffs_regret, hc]
      simp only [regAdd]
      cases me <;> simp
theorem vrecChance_reg (c : VCtx α) (hs : c.sampled = false) (σ : Bool → Strat α) (hc : CtxOf c σ)
    (me : Bool) (I a : Nat) (ha : a < ((σ me).at I).length) :
    ∀ (ws : List α) (ks : List (Node α)) (pc p1 p2 : α) (d : DrawSt α) (acc : α),
      VOwnFitsL (σ me) (viewL c.ch (σ (!me)) me ks) →
      effSum (vrecChance c ws ks pc p1 p2 d acc).2.1 me I Slot.regret a
        = regAddN (σ me) I a ws (viewL c.ch (σ (!me)) me ks) (pc * (if me then p2 else p1))
  | [], _, _, _, _, d, acc, _ => by simp [vrecChance, regAddN]
  | _ :: _, [], _, _, _, d, acc, _ => by simp [vrecChance, viewL, regAddN]
  | w :: ws, k :: ks, pc, p1, p2, d, acc, h => by
    obtain ⟨h1, h2⟩ := (by simpa [viewL, VOwnFitsL] using h :
      VOwnFits (σ me) (view c.ch (σ (!me)) me k) ∧ VOwnFitsL (σ me) (viewL c.ch (σ (!me)) me ks))
    rw [vrecChance_cons]
    simp only [effSum_append]
    rw [vrec_reg c hs σ hc me I a ha k _ _ _ _ h1,
      vrecChance_reg c hs σ hc me I a ha ws ks _ _ _ _ _ h2]
    simp only [viewL, regAddN]
    have e : pc * w * (if me = true then p2 else p1) = pc * (if me = true then p2 else p1) * w := by
      ring
    rw [e]
theorem vrecActs_reg_own (c : VCtx α) (hs : c.sampled = false) (σ : Bool → Strat α) (hc : CtxOf c σ)
    (me : Bool) (I a : Nat) (ha : a < ((σ me).at I).length) (i : Nat) (mult : α) :
    ∀ (ss : List α) (ks : List (Node α)) (pc p1 p2 : α) (d : DrawSt α) (k : Nat) (eo ex : α),
      ks.length ≤ ss.length → VOwnFitsL (σ me) (viewL c.ch (σ (!me)) me ks) →
      effSum (vrecActs c me i mult ss ks pc p1 p2 d k eo ex).2.2.1 me I Slot.regret a
        = regAddD (σ me) I a (viewL c.ch (σ (!me)) me ks) (pc * (if me then p2 else p1))
          + (if i = I ∧ k ≤ a then
              (ks.map (fun n => evV (σ true) (view c.ch (σ false) true n))).getD (a - k) 0 * mult
             else 0)
  | ss, [], pc, p1, p2, d, k, eo, ex, _, _ => by
    simp [vrecActs_nil_right, viewL, regAddD]
  | [], _ :: _, _, _, _, d, _, eo, ex, hl, _ => by simp at hl
  | s :: ss, n :: ks, pc, p1, p2, d, k, eo, ex, hl, h => by
    obtain ⟨h1, h2⟩ := (by simpa [viewL, VOwnFitsL] using h :
      VOwnFits (σ me) (view c.ch (σ (!me)) me n) ∧ VOwnFitsL (σ me) (viewL c.ch (σ (!me)) me ks))
    rw [vrecActs_cons]
    simp only [effSum_append, effSum_cons]
    have hv : effSum (if me = true then vrec c n pc (p1 * s) p2 d else vrec c n pc p1 (p2 * s) d).2.1
        me I Slot.regret a
        = regAdd (σ me) I a (view c.ch (σ (!me)) me n) (pc * (if me then p2 else p1)) := by
      cases me
      · simpa using vrec_reg c hs σ hc false I a ha n pc p1 (p2 * s) d h1
      · simpa using vrec_reg c hs σ hc true I a ha n pc (p1 * s) p2 d h1
    have hv1 : (if me = true then vrec c n pc (p1 * s) p2 d else vrec c n pc p1 (p2 * s) d).1
        = evV (σ true) (view c.ch (σ false) true n) := by
      cases me
      · simpa using vrec_val c hs σ hc n pc p1 (p2 * s) d
      · simpa using vrec_val c hs σ hc n pc (p1 * s) p2 d
    rw [hv, hv1, vrecActs_reg_own c hs σ hc me I a ha i mult ss ks _ _ _ _ _ _ _ (by simpa using hl) h2]
    simp only [viewL, regAddD, List.map_cons, true_and]
    by_cases hi : i = I
    · rcases Nat.lt_trichotomy k a with hk | hk | hk
      · have e : a - k = (a - (k + 1)) + 1 := by omega
        have h0 : ¬ k = a := by omega
        have h' : k + 1 ≤ a := hk
        have h'' : k ≤ a := by omega
        simp only [hi, h0, h', h'', e, List.getD_cons_succ, and_self, if_true, and_false, if_false]
        ring
      · subst hk
        simp [hi]
        ring
      · have h0 : ¬ k = a := by omega
        have h' : ¬ k + 1 ≤ a := by omega
        have h'' : ¬ k ≤ a := by omega
        simp only [hi, h0, h', h'', and_false, if_false]
        ring
    · simp only [hi, false_and, if_false]
      ring
theorem vrecActs_reg_opp (c : VCtx α) (hs : c.sampled = false) (σ : Bool → Strat α) (hc : CtxOf c σ)
    (me : Bool) (I a : Nat) (ha : a < ((σ me).at I).length) (i : Nat) (mult : α) :
    ∀ (ss : List α) (ks : List (Node α)) (pc p1 p2 : α) (d : DrawSt α) (k : Nat) (eo ex : α),
      VOwnFitsL (σ me) (viewL c.ch (σ (!me)) me ks) →
      effSum (vrecActs c (!me) i mult ss ks pc p1 p2 d k eo ex).2.2.1 me I Slot.regret a
        = regAddN (σ me) I a ss (viewL c.ch (σ (!me)) me ks) (pc * (if me then p2 else p1))
  | [], _, _, _, _, d, _, eo, ex, _ => by simp [vrecActs, regAddN]
  | _ :: _, [], _, _, _, d, _, eo, ex, _ => by simp [vrecActs, viewL, regAddN]
  | s :: ss, n :: ks, pc, p1, p2, d, k, eo, ex, h => by
    obtain ⟨h1, h2⟩ := (by simpa [viewL, VOwnFitsL] using h :
      VOwnFits (σ me) (view c.ch (σ (!me)) me n) ∧ VOwnFitsL (σ me) (viewL c.ch (σ (!me)) me ks))
    rw [vrecActs_cons]
    simp only [effSum_append, effSum_cons]
    have hv : effSum (if (!me) = true then vrec c n pc (p1 * s) p2 d
          else vrec c n pc p1 (p2 * s) d).2.1 me I Slot.regret a
        = regAdd (σ me) I a (view c.ch (σ (!me)) me n) (pc * (if me then p2 else p1) * s) := by
      cases me
      · have := vrec_reg c hs σ hc false I a ha n pc (p1 * s) p2 d h1
        simp only [Bool.false_eq_true, if_false] at this
        simp only [Bool.not_false, if_true, Bool.false_eq_true, if_false, this]
        rw [mul_assoc]
      · have := vrec_reg c hs σ hc true I a ha n pc p1 (p2 * s) d h1
        simp only [if_true] at this
        simp only [Bool.not_true, Bool.false_eq_true, if_false, if_true, this]
        rw [mul_assoc]
    rw [hv, vrecActs_reg_opp c hs σ hc me I a ha i mult ss ks _ _ _ _ _ _ _ h2]
    have hne : ¬ (!me) = me := by cases me <;> simp
    simp [viewL, regAddN, hne]
end

/-! ## the four statements -/

/-- the value returned by the unsampled traversal is player one's expected value -/
theorem vrec_full_value (c : VCtx α) (hs : c.sampled = false) (σ : Bool → Strat α) (hc : CtxOf c σ)
    (n : Node α) (pc p1 p2 : α) (d : DrawSt α) :
    (vrec c n pc p1 p2 d).1 = evV (σ true) (view c.ch (σ false) true n) :=
  vrec_val c hs σ hc n pc p1 p2 d

/-- the regret accumulations of the unsampled traversal are the instantaneous counterfactual
regrets on the player's view; the rest of the world reaches the subtree with `pc * p_opponent`.

**Added hypothesis `hfit`** (the statement is false without it): at every own decision node the
strategy has an entry for every child.  `vrecActs` zips the strategy with the children, `regAddD`
runs over all children.  Counterexample over `ℚ` (checked with `decide +kernel`):
`n = .player true 0 [.player true 1 [.term 1, .term 2]]`, `σ true = [[], [1/2, 1/2]]`, `σ false = []`,
`c.ch = []`, `pc = p1 = p2 = 1`, `me = true`, `I = 1`, `a = 0`: the traversal visits no child of the
root, so the left side is `0`; the right side is `1 * (1 - 3/2) = -1/2`.
`hfit` follows from `VOK N nActs` of the view and `(σ me).at i` having length `nActs i`
(`VOK.ownFits`). -/
theorem vrec_full_regret (c : VCtx α) (hs : c.sampled = false) (σ : Bool → Strat α) (hc : CtxOf c σ)
    (me : Bool) (n : Node α) (pc p1 p2 : α) (d : DrawSt α) (I a : Nat)
    (ha : a < ((σ me).at I).length)
    (hfit : VOwnFits (σ me) (view c.ch (σ (!me)) me n)) :
    effSum (vrec c n pc p1 p2 d).2.1 me I Slot.regret a
      = regAdd (σ me) I a (view c.ch (σ (!me)) me n) (pc * (if me then p2 else p1)) :=
  vrec_reg c hs σ hc me I a ha n pc p1 p2 d hfit

/-- the average-strategy accumulations of the unsampled traversal are the own-reach-weighted
strategy masses.

**Added hypothesis `hfit`** (the statement is false without it): at every chance node and every
opponent node there is a probability for every child.  `vrecChance` / `vrecActs` zip the
probabilities with the children, `stratAddN` runs over all children.  Counterexample over `ℚ`
(checked with `decide +kernel`): `n = .chance 0 [.player true 0 [.term 1, .term 2]]`, `c.ch = []`
(so the chance node has no probabilities), `σ true = [[1/2, 1/2]]`, `σ false = []`,
`pc = p1 = p2 = 1`, `me = true`, `I = 0`, `a = 0`: the left side is `0`, the right side is `1/2`.
`hfit` follows from `VOK N nActs` of the view (`VOK.natFits`). -/
theorem vrec_full_strat (c : VCtx α) (hs : c.sampled = false) (σ : Bool → Strat α) (hc : CtxOf c σ)
    (me : Bool) (n : Node α) (pc p1 p2 : α) (d : DrawSt α) (I a : Nat)
    (hfit : VNatFits (view c.ch (σ (!me)) me n)) :
    effSum (vrec c n pc p1 p2 d).2.1 me I Slot.strat a
      = stratAdd (σ me) I a (view c.ch (σ (!me)) me n) (if me then p1 else p2) :=
  vrec_str c hs σ hc me I a n pc p1 p2 d hfit

/-! ## the added hypotheses are necessary (closed counterexamples over `ℚ`) -/

section Counterexamples

/-- own strategy vector shorter than the number of children -/
private def cexNodeR : Node ℚ := .player true 0 [.player true 1 [.term 1, .term 2]]
private def cexσR : Bool → Strat ℚ := fun b => if b then [[], [1/2, 1/2]] else []
private def cexCtxR : VCtx ℚ := ⟨[], false, fun one i => (cexσR one).at i, fun _ _ _ _ => 0, 0⟩

example : CtxOf cexCtxR cexσR := fun _ _ => rfl
example : (0 : Nat) < ((cexσR true).at 1).length := by decide +kernel
example : effSum (vrec cexCtxR cexNodeR 1 1 1 {}).2.1 true 1 Slot.regret 0 = 0 := by
  decide +kernel
example : regAdd (cexσR true) 1 0 (view cexCtxR.ch (cexσR (!true)) true cexNodeR)
    (1 * (if true then 1 else 1)) = -1/2 := by decide +kernel

/-- chance node without probabilities -/
private def cexNodeS : Node ℚ := .chance 0 [.player true 0 [.term 1, .term 2]]
private def cexσS : Bool → Strat ℚ := fun b => if b then [[1/2, 1/2]] else []
private def cexCtxS : VCtx ℚ := ⟨[], false, fun one i => (cexσS one).at i, fun _ _ _ _ => 0, 0⟩

example : CtxOf cexCtxS cexσS := fun _ _ => rfl
example : effSum (vrec cexCtxS cexNodeS 1 1 1 {}).2.1 true 0 Slot.strat 0 = 0 := by
  decide +kernel
example : stratAdd (cexσS true) 0 0 (view cexCtxS.ch (cexσS (!true)) true cexNodeS)
    (if true then 1 else 1) = 1/2 := by decide +kernel

end Counterexamples

end Cfr
